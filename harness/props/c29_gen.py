"""C29 helper: mini-CWL program generator and renderer to CWL v1.2 documents (JSON syntax).

A program (JSON-able):
  WF   = {"inputs":[{"id","type","default"?}], "steps":[STEP], "outputs":[OUT]}
  STEP = {"id", "run": {"tool": name, "T": type?} | {"wf": WF},
          "in":[{"id","src":[ref..],"list":bool,"lm":None|"merge_nested"|"merge_flattened",
                 "pv":None|"first_non_null"|"the_only_non_null"|"all_non_null",
                 "default"?: value, "vf": None|["self_plus",k]|["input",name]|["const",value]|["self"]}],
          "scatter":[ids], "method":None|"dotproduct"|"nested_crossproduct"|"flat_crossproduct",
          "when": None|["gt",name,k]|["bool",name]|["nonnull",name]|["raw",name],
          "out":[{"id","type"}]}          # type = declared type of the step-level output (after when/scatter)
  OUT  = {"id","type","src":[ref..],"list":bool,"lm","pv"}
  ref  = "name" (workflow input) | "step/out"
  type = "int"|"string"|"boolean"|{"arr":t}|{"opt":t}|{"rec":1}      ({"rec":1} = record {x:int, y:string})
Types only drive the rendering and the generator's choice of well-typed links; the Gallina interpreter is untyped.
"""
import copy

# ------------------------------------------------------------------------------------------------ tools
# name -> (inputs [(id, type)], outputs [(id, type)], javascript body).  "T" is instantiated per step.
TOOLS = {
    "add": ([("a", "int"), ("b", "int")], [("o", "int")], "return {\"o\": inputs.a + inputs.b};"),
    "cat": ([("a", "string"), ("b", "string")], [("o", "string")], "return {\"o\": inputs.a + inputs.b};"),
    "show": ([("a", "int")], [("o", "string")], "return {\"o\": \"\" + inputs.a};"),
    "range": ([("a", "int")], [("o", {"arr": "int"})],
              "var r = []; for (var i = 0; i < inputs.a; i++) { r.push(i); } return {\"o\": r};"),
    "sum": ([("a", {"arr": "int"})], [("o", "int")],
            "var s = 0; for (var i = 0; i < inputs.a.length; i++) { s += inputs.a[i]; } return {\"o\": s};"),
    "len": ([("a", {"arr": "T"})], [("o", "int")], "return {\"o\": inputs.a.length};"),
    "maybe": ([("a", "int")], [("o", {"opt": "int"})],
              "return {\"o\": (inputs.a % 2 === 0) ? inputs.a : null};"),
    "pair": ([("a", "T"), ("b", "T")], [("o", {"arr": "T"})], "return {\"o\": [inputs.a, inputs.b]};"),
    "id": ([("a", "T")], [("o", "T")], "return {\"o\": inputs.a};"),
    "mkrec": ([("a", "int"), ("b", "string")], [("o", {"rec": 1})],
              "return {\"o\": {\"x\": inputs.a, \"y\": inputs.b}};"),
    "getx": ([("a", {"rec": 1})], [("o", "int")], "return {\"o\": inputs.a.x};"),
    "two": ([("a", "int")], [("o", "int"), ("p", "boolean")],
            "return {\"o\": inputs.a * 2, \"p\": inputs.a > 0};"),
    "pos": ([("a", "int")], [("o", "int")],
            "if (inputs.a < 0) { throw \"negative\"; } return {\"o\": inputs.a};"),
}


# File tools.  name -> (inputs, outputs); rendered by render_file_tool; "name" (the basename written) comes with the step
FILE_TOOLS = {
    "mkfile": ([("b", "string")], [("o", "File")]),        # ExpressionTool returning a file literal
    # "RFile" = a File written by a CommandLineTool (rendered as File): cwltool cannot loadContents a file LITERAL
    # (job / ExpressionTool literal with `contents`: "Reading _:id"), so fcontents only reads RFiles
    "ccat": ([("a", "File")], [("o", "RFile")]),           # CommandLineTool: cat a > name
    "ccp": ([("a", "File")], [("o", "RFile")]),            # CommandLineTool: cp a name   (glob output)
    "cwc": ([("a", "File")], [("o", "int")]),              # CommandLineTool: wc -c < a   (outputEval)
    "fcontents": ([("a", "RFile")], [("o", "string")]),    # ExpressionTool with loadContents
}


def render_file_tool(run):
    k, name = run["tool"], run.get("name")
    if k == "mkfile":
        return {"class": "ExpressionTool", "requirements": {"InlineJavascriptRequirement": {}},
                "inputs": {"b": {"type": "string"}}, "outputs": {"o": {"type": "File"}},
                "expression": "${return {\"o\": {\"class\": \"File\", \"basename\": \"%s\", \"contents\": inputs.b}};}" % name}
    if k == "ccat":
        return {"class": "CommandLineTool", "baseCommand": "cat",
                "inputs": {"a": {"type": "File", "inputBinding": {"position": 1}}},
                "stdout": name, "outputs": {"o": {"type": "stdout"}}}
    if k == "ccp":
        return {"class": "CommandLineTool", "baseCommand": "cp",
                "inputs": {"a": {"type": "File", "inputBinding": {"position": 1}}},
                "arguments": [{"position": 2, "valueFrom": name}],
                "outputs": {"o": {"type": "File", "outputBinding": {"glob": name}}}}
    if k == "cwc":
        return {"class": "CommandLineTool", "requirements": {"InlineJavascriptRequirement": {}},
                "baseCommand": ["wc", "-c"], "stdin": "$(inputs.a.path)",
                "inputs": {"a": {"type": "File"}}, "stdout": "wc_count.txt",
                "outputs": {"o": {"type": "int", "outputBinding": {"glob": "wc_count.txt", "loadContents": True,
                                                                  "outputEval": "$(parseInt(self[0].contents))"}}}}
    if k == "fcontents":
        return {"class": "ExpressionTool", "requirements": {"InlineJavascriptRequirement": {}},
                "inputs": {"a": {"type": "File", "loadContents": True}}, "outputs": {"o": {"type": "string"}},
                "expression": "${return {\"o\": inputs.a.contents};}"}
    raise ValueError(k)


def subst(t, T):
    if t == "T":
        return T
    if isinstance(t, dict):
        k, v = next(iter(t.items()))
        return {k: subst(v, T)} if k != "rec" else t
    return t


def arr(t):
    return {"arr": t}


def opt(t):
    return t if isinstance(t, dict) and "opt" in t else {"opt": t}


def is_arr(t):
    return isinstance(t, dict) and "arr" in t


def is_opt(t):
    return isinstance(t, dict) and "opt" in t


def tkey(t):
    import json
    return json.dumps(t, sort_keys=True)


def cwl_type(t):
    if t == "RFile":
        return "File"
    if isinstance(t, str):
        return t
    if "arr" in t:
        return {"type": "array", "items": cwl_type(t["arr"])}
    if "opt" in t:
        inner = cwl_type(t["opt"])
        return ["null"] + (inner if isinstance(inner, list) else [inner])
    if "rec" in t:
        return {"type": "record", "fields": [{"name": "x", "type": "int"}, {"name": "y", "type": "string"}]}
    raise ValueError(t)


# ------------------------------------------------------------------------------------------------ rendering
def _src(refs, as_list):
    return list(refs) if as_list else refs[0]


def render_when(w):
    k = w[0]
    if k == "gt":
        return "$(inputs.%s > %d)" % (w[1], w[2])
    if k == "bool":
        return "$(inputs.%s)" % w[1]
    if k == "nonnull":
        return "$(inputs.%s !== null)" % w[1]
    if k == "raw":
        return "$(inputs.%s)" % w[1]
    if k == "lt":
        return "$(inputs.%s < %d)" % (w[1], w[2])
    raise ValueError(w)


def render_vf(v):
    import json
    k = v[0]
    if k == "self":
        return "$(self)"
    if k == "self_plus":
        return "$(self + %d)" % v[1]
    if k == "input":
        return "$(inputs.%s)" % v[1]
    if k == "const":
        return "${return %s;}" % json.dumps(v[1])
    raise ValueError(v)


def render_tool(run):
    if run["tool"] in FILE_TOOLS:
        return render_file_tool(run)
    ins, outs, js = TOOLS[run["tool"]]
    T = run.get("T", "int")
    return {
        "class": "ExpressionTool",
        "requirements": {"InlineJavascriptRequirement": {}},
        "inputs": {i: {"type": cwl_type(subst(t, T))} for i, t in ins},
        "outputs": {o: {"type": cwl_type(subst(t, T))} for o, t in outs},
        "expression": "${" + js + "}",
    }


def render_wf(wf, top=True):
    doc = {"class": "Workflow"}
    if top:
        doc["cwlVersion"] = "v1.2"
        doc["$namespaces"] = {"cwltool": "http://commonwl.org/cwltool#"}
    doc["requirements"] = {
        "InlineJavascriptRequirement": {}, "ScatterFeatureRequirement": {},
        "MultipleInputFeatureRequirement": {}, "StepInputExpressionRequirement": {},
        "SubworkflowFeatureRequirement": {},
    }
    doc["inputs"] = {}
    for i in wf["inputs"]:
        d = {"type": cwl_type(i["type"])}
        if "default" in i:
            d["default"] = i["default"]
        doc["inputs"][i["id"]] = d
    doc["outputs"] = {}
    for o in wf["outputs"]:
        d = {"type": cwl_type(o["type"]), "outputSource": _src(o["src"], o["list"])}
        if o.get("lm"):
            d["linkMerge"] = o["lm"]
        if o.get("pv"):
            d["pickValue"] = o["pv"]
        doc["outputs"][o["id"]] = d
    doc["steps"] = {}
    for s in wf["steps"]:
        sd = {}
        sd["run"] = render_wf(s["run"]["wf"], top=False) if "wf" in s["run"] else render_tool(s["run"])
        sd["in"] = {}
        for i in s["in"]:
            d = {}
            if i["src"]:
                d["source"] = _src(i["src"], i["list"])
            if i.get("lm"):
                d["linkMerge"] = i["lm"]
            if i.get("pv"):
                d["pickValue"] = i["pv"]
            if "default" in i:
                d["default"] = i["default"]
            if i.get("vf"):
                d["valueFrom"] = render_vf(i["vf"])
            sd["in"][i["id"]] = d
        if s["scatter"]:
            sd["scatter"] = list(s["scatter"])
            if s.get("method"):
                sd["scatterMethod"] = s["method"]
        if s.get("when"):
            sd["when"] = render_when(s["when"])
        if s.get("loop"):
            lp = s["loop"]
            sd["requirements"] = {"cwltool:Loop": {"loopWhen": render_when(lp["when"]),
                                                   "loop": {k: o for k, o in lp["map"]},
                                                   "outputMethod": "all" if lp["all"] else "last"}}
        sd["out"] = [o["id"] for o in s["out"]]
        doc["steps"][s["id"]] = sd
    return doc


# ------------------------------------------------------------------------------------------------ generation
ALPHA = "abcxyz 019_-"


def gen_value(rng, t, lenhint=None):
    if t == "int":
        return rng.choice([-3, -1, 0, 0, 1, 2, 3, 4, 5, 7, 10, 12])
    if t == "string":
        return "".join(rng.choice(ALPHA) for _ in range(rng.randrange(0, 4)))
    if t == "boolean":
        return rng.random() < 0.5
    if t == "File":
        txt = "".join(rng.choice(ALPHA + "\n") for _ in range(rng.randrange(0, 12)))
        return {"class": "File", "basename": "in%d.txt" % rng.randrange(10**6), "contents": txt}
    if "arr" in t:
        n = lenhint if lenhint is not None else rng.choice([0, 1, 2, 2, 3, 3, 4, 2, 3, 1, rng.choice([11, 12, 13])])
        return [gen_value(rng, t["arr"]) for _ in range(n)]
    if "opt" in t:
        return None if rng.random() < 0.4 else gen_value(rng, t["opt"])
    if "rec" in t:
        return {"x": gen_value(rng, "int"), "y": gen_value(rng, "string")}
    raise ValueError(t)


BASE = ["int", "int", "int", "string", "boolean"]


class WfGen:
    """Generates one workflow; inputs are created on demand (ensures every link is well-typed)."""

    def __init__(self, rng, depth, prefix="", root=None):
        self.rng = rng
        self.depth = depth
        self.root = root or self
        self.nfile = 0
        self.loop_outs = []
        self.has_file = False
        self.env = []          # (ref, type, lentag)
        self.inputs = []       # workflow inputs
        self.values = {}       # input id -> value (top-level) / used for sub-workflow step binding
        self.steps = []
        self.nin = 0
        self.nlen = 0

    # -- environment
    def new_input(self, t, lenhint=None, allow_default=True):
        rng = self.rng
        name = "i%d" % self.nin
        self.nin += 1
        d = {"id": name, "type": t}
        v = gen_value(rng, t, lenhint)
        if allow_default and rng.random() < 0.12 and v is not None:
            d["default"] = gen_value(rng, t, lenhint)
            if rng.random() < 0.6:
                d["type"] = opt(t) if not is_opt(t) else t
                # a null/absent job value makes the default apply
                self.values[name] = None
                d["absent"] = rng.random() < 0.5
            else:
                self.values[name] = v
        else:
            self.values[name] = v
        self.inputs.append(d)
        tag = ("L", len(v)) if isinstance(v, list) and "default" not in d else self.fresh_len()
        self.env.append((name, t, tag))
        return name, tag

    def fresh_len(self):
        self.nlen += 1
        return ("U", id(self), self.nlen)

    def find(self, pred):
        c = [e for e in self.env if pred(e[1])]
        return self.rng.choice(c) if c and self.rng.random() < 0.8 else None

    def get_ref(self, t, lentag=None):
        """A ref of exactly type t (creating a workflow input when none exists / by chance)."""
        k = tkey(t)
        c = [e for e in self.env if (tkey(e[1]) == k or (t == "File" and e[1] == "RFile"))
             and (lentag is None or e[2] == lentag)]
        if c and (self.rng.random() < 0.8 or t == "RFile"):
            e = self.rng.choice(c)
            return e[0], e[2]
        lh = lentag[1] if lentag and lentag[0] == "L" else None
        if lentag is not None and lentag[0] != "L":
            # cannot create an input of an unknown length: fall back to any length (dotproduct may then fail)
            lh = None
        return self.new_input(t, lh, allow_default=not is_arr(t))

    def get_refs(self, types, n):
        """n refs (types drawn from `types` per ref), distinct unless a rare duplicate is wanted."""
        rng = self.rng
        out = []
        for _ in range(n):
            for _try in range(4):
                r = self.get_ref(rng.choice(types))[0]
                if r not in out:
                    break
            if r in out and rng.random() > 0.15:
                r = self.new_input(rng.choice(types))[0]
            out.append(r)
        return out

    # -- binding of one step input of required type t; returns (in-record, scattered?, lentag)
    def bind(self, iid, t, allow_scatter, dot_tag=None):
        rng = self.rng
        r = rng.random()
        rec = {"id": iid, "src": [], "list": False, "lm": None, "pv": None, "vf": None}
        # scatter over an array of t
        if allow_scatter and r < 0.30:
            ref, tag = self.get_ref(arr(t), dot_tag)
            rec["src"] = [ref]
            if t == "int" and rng.random() < 0.2:
                rec["vf"] = ["self_plus", rng.randrange(1, 4)]
            return rec, True, tag
        r = rng.random()
        if is_arr(t) and not is_arr(t["arr"]) and r < 0.35:
            u = t["arr"]
            q = rng.random()
            if q < 0.35:       # merge_nested of 1..3 sources of type u
                n = 1 if rng.random() < 0.05 else rng.choice([2, 2, 3])
                rec["src"] = self.get_refs([u], n)
                rec["list"] = True
                rec["lm"] = rng.choice(["merge_nested", None]) if n > 1 else "merge_nested"
                return rec, False, None
            if q < 0.7:        # merge_flattened of u / u[] sources
                n = 1 if rng.random() < 0.05 else rng.choice([2, 2, 3])
                rec["src"] = self.get_refs([u, arr(u), arr(u)], n)
                rec["list"] = True
                rec["lm"] = "merge_flattened"
                return rec, False, None
            if not is_opt(u):  # all_non_null over optional sources
                n = rng.choice([1, 2, 2, 3])  # n = 1 is used with a non-list source below, or rarely as a list
                if n == 1:
                    rec["src"] = [self.get_ref(arr(opt(u)))[0]]
                    rec["list"] = False
                else:
                    rec["src"] = self.get_refs([opt(u), opt(u), u], n)
                    rec["list"] = True
                rec["pv"] = "all_non_null"
                return rec, False, None
        if not is_opt(t) and r < 0.5 and r >= 0.35 and not (is_arr(t) and is_opt(t["arr"])) and t != "RFile":
            # (cwltool's static checker rejects first/the_only_non_null over sources of type (T?)[]: outside the common domain)
            # first_non_null / the_only_non_null over optional sources
            n = 1 if rng.random() < 0.05 else rng.choice([2, 2, 3])
            pv = rng.choice(["first_non_null", "first_non_null", "the_only_non_null"])
            # (a single non-list T?[] source with first/the_only_non_null into a sink of type T is accepted only at
            #  workflow outputs by cwltool: as a step input it is a type mismatch, so it is not generated here)
            if True:
                rec["src"] = self.get_refs([opt(t), opt(t), t], n)
                rec["list"] = True
                if n == 1 or rng.random() < 0.3:
                    rec["lm"] = "merge_nested"   # a single source is wrapped explicitly, so that the pick sees a list
            rec["pv"] = pv
            return rec, False, None
        if r < 0.6 and not is_arr(t) and t not in ("File", "RFile"):
            # no source: default only / or optional source with default
            if rng.random() < 0.5 and not is_opt(t):
                rec["src"] = [self.get_ref(opt(t))[0]]
            rec["default"] = gen_value(rng, t)
            if rec["default"] is None:
                del rec["default"]
                rec["src"] = [self.get_ref(t)[0]]
            elif rng.random() < 0.4:
                # default (with or without a source) + valueFrom reading self: self must be the default when the
                # source is absent or null
                rec["vf"] = ["self_plus", rng.randrange(1, 4)] if t == "int" and rng.random() < 0.7 else ["self"]
            return rec, False, None
        if r < 0.7 and t in ("int", "string", "boolean"):
            q = rng.random()
            if q < 0.4 and t == "int":
                rec["src"] = [self.get_ref("int")[0]]
                rec["vf"] = ["self_plus", rng.randrange(1, 4)]
            elif q < 0.7:
                if rng.random() < 0.5:
                    rec["src"] = [self.get_ref(rng.choice(BASE))[0]]
                rec["vf"] = ["const", gen_value(rng, t)]
            else:
                rec["src"] = [self.get_ref(t)[0]]
                rec["vf"] = ["self"]
            return rec, False, None
        ref, tag = self.get_ref(t)
        rec["src"] = [ref]
        return rec, False, None

    def next_file(self):
        self.nfile += 1
        return self.nfile

    # -- a cwltool:Loop step (no scatter, no when, no valueFrom on it: the extension forbids / complicates them)
    def gen_loop_step(self, sid):
        rng = self.rng
        all_ = rng.random() < 0.5
        plain = lambda i, ref: {"id": i, "src": [ref], "list": False, "lm": None, "pv": None, "vf": None}   # noqa: E731
        if self.depth > 0 and rng.random() < 0.35:
            # scatter INSIDE the loop: the looped process is a subworkflow whose inner step scatters over xs;
            # loop variables: xs := o (the scattered results), t := total (their sum); while t < K
            k = rng.choice([1, 2, 3])
            inner = {"id": "s0", "run": {"tool": "add"}, "in": [plain("a", "xs"), plain("b", "k")], "scatter": ["a"],
                     "method": None, "when": None, "out": [{"id": "o", "type": arr("int")}]}
            tot = {"id": "s1", "run": {"tool": "sum"}, "in": [plain("a", "s0/o")], "scatter": [], "method": None,
                   "when": None, "out": [{"id": "o", "type": "int"}]}
            sub = {"inputs": [{"id": "xs", "type": arr("int")}, {"id": "k", "type": "int"}, {"id": "t", "type": "int"}],
                   "steps": [inner, tot],
                   "outputs": [{"id": "o", "type": arr("int"), "src": ["s0/o"], "list": False, "lm": None, "pv": None},
                               {"id": "total", "type": "int", "src": ["s1/o"], "list": False, "lm": None, "pv": None}]}
            # a non-empty array of small ints (an empty one would never let the total grow: an endless loop in every runner)
            ref, _ = self.new_input(arr("int"), lenhint=rng.choice([1, 2, 3]), allow_default=False)
            step_in = [plain("xs", ref),
                       {"id": "k", "src": [], "list": False, "lm": None, "pv": None, "vf": None, "default": k},
                       {"id": "t", "src": [], "list": False, "lm": None, "pv": None, "vf": None, "default": 0}]
            loop = {"map": [["xs", "o"], ["t", "total"]], "when": ["lt", "t", rng.choice([1, 5, 12])], "all": all_}
            run = {"wf": sub}
            sig_out = [("o", arr("int")), ("total", "int")]
        else:
            b = rng.choice([1, 2, 3, 5])
            ref, _ = self.get_ref("int")
            step_in = [plain("a", ref),
                       {"id": "b", "src": [], "list": False, "lm": None, "pv": None, "vf": None, "default": b}]
            K = rng.choice([-5, 0, 5, 10, 15]) if b >= 2 else rng.choice([-5, 0, 5, 8])
            loop = {"map": [["a", "o"]], "when": ["lt", "a", K], "all": all_}
            run = {"tool": "add"}
            sig_out = [("o", "int")]
        outs = [{"id": o, "type": (arr(t) if all_ else opt(t))} for o, t in sig_out]
        step = {"id": sid, "run": run, "in": step_in, "scatter": [], "method": None, "when": None, "out": outs, "loop": loop}
        self.steps.append(step)
        # the static checkers of both runners type a loop output in their own ways ((T?)[] / nested arrays), so a loop
        # output is only exported as a workflow output, never consumed by another step
        for o in outs:
            self.loop_outs.append(("%s/%s" % (sid, o["id"]), o["type"]))
        return step

    # -- one step
    def gen_step(self, sid):
        rng = self.rng
        if self.depth > 0 and rng.random() < 0.18:
            sub = WfGen(rng, self.depth - 1, root=self.root)
            subwf = sub.generate(rng.randrange(1, 3), top=False)
            self.has_file = self.has_file or sub.has_file
            sub_has_file = sub.has_file
            sig_in = [(i["id"], i["type"]) for i in subwf["inputs"]]
            sig_out = [(o["id"], o["type"]) for o in subwf["outputs"]]
            run = {"wf": subwf}
            # inputs with a default and an optional type may be left unbound
        elif rng.random() < 0.07:
            return self.gen_loop_step(sid)
        elif rng.random() < 0.10:
            name = rng.choice(sorted(FILE_TOOLS))
            if name == "fcontents" and not any(e[1] == "RFile" for e in self.env):
                name = "ccat"
            ins, outs = FILE_TOOLS[name]
            run = {"tool": name}
            if name in ("mkfile", "ccat", "ccp"):
                run["name"] = "f%d.txt" % self.root.next_file()
            sig_in, sig_out = list(ins), list(outs)
            self.has_file = True
        else:
            name = rng.choice(sorted(TOOLS))
            ins, outs, _ = TOOLS[name]
            T = rng.choice(["int", "int", "string", {"opt": "int"}, {"arr": "int"}, {"rec": 1}])
            run = {"tool": name}
            if any("T" in tkey(t) for _, t in ins + outs):
                run["T"] = T
            sig_in = [(i, subst(t, T)) for i, t in ins]
            sig_out = [(o, subst(t, T)) for o, t in outs]
        allow_scatter = rng.random() < 0.55
        if run.get("tool") in FILE_TOOLS or ("wf" in run and sub_has_file) or any("File" in tkey(t) for _, t in sig_in + sig_out):
            allow_scatter = False     # same-named files of the scatter elements would collide in the output directory
        method = rng.choice(["dotproduct", "dotproduct", "nested_crossproduct", "flat_crossproduct"])
        step_in, scat, dot_tag = [], [], None
        for iid, t in sig_in:
            if "wf" in run and is_opt(t) and rng.random() < 0.3:
                continue  # leave optional sub-workflow input unbound
            rec, sc, tag = self.bind(iid, t, allow_scatter and len(scat) < 3,
                                     dot_tag if method == "dotproduct" else None)
            step_in.append(rec)
            if sc:
                scat.append(iid)
                if dot_tag is None:
                    dot_tag = tag
        when = None
        if rng.random() < 0.3:
            wt = rng.choice(["int", "int", "boolean", "optint"])
            wid = "w"
            q = rng.random()
            if wt == "int":
                rec, sc, tag = self.bind(wid, "int", allow_scatter and len(scat) < 3 and rng.random() < 0.5,
                                         dot_tag if method == "dotproduct" else None)
                when = ["gt", wid, rng.choice([-1, 0, 1, 2, 3])]
                if q < 0.04:
                    when = ["raw", wid]     # non-boolean condition: an error for both runners
            elif wt == "boolean":
                rec, sc, tag = self.bind(wid, "boolean", allow_scatter and len(scat) < 3 and rng.random() < 0.5,
                                         dot_tag if method == "dotproduct" else None)
                when = ["bool", wid]
            else:
                ref, _ = self.get_ref(opt("int"))
                rec, sc = {"id": wid, "src": [ref], "list": False, "lm": None, "pv": None, "vf": None}, False
                when = ["nonnull", wid]
            step_in.append(rec)
            if sc:
                scat.append(wid)
        # output types
        outs = []
        if scat:
            if len(scat) == 1 and rng.random() < 0.6:
                method_r = None
                eff = "dotproduct"
            else:
                method_r = eff = method
            nest = len(scat) if eff == "nested_crossproduct" else 1
        else:
            method_r, eff, nest = None, None, 0
        if eff == "dotproduct":
            outtag = dot_tag
        else:
            outtag = self.fresh_len()
        for oid, t in sig_out:
            if when:
                t = opt(t)
            for _ in range(nest):
                t = arr(t)
            outs.append({"id": oid, "type": t})
        step = {"id": sid, "run": run, "in": step_in, "scatter": scat, "method": method_r, "when": when, "out": outs}
        self.steps.append(step)
        for o in outs:
            self.env.append(("%s/%s" % (sid, o["id"]), o["type"],
                             outtag if scat else self.fresh_len()))
        return step

    def gen_outputs(self):
        rng = self.rng
        outs = []
        refs = [e for e in self.env if "/" in e[0]]
        n = 0
        for ref, t in self.loop_outs:
            outs.append({"id": "o%d" % n, "type": t, "src": [ref], "list": False, "lm": None, "pv": None})
            n += 1
        dangling = refs[-1][0].split("/")[0] if refs and rng.random() < 0.06 else None
        for ref, t, _ in refs:
            if ref.split("/")[0] != dangling:
                outs.append({"id": "o%d" % n, "type": t, "src": [ref], "list": rng.random() < 0.15, "lm": None, "pv": None})
                n += 1
        # derived outputs: merges and picks
        for _ in range(rng.randrange(0, 3)):
            cands = [e for e in self.env if "File" not in tkey(e[1])]
            if not cands:
                break
            ref, t, _ = rng.choice(cands)
            same = [e[0] for e in self.env if tkey(e[1]) == tkey(t)]
            k = 1 if rng.random() < 0.05 else rng.choice([2, 2, 3])
            while len(same) < k:
                same.append(self.new_input(t, allow_default=False)[0])
            srcs = rng.sample(same, k)
            if rng.random() < 0.04:
                srcs.append(srcs[0])
            q = rng.random()
            if q < 0.3:
                o = {"type": arr(t), "src": srcs, "list": True, "lm": "merge_nested", "pv": None}
            elif q < 0.5 and is_arr(t):
                o = {"type": t, "src": srcs, "list": True, "lm": "merge_flattened", "pv": None}
            elif q < 0.5 and not (is_opt(t) and is_arr(t["opt"])):
                o = {"type": arr(t), "src": srcs, "list": True, "lm": "merge_flattened", "pv": None}
            elif q < 0.5:   # an optional array cannot be flattened into a typed sink (cwltool rejects the document)
                o = {"type": arr(t), "src": srcs, "list": True, "lm": "merge_nested", "pv": None}
            elif is_opt(t):
                pv = rng.choice(["first_non_null", "the_only_non_null", "all_non_null"])
                o = {"type": arr(t["opt"]) if pv == "all_non_null" else t["opt"], "src": srcs, "list": True,
                     "lm": rng.choice([None, None, "merge_nested"]), "pv": pv}
            elif is_arr(t) and is_opt(t["arr"]):
                pv = rng.choice(["first_non_null", "the_only_non_null", "all_non_null", "all_non_null"])
                if True:   # (also for workflow inputs: both runners reject a (T?)[] source picked into a T sink)
                    # cwltool types the output of a scattered conditional step as (T[])? rather than (T?)[] and rejects
                    # first/the_only_non_null into a T sink statically: only all_non_null is in the common domain
                    pv = "all_non_null"
                o = {"type": arr(t["arr"]["opt"]) if pv == "all_non_null" else t["arr"]["opt"], "src": [ref],
                     "list": False, "lm": None, "pv": pv}
            else:
                pv = rng.choice(["first_non_null", "all_non_null"])
                o = {"type": arr(t) if pv == "all_non_null" else t, "src": srcs, "list": True, "lm": None, "pv": pv}
            if len(o["src"]) == 1 and o["list"] and o["pv"] and not o["lm"]:
                o["lm"] = "merge_nested"
            o["id"] = "o%d" % n
            n += 1
            outs.append(o)
        if not outs:
            ref, t, _ = rng.choice(self.env)
            outs.append({"id": "o0", "type": t, "src": [ref], "list": False, "lm": None, "pv": None})
        return outs

    def generate(self, nsteps, top=True):
        for k in range(nsteps):
            self.gen_step("s%d" % k)
        outs = self.gen_outputs()
        wf = {"inputs": self.inputs, "steps": self.steps, "outputs": outs}
        return wf


def gen_program(rng, max_steps=6, depth=1):
    g = WfGen(rng, depth)
    wf = g.generate(rng.choice([1, 2, 2, 3, 3, 4, 5, 6][:max(1, max_steps + 2)]) if max_steps >= 6
                    else rng.randrange(1, max_steps + 1))
    job = {}
    for i in wf["inputs"]:
        v = g.values[i["id"]]
        if i.pop("absent", False):
            continue
        job[i["id"]] = v
    _strip(wf)
    return {"f": "prog", "wf": wf, "job": job}


def _strip(wf):
    for i in wf["inputs"]:
        i.pop("absent", None)
    for s in wf["steps"]:
        if "wf" in s["run"]:
            _strip(s["run"]["wf"])
