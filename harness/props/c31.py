"""C31 — Expression dependency analysis covers every input an expression reads.

Cases are CWL expression strings given structurally: optional expressionLib declarations + parts
(text | parameter reference | ${body} | $(expr)).  The harness prints them to text, runs the real
streamflow.cwl.utils.resolve_dependencies on the text, and evaluates the same text for real through
cwl_utils.expression.interpolate with an engine whose JavaScript side is node (a Proxy around `inputs`
records every property read) and whose parameter-reference side is cwl_utils' own regex_eval on a
recording mapping.  The Coq model (JsDeps/Model.v) is run on the structure: its listener must return what
resolve_dependencies returned, its evaluator must read what the real evaluation read.

The case kind ("f") names the construct the generator injected into an otherwise well-tracked program:
  safe / ref / interp        nothing the analysis is known to mishandle
  computed, var_init, ...    exactly one construct of that class (see HAZARDS)
"""
import json
import os
import re
import subprocess

from harness.lib.framework import Prop, coq_bool, coq_list, coq_N, coq_str

# Three shapes of the inputs object (a case carries "inp": index; corpus cases without it use shape 0).  The
# generator relies only on: a, b, ab, k, h, "a b" hold strings that are again field names; c, t truthy; z falsy; zz
# absent; q an object with string fields h, p; arr an array of field names.  Arrays and nested objects are rendered
# for the model as objects with string fields ("0", "1", ..); deeper nesting is not representable in the model.
SHAPES = [
    {"a": "b", "b": "ab", "ab": "k", "k": "a", "h": "q", "c": 7, "t": True, "z": 0,
     "q": {"h": "a", "p": "ab"}, "a b": "a", "class": "a", "default": "b", "'a'": "k", "a'b": "h", "arr": ["b", "k"]},
    {"a": "k", "b": "h", "ab": "a", "k": "b", "h": "ab", "c": "x", "t": 5, "z": "",
     "q": {"h": "b", "p": "k", "r": "a"}, "a b": "k", "'a'": "a", "a'b": "b", "arr": ["a", "h", "ab"], "extra": 3},
    {"a": "h", "b": "a", "ab": "b", "k": "ab", "h": "k", "c": 12, "t": "yes", "z": False,
     "q": {"h": "k", "p": "a"}, "a b": "b", "class": "k", "default": "h", "'a'": "b", "a'b": "ab", "arr": ["k"],
     "1": "a", "length": "b"},
]
INPUTS = SHAPES[0]
RUNTIME = {"outdir": "/out", "tmpdir": "/tmp"}      # = gstore of JsDeps/Model.v; self is null
STRF = ["a", "b", "ab", "k", "h"]          # string-valued fields whose values are again field names
IDENT = re.compile(r"^[A-Za-z_][A-Za-z0-9_]*$")
RESERVED = {"class", "default", "in", "new", "function", "delete", "typeof", "null", "true", "var", "this"}
PARAM_RE = re.compile(r"""^\((\w+)(\.\w+|\['([^']|\\')+'\]|\["([^"]|\\")+"\]|\[[0-9]+\])*\)$""")
HAZARDS = ["computed", "var_init", "fn_param", "fn_return", "paren", "reserved", "inner_scope", "branch_delete",
           "strip", "chain_assign", "closure_late", "nested_delete"]   # + "ref_index" (parameter references)
LOW = ("cond", "assign")


# ------------------------------------------------------------------------------------------------ printing
def norm(e):
    """Insert the parentheses the printed text needs so that it parses back to this very tree."""
    k = e[0]
    if k in ("num", "str", "bool", "id"):
        return e
    if k == "dot":
        return ["dot", _base(norm(e[1])), e[2]]
    if k == "idx":
        return ["idx", _base(norm(e[1])), norm(e[2])]
    if k == "add":
        a, b = norm(e[1]), norm(e[2])
        if a[0] in LOW or a[0] == "fun":
            a = ["paren", a]
        if b[0] in LOW + ("add",):
            b = ["paren", b]
        return ["add", a, b]
    if k == "cond":
        c = norm(e[1])
        if c[0] in LOW or c[0] == "fun":
            c = ["paren", c]
        return ["cond", c, norm(e[2]), norm(e[3])]
    if k == "paren":
        return ["paren", norm(e[1])]
    if k == "assign":
        return ["assign", e[1], norm(e[2])]
    if k == "call":
        return ["call", _base(norm(e[1])), [norm(a) for a in e[2]]]
    if k == "fun":
        return ["fun", e[1], [norm_s(s) for s in e[2]]]
    if k == "op":
        return ["op", e[1], [_atom(norm(a)) if e[1] not in ("arr", "obj") else norm(a) for a in e[2]]] + list(e[3:])
    if k == "logic":
        return ["logic", e[1], _atom(norm(e[2])), _atom(norm(e[3]))]
    raise ValueError(k)


def _atom(e):
    return e if e[0] in ("num", "str", "bool", "id", "dot", "idx", "call", "paren") else ["paren", e]


def _base(e):
    return e if e[0] in ("id", "dot", "idx", "call", "paren") else ["paren", e]


def norm_s(s):
    k = s[0]
    if k == "var":
        return s
    if k == "vari":
        return ["vari", s[1], norm(s[2])]
    if k == "expr":
        e = norm(s[1])
        return ["expr", ["paren", e] if _leftmost(e) == "fun" else e]
    if k == "ret":
        return ["ret", norm(s[1])]
    if k == "if":
        return ["if", norm(s[1]), [norm_s(x) for x in s[2]], [norm_s(x) for x in s[3]]]
    if k == "fun":
        return ["fun", s[1], s[2], [norm_s(x) for x in s[3]]]
    if k == "for":
        return ["for", [norm_s(x) for x in s[1]], None if s[2] is None else norm(s[2]),
                None if s[3] is None else norm(s[3]), [norm_s(x) for x in s[4]]]
    raise ValueError(k)


def _leftmost(e):
    while True:
        if e[0] in ("dot", "idx", "add", "cond", "call"):
            e = e[1]
        elif e[0] == "logic":
            e = e[2]
        elif e[0] == "op":
            if e[1] == "obj":
                return "fun"                 # `{` at the start of a statement would be a block: parenthesise like `function`
            if len(e[2]) == 2 and e[1] not in ("arr",):
                e = e[2][0]
            else:
                return "op"
        else:
            return e[0]


def pe(e):
    k = e[0]
    if k == "num":
        return str(e[1])
    if k == "str":
        q = '"' if e[1] else "'"
        return q + e[2] + q
    if k == "bool":
        return "true" if e[1] else "false"
    if k == "id":
        return e[1]
    if k == "dot":
        return pe(e[1]) + "." + e[2]
    if k == "idx":
        return pe(e[1]) + "[" + pe(e[2]) + "]"
    if k == "add":
        return pe(e[1]) + " + " + pe(e[2])
    if k == "cond":
        return pe(e[1]) + " ? " + pe(e[2]) + " : " + pe(e[3])
    if k == "paren":
        return "(" + pe(e[1]) + ")"
    if k == "assign":
        return e[1] + " = " + pe(e[2])
    if k == "call":
        return pe(e[1]) + "(" + ", ".join(pe(a) for a in e[2]) + ")"
    if k == "fun":
        return "function(" + ", ".join(e[1]) + ") { " + pss(e[2]) + " }"
    if k == "logic":
        return pe(e[2]) + (" && " if e[1] else " || ") + pe(e[3])
    if k == "op":
        o, a = e[1], e[2]
        if o == "null":
            return "null"
        if o == "regex":
            return e[3][0]
        if o == "arr":
            return "[" + ", ".join(pe(x) for x in a) + "]"
        if o == "obj":
            return "{" + ", ".join(json.dumps(kk) + ": " + pe(x) for kk, x in zip(e[3], a)) + "}"
        if o == "!":
            return "!" + pe(a[0])
        if o == "neg":
            return "-" + pe(a[0])
        if o == "typeof":
            return "typeof " + pe(a[0])
        return pe(a[0]) + " " + o + " " + pe(a[1])
    raise ValueError(k)


def ps(s):
    k = s[0]
    if k == "var":
        return "var " + s[1] + ";"
    if k == "vari":
        return "var " + s[1] + " = " + pe(s[2]) + ";"
    if k == "expr":
        if s[1][0] == "op" and s[1][1] == "throw":
            return "throw " + pe(s[1][2][0]) + ";"
        return pe(s[1]) + ";"
    if k == "ret":
        return "return " + pe(s[1]) + ";"
    if k == "if":
        return "if (" + pe(s[1]) + ") { " + pss(s[2]) + " } else { " + pss(s[3]) + " }"
    if k == "fun":
        return "function " + s[1] + "(" + ", ".join(s[2]) + ") { " + pss(s[3]) + " }"
    if k == "for":
        init = "; ".join(ps(x)[:-1] for x in s[1])
        return ("for (" + init + "; " + ("" if s[2] is None else pe(s[2])) + "; " + ("" if s[3] is None else pe(s[3]))
                + ") { " + pss(s[4]) + " }")
    raise ValueError(k)


def pss(ss):
    return " ".join(ps(s) for s in ss)


def pseg(g):
    k = g[0]
    if k == "dot":
        return "." + g[1]
    if k == "sq":
        return "['" + g[1] + "']"
    if k == "dq":
        return '["' + g[1] + '"]'
    return "[" + str(g[1]) + "]"


def ppart(p):
    k = p[0]
    if k == "text":
        return p[1]
    if k == "ref":
        return "$(" + p[1] + "".join(pseg(g) for g in p[2]) + ")"
    if k == "js":
        return "${" + pss(p[1]) + "}"
    return "$(" + pe(p[1]) + ")"


def render(case):
    if "text" in case:                      # kind realworld: the text as found in the workflow file
        return case["text"]
    return "".join(ppart(p) for p in case["parts"])


def normalise(case):
    parts = []
    for p in case["parts"]:
        if p[0] == "js":
            parts.append(["js", [norm_s(s) for s in p[1]]])
        elif p[0] == "jsx":
            parts.append(["jsx", norm(p[1])])
        else:
            parts.append(p)
    out = {"f": case["f"], "lib": [norm_s(s) for s in case.get("lib", [])], "parts": parts}
    if "inp" in case:
        out["inp"] = case["inp"]
    return out


# ------------------------------------------------------------------------------------------------ Gallina
def ce(e):
    k = e[0]
    if k == "num":
        return f"(ENum {coq_N(e[1])})"
    if k == "str":
        return f"(EStr {coq_bool(e[1])} {coq_str(e[2])})"
    if k == "bool":
        return f"(EBool {coq_bool(e[1])})"
    if k == "id":
        return f"(EId {coq_str(e[1])})"
    if k == "dot":
        return f"(EDot {ce(e[1])} {coq_str(e[2])})"
    if k == "idx":
        return f"(EIdx {ce(e[1])} {ce(e[2])})"
    if k == "add":
        return f"(EAdd {ce(e[1])} {ce(e[2])})"
    if k == "cond":
        return f"(ECond {ce(e[1])} {ce(e[2])} {ce(e[3])})"
    if k == "paren":
        return f"(EParen {ce(e[1])})"
    if k == "assign":
        return f"(EAssign {coq_str(e[1])} {ce(e[2])})"
    if k == "call":
        args = "ENil"
        for a in reversed(e[2]):
            args = f"(ECons {ce(a)} {args})"
        return f"(ECall {ce(e[1])} {args})"
    if k == "fun":
        return f"(EFun {coq_list([coq_str(p) for p in e[1]])} {css(e[2])})"
    if k == "op":
        args = "ENil"
        for a in reversed(e[2]):
            args = f"(ECons {ce(a)} {args})"
        extra = e[3] if len(e) > 3 else []
        return f"(EOp {coq_str(e[1])} {coq_list([coq_str(x) for x in extra])} {args})"
    if k == "logic":
        return f"(ELogic {coq_bool(e[1])} {ce(e[2])} {ce(e[3])})"
    raise ValueError(k)


def cs(s):
    k = s[0]
    if k == "var":
        return f"(SVar {coq_str(s[1])})"
    if k == "vari":
        if s[2][0] == "fun":                 # var x = function(ps) { body };
            return f"(SFunE {coq_str(s[1])} {coq_list([coq_str(p) for p in s[2][1]])} {css(s[2][2])})"
        return f"(SVarI {coq_str(s[1])} {ce(s[2])})"
    if k == "expr":
        return f"(SExpr {ce(s[1])})"
    if k == "ret":
        return f"(SRet {ce(s[1])})"
    if k == "if":
        return f"(SIf {ce(s[1])} {css(s[2])} {css(s[3])})"
    if k == "fun":
        return f"(SFun {coq_str(s[1])} {coq_list([coq_str(p) for p in s[2]])} {css(s[3])})"
    if k == "for":
        c = "(EBool true)" if s[2] is None else ce(s[2])
        u = "(ENum 0%N)" if s[3] is None else ce(s[3])
        return f"(SFor {css(s[1])} {c} {u} {css(s[4])})"
    raise ValueError(k)


def css(ss):
    if not ss:
        return "SSkip"
    out = cs(ss[-1])
    for s in reversed(ss[:-1]):
        out = f"(SSeq {cs(s)} {out})"
    return out


def cseg(g):
    return {"dot": "SgDot", "sq": "SgSingle", "dq": "SgDouble"}.get(g[0], "SgIdx") + " " + (
        coq_N(g[1]) if g[0] == "idx" else coq_str(g[1]))


def cpart(p):
    k = p[0]
    if k == "text":
        return f"PText {coq_str(p[1])}"
    if k == "ref":
        return f"PRef {coq_str(p[1])} {coq_list([cseg(g) for g in p[2]])}"
    if k == "js":
        return f"PJs {css(p[1])}"
    return f"PJs (SRet (EParen {ce(p[1])}))"


def cinputs(shape=0):
    out = []
    for k, v in SHAPES[shape].items():
        if isinstance(v, bool):
            t = f"IBool {coq_bool(v)}"
        elif isinstance(v, int):
            t = f"INum {coq_N(v)}"
        elif isinstance(v, str):
            t = f"IStr {coq_str(v)}"
        elif isinstance(v, list):
            t = "IObj " + coq_list([f"({coq_str(str(i))}, {coq_str(b)})" for i, b in enumerate(v)])
        else:
            t = "IObj " + coq_list([f"({coq_str(a)}, {coq_str(b)})" for a, b in v.items()])
        out.append(f"({coq_str(k)}, {t})")
    return coq_list(out)


def _ascii_ok(x):
    if isinstance(x, str):
        return all(32 <= ord(c) < 127 for c in x)
    if isinstance(x, list):
        return all(_ascii_ok(y) for y in x)
    return True


# ------------------------------------------------------------------------------------------------ fragment
# Mirror of may_inp / good_key / ok_e / ok_s / in_fragment of JsDeps/Model.v (the fragment of C31_sound_partial).
# Only used to COUNT: the claim goes into the Coq case and Corr.check_case recomputes it with the model's own
# predicate, so a divergence of this mirror is a correspondence mismatch.
RESERVED_ALL = set("break do instanceof typeof case else new var catch finally return void continue for switch while "
                   "debugger function this with default if throw delete in try class enum extends super const export "
                   "import implements let private public interface package protected static yield null true "
                   "false".split())


def may_inp(e):
    k = e[0]
    if k == "logic":
        return may_inp(e[2]) or may_inp(e[3])
    if k == "id" or k == "call":
        return True
    if k == "paren":
        return may_inp(e[1])
    if k == "cond":
        return may_inp(e[2]) or may_inp(e[3])
    if k == "assign":
        return may_inp(e[2])
    return False


def good_key(k):
    if k[0] != "str":
        return False
    q = '"' if k[1] else "'"
    return (q + k[2] + q).strip("'\"") == k[2] and k[2] != ""


def ok_e(br, e):
    k = e[0]
    if k in ("num", "str", "bool", "id"):
        return True
    if k == "dot":
        if e[1][0] == "id":
            return e[2] not in RESERVED_ALL
        return (not may_inp(e[1])) and ok_e(br, e[1])
    if k == "idx":
        if e[1][0] == "id":
            return good_key(e[2])
        return (not may_inp(e[1])) and ok_e(br, e[1]) and ok_e(br, e[2])
    if k == "add":
        return ok_e(br, e[1]) and ok_e(br, e[2])
    if k == "cond":
        return ok_e(br, e[1]) and ok_e(True, e[2]) and ok_e(True, e[3])
    if k == "paren":
        return ok_e(br, e[1])
    if k == "assign":
        if e[1] == "inputs":
            return False
        r = e[2]
        if r[0] == "id":
            return (not br) or r[1] == "inputs"
        return (not may_inp(r)) and ok_e(br, r)
    return False


def ok_s(br, s):
    k = s[0]
    if k == "var":
        return True
    if k == "vari":
        return (not may_inp(s[2])) and ok_e(br, s[2])
    if k in ("expr", "ret"):
        return ok_e(br, s[1])
    if k == "if":
        return ok_e(br, s[1]) and all(ok_s(True, x) for x in s[2]) and all(ok_s(True, x) for x in s[3])
    return False


def hoist_vars(ss):
    out = []
    for s in ss:
        if s[0] in ("var", "vari"):
            out.append(s[1])
        elif s[0] == "if":
            out += hoist_vars(s[2]) + hoist_vars(s[3])
        elif s[0] == "for":
            out += hoist_vars(s[1]) + hoist_vars(s[4])
    return out


def may_inpB(L, e):
    k = e[0]
    if k == "id":
        return e[1] not in L
    if k == "paren":
        return may_inpB(L, e[1])
    if k == "cond":
        return may_inpB(L, e[2]) or may_inpB(L, e[3])
    if k == "assign":
        return may_inpB(L, e[2])
    if k == "logic":
        return may_inpB(L, e[2]) or may_inpB(L, e[3])
    return False


def okb_e(L, e):
    k = e[0]
    if k in ("num", "str", "bool"):
        return True
    if k == "id":
        return e[1] in L or e[1] == "inputs"
    if k == "dot":
        return okb_e(L, e[1]) and ((e[2] not in RESERVED_ALL) if e[1][0] == "id" else not may_inpB(L, e[1]))
    if k == "idx":
        if not okb_e(L, e[1]):
            return False
        return good_key(e[2]) if e[1][0] == "id" else ((not may_inpB(L, e[1])) and okb_e(L, e[2]))
    if k == "add":
        return okb_e(L, e[1]) and okb_e(L, e[2])
    if k == "cond":
        return okb_e(L, e[1]) and okb_e(L, e[2]) and okb_e(L, e[3])
    if k == "paren":
        return okb_e(L, e[1])
    if k == "assign":
        return e[1] in L and okb_e(L, e[2]) and not may_inpB(L, e[2])
    if k == "call":
        f = e[1]
        fok = f[0] == "id" or (f[0] == "dot" and okb_e(L, f) and not may_inpB(L, f[1]))
        return fok and all(okb_e(L, a) and not may_inpB(L, a) for a in e[2])
    if k == "op":
        return all(okb_e(L, a) and not may_inpB(L, a) for a in e[2])
    if k == "logic":
        return okb_e(L, e[2]) and okb_e(L, e[3])
    return False


def okb_s(top, L, s):
    k = s[0]
    if k == "var":
        return s[1] in L
    if k == "vari" and s[2][0] == "fun":
        Lf = list(s[2][1]) + hoist_vars(s[2][2])
        return top and s[1] in L and all(okb_s(False, Lf, x) for x in s[2][2]) and "inputs" not in Lf
    if k == "for":
        return (all(okb_s(False, L, x) for x in s[1]) and (s[2] is None or okb_e(L, s[2]))
                and (s[3] is None or okb_e(L, s[3])) and all(okb_s(False, L, x) for x in s[4]))
    if k == "vari":
        return s[1] in L and okb_e(L, s[2]) and not may_inpB(L, s[2])
    if k == "expr":
        return okb_e(L, s[1])
    if k == "ret":
        return okb_e(L, s[1]) and not may_inpB(L, s[1])
    if k == "if":
        return okb_e(L, s[1]) and all(okb_s(False, L, x) for x in s[2]) and all(okb_s(False, L, x) for x in s[3])
    if k == "fun":
        Lf = list(s[2]) + hoist_vars(s[3])
        return top and all(okb_s(False, Lf, x) for x in s[3]) and "inputs" not in Lf
    return False


def in_fragmentF(lib, body):
    prog = list(lib) + list(body)
    L = hoist_vars(prog)
    return all(okb_s(True, L, s) for s in prog) and "inputs" not in L


# ---- section 7 of Model.v: the combined fragment --------------------------------------------------------------------
def may_inpT(A, e):
    k = e[0]
    if k == "id":
        return e[1] in A
    if k == "paren":
        return may_inpT(A, e[1])
    if k == "cond":
        return may_inpT(A, e[2]) or may_inpT(A, e[3])
    if k == "assign":
        return may_inpT(A, e[2])
    if k == "logic":
        return may_inpT(A, e[2]) or may_inpT(A, e[3])
    return False


def okt_e(br, A, e, why=None):
    def no(msg):
        if why is not None:
            why.append(msg)
        return False
    k = e[0]
    if k in ("num", "str", "bool", "id"):
        return True
    if k == "dot":
        if not okt_e(br, A, e[1], why):
            return False
        if e[1][0] == "id":
            return e[1][1] not in A or e[2] not in RESERVED_ALL or no("reserved-word field on an alias")
        return (not may_inpT(A, e[1])) or no("member access on a non-identifier expression that may be the inputs object")
    if k == "idx":
        if not (okt_e(br, A, e[1], why) and okt_e(br, A, e[2], why)):
            return False
        if e[1][0] == "id":
            return e[1][1] not in A or good_key(e[2]) or no("computed / non-string index on an alias of inputs")
        return (not may_inpT(A, e[1])) or no("member access on a non-identifier expression that may be the inputs object")
    if k == "add":
        return okt_e(br, A, e[1], why) and okt_e(br, A, e[2], why)
    if k == "cond":
        return okt_e(br, A, e[1], why) and okt_e(True, A, e[2], why) and okt_e(True, A, e[3], why)
    if k == "paren":
        return okt_e(br, A, e[1], why)
    if k == "assign":
        if e[1] == "inputs":
            return no("assignment to inputs")
        if not okt_e(br, A, e[2], why):
            return False
        r = e[2]
        if r[0] == "id":
            if e[1] in A:
                return (not br) or r[1] == "inputs" or no("alias re-bound to another identifier inside a branch")
            return r[1] not in A or no("inconsistent alias set")
        return (not may_inpT(A, r)) or no("alias flows through a non-identifier right-hand side")
    if k == "op":
        for a in e[2]:
            if not okt_e(br, A, a, why):
                return False
            if may_inpT(A, a):
                return no("inputs or an alias used as a whole (operand of an operator / element of a literal)")
        return True
    if k == "logic":
        return okt_e(br, A, e[2], why) and okt_e(True, A, e[3], why)
    if k == "call":
        f = e[1]
        if f[0] == "dot":
            if not okt_e(br, A, f, why):
                return False
            if may_inpT(A, f[1]):
                return no("method call on inputs or an alias (whole-object use)")
        elif f[0] != "id":
            return no("call of a callee that is neither an identifier nor a method (function expression, call result)")
        for a in e[2]:
            if not okt_e(br, A, a, why):
                return False
            if may_inpT(A, a):
                return no("inputs or an alias passed as a call argument")
        return True
    return no("function expression")


def okt_s(br, A, s, why=None):
    def no(msg):
        if why is not None:
            why.append(msg)
        return False
    k = s[0]
    if k == "var":
        return True
    if k == "for":
        return no("loop (only in the alias-free fragment)")
    if k == "vari" and s[2][0] == "fun":
        Lf = list(s[2][1]) + hoist_vars(s[2][2])
        if br:
            return no("function expression inside a branch")
        if s[1] in A:
            return no("function stored in an alias-capable variable")
        if not all(okb_s(False, Lf, x) for x in s[2][2]):
            return no("function body outside the alias-free function fragment (outer variables, nesting, aliasing, "
                      "self/runtime)")
        return ("inputs" not in Lf and not any(x in A for x in Lf)) or no("function parameter/var shadows inputs or an alias")
    if k == "vari":
        return okt_e(br, A, s[2], why) and ((not may_inpT(A, s[2])) or no("inputs or an alias in a var initialiser"))
    if k in ("expr", "ret"):
        return okt_e(br, A, s[1], why)
    if k == "if":
        return okt_e(br, A, s[1], why) and all(okt_s(True, A, x, why) for x in s[2]) and all(okt_s(True, A, x, why) for x in s[3])
    if k == "fun":
        Lf = list(s[2]) + hoist_vars(s[3])
        if br:
            return no("function declaration inside a branch")
        if not all(okb_s(False, Lf, x) for x in s[3]):
            return no("function body outside the alias-free function fragment (outer variables, nesting, aliasing, "
                      "self/runtime, method calls)")
        return ("inputs" not in Lf and not any(x in A for x in Lf)) or no("function parameter/var shadows inputs or an alias")
    return False


def asg_e(e):
    k = e[0]
    if k in ("dot", "paren"):
        return asg_e(e[1])
    if k in ("idx", "add"):
        return asg_e(e[1]) + asg_e(e[2])
    if k == "cond":
        return asg_e(e[1]) + asg_e(e[2]) + asg_e(e[3])
    if k == "assign":
        return ([(e[1], e[2][1])] if e[2][0] == "id" else []) + asg_e(e[2])
    if k == "call":
        return asg_e(e[1]) + [p for a in e[2] for p in asg_e(a)]
    if k == "op":
        return [p for a in e[2] for p in asg_e(a)]
    if k == "logic":
        return asg_e(e[2]) + asg_e(e[3])
    return []


def asg_s(ss):
    out = []
    for s in ss:
        if s[0] in ("vari",) and s[2][0] != "fun":
            out += asg_e(s[2])
        elif s[0] in ("expr", "ret"):
            out += asg_e(s[1])
        elif s[0] == "if":
            out += asg_e(s[1]) + asg_s(s[2]) + asg_s(s[3])
    return out


def alias_set(prog):
    asg = asg_s(prog)
    A = ["inputs"]
    for _ in range(len(asg)):
        A = A + [x for (x, y) in asg if y in A and x not in A]
    return A


def in_fragmentT(lib, body, why=None):
    prog = list(lib) + list(body)
    A = alias_set(prog)
    return all(okt_s(False, A, s, why) for s in prog)


def in_fragmentC(lib, body):
    return (in_fragmentT(lib, body) or in_fragmentF(lib, body)
            or (not lib and all(ok_s(False, s) for s in body)))


def _body(p):
    return p[1] if p[0] == "js" else [["ret", ["paren", p[1]]]]


def in_fragment_alias(case):
    """C31_sound_partial: no library, every JS part function-free with tracked aliasing."""
    if case.get("lib") or case.get("parts") is None:
        return False
    return all(all(ok_s(False, s) for s in _body(p)) for p in case["parts"] if p[0] in ("js", "jsx"))


def in_fragment_funs(case):
    """C31_sound_functions_partial for every JS part (with the library)."""
    if case.get("parts") is None:
        return False
    return all(in_fragmentF(case.get("lib") or [], _body(p)) for p in case["parts"] if p[0] in ("js", "jsx"))


def in_fragment_T(case):
    """the new part of C31_sound_combined_partial (okT with the computed alias set) for every JS part."""
    if case.get("parts") is None:
        return False
    return all(in_fragmentT(case.get("lib") or [], _body(p)) for p in case["parts"] if p[0] in ("js", "jsx"))


def why_outside(case):
    """The syntactic feature that keeps a (realworld) expression outside every proved fragment."""
    if case.get("parts") is None:
        return "not in the modelled ES5 subset: " + str(case.get("why_not_modelled"))
    lib = case.get("lib") or []
    for p in case["parts"]:
        if p[0] == "ref" and p[1] == "inputs" and p[2] and p[2][0][0] == "idx":
            return "parameter reference inputs[<number>]"
        if p[0] in ("js", "jsx") and not in_fragmentC(lib, _body(p)):
            why = []
            in_fragmentT(lib, _body(p), why)
            return why[0] if why else "other"
    return "other"


def seg_key_nonempty(g):
    return g[0] == "idx" or g[1].replace("\\'", "'").replace('\\"', '"') != ""


def in_fragment(case):
    """parts_in_fragment of Model.v (C31_sound_interpolation_partial): the union of the proved fragments."""
    if case.get("parts") is None:           # realworld expression outside the modelled syntax
        return False
    lib = case.get("lib") or []
    for p in case["parts"]:
        if p[0] == "ref":
            if p[1] == "inputs" and p[2] and (p[2][0][0] == "idx" or not seg_key_nonempty(p[2][0])):
                return False
        elif p[0] in ("js", "jsx"):
            b = _body(p)
            if not in_fragmentC(lib, b):
                return False
    return True


# ------------------------------------------------------------------------------------------------ generation
class Ctx:
    def __init__(self, aliases=None, strs=None, funs=None):
        self.aliases = list(aliases or ["inputs"])
        self.strs = list(strs or [])
        self.funs = list(funs or [])      # (name, arity), functions returning strings
        self.captured = False
        self.noassign = set()             # parameters that shadow a tracked name: never assignment targets
                                          # (assigning them an untracked identifier is the nested_delete defect, or,
                                          # in a function expression, un-registers the outer alias)

    def copy(self):
        c = Ctx(self.aliases, self.strs, self.funs)
        c.captured = self.captured
        c.noassign = set(self.noassign)
        return c

    def targets(self):
        return [s for s in self.strs if s not in self.noassign]


class Gen:
    def __init__(self, rng):
        self.rng = rng
        self.n = 0

    def fresh(self, p):
        self.n += 1
        return f"{p}{self.n}"

    def inp(self, ctx):
        if not ctx.aliases:
            return None
        if "inputs" in ctx.aliases and self.rng.random() < 0.6:
            return ["id", "inputs"]
        return ["id", self.rng.choice(ctx.aliases)]

    def strlit(self, s=None):
        rng = self.rng
        if s is None:
            s = rng.choice(["a", "b", "ab", "k", "h", "inputs.a", "inputs['b']", "x", "", "a b", "it's", 'say "k"', "q"])
        if "'" in s and '"' in s:
            s = s.replace("'", "")
        dq = ("'" in s) or ('"' not in s and rng.random() < 0.5)
        return ["str", dq, s]

    def access(self, base, f):
        if IDENT.match(f) and f not in RESERVED and self.rng.random() < 0.6:
            return ["dot", base, f]
        return ["idx", base, self.strlit(f)]

    def g_str(self, ctx, d=0):
        rng = self.rng
        r = rng.random()
        base = self.inp(ctx)
        if d > 3 or r < 0.12:
            return self.strlit()
        if r < 0.15:
            return ["dot", ["id", "runtime"], rng.choice(["outdir", "tmpdir"])]
        if r < 0.45 and base:
            return self.access(base, rng.choice(STRF + ["a b"]))
        if r < 0.49 and base:
            return ["dot", self.access(base, "q"), rng.choice(["h", "p"])]
        if r < 0.52 and base:
            return ["idx", self.access(base, "arr"), ["num", 0]]
        if r < 0.65 and ctx.strs:
            return ["id", rng.choice(ctx.strs)]
        if r < 0.78:
            return ["add", self.g_str(ctx, d + 1), self.g_str(ctx, d + 1) if rng.random() < 0.8 else ["num", rng.randrange(0, 12)]]
        if r < 0.83:
            return ["cond", self.g_any(ctx, d + 1), self.g_str(ctx, d + 1), self.g_str(ctx, d + 1)]
        if r < 0.86:
            return ["call", ["dot", self.g_str(ctx, d + 2), rng.choice(["concat", "concat", "toString"])], []] \
                if rng.random() < 0.3 else ["call", ["dot", self.g_str(ctx, d + 2), "concat"], [self.g_str(ctx, d + 2)]]
        if r < 0.95 and ctx.funs:
            f, ar = rng.choice(ctx.funs)
            return ["call", ["id", f], [self.g_str(ctx, d + 1) for _ in range(ar)]]
        return ["paren", self.g_str(ctx, d + 1)]

    def g_any(self, ctx, d=0):
        rng = self.rng
        r = rng.random()
        base = self.inp(ctx)
        if r < 0.45 or not base:
            return self.g_str(ctx, d)
        if r < 0.50:
            return ["num", rng.randrange(0, 30)]
        if r < 0.55:
            q = rng.random()
            if q < 0.25:
                return ["op", rng.choice(["<", ">", "<=", ">=", "*", "==="]), [["num", rng.randrange(0, 9)], ["num", rng.randrange(0, 9)]]]
            if q < 0.45:
                return ["op", rng.choice(["===", "!==", "==", "!="]), [self.g_str(ctx, d + 2), self.g_str(ctx, d + 2)]]
            if q < 0.6:
                return ["op", "!", [self.g_any(ctx, d + 2)]]
            if q < 0.75:
                return ["logic", rng.random() < 0.5, self.g_any(ctx, d + 2), self.g_str(ctx, d + 2)]
            if q < 0.85:
                return ["op", rng.choice(["==", "!=="]), [self.access(base, rng.choice(["zz", "a"])), ["op", "null", []]]]
            if q < 0.93:
                return ["op", "arr", [self.g_str(ctx, d + 2) for _ in range(rng.randrange(0, 3))]]
            return ["op", "obj", [self.g_str(ctx, d + 2), self.g_any(ctx, d + 2)], ["class", "p q"]]
        if r < 0.85:
            return self.access(base, rng.choice(["c", "t", "z", "zz", "q"]))
        if r < 0.92:
            return ["bool", rng.random() < 0.5]
        return ["dot", self.g_str(ctx, d + 1), "length"]

    def branch(self, ctx, d):
        rng = self.rng
        out = []
        for _ in range(rng.randrange(0, 3)):
            r = rng.random()
            al = [a for a in ctx.aliases if a != "inputs"]
            if r < 0.4 and ctx.targets():
                out.append(["expr", ["assign", rng.choice(ctx.targets()), self.g_str(ctx, 2)]])
            elif r < 0.6 and al and "inputs" in ctx.aliases:
                out.append(["expr", ["assign", rng.choice(al), ["id", "inputs"]]])
            elif r < 0.8 and d < 2:
                out.append(["if", self.g_any(ctx, 2), self.branch(ctx, d + 1), self.branch(ctx, d + 1)])
            else:
                out.append(["expr", self.g_any(ctx, 2)])
        return out

    def fun_body(self, ctx, params, d):
        """Statements of a function whose parameters hold strings; returns a string."""
        rng = self.rng
        c = ctx.copy()
        for p in params:
            if p in c.aliases or p == "inputs":
                c.noassign.add(p)
            if p in c.aliases:
                c.aliases.remove(p)
            if p not in c.strs:
                c.strs.append(p)
        c.captured = True
        out = []
        for _ in range(rng.randrange(0, 3)):
            r = rng.random()
            if r < 0.4:
                v = self.fresh("l")
                out.append(["vari", v, self.g_str(c, 2)])
                c.strs.append(v)
            elif r < 0.55 and d < 2:
                out.extend(self.fun_decl(c, d + 1))
            elif r < 0.75:
                out.append(["if", self.g_any(c, 2), self.branch(c, 1), self.branch(c, 1)])
            else:
                out.append(["expr", self.g_any(c, 2)])
        out.append(["ret", self.g_str(c, 1)])
        return out

    def params(self, ctx):
        rng = self.rng
        ps_ = [self.fresh("p") for _ in range(rng.randrange(0, 3))]
        if ps_ and rng.random() < 0.3:        # shadowing: a parameter named like an alias (or inputs itself)
            ps_[0] = rng.choice(ctx.aliases) if ctx.aliases else "inputs"
        return ps_

    def plain_fun(self, ctx):
        """function f(p..) { .. } touching only its own parameters/vars and inputs.f (the proved function fragment)."""
        rng = self.rng
        name = self.fresh("f")
        ps_ = [self.fresh("p") for _ in range(rng.randrange(0, 3))]
        c = Ctx(["inputs"], list(ps_), list(ctx.funs))
        body = []
        for _ in range(rng.randrange(0, 3)):
            r = rng.random()
            if r < 0.45:
                v = self.fresh("l")
                body.append(["vari", v, self.g_str(c, 2)])
                c.strs.append(v)
            elif r < 0.7:
                body.append(["if", self.g_any(c, 2), self.branch(c, 1), self.branch(c, 1)])
            else:
                body.append(["expr", self.g_any(c, 2)])
        body.append(["ret", self.g_str(c, 1)])
        ctx.funs.append((name, len(ps_)))
        ctx.captured = True
        return [["fun", name, ps_, body]]

    def funfrag_case(self):
        """A well-tracked program of the function fragment: library/body function declarations, no aliases."""
        rng = self.rng
        ctx = Ctx()
        lib = []
        if rng.random() < 0.5:
            for _ in range(rng.randrange(1, 3)):
                lib.extend(self.plain_fun(ctx))
        body = []
        aliasing = rng.random() < 0.5          # aliases in the outermost frame next to the functions (combined fragment)
        for _ in range(rng.choice([0, 1, 2, 3, 4])):
            r = rng.random()
            if aliasing and r < 0.2:
                v = self.fresh("x")
                body.append(["var", v])
                body.append(["expr", ["assign", v, self.inp(ctx)]])
                ctx.aliases.append(v)
            elif r < 0.3:
                v = self.fresh("s")
                body.append(["vari", v, self.g_str(ctx, 1)])
                ctx.strs.append(v)
            elif r < 0.4 and ctx.strs:
                body.append(["expr", ["assign", rng.choice(ctx.strs), self.g_str(ctx, 1)]])
            elif r < 0.55:
                body.append(["if", self.g_any(ctx, 1), self.branch(ctx, 0), self.branch(ctx, 0)])
            elif r < 0.75:
                body.extend(self.plain_fun(ctx))
            elif r < 0.85 and not aliasing:
                i = self.fresh("i")
                body.append(["for", [["vari", i, ["num", 0]]], ["op", "<", [["id", i], ["num", rng.randrange(0, 3)]]],
                             ["assign", i, ["add", ["id", i], ["num", 1]]], self.branch(ctx, 1)])
            else:
                body.append(["expr", self.g_any(ctx, 1)])
        al = [a for a in ctx.aliases if a != "inputs"]
        if aliasing and al:
            # an alias registered before a function declaration and used after it
            body.extend(self.plain_fun(ctx))
            body.append(["ret", ["add", self.access(["id", rng.choice(al)], rng.choice(STRF)), self.g_str(ctx, 1)]])
        else:
            body.append(["ret", self.g_any(ctx, 0)])
        return {"f": "safe", "lib": lib, "parts": [["js", body]]}

    def fun_decl(self, ctx, d):
        name = self.fresh("f")
        ps_ = self.params(ctx)
        body = self.fun_body(ctx, ps_, d)
        ctx.funs.append((name, len(ps_)))
        ctx.captured = True
        return [["fun", name, ps_, body]]

    def top(self, ctx, n, nofun=False):
        """n top-level statement groups of a well-tracked program (nofun: no function declarations/expressions)."""
        rng = self.rng
        out = []
        for _ in range(n):
            r = rng.random()
            if nofun and 0.7 <= r < 0.88:
                r = 0.95
            if r < 0.2:
                v = self.fresh("s")
                out.append(["vari", v, self.g_str(ctx, 1)])
                ctx.strs.append(v)
            elif r < 0.3 and ctx.targets():
                out.append(["expr", ["assign", rng.choice(ctx.targets()), self.g_str(ctx, 1)]])
            elif r < 0.5:
                v = self.fresh("x")
                out.append(["var", v])
                out.append(["expr", ["assign", v, self.inp(ctx)]])
                ctx.aliases.append(v)
            elif r < 0.56 and ctx.strs and not ctx.captured:
                al = [a for a in ctx.aliases if a != "inputs"]
                if al:                          # an alias re-bound to a string: the listener forgets it
                    x = rng.choice(al)
                    out.append(["expr", ["assign", x, ["id", rng.choice(ctx.strs)]]])
                    ctx.aliases.remove(x)
                    ctx.strs.append(x)
            elif r < 0.7:
                out.append(["if", self.g_any(ctx, 1), self.branch(ctx, 0), self.branch(ctx, 0)])
            elif r < 0.82:
                out.extend(self.fun_decl(ctx, 0))
            elif r < 0.88:
                name = self.fresh("g")       # function expression bound to a variable
                ps_ = self.params(ctx)
                body = self.fun_body(ctx, ps_, 1)
                out.append(["vari", name, ["fun", ps_, body]])
                ctx.funs.append((name, len(ps_)))
                ctx.captured = True
            else:
                out.append(["expr", self.g_any(ctx, 1)])
        return out

    def hazard(self, kind, ctx):
        rng = self.rng
        F = rng.choice(STRF)
        v, w, g = self.fresh("hz"), self.fresh("hw"), self.fresh("hg")
        I = ["id", "inputs"]
        if kind == "computed":
            r = rng.random()
            base = self.inp(ctx) or I
            if r < 0.25:
                k = ["add", self.strlit("a"), self.strlit("b")]
            elif r < 0.5:
                return [["vari", v, self.strlit(F)], ["expr", ["idx", base, ["id", v]]]]
            elif r < 0.7:
                k = ["dot", I, "k"]
            elif r < 0.85:
                k = ["num", rng.randrange(0, 3)]
            else:
                k = ["paren", self.strlit(F)]
            return [["expr", ["idx", base, k]]]
        if kind == "var_init":
            return [["vari", v, I], ["expr", self.access(["id", v], F)]]
        if kind == "fn_param":
            return [["fun", g, ["i"], [["ret", self.access(["id", "i"], F)]]], ["expr", ["call", ["id", g], [I]]]]
        if kind == "fn_return":
            return [["fun", g, [], [["ret", I]]], ["expr", self.access(["call", ["id", g], []], F)]]
        if kind == "paren":
            b = ["paren", I] if rng.random() < 0.6 else ["paren", ["cond", ["dot", I, "t"], I, I]]
            return [["expr", self.access(b, F)]]
        if kind == "reserved":
            return [["expr", ["dot", I, rng.choice(["class", "default"])]]]
        if kind == "inner_scope":
            return [["fun", g, [], [["var", v], ["expr", ["assign", v, I]], ["ret", self.access(["id", v], F)]]],
                    ["expr", ["call", ["id", g], []]]]
        if kind == "branch_delete":
            return [["var", v], ["expr", ["assign", v, I]], ["vari", w, self.strlit("s")],
                    ["if", ["dot", I, "z"], [["expr", ["assign", v, ["id", w]]]], []],
                    ["expr", self.access(["id", v], F)]]
        if kind == "strip":
            return [["expr", ["idx", I, ["str", True, "'a'"]]]]
        if kind == "chain_assign":
            return [["var", v], ["var", w], ["expr", ["assign", v, ["assign", w, I]]], ["expr", self.access(["id", v], F)]]
        if kind == "closure_late":
            return [["var", v], ["fun", g, [], [["ret", self.access(["id", v], F)]]], ["expr", ["assign", v, I]],
                    ["expr", ["call", ["id", g], []]]]
        if kind == "nested_delete":
            out = [["var", v], ["expr", ["assign", v, I]], ["vari", w, self.strlit("s")],
                   ["fun", g, [], [["expr", ["assign", v, ["id", w]]], ["ret", ["id", w]]]]]
            if rng.random() < 0.5:
                out.append(["expr", ["call", ["id", g], []]])
            return out
        raise ValueError(kind)

    def js_case(self, kind):
        rng = self.rng
        ctx = Ctx()
        lib = []
        if rng.random() < 0.25:
            for _ in range(rng.randrange(1, 3)):
                lib.extend(self.fun_decl(ctx, 1))
        n = rng.choice([0, 1, 2, 3, 4, 6])
        nofun = kind == "safe" and not lib and rng.random() < 0.5     # candidates for the proved fragment
        pre = self.top(ctx, n, nofun)
        body = pre
        if kind == "safe" and not nofun and rng.random() < 0.3:
            # a function whose parameter shadows `inputs`, called with a string, followed (below) by a read of
            # the real inputs: the shadowing must end with the function
            f = self.fresh("sh")
            inner = [["ret", ["dot", ["id", "inputs"], "length"]]]
            if rng.random() < 0.5:
                inner = [["expr", self.access(["id", "inputs"], "length")]] + inner
            body = body + [["fun", f, ["inputs"], inner], ["expr", ["call", ["id", f], [self.strlit("abc")]]]]
            ctx.funs.append((f, 1))
            ctx.captured = True
            body = body + [["ret", ["add", ["call", ["id", f], [self.strlit("zzz")]],
                                    self.access(["id", "inputs"], rng.choice(STRF))]]]
            return {"f": kind, "lib": lib, "parts": [["js", body]]}
        if kind != "safe":
            body = body + self.hazard(kind, ctx)
            if kind != "nested_delete" and rng.random() < 0.5:
                body = body + self.top(ctx, rng.randrange(0, 2))
        if kind == "safe" and rng.random() < 0.3 and not lib:
            e = self.g_any(ctx, 0) if not body else None
            if e is not None:
                return {"f": kind, "lib": [], "parts": [["jsx", e]]}
        body = body + [["ret", self.g_any(ctx, 0)]]
        return {"f": kind, "lib": lib, "parts": [["js", body]]}

    def ref(self):
        rng = self.rng
        root = rng.choice(["inputs"] * 8 + ["self", "runtime", "other"])
        segs = []
        for _ in range(rng.choice([0, 1, 1, 1, 2, 2, 3])):
            r = rng.random()
            f = rng.choice(list(INPUTS) + ["zz", "length", "h", "p"])
            if r < 0.45 and re.match(r"^\w+$", f):
                segs.append(["dot", f])
            elif r < 0.7:
                segs.append(["sq", f.replace("'", "\\'")])
            elif r < 0.9:
                segs.append(["dq", f.replace('"', '\\"')])
            else:
                segs.append(["idx", rng.randrange(0, 3)])
        return ["ref", root, segs]

    def interp(self):
        rng = self.rng
        parts = []
        for _ in range(rng.randrange(1, 5)):
            r = rng.random()
            if r < 0.35:
                parts.append(["text", rng.choice(["", "pre ", "-", " inputs.a ", "x=", ".txt", "a b"])])
            elif r < 0.7:
                r_ = self.ref()
                if r_[2] and r_[2][0][0] == "idx":
                    r_[2][0] = ["dot", "a"]
                parts.append(r_)
            elif r < 0.9:
                parts.append(["jsx", self.g_str(Ctx(), 1)])
            else:
                parts.append(self.funfrag_case()["parts"][0] if False else ["js", [["ret", self.g_str(Ctx(), 1)]]])
        return {"f": "interp", "lib": [], "parts": parts}


def _valid(case):
    """$(expr) parts must not be parameter references in disguise (cwl_utils would not send them to JS)."""
    for p in case["parts"]:
        if p[0] == "jsx" and PARAM_RE.match("(" + pe(p[1]) + ")"):
            return False
    t = render(case)
    return "$(" in t or "${" in t


class C31(Prop):
    ID = "C31"
    PROPS_FILE = "Props/C31.v"
    CORR_MODULE = "JsDeps.Corr"
    LEVEL = "proof"
    LEVEL_TEXT = ("Theorems (Coq, closed under the global context) over a model of CWLDependencyListener/NamesStack/"
                  "regex_eval and an instrumented big-step evaluator of an ES5 fragment (inputs, self, runtime bound); each "
                  "says: for EVERY program of a syntactic fragment (boolean predicate in JsDeps/Model.v), EVERY inputs object "
                  "and EVERY fuel, the analysis does not fail and a terminating evaluation reads only fields of the "
                  "dependency set. C31_sound_combined_partial (in_fragmentC, a superset of the fragments of "
                  "C31_sound_partial and C31_sound_functions_partial; its new part, C31_sound_alias_set, holds for every "
                  "consistent set of alias-capable names): expressionLib + body where inputs may be aliased by "
                  "identifier-to-identifier assignment in the outermost frame, with top-level function declarations and "
                  "calls (recursion allowed) as long as no alias crosses a function boundary (not passed, returned, captured "
                  "or created inside a function), plain variables / self / runtime unrestricted. C31_paramref_sound: "
                  "parameter references. C31_sound_interpolation_partial: whole interpolated strings mixing text, "
                  "references and JS parts of the combined fragment. C31_*_refuted: kernel-computed counterexamples showing "
                  "the property text is FALSE of the analysis outside the fragments (computed access, nested-scope "
                  "assignment: analysis raises; aliasing through var initialisers / chained assignment / parenthesised bases "
                  "/ function parameters / returns / closures / aliases created inside functions, branch-insensitive alias "
                  "deletion, reserved-word fields, quote stripping, index-first references: reads lost). The model is tied "
                  "to /repo by running resolve_dependencies and the model listener on generated and on real-world "
                  "expressions, and to JavaScript by comparing the model evaluator's read set with node's.")
    LEVEL_NOTE = ("the positive theorems quantify over the evaluations of the MODEL evaluator that terminate normally: on "
                  "in-fragment programs where it answers Unsup (numeric + on booleans/undefined, string characters, native "
                  "methods other than concat/toString, property access on arrays/objects built by the expression) they are "
                  "vacuous and the read-set comparison with node is skipped; the evidence sample model_evaluator_support "
                  "counts those cases per run; 'every inputs object' is a Coq statement, the harness exercises 3 shapes of "
                  "inputs. The modelled syntax now covers comparison/arithmetic/logical operators, null, array/object/regexp "
                  "literals, method calls, loops, function-valued variables, comments and string escapes (lexer level): of "
                  "the expressions found in real .cwl files 18/20 (/repo) and 141/160 (cwltool, cwl_utils test data), i.e. "
                  "159/180 = 88 %, are translated AND lie in the proved fragment; the evidence sample realworld_expressions "
                  "lists what keeps each remaining one out (function bodies using outer variables or nesting 6, `new` 4, "
                  "template literals 3, backslash in text 3, a function expression as call argument 1, inputs passed as an "
                  "argument 1, other syntax 3). partial: nested or shadowing functions, function expressions as values, "
                  "loops or function-valued variables combined with aliases of inputs, whole-object uses of inputs. Trusted: "
                  "Coq kernel + vm_compute; the hand-written model JsDeps/Model.v; the harness' printer/mini-parser (AST <-> "
                  "JS text) and the ANTLR parser are not modelled; node 20 and cwl_utils' scanner/regex_eval are reference "
                  "oracles. No axioms.")
    TECHNIQUE = ("Coq proof (simulation invariant between the listener's name set and the evaluator's store, by induction "
                 "on evaluation fuel; induction over reference segments; kernel-computed counterexamples) + vm_compute "
                 "correspondence against resolve_dependencies and node")
    RULE = ("structured expressions: well-tracked programs (aliases via assignment, re-binding, if/else, ternaries, "
            "function declarations/expressions with shadowing parameters and nesting, expressionLib functions, string "
            "literals mentioning inputs), parameter references (dot/single/double/index segments, escaped quotes, "
            "non-inputs roots), interpolated strings, and one program per known-mishandled construct class. "
            "About half of the `safe` programs are function-free candidates for the proved fragment; the evidence sample "
            "`fragment_membership` counts, per kind, the cases inside the fragment of C31_sound_partial (flag recomputed "
            "by the model). Some `safe` programs declare a function whose parameter shadows `inputs` and then read the "
            "real inputs. Non-trivial = has a JS part or a reference with a segment. Distinct = distinct canonical JSON.")
    TRUSTED = ("model: JsDeps/Model.v (listener, NamesStack, regex_eval, ES5-fragment evaluator) is hand-written",
               "the printer AST -> JavaScript text in harness/props/c31.py and the ANTLR ECMAScript parser are not "
               "modelled: the model walks the AST in the order the walker visits the parse tree of the printed text",
               "node 20 (vm + Proxy) and cwl_utils.expression.interpolate / regex_eval define what an evaluation reads")
    ASSUMPTIONS = ("a read is a property get/has on the inputs object itself during evaluation; serialising the result "
                   "of the expression is not counted",
                   "expressions are evaluated with InlineJavascriptRequirement (full_js=True)",
                   "only the `inputs` context key is examined (resolve_dependencies(context_key='runtime') on JS "
                   "bodies still looks for `inputs`: noted, outside the property text)")
    MAX_WORKERS = 6
    CASE_TIMEOUT = 240
    SHARD_TIMEOUT = 3000
    COQ_SHARD = 150

    # ---------------------------------------------------------------- generation
    def gen(self, rng, tier):
        n = {"quick": 200, "thorough": 2000, "extended": 400}[tier]
        g = Gen(rng)
        cases = []
        while len(cases) < n:
            r = rng.random()
            g.n = 0
            if r < 0.12:
                c = g.funfrag_case()
            elif r < 0.5:
                c = g.js_case("safe")
            elif r < 0.62:
                r_ = g.ref()
                c = {"f": "ref_index" if r_[1] == "inputs" and r_[2] and r_[2][0][0] == "idx" else "ref",
                     "lib": [], "parts": [r_]}
            elif r < 0.72:
                c = g.interp()
            else:
                c = g.js_case(rng.choice(HAZARDS))
            c = normalise(c)
            c["inp"] = rng.randrange(len(SHAPES))
            if _valid(c) and _ascii_ok(json.dumps(c)):
                cases.append(c)
        return cases

    # ---------------------------------------------------------------- implementation
    def impl_init(self):
        import cwl_utils.expression
        import cwl_utils.sandboxjs
        import cwl_utils.types
        from cwl_utils.errors import JavascriptException

        from streamflow.cwl import utils as cu

        self.cu, self.cex, self.ctypes = cu, cwl_utils.expression, cwl_utils.types
        self._node()
        prop = self

        class Rec(dict):
            reads: list = []

            def __getitem__(self, k):
                prop.reads.append(k)
                return dict.__getitem__(self, k)

            def __contains__(self, k):
                prop.reads.append(k)
                return dict.__contains__(self, k)

        base = cwl_utils.sandboxjs.get_js_engine().__class__

        class Engine(base):
            def eval(self, scan, jslib="", **kw):
                code = cwl_utils.sandboxjs.code_fragment_to_js(scan, jslib)
                prop.node_busy = True
                prop.node.stdin.write(json.dumps({"code": code, "inputs": prop.inputs, "runtime": RUNTIME,
                                                  "universal": prop.universal}) + "\n")
                prop.node.stdin.flush()
                out = json.loads(prop.node.stdout.readline())
                prop.node_busy = False
                prop.reads.extend(out["reads"])
                if not out["ok"]:
                    raise JavascriptException(out["err"])
                return out["value"]

        self.Rec, self.Engine = Rec, Engine

    def _node(self):
        self.node = subprocess.Popen(["node", os.path.join(os.path.dirname(os.path.abspath(__file__)), "c31_eval.js")],
                                     stdin=subprocess.PIPE, stdout=subprocess.PIPE, text=True, bufsize=1)
        self.node_busy = False

    def impl_run(self, c):
        if self.node_busy:                   # a previous case timed out between request and answer
            self.node.kill()
            self._node()
        text = render(c)
        lib = c["lib_text"] if "lib_text" in c else [ps(s) for s in c.get("lib", [])]
        self.universal = c["f"] == "realworld"
        self.inputs = SHAPES[c.get("inp", 0)]
        o = {"text": text}
        try:
            o["deps"] = sorted(self.cu.resolve_dependencies(text, full_js=True, expression_lib=lib or None))
        except Exception as e:  # noqa: BLE001  (the exception class is the observation)
            if type(e).__name__ == "_Timeout":
                raise
            o["deps_err"] = type(e).__name__
        self.reads = []
        ctx = self.ctypes.CWLParameterContext(inputs=self.Rec(self.inputs), self=None, runtime=dict(RUNTIME))
        try:
            self.cex.interpolate(text, ctx, jslib="\n".join(lib), fullJS=True, js_engine=self.Engine())
            o["ok"] = True
        except Exception as e:  # noqa: BLE001
            if type(e).__name__ == "_Timeout":
                raise
            o["ok"] = False
            o["eval_err"] = type(e).__name__ + ":" + str(e)[:60]
        o["reads"] = sorted(set(self.reads))
        return o

    # ---------------------------------------------------------------- oracle (from the property text)
    def oracle(self, c, o):
        if "crash" in o or "hang" in o:
            return ("crash", f"implementation crashed/hung: {str(o)[:300]}")
        if not o.get("ok"):
            return None                       # the text speaks about expressions that evaluate successfully
        if "deps_err" in o:
            return ("analysis-fails", f"resolve_dependencies({o['text']!r}) raised {o['deps_err']} although the "
                                      f"expression evaluates successfully")
        missing = [r for r in o["reads"] if r not in o["deps"]]
        if missing:
            return ("missing-dep", f"evaluating {o['text']!r} reads inputs fields {missing} that are not in the "
                                   f"dependency set {o['deps']}")
        return None

    # ---------------------------------------------------------------- model side
    def coq_case(self, c, o):
        if "crash" in o or "hang" in o or not _ascii_ok(json.dumps(c)):
            return None
        real = c["f"] == "realworld"
        if real:
            st_ = self._real.setdefault(c["src"].split(":")[0], [0, 0, 0, 0])
            st_[0] += 1
            st_[1] += c.get("parts") is not None
            st_[2] += in_fragment(c)
            st_[3] += bool(o.get("ok"))
            if not in_fragment(c):
                rs = self._why.setdefault(c["src"].split(":")[0], {})
                w = why_outside(c)
                rs[w] = rs.get(w, 0) + 1
            if c.get("parts") is None:
                return None
        if "deps" in o:
            if not _ascii_ok(o["deps"]):
                return None
            d = "(ODeps " + coq_list([coq_str(x) for x in o["deps"]]) + ")"
        elif o.get("deps_err") in ("AttributeError", "KeyError"):
            d = f"(OErr {o['deps_err']})"
        else:
            d = "OOther"
        if str(o.get("eval_err", "")).startswith("JavascriptException:harness") or not _ascii_ok(o.get("reads", [])):
            e = "ONoEval"
        else:
            e = (f"({'OReads' if real else 'OEval'} {coq_bool(o['ok'])} "
                 + coq_list([coq_str(x) for x in o["reads"]]) + ")")
        frag = in_fragment(c)
        has_js = any(p[0] in ("js", "jsx") for p in c["parts"])
        st_ = self._frag.setdefault(c["f"], [0, 0, 0, 0, 0, 0])
        st_[0] += 1
        st_[1] += has_js
        st_[2] += frag and has_js
        st_[3] += has_js and in_fragment_alias(c)
        st_[4] += has_js and in_fragment_funs(c)
        st_[5] += has_js and in_fragment_T(c)
        term = (f"CCase {css(c.get('lib') or [])} {coq_list([cpart(p) for p in c['parts']])} "
                f"{cinputs(c.get('inp', 0))} {d} {e} {coq_bool(frag)}")
        if len(self._terms) < 250:
            self._terms.append(term)
        return term

    _terms: list = []

    def _eval_counts(self):
        """How often the model evaluator answers Unsup/NoFuel (the read-set comparison is then skipped): one extra
        coqc evaluation of Corr.eval_counts over (at most 250 of) the case terms of this run."""
        import re as _re
        import subprocess as _sp
        import tempfile

        from harness.lib.framework import BUILD, COQ_DIR
        if not self._terms:
            return None
        d = os.path.join(BUILD, "corr")
        os.makedirs(d, exist_ok=True)
        fn = os.path.join(d, f"cnt_C31_{os.getpid()}.v")
        with open(fn, "w") as f:
            f.write("From Coq Require Import List NArith ZArith String.\n")
            f.write("From SF Require Import Base.Str Base.Corr JsDeps.Corr.\nImport ListNotations.\n")
            f.write("Definition cases : list ccase :=\n [ " + "\n ; ".join(self._terms) + " ].\n")
            f.write("Eval vm_compute in (eval_counts cases).\n")
        try:
            r = _sp.run(["coqc", "-Q", os.path.join(COQ_DIR, "theories"), "SF", fn], capture_output=True, text=True,
                        timeout=900)
            m = _re.search(r"= \((\d+), (\d+), (\d+), (\d+)\)", " ".join(r.stdout.split()))
            out = None
            if m:
                a, b, c_, d_ = map(int, m.groups())
                out = {"cases_counted": len(self._terms), "with_an_observed_evaluation": a,
                       "answered_by_the_model_evaluator": b, "model_answered_Unsup_or_NoFuel(read sets not compared)": a - b,
                       "in_a_proved_fragment": c_, "in_a_proved_fragment_and_answered": d_,
                       "in_a_proved_fragment_but_Unsup(theorem vacuous there)": c_ - d_}
        except Exception as e:  # noqa: BLE001
            out = {"error": str(e)[:200]}
        for ext in (".v", ".vo", ".vok", ".vos", ".glob"):
            try:
                os.remove(fn[:-2] + ext)
            except OSError:
                pass
        try:
            os.remove(os.path.join(d, "." + os.path.basename(fn)[:-2] + ".aux"))
        except OSError:
            pass
        return out

    _frag: dict = {}
    _real: dict = {}
    _why: dict = {}

    def extra_samples(self):
        tot = {k: {"cases": v[0], "with_js_part": v[1], "with_js_part_in_proved_fragment": v[2],
                   "…of_C31_sound_partial(aliases,no functions)": v[3],
                   "…of_C31_sound_functions_partial(functions,no aliases)": v[4],
                   "…of_okT(alias_set): aliases in the outermost frame + alias-free functions": v[5]}
               for k, v in sorted(self._frag.items())}
        real = {k: {"expressions": v[0], "translated_to_the_model_AST": v[1], "in_proved_fragment": v[2],
                    "evaluated_successfully_by_node(universal inputs)": v[3]} for k, v in sorted(self._real.items())}
        for k in real:
            real[k]["outside_the_proved_fragment_because"] = dict(sorted(self._why.get(k, {}).items(),
                                                                         key=lambda kv: -kv[1]))
        return [{"model_evaluator_support": self._eval_counts(),
                 "inputs_shapes": f"{len(SHAPES)} shapes of the inputs object (strings/numbers/booleans/empty string, a "
                                  "nested object, an array, fields named length and 1), chosen per generated case",
                 "realworld_expressions(repo = *.cwl under /repo; pkg = cwltool/tests + cwl_utils/testdata)": real,
                 "fragment_membership": tot,
                 "note": "cases (per kind) that lie inside the syntactic fragment on which C31_sound_partial is proved; "
                         "the flag is recomputed by Corr.check_case with the model's in_fragment, and for those cases "
                         "check_case also requires observed reads <= observed deps and no analysis failure"}]

    def nontrivial(self, c):
        if c.get("parts") is None:
            return True
        return any(p[0] in ("js", "jsx") or (p[0] == "ref" and p[2]) for p in c["parts"])

    def signature(self, c, o, clause):
        if c["f"] == "realworld":
            return f"{clause}/realworld:{c['src'].split(':', 1)[1]}"
        return f"{clause}/{c['f']}"

    def shrink(self, c):
        if c["f"] == "realworld":
            return
        parts = c["parts"]
        if len(parts) > 1:
            for i in range(len(parts)):
                yield {**c, "parts": parts[:i] + parts[i + 1:]}
        lib = c.get("lib", [])
        for i in range(len(lib)):
            yield {**c, "lib": lib[:i] + lib[i + 1:]}
        for j, p in enumerate(parts):
            if p[0] == "js":
                body = p[1]
                for i in range(len(body)):
                    nb = body[:i] + body[i + 1:]
                    yield {**c, "parts": parts[:j] + [["js", nb]] + parts[j + 1:]}
                for i, s in enumerate(body):
                    if s[0] == "if":
                        for repl in (s[2], s[3], []):
                            nb = body[:i] + repl + body[i + 1:]
                            yield {**c, "parts": parts[:j] + [["js", nb]] + parts[j + 1:]}
                    if s[0] in ("ret", "expr", "vari") and s[-1][0] not in ("str", "id"):
                        ns = s[:-1] + [["str", True, "s"]]
                        yield {**c, "parts": parts[:j] + [["js", body[:i] + [ns] + body[i + 1:]]] + parts[j + 1:]}


PROP = C31()
