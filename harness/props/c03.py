"""C03 — Ports deliver every token to every consumer exactly once, in order."""
from collections import Counter

from harness.lib.framework import Prop, coq_bool, coq_list, coq_N, coq_nat, coq_str
from harness.lib.looputil import permute_ready

TAGS = ["0", "0.0", "0.1", "1", "0.10", "0.1.2"]


def _tok(t):
    return f"(Tok {coq_N(t[1])} {coq_str(t[2])})" if t[0] == "t" else f"(Term {coq_N(t[1])})"


def _ev(e):
    return f"({coq_nat(e[0])}, {coq_str(e[1])}, {_tok(e[2])})"


def _admit(flt, t):
    """the filter predicate of a case, on a non-termination token ["t", id, tag]"""
    if flt["kind"] == "tags":
        return t[2] in flt["tags"]
    if flt["kind"] == "idlt":
        return t[1] < flt["n"]
    return t[1] % 2 == 0


class C03(Prop):
    ID = "C03"
    PROPS_FILE = "Props/C03.v"
    CORR_MODULE = "Port.Corr"
    LEVEL_TEXT = ("Theorems (Coq, closed under the global context) over a model of Port, FilterTokenPort and "
                  "InterWorkflowPort (asyncio.Queue = pending items + number of blocked getters): for every sequence of "
                  "put/get/add_inter_port operations, every port of the system and every consumer, the tokens returned "
                  "to the consumer are exactly the first k tokens of the port's history, k = number of its gets (exactly "
                  "once, in put order, late subscribers included, blocked gets served by later puts); the history of a "
                  "plain port is the puts, of a filter port the admitted puts and terminations, of an inter-workflow "
                  "port and of each of its boundary targets exactly what ONE specification computed from the operation "
                  "history puts on it (C03_boundary: a rule is shown the replayed history and every later token, and acts "
                  "on a token -- token if PROPAGATE, then Term RECOVERED if TERMINATE -- iff its boundary tag multiset is "
                  "covered by the tags shown to it, rules in order, the port keeping the token iff no covered self-rule "
                  "matched; a covered rule stays covered and acts on every later token). SCOPE of 'no consumer observes "
                  "tokens after a termination token': NOT a theorem. Proved only: a token seen after a termination token "
                  "entered the port's history after it (C03_after_term_partial), hence nothing follows a termination "
                  "token on a plain or filter port whose producers put nothing after it (C03_term_last_partial, "
                  "C03_term_last_filter_partial). For an "
                  "inter-workflow port the clause is REFUTED (C03_inter_term_then_token_refuted): a complete TERMINATE "
                  "rule re-fires on every later token, so the port ITSELF puts tokens and terminations after a "
                  "termination token on the boundary target although no producer ever put a termination token; the "
                  "check finds it on the real code and lists it as a known finding. Unbounded histories, consumers, rules. The model is tied to /repo by running the real "
                  "classes and the model on generated operation histories (also under a shuffling event loop).")
    LEVEL_NOTE = ("Trusted: Coq kernel + vm_compute; hand-written model Port/Model.v (tied to the code by the correspondence "
                  "run only); asyncio.Queue/event loop internals; boundary targets are plain Ports or the port itself "
                  "(targets that are themselves InterWorkflowPorts with rules are outside the model); Port.close/"
                  "task_done accounting not modelled. No axioms.")
    TECHNIQUE = "Coq proof (invariant over operation histories) + vm_compute correspondence against the real port classes"
    RULE = ("random histories of put / termination / get (1..4 consumers, late subscribers, gets that block and are served "
            "later, up to two outstanding gets per consumer) on Port, FilterTokenPort (tag-list / id predicates) and "
            "InterWorkflowPort with 0..2 extra target ports and 0..3 boundary rules (PROPAGATE/TERMINATE/both/neither, "
            "self or other target, tag lists with repeats, added before or after puts); half of the cases run under an "
            "event loop that shuffles its ready queue. Non-trivial = at least one put and one get. "
            " Distinct = distinct canonical JSON.")
    TRUSTED = ("model: Port/Model.v (Port.put/get/_init_consumer, FilterTokenPort.put, InterWorkflowPort.put/"
               "add_inter_port/_execute_boundary_action, BoundaryRule) is hand-written; asyncio.Queue and the event loop "
               "are not verified, only exercised",)
    ASSUMPTIONS = ("a consumer's outstanding gets are served in FIFO order by asyncio.Queue",
                   "boundary targets other than the port itself are plain Ports")
    MAX_WORKERS = 4
    COQ_SHARD = 300

    # ---------------------------------------------------------------- generation
    def _case(self, rng, tier):
        r = rng.random()
        f = "plain" if r < 0.3 else "filter" if r < 0.55 else "inter"
        nothers = rng.choice([0, 1, 1, 2]) if f == "inter" else 0
        ncons = rng.randrange(1, 5)
        cons = [f"c{i}" for i in range(ncons)]
        nops = rng.randrange(1, 15 if tier == "quick" else 26)
        c = {"f": f, "nports": 1 + nothers, "shuffle": rng.choice([None, rng.randrange(1 << 30)])}
        if f == "filter":
            k = rng.random()
            c["filter"] = ({"kind": "tags", "tags": rng.sample(TAGS, rng.randrange(0, 4))} if k < 0.5 else
                           {"kind": "idlt", "n": rng.randrange(0, 8)} if k < 0.8 else {"kind": "even"})
        ops, nid = [], 0
        outstanding = Counter()
        late = rng.random() < 0.4  # gets only in the second half for some consumers
        nrules = rng.choice([0, 1, 1, 2, 3]) if f == "inter" else 0
        early = rng.random() < 0.6
        for i in range(nops):
            x = rng.random()
            if nrules and (x < 0.25 or (early and i < nrules)):
                nrules -= 1
                tags = [rng.choice(TAGS[:4]) for _ in range(rng.choice([0, 1, 1, 2, 2, 3]))]
                act = rng.choice(["P", "T", "PT", "PT", "P", ""])
                ops.append(["add", rng.randrange(0, 1 + nothers), tags, "P" in act, "T" in act])
            elif x < 0.55:
                k = 0 if rng.random() < 0.85 else rng.randrange(0, 1 + nothers)
                if rng.random() < 0.12:
                    ops.append(["put", k, ["T", rng.choice([4, 4, 5, 9])]])
                else:
                    ops.append(["put", k, ["t", nid, rng.choice(TAGS if rng.random() < 0.8 else TAGS[:2])]])
                    nid += 1
            else:
                k = rng.randrange(0, 1 + nothers) if rng.random() < 0.5 else 0
                cn = rng.choice(cons[:max(1, ncons // 2)] if late and i < nops // 2 else cons)
                if outstanding[(k, cn)] >= 2:
                    continue
                ops.append(["get", k, cn])
                outstanding[(k, cn)] += 1  # an upper bound; served gets are not subtracted (keeps cases simple)
                if rng.random() < 0.5:
                    outstanding[(k, cn)] = 0
        c["ops"] = ops
        return c

    def gen(self, rng, tier):
        n = {"quick": 1200, "thorough": 10000, "extended": 6000}[tier]
        return [self._case(rng, tier) for _ in range(n)]

    # ---------------------------------------------------------------- implementation
    def impl_init(self):
        import asyncio
        import random

        from streamflow.core.workflow import Port, Status, Token
        from streamflow.workflow.port import BoundaryAction, FilterTokenPort, InterWorkflowPort
        from streamflow.workflow.token import TerminationToken

        class SchedLoop(asyncio.SelectorEventLoop):
            """runs ready callbacks in a seeded random order when given an rng"""
            def __init__(self, rng=None):
                super().__init__()
                self._vrng = rng

            def _run_once(self):
                if self._vrng is not None and len(self._ready) > 1:
                    permute_ready(self._ready, self._vrng.shuffle)   # thread-safe, same order (harness/lib/looputil.py)
                super()._run_once()

        self.asyncio, self.random, self.SchedLoop = asyncio, random, SchedLoop
        self.Port, self.Status, self.Token, self.Term = Port, Status, Token, TerminationToken
        self.BA, self.Filter, self.Inter = BoundaryAction, FilterTokenPort, InterWorkflowPort

    def _repr(self, tok):
        if isinstance(tok, self.Term):
            return ["T", int(tok.value)]
        return ["t", tok.value, tok.tag]

    def impl_run(self, case):
        asyncio = self.asyncio
        loop = self.SchedLoop(self.random.Random(case["shuffle"]) if case.get("shuffle") is not None else None)
        try:
            asyncio.set_event_loop(loop)
            return loop.run_until_complete(self._drive(case, loop))
        finally:
            try:
                for t in asyncio.all_tasks(loop):
                    t.cancel()
                loop.run_until_complete(asyncio.sleep(0))
            finally:
                asyncio.set_event_loop(None)
                loop.close()

    async def _settle(self, loop):
        # quiescent = when the driver runs, no other callback is ready and no timer is armed
        for _ in range(100000):
            await self.asyncio.sleep(0)
            if not loop._ready and not loop._scheduled:
                return True
        return False

    async def _drive(self, case, loop):
        f = case["f"]
        if f == "plain":
            p0 = self.Port(None, "p0")
        elif f == "filter":
            flt = case["filter"]
            p0 = self.Filter(None, "p0", filter_function=lambda t: _admit(flt, ["t", t.value, t.tag]))
        else:
            p0 = self.Inter(None, "p0")
        ports = [p0] + [self.Port(None, f"p{i}") for i in range(1, case["nports"])]
        log = []

        async def getter(k, c):
            tok = await ports[k].get(c)
            log.append([k, c, self._repr(tok)])

        tasks = []
        evs = []
        for i, o in enumerate(case["ops"]):
            try:
                if o[0] == "put":
                    t = o[2]
                    tok = self.Term(self.Status(t[1])) if t[0] == "T" else self.Token(value=t[1], tag=t[2])
                    ports[o[1]].put(tok)
                elif o[0] == "get":
                    tasks.append(loop.create_task(getter(o[1], o[2])))
                elif o[0] == "add":
                    act = self.BA(0)
                    if o[3]:
                        act |= self.BA.PROPAGATE
                    if o[4]:
                        act |= self.BA.TERMINATE
                    p0.add_inter_port(ports[o[1]], list(o[2]), act)
                if not await self._settle(loop):
                    return {"err": "not-quiescent", "at": i}
                for t in tasks:
                    if t.done() and not t.cancelled() and t.exception() is not None:
                        raise t.exception()
            except Exception as e:  # noqa: an exception of the port code is an observation
                return {"err": type(e).__name__, "at": i, "msg": str(e)[:200]}
            # deliveries of this operation, in the order the consumers observed them, grouped per consumer
            evs.append(sorted(log, key=lambda e: (e[0], e[1])))
            log.clear()
        return {"evs": evs, "tls": [[self._repr(t) for t in p.token_list] for p in ports]}

    # ---------------------------------------------------------------- oracle (from the property text)
    def _spec(self, case):
        """Histories the property text prescribes: after each operation, the stream E[k] of every port."""
        n = case["nports"]
        E = [[] for _ in range(n)]
        M = [[] for _ in range(n)]   # who put each entry: ("drv" | "rule", index of the operation)
        rules = []
        snaps = []
        cur = [0]

        def show(rule, tok):
            rule["seen"][tok[2]] += 1
            if all(rule["seen"][g] >= m for g, m in rule["need"].items()):  # boundary tag set complete
                if rule["P"]:
                    E[rule["tgt"]].append(tok)
                    M[rule["tgt"]].append(("rule", cur[0]))
                if rule["T"]:
                    E[rule["tgt"]].append(["T", 9])
                    M[rule["tgt"]].append(("rule", cur[0]))
                return True
            return False

        for oi, o in enumerate(case["ops"]):
            cur[0] = oi
            if o[0] == "put":
                k, t = o[1], o[2]
                if k != 0 or case["f"] == "plain" or t[0] == "T":
                    E[k].append(t)
                    M[k].append(("drv", oi))
                elif case["f"] == "filter":
                    if _admit(case["filter"], t):
                        E[0].append(t)
                        M[0].append(("drv", oi))
                else:
                    hit_self = False
                    for r in rules:
                        if show(r, t) and r["tgt"] == 0:
                            hit_self = True
                    if not hit_self:
                        E[0].append(t)
                        M[0].append(("drv", oi))
            elif o[0] == "add" and case["f"] == "inter":
                r = {"tgt": o[1], "need": Counter(o[2]), "seen": Counter(), "P": o[3], "T": o[4]}
                rules.append(r)
                for t in [x for x in list(E[0]) if x[0] != "T"]:
                    show(r, t)
            snaps.append([len(e) for e in E])
        self._meta = M
        return E, snaps

    def oracle(self, case, obs):
        if "crash" in obs or "hang" in obs:
            return ("crash", f"implementation crashed/hung: {str(obs)[:300]}")
        if "err" in obs:
            return ("raises", f"operation {obs['at']} raised {obs['err']}: {obs.get('msg')}")
        E, snaps = self._spec(case)
        got = {}
        issued = Counter()
        for i, (o, evs) in enumerate(zip(case["ops"], obs["evs"])):
            if o[0] == "get":
                issued[(o[1], o[2])] += 1
            for k, c, t in evs:
                got.setdefault((k, c), []).append(t)
            for key in issued:
                k = key[0]
                have = got.get(key, [])
                want = E[k][:min(issued[key], snaps[i][k])]
                if have != want:
                    ids = [t[1] for t in have if t[0] == "t"]
                    clause = ("exactly-once" if len(ids) != len(set(ids)) and
                              len([t[1] for t in want if t[0] == 't']) == len({t[1] for t in want if t[0] == 't'})
                              else "order" if sorted(map(str, have)) == sorted(map(str, want))
                              else "delivery")
                    return (clause, f"after op {i} {o}: consumer {key[1]} of port {key[0]} has received {have}, "
                                    f"the first {issued[key]} get(s) of the port's stream are {want}")
        for k in range(case["nports"]):
            if obs["tls"][k] != E[k]:
                return ("history", f"port {k} token_list {obs['tls'][k]} differs from the prescribed stream {E[k]}")
        # "no consumer observes tokens after a termination token": judged on every port, boundary targets included.
        # Exempt (producer discipline, outside a port's power): the first termination token was put by a producer, or a
        # producer put on this port after it.  Flagged: the termination token was put by a boundary rule and everything
        # that follows it on this port was put by boundary rules too.
        M = self._meta
        for k in range(case["nports"]):
            pos = next((i for i, t in enumerate(E[k]) if t[0] == "T"), None)
            if pos is None or pos + 1 >= len(E[k]) or M[k][pos][0] != "rule":
                continue
            if any(o[0] == "put" and o[1] == k and oi > M[k][pos][1] for oi, o in enumerate(case["ops"])):
                continue
            for (kk, c), seq in got.items():
                if kk == k and len(seq) > pos + 1:
                    return ("token-after-termination",
                            f"consumer {c} of port {k} received {seq[pos + 1:]} after the termination token at position "
                            f"{pos} of {seq}; that termination token and everything after it were put by boundary rules, "
                            f"no producer put on port {k} after it")
        return None

    # ---------------------------------------------------------------- model side
    def coq_case(self, c, o):
        if "evs" not in o:
            return None
        if c["f"] == "plain":
            k = "CKPlain"
        elif c["f"] == "inter":
            k = "CKInter"
        else:
            fl = c["filter"]
            k = ("(CKFilter (FTags " + coq_list([coq_str(t) for t in fl["tags"]]) + "))" if fl["kind"] == "tags" else
                 f"(CKFilter (FIdLt {coq_N(fl['n'])}))" if fl["kind"] == "idlt" else "(CKFilter FIdEven)")
        ops = []
        for x in c["ops"]:
            if x[0] == "put":
                ops.append(f"Put {coq_nat(x[1])} {_tok(x[2])}")
            elif x[0] == "get":
                ops.append(f"Get {coq_nat(x[1])} {coq_str(x[2])}")
            else:
                ops.append(f"AddInter {coq_nat(x[1])} {coq_list([coq_str(t) for t in x[2]])} "
                           f"{coq_bool(x[3])} {coq_bool(x[4])}")
        evs = coq_list([coq_list([_ev(e) for e in es]) for es in o["evs"]])
        tls = coq_list([coq_list([_tok(t) for t in l]) for l in o["tls"]])
        return f"CCase {k} {coq_nat(c['nports'])} {coq_list(ops)} {evs} {tls}"

    def nontrivial(self, c):
        kinds = [o[0] for o in c["ops"]]
        return "put" in kinds and "get" in kinds

    def signature(self, c, o, clause):
        if clause == "token-after-termination":
            # the oracle flags it only when a TERMINATE rule that is complete manufactured the termination token
            return f"{c['f']}/token-after-termination/completed-terminate-rule"
        return f"{c['f']}/{clause}"

    def shrink(self, c):
        ops = c["ops"]
        for i in range(len(ops)):
            yield {**c, "ops": ops[:i] + ops[i + 1:]}
        if c.get("shuffle") is not None:
            yield {**c, "shuffle": None}
        for i, o in enumerate(ops):
            if o[0] == "add" and o[2]:
                for j in range(len(o[2])):
                    yield {**c, "ops": ops[:i] + [[o[0], o[1], o[2][:j] + o[2][j + 1:], o[3], o[4]]] + ops[i + 1:]}


PROP = C03()
