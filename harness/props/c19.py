"""C19 — Concurrent recoveries share work and never deadlock."""
from harness.lib.framework import Prop, coq_list, coq_N, coq_opt, coq_str
from harness.props._recov_shapes import denote

REC = ["ROLLBACK", "RUNNING", "FIREABLE"]
NOREC = ["COMPLETED", "FAILED", "RECOVERY", "WAITING", "CANCELLED", "SKIPPED"]
COQ_STATUS = {"WAITING": "Waiting", "FIREABLE": "Fireable", "RUNNING": "Running", "SKIPPED": "Skipped",
              "COMPLETED": "Completed", "FAILED": "Failed", "CANCELLED": "Cancelled", "RECOVERY": "Recovery",
              "ROLLBACK": "Rollback"}


def producers(shape):
    return ["/root/0"] if shape["kind"] == "diamond" else ["/a0/0", "/sp/0"]


def branches(shape):
    if shape["kind"] == "diamond":
        return [f"/br{i}/0" for i in range(shape["branches"])]
    return [f"/b0/0.{i}" for i in range(shape["width"])]


class C19(Prop):
    ID = "C19"
    PROPS_FILE = "Props/C19.v"
    CORR_MODULE = "RecSync.Corr"
    LEVEL = "proof"
    LEVEL_TEXT = (
        "Theorems (Coq, closed under the global context) over a model of _synchronize_workflows / is_recovering / "
        "_update_request and of the ordered lock acquisition of _recover: (1) once per loss -- in any window in which the "
        "engine has not taken producer p out of ROLLBACK/FIREABLE/RUNNING, any number of recoveries synchronising with any "
        "request sets in any order roll p back at most once, and not at all if p is already recovering; (2) no deadlock -- "
        "locks taken in one global order make the wait-for relation strictly rank-increasing, hence acyclic, for any number "
        "of recoveries and lock sets, and the maximal-rank recovery is never blocked; (3) delivery, partial -- on the "
        "InterWorkflowPort model of C03 (imported), an attachment (PROPAGATE, boundary tag g) made before the regenerated "
        "token is put receives it, and one made after the token entered the port's history receives it at once, for every "
        "operation history. Tied to /repo by driving the real "
        "_synchronize_workflows/is_recovering/_update_request through generated histories interleaved with scheduler status "
        "changes (all Status values) and comparing every attach/update/refuse decision with the model, and by engine runs "
        "in which 2..6 jobs of a diamond or scatter fail at the same moment after one loss of all data, under seeded "
        "permuting event loops; oracle from the property text (completion, outputs, producer executed once per loss). "
        "The ORDER in which _recover takes the request locks is covered by the theorem only: the check does not detect "
        "the removal of sorted(..., key=id) (tried as a mutant and missed), because the unsorted list is the iteration "
        "order of a set of job names, which CPython already makes the same in every recovery for the same names except "
        "under hash collisions (13-wide scatters under PYTHONHASHSEED=0 showed no flip), so no opposite acquisition orders "
        "and no deadlock materialise in engine runs.")
    LEVEL_NOTE = (
        "Partial: status_of defaults to Completed for a job without an allocation (get_allocation raises WorkflowExecutionException there; named "
        "assumption, not exercised); delivery is proved at the port level only (that the attached workflow consumes the token and terminates, "
        "that the tags agree and that the producer does put the token are exercised by the engine runs); the lock model abstracts a critical section to "
        "one terminating step (its liveness relies on the executor, C04); the once-per-loss theorem needs the window "
        "hypothesis, and the real engine violates the text outside it (a recovery that built its provenance graph while p was "
        "lost but synchronises after p finished rolls p back again: known finding). Trusted: Coq kernel + vm_compute, "
        "RecSync/Model.v, the harness. No axioms.")
    TECHNIQUE = ("Coq proof (status invariant over all synchronisation histories; rank argument for ordered locking) + "
                 "vm_compute correspondence against the real failure manager + engine-level oracle")
    RULE = ("rhist: histories of 2..10 events over 1..4 jobs, each a _synchronize_workflows call with 1..4 requests or a "
            "scheduler status change to any Status value, limit in {None,1..5}; held: diamond (2..6 branches) or scatter "
            "(width 2..6) of file jobs, all branch jobs fail their first attempt at a barrier at which the whole working "
            "directory is lost, the producer's re-execution is held until all recoveries synchronised (the window of the "
            "theorem) -- `held`: before its command completes, `heldout`: between the end of its command and the collection "
            "of its outputs, `heldfire`: after it was re-scheduled (allocation FIREABLE) and before it runs (in its input "
            "transfer), the other jobs failing only once it is there; seeded permuting loop; free: the same without the "
            "hold; stall (corpus): the producer's output collection is merely slow. Non-trivial = at least 2 synchronisations. "
            "Distinct = distinct canonical JSON.")
    TRUSTED = ("model: RecSync/Model.v (is_recovering status set, _synchronize_workflows decisions, lock order) is hand-written",
               "harness/props/_recov.py: workflow builders, failure injection with a barrier, hold of one re-execution, "
               "recording shims around the real failure manager methods",
               "asyncio (Lock fairness, task scheduling), SQLite, local filesystem are exercised, not modelled")
    ASSUMPTIONS = ("every job named in a request list has a scheduler allocation: RecSync/Model.v:status_of answers Completed for "
                   "a job it has never seen, where DefaultScheduler.get_allocation raises WorkflowExecutionException; the theorems are "
                   "meant for known jobs and the correspondence gives every job a status first",
                   "a recovery's critical section (between taking and releasing its locks) terminates",
                   "id() order of the request objects is a fixed total order during a run",
                   "delivery of regenerated tokens to attached recovery workflows is exercised, not proved")
    MAX_WORKERS = 8
    CASE_TIMEOUT = 200
    SHARD_TIMEOUT = 900
    COQ_SHARD = 60

    # ---------------------------------------------------------------- generation
    def _engine_case(self, rng, mode):
        k = rng.randrange(2, 7)
        if rng.random() < 0.55:
            shape = {"kind": "diamond", "type": "file", "branches": k}
            faults = [[f"/br{i}", "0", "execute", "soft", 1] for i in range(k)]
        else:
            shape = {"kind": "scatter", "type": "file", "pre": 1, "width": k, "depth": 1, "post": rng.randrange(0, 2)}
            faults = [["/b0", f"0.{i}", "execute", "soft", 1] for i in range(k)]
        c = {"f": mode, "manager": "rollback", "limit": rng.randrange(6, 11), "shape": shape, "faults": faults,
             "barrier": {"jobs": branches(shape), "wipe": True}, "sched": rng.randrange(1 << 30)}
        if mode == "held":
            c["hold"] = {"job": producers(shape)[0], "attempt": 2, "syncs": k}
        if mode == "heldout":
            # the producer's re-execution is held between the end of its command and the collection of its outputs;
            # all jobs but the first fail only then, so that their recoveries synchronise inside that window
            c["late"] = branches(shape)[1:]
            c["hold"] = {"job": producers(shape)[0], "attempt": 2, "syncs": k, "point": "output"}
        if mode == "heldfire":
            # ... held after it was re-scheduled (allocation FIREABLE) and before it runs: in its input transfer
            c["late"] = branches(shape)[1:]
            c["hold"] = {"job": producers(shape)[0], "attempt": 2, "syncs": k, "point": "transfer"}
        return c

    def gen(self, rng, tier):
        nh, ne, nf = {"quick": (200, 27, 4), "thorough": (2500, 300, 12), "extended": (600, 100, 20)}[tier]
        cases = []
        for _ in range(nh):
            names = [f"/s{i}/0" for i in range(rng.randrange(1, 5))]
            lim = rng.choice([None, 1, 2, 2, 3, 3, 4, 5])
            # every job has an allocation before the first synchronisation (the real get_allocation raises for an unknown
            # job; the model's status_of would answer Completed: that default is never exercised)
            evs = [["set", j, rng.choice(REC + NOREC)] for j in names]
            for _ in range(rng.randrange(2, 11)):
                if rng.random() < 0.6:
                    evs.append(["sync", rng.sample(names, rng.randrange(1, len(names) + 1))])
                else:
                    evs.append(["set", rng.choice(names), rng.choice(REC + NOREC)])
            cases.append({"f": "rhist", "limit": lim, "events": evs})
        for i in range(ne):
            cases.append(self._engine_case(rng, ("held", "heldout", "heldfire")[i % 3]))
        for _ in range(nf):
            cases.append(self._engine_case(rng, "free"))
        return cases

    # ---------------------------------------------------------------- implementation
    def impl_init(self):
        from harness.props import _recov
        self.R = _recov

    def _run_rhist(self, c):
        import asyncio
        from types import SimpleNamespace

        from streamflow.core.exception import FailureHandlingException
        from streamflow.core.workflow import Job, Status
        from streamflow.recovery.failure_manager import RollbackFailureManager
        from streamflow.workflow.token import JobToken

        class Sched:
            def __init__(self):
                self.status = {}

            def get_allocation(self, job):
                # like the real scheduler: a job without an allocation is an error, not "completed"
                return SimpleNamespace(status=self.status[job])

            async def notify_status(self, job, status):
                self.status[job] = status

        class Dag:
            def contains(self, x):
                return False

        sched = Sched()
        fm = RollbackFailureManager(SimpleNamespace(scheduler=sched), max_retries=c["limit"], retry_delay=None)
        self.R.SC = self.R.Scenario()
        self.R.instrument(fm)
        mapper = SimpleNamespace(dag_tokens=Dag(), token_instances={})

        async def go():
            for e in c["events"]:
                if e[0] == "set":
                    sched.status[e[1]] = Status[e[2]]
                    self.R.SC.ev("set", e[1], e[2])
                    continue
                reqs = [fm.get_request(j) for j in e[1]]
                toks = [JobToken(value=Job(name=j, workflow_id=0, inputs={}, input_directory=None,
                                           output_directory=None, tmp_directory=None)) for j in e[1]]
                try:
                    await fm._synchronize_workflows(failed_job=e[1][0], job_tokens=toks, mapper=mapper,
                                                    retry_requests=reqs, workflow=object())
                except FailureHandlingException:
                    pass

        asyncio.run(go())
        syncs = self.R.history_from_trace(self.R.SC.trace)
        return {"syncs": [{"reqs": s["reqs"], "updates": s["updates"]} for s in syncs],
                "final_status": sorted([j, st.name] for j, st in sched.status.items())}

    def impl_run(self, c):
        if c["f"] == "rhist":
            return self._run_rhist(c)
        o = self.R.run_engine(c)
        o["syncs"] = self.R.history_from_trace(o.get("trace", []))
        return o

    # ---------------------------------------------------------------- oracle (from the property text)
    def oracle(self, c, o):
        if "crash" in o:
            return ("crash", f"harness/implementation crashed: {o.get('exc')} {str(o.get('stderr'))[-300:]}")
        if "hang" in o:
            return ("hang", "not all recoveries terminated within the time limit")
        if c["f"] == "rhist":
            # while a job stays in a recovering status no synchronisation may roll it back again
            status = {}
            syncs = iter(o["syncs"])
            for e in c["events"]:
                if e[0] == "set":
                    status[e[1]] = e[2]
                    continue
                s = next(syncs, None)
                if s is None:
                    return ("sync-missing", "a _synchronize_workflows call left no record")
                ups = {u[0]: u for u in s["updates"]}
                for j, flag in s["reqs"]:
                    rec = status.get(j, "COMPLETED") in REC
                    if rec and j in ups:
                        return ("shared-rollback", f"{j} is {status.get(j)} (being recovered) but was rolled back again")
                    if j in ups and ups[j][2] is not None:
                        status[j] = "ROLLBACK"
            return None
        if c["f"] == "stress":
            return None   # only termination is judged (faults may exceed the limit: raising is fine)
        if c["f"] != "stall" and any(e[0] in ("hold-timeout", "late-timeout") for e in o["trace"]):
            return ("sync-missing", "not every failed job's recovery reached synchronisation while the producer was held")
        if o["result"] != "completed":
            return ("not-completed", f"{len(c['faults'])} concurrent failures after one loss, limit {c['limit']}: run "
                                     f"ended with {o['result']}; versions {o.get('versions')}")
        want = denote(c["shape"])
        vals = [t for t in o["out_tokens"] if "term" not in t]
        if len(vals) != 1 or vals[0].get("value") != want:
            return ("outputs-differ", f"output tokens {o['out_tokens']}, failure-free output {want!r}")
        # one loss (the wipe at the barrier): each producer of the lost data is executed once before and at most once after
        done = {}
        for e in o["trace"]:
            if e[0] == "exec":
                done[e[1]] = done.get(e[1], 0) + 1
        for p in producers(c["shape"]):
            if done.get(p, 0) > 2:
                return ("producer-reexecuted", f"{p} executed {done[p]} times for a single loss shared by "
                                               f"{len(c['faults'])} concurrently failed jobs")
        for b in branches(c["shape"]):
            if done.get(b, 0) > 2:
                return ("branch-reexecuted", f"{b} executed {done[b]} times after failing once")
        if o.get("pending_tasks"):
            return ("pending-tasks", f"{o['pending_tasks']} tasks still pending after the run")
        return None

    # ---------------------------------------------------------------- model side
    def coq_case(self, c, o):
        if "crash" in o or "hang" in o or c["f"] != "rhist":
            return None
        h, log = [], []
        syncs = iter(o["syncs"])
        for e in c["events"]:
            if e[0] == "set":
                h.append(f"SetStatus {coq_str(e[1])} {COQ_STATUS[e[2]]}")
                log.append("[]")
                continue
            s = next(syncs)
            h.append(f"Sync {coq_list([coq_str(j) for j in e[1]])}")
            ups = {u[0]: u for u in s["updates"]}
            ds = []
            for j, flag in s["reqs"]:
                if j in ups:
                    _, b, a = ups[j]
                    d = f"(Updated {coq_N(b)} {coq_N(a)})" if a is not None else f"(Refused {coq_N(b)})"
                else:
                    d = "Attach" if flag else "Attach"
                    if not flag:
                        return None  # not recovering yet no update recorded: cannot happen; leave to the oracle
                ds.append(f"jd {coq_str(j)} {d}")
            log.append(coq_list(ds))
        return f"CRHist {coq_opt(c['limit'], coq_N)} {coq_list(h)} {coq_list(log)}"

    def nontrivial(self, c):
        if c["f"] == "rhist":
            return sum(1 for e in c["events"] if e[0] == "sync") >= 2
        return True

    def signature(self, c, o, clause):
        return f"{c['f']}/{clause}/{c.get('shape', {}).get('kind', '-')}"

    def shrink(self, c):
        if c["f"] == "rhist":
            ev = c["events"]
            for i in range(len(ev)):
                yield {**c, "events": ev[:i] + ev[i + 1:]}
            return
        if c.get("sched") is not None:
            yield {**c, "sched": None}


PROP = C19()
