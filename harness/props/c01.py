"""C01 — Scatter then gather returns the original list in its original order."""
import json
import random
import re

from harness.lib.framework import Prop, coq_list, coq_N, coq_nat, coq_opt, coq_str
from harness.lib.looputil import permute_ready

TAG = re.compile(r"^(0|[1-9][0-9]*)(\.(0|[1-9][0-9]*))*$")
STATUS = {"SKIPPED": "Skipped", "COMPLETED": "Completed", "FAILED": "Failed", "CANCELLED": "Cancelled",
          "RECOVERED": "Recovered"}


# ------------------------------------------------------------------------------------------------
# pure helpers (main process and worker)
def leaf_plain(v, wrap):
    if isinstance(v, dict) and "list" in v:
        return [leaf_plain(x, False) for x in v["list"]]
    if isinstance(v, dict) and "obj" in v:
        return {k: leaf_plain(x, False) for k, x in v["obj"].items()}
    return [v] if wrap else v


def expected_plain(value, levels, wrap):
    if levels == 0:
        return leaf_plain(value, wrap)
    return [expected_plain(x, levels - 1, wrap) for x in value]


def order_arrivals(items, seed):
    """items: list of arrival descriptors (first the element tokens in index order, then the size tokens).
    seed 0 = as given, 1 = sizes first then elements reversed, otherwise a seeded shuffle."""
    items = list(items)
    if seed == 0:
        return items
    if seed == 1:
        return [a for a in items if a[0] == "S"] + [a for a in reversed(items) if a[0] != "S"]
    random.Random(seed).shuffle(items)
    return items


def place_terms(arr, seed, st_size="COMPLETED", st_elem="COMPLETED"):
    """inserts the two termination tokens at legal positions (after the last token of their port)."""
    arr = list(arr)
    rnd = random.Random(seed * 7919 + 13)
    for port, kind, st in (("S", "S", st_size), ("E", "E", st_elem)):
        last = max([i for i, a in enumerate(arr) if a[0] == kind], default=-1)
        pos = len(arr) if seed == 0 else rnd.randrange(last + 1, len(arr) + 1)
        arr.insert(pos, ["T", port, st])
    return arr


def tok_plain(c):
    """canonical token -> plain nested python value"""
    if c[0] == "L":
        return [tok_plain(x) for x in c[2]]
    if c[0] == "T":
        if c[2].startswith("O:"):
            return {k: tok_plain(v) for k, v in json.loads(c[2][2:]).items()}
        return json.loads(c[2])
    return c


def coq_tok(c):
    if c[0] == "L":
        return f"(ListTok {coq_str(c[1])} {coq_list([coq_tok(x) for x in c[2]])})"
    return f"(Tok {coq_str(c[1])} {coq_str(c[2])})"


def coq_arr(a):
    if a[0] == "S":
        return f"(OnSize {coq_str(a[1])} {coq_N(a[2])})"
    if a[0] == "E":
        return f"(OnElem {coq_tok(a[1])})"
    return f"(OnTerm {'SizeP' if a[1] == 'S' else 'ElemP'} {STATUS[a[2]]})"


def tags_in(c, acc):
    acc.append(c[1])
    return acc


class C01(Prop):
    ID = "C01"
    PROPS_FILE = "Props/C01.v"
    CORR_MODULE = "Gather.Corr"
    MAX_WORKERS = 8
    COQ_SHARD = 35
    CASE_TIMEOUT = 120
    SHARD_TIMEOUT = 1500
    LEVEL_TEXT = (
        "Theorems (Coq, closed under the global context) over a string-tag model of ScatterStep._scatter and "
        "GatherStep.run/_gather: for every base tag, every list length (0 and >= 10 included), every tag-preserving "
        "element-wise step and EVERY order in which the element tokens and the size token are taken from the two "
        "ports (termination tokens interleaved at any legal position), a depth-1 gather emits exactly one list token "
        "with the original tag holding the elements in original order, then terminates COMPLETED (C01_roundtrip); the "
        "same for any number of concurrently gathered lists with distinct tags, arrivals arbitrarily interleaved "
        "(C01_many_keys; with any termination statuses other than FAILED, e.g. the SKIPPED a level whose lists are all empty "
        "receives: C01_many_keys_any_status, and C01_status_independent: what a gather of any depth emits does not depend on "
        "those statuses); the empty list through the real pipeline (C01_empty); nesting of any depth d by d chained depth-1 "
        "gathers, each level with arbitrary arrival order and statuses (C01_nested_d); nesting by composition of depth-1 scatter/gather pairs (C01_nested_two_levels); ONE gather of "
        "depth d over d scatter levels returns the flat list in compare_tags order, ragged shapes included, and with the "
        "product size in the rectangular case (C01_gather_depth_d, C01_gather_depth_d_product); element 10 "
        "after element 9 (C01_numeric_order). The model is tied to /repo by driving the real ScatterStep and "
        "GatherStep token by token in the generated arrival order on an in-memory database and comparing every "
        "emitted token and the final status with the model evaluated by vm_compute, plus an oracle from the "
        "property text on the real outputs.")
    LEVEL_NOTE = (
        "Trusted: Coq kernel + vm_compute; hand-written model Gather/Model.v tied to the code only by the "
        "correspondence run; Python's sorted() modelled as stable insertion sort (for pairwise distinct tags any "
        "correct sort gives the same list, proved); asyncio/database layers are exercised, not modelled. The tags of a "
        "flat cross product are assumed to be t.i.j (they are produced by the cartesian combinator, C02's area).")
    TECHNIQUE = ("Coq proof (projection of the multi-key state machine onto one key, closed form on incomplete prefixes, "
                 "uniqueness of sorted permutations) + vm_compute correspondence against the real steps")
    RULE = ("eng: a real workflow scatter(s) -> concurrent element-wise step -> gather(s) run by StreamFlowExecutor under an "
            "event loop that permutes its ready queue with the case's seed (oracle only); rt: nested lists (1..3 scatter levels; lengths biased to 0,1,9..12, up to 40; scalar, list and object "
            "leaves) through real ScatterStep(s), an element-wise map and real GatherStep(s), arrivals = seeded shuffle "
            "of element and size tokens with termination tokens at random legal positions; flat: 2..3 nested real scatters then ONE real GatherStep of depth 2..3 with the "
            "element count as size (rectangular 3x4, 2x11, 4x3, 11x2, 2x2x3 ... and ragged shapes), shuffled arrivals; multi: 2..4 lists with "
            "distinct (possibly prefix-related) tags through one scatter and one gather, interleaved; raw: arbitrary "
            "arrival sequences at depth 1..3 (missing/wrong/duplicated sizes, duplicate tags, FAILED/SKIPPED "
            "terminations, unterminated ports) for model fidelity. Non-trivial = a list of >= 10 elements, or a "
            "non-identity arrival order, or >= 2 keys. Distinct = distinct canonical JSON.")
    TRUSTED = ("model: Gather/Model.v (ScatterStep._scatter, GatherStep.run/_gather, _reduce_statuses, _get_status) is "
               "hand-written; CPython dict order, sorted() stability, str.split/join, asyncio.wait and the SQLite "
               "persistence calls inside the steps are not verified, only exercised",)
    ASSUMPTIONS = ("tokens are taken from the gather's ports one at a time (two tokens becoming available in the same "
                   "event-loop turn are processed in set-iteration order by the real step; the model linearises them)",
                   "tags are well-formed dotted decimals (compare_tags raises otherwise)",
                   "the element-wise step between scatter and gather preserves tags and emits one token per input")

    # ---------------------------------------------------------------- generation
    def _len(self, rng, cap):
        r = rng.random()
        if r < 0.45:
            n = rng.choice([0, 1, 2, 9, 10, 11, 12, 13])
        elif r < 0.8:
            n = rng.randrange(0, 8)
        else:
            n = rng.randrange(0, 41)
        return n if n <= cap else rng.randrange(0, cap + 1)

    def _leaf(self, rng, ctr):
        ctr[0] += 1
        r = rng.random()
        if r < 0.6:
            return ctr[0] if rng.random() < 0.7 else rng.randrange(0, 5)      # distinct or repeated values
        if r < 0.8:
            return rng.choice(["a", "b c", 'q"u', "é", ""]) + str(ctr[0])
        if r < 0.9:
            return {"list": [rng.randrange(0, 100) for _ in range(rng.randrange(0, 4))]}
        return {"obj": {"k": ctr[0], "s": "x"}}

    def _value(self, rng, caps, ctr):
        """caps: one length cap per scatter level, outermost first"""
        if not caps:
            return self._leaf(rng, ctr)
        n = self._len(rng, caps[0])
        return [self._value(rng, caps[1:], ctr) for _ in range(n)]

    def _caps(self, rng, levels):
        if levels == 1:
            return [40]
        if levels == 2:
            return rng.choice([[5, 12], [12, 4], [3, 3]])
        return rng.choice([[2, 2, 11], [11, 2, 2], [2, 11, 2], [3, 3, 3]])

    def _seed(self, rng):
        r = rng.random()
        return 0 if r < 0.08 else 1 if r < 0.16 else rng.randrange(2, 10**9)

    def _tag(self, rng):
        r = rng.random()
        if r < 0.5:
            return "0"
        d = rng.choice([1, 2, 2, 3])
        return ".".join(str(rng.choice([0, 1, 2, 9, 10, 11, 12, 100])) for _ in range(d))

    def gen(self, rng, tier):
        n = {"quick": 150, "thorough": 1000, "extended": 600}[tier]
        cases = []
        for _ in range(n):
            r = rng.random()
            ctr = [0]
            if r < 0.5:
                levels = rng.choice([1, 1, 1, 2, 2, 3])
                cases.append({"f": "rt", "tag": self._tag(rng), "levels": levels,
                              "value": self._value(rng, self._caps(rng, levels), ctr),
                              "map": rng.choice(["id", "wrap"]),
                              "orders": [self._seed(rng) for _ in range(levels)]})
            elif r < 0.7:
                k = rng.randrange(2, 5)
                tags = []
                while len(tags) < k:
                    t = self._tag(rng)
                    if rng.random() < 0.3 and tags:
                        t = rng.choice(tags) + "." + str(rng.choice([0, 1, 10]))
                    if t not in tags:
                        tags.append(t)
                cases.append({"f": "multi", "lists": [{"tag": t, "value": self._value(rng, [14], ctr)} for t in tags],
                              "map": rng.choice(["id", "wrap"]), "order": self._seed(rng)})
            elif r < 0.82:
                levels = rng.choice([2, 2, 2, 3])
                caps = rng.choice([[3, 4], [2, 11], [4, 3], [11, 2]]) if levels == 2 else rng.choice([[2, 2, 3], [2, 3, 2]])
                val = self._value(rng, caps, ctr)
                if rng.random() < 0.6:      # rectangular, full size (what flat_crossproduct produces)
                    def full(cs):
                        return self._leaf(rng, ctr) if not cs else [full(cs[1:]) for _ in range(cs[0])]
                    val = full(caps)
                cases.append({"f": "flat", "tag": self._tag(rng), "levels": levels, "value": val,
                              "map": rng.choice(["id", "wrap"]), "order": self._seed(rng)})
            else:
                cases.append(self._raw(rng))
        for _ in range({"quick": 25, "thorough": 300, "extended": 60}[tier]):
            ctr = [0]
            levels = rng.choice([1, 1, 2, 2, 3])
            cases.append({"f": "eng", "tag": self._tag(rng), "levels": levels,
                          "value": self._value(rng, self._caps(rng, levels), ctr),
                          "map": rng.choice(["id", "wrap"]), "sched": rng.randrange(1, 10**9)})
        if tier == "thorough":   # every arrival order of a 3-element list with its size token, terminations last
            import itertools
            base = [["E", ["T", f"0.{i}", str(i)]] for i in range(3)] + [["S", "0", 3]]
            for p in itertools.permutations(base):
                cases.append({"f": "raw", "depth": 1, "arr": list(p) + [["T", "E", "COMPLETED"], ["T", "S", "COMPLETED"]]})
        return cases

    def _raw(self, rng):
        depth = rng.choice([1, 1, 1, 2, 2, 3])
        keys = []
        for _ in range(rng.randrange(1, 4)):
            keys.append(".".join(str(rng.choice([0, 1, 2, 10])) for _ in range(rng.choice([1, 1, 2]))))
        arr = []
        uid = 0
        for k in set(keys):
            m = rng.choice([0, 1, 2, 3, 5, 11])
            for i in range(m):
                suffix = [str(i if rng.random() < 0.85 else rng.randrange(0, m))] + \
                         [str(rng.choice([0, 1, 10])) for _ in range(depth - 1)]
                uid += 1
                arr.append(["E", ["T", ".".join([k] + suffix), str(uid)]])
            r = rng.random()
            if r < 0.55:
                arr.append(["S", k, m])
            elif r < 0.75:
                arr.append(["S", k, max(0, m + rng.choice([-2, -1, 1, 2]))])
            elif r < 0.85:
                arr.append(["S", k, m])
                arr.append(["S", k, rng.randrange(0, 4)])
        rng.shuffle(arr)
        sts = ["COMPLETED"] * 6 + ["SKIPPED", "FAILED", "CANCELLED", "RECOVERED"]
        r = rng.random()
        if r < 0.85:
            arr = place_terms(arr, rng.randrange(2, 10**6), rng.choice(sts), rng.choice(sts))
        elif r < 0.95:
            arr.append(["T", rng.choice(["S", "E"]), rng.choice(sts)])
        return {"f": "raw", "depth": depth, "arr": arr}

    # ---------------------------------------------------------------- implementation
    def impl_init(self):
        from harness.props import _stepdrive

        self.sd = _stepdrive
        self.e = _stepdrive.make_env()
        from streamflow.core.workflow import Status
        from streamflow.workflow.step import GatherStep, ScatterStep

        self.Status, self.GatherStep, self.ScatterStep = Status, GatherStep, ScatterStep
        import asyncio
        import posixpath

        from streamflow.core.utils import get_entity_ids
        from streamflow.workflow.executor import StreamFlowExecutor
        from streamflow.workflow.step import BaseStep

        e = self.e
        self.Executor = StreamFlowExecutor

        class ConcMap(BaseStep):
            """harness stand-in for the element-wise step between scatter and gather: every element is processed
            by its own task, which yields a seeded number of times, so results leave in a schedule-dependent order"""
            rnd = None
            wrap = False

            async def run(self):
                inp, out = self.get_input_port(), self.get_output_port()

                async def work(tok):
                    for _ in range(self.rnd.randrange(0, 8)):
                        await asyncio.sleep(0)
                    new = e.Token([tok.value], tag=tok.tag) if (self.wrap and type(tok) is e.Token) else tok.retag(tok.tag)
                    out.put(await self._persist_token(token=new, port=out, input_token_ids=get_entity_ids([tok])))

                tasks = []
                while True:
                    tok = await inp.get(posixpath.join(self.name, "x"))
                    if isinstance(tok, e.TerminationToken):
                        status = tok.value
                        break
                    tasks.append(asyncio.create_task(work(tok)))
                if tasks:
                    await asyncio.gather(*tasks)
                await self.terminate(self._get_status(status))

        self.ConcMap = ConcMap

    def _build_leaf(self, v, tag):
        e = self.e
        if isinstance(v, dict) and "list" in v:
            return e.ListToken([self._build_leaf(x, tag) for x in v["list"]], tag=tag)
        if isinstance(v, dict) and "obj" in v:
            return e.ObjectToken({k: self._build_leaf(x, tag) for k, x in v["obj"].items()}, tag=tag)
        return e.Token(v, tag=tag)

    def _build(self, value, levels, tag):
        if levels == 0:
            return self._build_leaf(value, tag)
        return self.e.ListToken([self._build(x, levels - 1, tag) for x in value], tag=tag)

    def _from_canon(self, c):
        e = self.e
        if c[0] == "L":
            return e.ListToken([self._from_canon(x) for x in c[2]], tag=c[1])
        return e.Token(json.loads(c[2]), tag=c[1])

    async def _scatter(self, ctx, tokens, steps):
        """one real ScatterStep fed the tokens one by one; returns (element tokens, size tokens)"""
        e, sd = self.e, self.sd
        wf = e.Workflow(ctx, config={}, name="w")
        inp, out = wf.create_port(e.ObsPort), wf.create_port()
        st = wf.create_step(self.ScatterStep, name="/s/x-scatter")
        st.add_input_port("x", inp)
        st.add_output_port("x", out)
        await wf.save(ctx.database)
        szp = st.get_size_port()
        marks = []

        def after(pn, tok):
            marks.append((len(out.token_list), len(szp.token_list)))

        for t in tokens:
            await t.save(ctx.database)
        await sd.drive(st, {"x": inp}, [("x", t) for t in tokens] + [("x", e.TerminationToken())], after)
        po = ps = 0
        for t, (mo, ms) in zip(tokens, marks):
            steps.append({"k": "scatter", "in": sd.canon_tok(e, t),
                          "out": [sd.canon_tok(e, x) for x in out.token_list[po:mo]],
                          "size": [[x.tag, x.value] for x in szp.token_list[ps:ms]]})
            po, ps = mo, ms
        steps.append({"k": "scatter_run", "ins": [sd.canon_tok(e, t) for t in tokens], "status": st.status.name})
        elems = [x for x in out.token_list if not isinstance(x, e.TerminationToken)]
        sizes = [x for x in szp.token_list if not isinstance(x, e.TerminationToken)]
        return elems, sizes

    async def _gather(self, ctx, depth, arr, steps):
        """one real GatherStep fed arr = [("E", token) | ("S", token) | ("T", port, status-name)]"""
        e, sd = self.e, self.sd
        wf = e.Workflow(ctx, config={}, name="w")
        sp, ep, op = wf.create_port(e.ObsPort), wf.create_port(e.ObsPort), wf.create_port()
        g = wf.create_step(self.GatherStep, name="/s/x-gather", size_port=sp, depth=depth)
        g.add_input_port("x", ep)
        g.add_output_port("x", op)
        await wf.save(ctx.database)
        feed, desc = [], []
        for a in arr:
            if a[0] == "T":
                feed.append(("__size__" if a[1] == "S" else "x", e.TerminationToken(self.Status[a[2]])))
                desc.append(["T", a[1], a[2]])
            elif a[0] == "S":
                feed.append(("__size__", a[1]))
                desc.append(["S", a[1].tag, a[1].value])
            else:
                feed.append(("x", a[1]))
                desc.append(["E", sd.canon_tok(e, a[1])])
        try:
            finished = await sd.drive(g, {"__size__": sp, "x": ep}, feed)
            err = None
        except Exception as ex:  # the step raised
            finished, err = False, type(ex).__name__
        outs = [x for x in op.token_list if not isinstance(x, e.TerminationToken)]
        terms = [x.value.name for x in op.token_list if isinstance(x, e.TerminationToken)]
        rec = {"k": "gather", "depth": depth, "arr": desc, "out": [sd.canon_tok(e, x) for x in outs],
               "terms": terms, "status": g.status.name if finished else None, "finished": finished}
        if err:
            rec["err"] = err
        steps.append(rec)
        return outs

    async def _run(self, c):
        e = self.e
        ctx = e.build_context()
        steps = []
        try:
            if c["f"] == "raw":
                arr, closed = [], set()
                for a in c["arr"]:
                    port = a[1] if a[0] == "T" else a[0]
                    if port in closed:          # nobody reads a port after its termination token
                        continue
                    if a[0] == "T":
                        closed.add(port)
                    if a[0] == "S":
                        arr.append(("S", e.Token(a[2], tag=a[1])))
                    elif a[0] == "E":
                        arr.append(("E", self._from_canon(a[1])))
                    else:
                        arr.append(tuple(a))
                await self._gather(ctx, c["depth"], arr, steps)
                return {"steps": steps}
            wrap = c["map"] == "wrap"

            def fmap(t):
                if wrap and type(t) is e.Token:
                    return e.Token([t.value], tag=t.tag)
                return t

            if c["f"] == "multi":
                tops = [self._build(l["value"], 1, l["tag"]) for l in c["lists"]]
                elems, sizes = await self._scatter(ctx, tops, steps)
                items = [("E", fmap(t)) for t in elems] + [("S", s) for s in sizes]
                arr = place_terms(order_arrivals(items, c["order"]), c["order"])
                outs = await self._gather(ctx, 1, arr, steps)
                return {"steps": steps, "final": [self.sd.canon_tok(e, x) for x in outs]}
            if c["f"] == "flat":     # d nested scatters, ONE gather of depth d, size token = number of elements
                cur = [self._build(c["value"], c["levels"], c["tag"])]
                for _ in range(c["levels"]):
                    cur, _sizes = await self._scatter(ctx, cur, steps)
                cur = [fmap(t) for t in cur]
                items = [("E", t) for t in cur] + [("S", e.Token(len(cur), tag=c["tag"]))]
                arr = place_terms(order_arrivals(items, c["order"]), c["order"])
                outs = await self._gather(ctx, c["levels"], arr, steps)
                return {"steps": steps, "final": [self.sd.canon_tok(e, x) for x in outs]}
            # rt
            levels = c["levels"]
            cur = [self._build(c["value"], levels, c["tag"])]
            size_levels = []
            for _ in range(levels):
                cur, sizes = await self._scatter(ctx, cur, steps)
                size_levels.append(sizes)
            cur = [fmap(t) for t in cur]
            for lv in range(levels - 1, -1, -1):
                items = [("E", t) for t in cur] + [("S", s) for s in size_levels[lv]]
                seed = c["orders"][lv]
                arr = place_terms(order_arrivals(items, seed), seed)
                cur = await self._gather(ctx, 1, arr, steps)
            return {"steps": steps, "final": [self.sd.canon_tok(e, x) for x in cur]}
        finally:
            await ctx.close()

    async def _eng(self, c, rnd):
        e = self.e
        ctx = e.build_context()
        try:
            wf = e.Workflow(ctx, config={}, name="w")
            port = first = wf.create_port()
            sizes = []
            for lv in range(c["levels"]):
                sc = wf.create_step(self.ScatterStep, name=f"/s/l{lv}-scatter")
                sc.add_input_port("x", port)
                port = wf.create_port()
                sc.add_output_port("x", port)
                sizes.append(sc.get_size_port())
            m = wf.create_step(self.ConcMap, name="/s/map")
            m.rnd, m.wrap = rnd, c["map"] == "wrap"
            m.add_input_port("x", port)
            port = wf.create_port()
            m.add_output_port("x", port)
            g = None
            for lv in reversed(range(c["levels"])):
                g = wf.create_step(self.GatherStep, name=f"/s/l{lv}-gather", size_port=sizes[lv], depth=1)
                g.add_input_port("x", port)
                port = wf.create_port()
                g.add_output_port("x", port)
            await wf.save(ctx.database)
            first.put(self._build(c["value"], c["levels"], c["tag"]))
            first.put(e.TerminationToken())
            err = None
            try:
                await self.Executor(wf).run()
            except Exception as ex:
                err = type(ex).__name__
            outs = [self.sd.canon_tok(e, x) for x in port.token_list if not isinstance(x, e.TerminationToken)]
            terms = [x.value.name for x in port.token_list if isinstance(x, e.TerminationToken)]
            o = {"final": outs, "terms": terms, "gstatus": g.status.name,
                 "statuses": sorted({st.status.name for st in wf.steps.values()})}
            if err:
                o["err"] = err
            return o
        finally:
            await ctx.close()

    def impl_run(self, c):
        import asyncio

        if c["f"] == "eng":
            rnd = random.Random(c["sched"])

            class ShuffleLoop(asyncio.SelectorEventLoop):
                def _run_once(self):
                    if len(self._ready) > 1:
                        permute_ready(self._ready, rnd.shuffle)   # thread-safe, same order (harness/lib/looputil.py)
                    super()._run_once()

            with asyncio.Runner(loop_factory=ShuffleLoop) as runner:
                return runner.run(self._eng(c, rnd))
        return asyncio.run(self._run(c))

    # ---------------------------------------------------------------- oracle (from the property text)
    def oracle(self, c, o):
        if "crash" in o or "hang" in o:
            return ("crash", f"implementation crashed/hung: {str(o)[:600]}")
        for s in o.get("steps", []):
            if s.get("err") and c["f"] != "raw" and s["k"] != "scatter_run":
                return ("step-raises", f"{s['k']} step raised {s['err']}")
        if c["f"] == "eng" and o.get("err"):
            return ("workflow-fails", f"scatter/map/gather workflow raised {o['err']} (step statuses {o.get('statuses')})")
        if c["f"] in ("rt", "eng"):
            want = expected_plain(c["value"], c["levels"], c["map"] == "wrap")
            fin = o.get("final", [])
            if len(fin) != 1:
                return ("one-output", f"gather emitted {len(fin)} list tokens for one scattered list: {str(fin)[:300]}")
            if fin[0][0] != "L" or fin[0][1] != c["tag"]:
                return ("original-tag", f"output token {fin[0][:2]} does not carry the original tag {c['tag']}")
            got = tok_plain(fin[0])
            if got != want:
                return ("original-order", f"gathered {json.dumps(got)[:400]} but the scattered list was {json.dumps(want)[:400]}")
            last = {"status": o["gstatus"], "terms": o["terms"]} if c["f"] == "eng" else \
                [s for s in o["steps"] if s["k"] == "gather"][-1]
            # the text says nothing about the status; only require a clean end (an empty list through the real
            # pipeline ends SKIPPED because the scatter emitted no element, and still delivers the empty list)
            if last["status"] not in ("COMPLETED", "SKIPPED") or len(last["terms"]) != 1:
                return ("clean-end", f"gather ended with status {last['status']}, termination tokens {last['terms']}")
        if c["f"] == "flat":
            def flatten(v, lv):
                return [v] if lv == 0 else [y for x in v for y in flatten(x, lv - 1)]
            want = [leaf_plain(x, c["map"] == "wrap") for x in flatten(c["value"], c["levels"])]
            fin = o.get("final", [])
            if len(fin) != 1 or fin[0][0] != "L" or fin[0][1] != c["tag"]:
                return ("one-output", f"depth-{c['levels']} gather emitted {str(fin)[:300]} for one scattered list tagged {c['tag']}")
            if tok_plain(fin[0]) != want:
                return ("flat-order", f"depth-{c['levels']} gather returned {json.dumps(tok_plain(fin[0]))[:400]}, the "
                                      f"scattered elements in order are {json.dumps(want)[:400]}")
        if c["f"] == "multi":
            wrap = c["map"] == "wrap"
            want = sorted(json.dumps([l["tag"], expected_plain(l["value"], 1, wrap)], sort_keys=True) for l in c["lists"])
            got = sorted(json.dumps([x[1], tok_plain(x)], sort_keys=True) for x in o.get("final", []) if x[0] == "L")
            if got != want or len(o.get("final", [])) != len(c["lists"]):
                return ("one-list-per-key", f"gathered {got} but the scattered lists were {want}"[:900])
        return None

    # ---------------------------------------------------------------- model side
    def coq_case(self, c, o):
        if "crash" in o or "hang" in o or "steps" not in o:
            return None
        subs = []
        for s in o["steps"]:
            if s["k"] == "scatter_run":
                subs.append(f"CScatterRun {coq_list([coq_tok(x) for x in s['ins']])} "
                            f"(Some {STATUS.get(s['status'], 'OtherStatus')})")
                continue
            if s["k"] == "scatter":
                if not TAG.match(s["in"][1]):
                    return None
                obs = f"(Some ({coq_list([coq_tok(x) for x in s['out']])}, " \
                      f"{coq_list(['(' + coq_str(t) + ', ' + coq_N(n) + ')' for t, n in s['size']])}))"
                subs.append(f"CScatter {coq_tok(s['in'])} {obs}")
            else:
                if s.get("err"):
                    return None
                for a in s["arr"]:
                    if a[0] == "S" and not (TAG.match(a[1]) and isinstance(a[2], int) and a[2] >= 0):
                        return None
                    if a[0] == "E" and not TAG.match(a[1][1]):
                        return None
                fin = coq_opt(s["status"], lambda x: STATUS.get(x, "OtherStatus"))
                subs.append(f"CGather {coq_nat(s['depth'])} {coq_list([coq_arr(a) for a in s['arr']])} "
                            f"{coq_list([coq_tok(x) for x in s['out']])} {fin}")
        if len(subs) == 1:
            return subs[0]
        return "CMany " + coq_list(subs)

    def nontrivial(self, c):
        if c["f"] == "rt":
            def big(v, lv):
                return lv > 0 and (len(v) >= 10 or any(big(x, lv - 1) for x in v))
            return big(c["value"], c["levels"]) or any(s != 0 for s in c["orders"])
        if c["f"] in ("multi", "eng", "flat"):
            return True
        return len(c["arr"]) >= 3

    def signature(self, c, o, clause):
        return f"{c['f']}/{clause}"

    def shrink(self, c):
        if c["f"] == "flat":
            if c["map"] != "id":
                yield {**c, "map": "id"}
            if c["order"] not in (0, 1):
                yield {**c, "order": 1}
                yield {**c, "order": 0}
            if c["tag"] != "0":
                yield {**c, "tag": "0"}

            def smaller(v, lv):
                if lv == 0:
                    return
                for i in range(len(v)):
                    yield v[:i] + v[i + 1:]
                for i in range(len(v)):
                    for x in smaller(v[i], lv - 1):
                        yield v[:i] + [x] + v[i + 1:]
            for v in smaller(c["value"], c["levels"]):
                yield {**c, "value": v}
            return
        if c["f"] in ("rt", "eng"):
            def smaller(v, lv):
                if lv == 0:
                    return
                for i in range(len(v)):
                    yield v[:i] + v[i + 1:]
                for i in range(len(v)):
                    for s in smaller(v[i], lv - 1):
                        yield v[:i] + [s] + v[i + 1:]
            if c["map"] != "id":
                yield {**c, "map": "id"}
            for i, s in enumerate(c.get("orders", [])):
                if s not in (0, 1):
                    yield {**c, "orders": c["orders"][:i] + [0] + c["orders"][i + 1:]}
                    yield {**c, "orders": c["orders"][:i] + [1] + c["orders"][i + 1:]}
            if c["tag"] != "0":
                yield {**c, "tag": "0"}
            for v in smaller(c["value"], c["levels"]):
                yield {**c, "value": v}
        elif c["f"] == "multi":
            for i in range(len(c["lists"])):
                if len(c["lists"]) > 1:
                    yield {**c, "lists": c["lists"][:i] + c["lists"][i + 1:]}
            for i, l in enumerate(c["lists"]):
                for j in range(len(l["value"])):
                    yield {**c, "lists": c["lists"][:i] + [{**l, "value": l["value"][:j] + l["value"][j + 1:]}] + c["lists"][i + 1:]}
            if c["order"] not in (0, 1):
                yield {**c, "order": 1}
                yield {**c, "order": 0}
        elif c["f"] == "raw":
            for i in range(len(c["arr"])):
                yield {**c, "arr": c["arr"][:i] + c["arr"][i + 1:]}


PROP = C01()
