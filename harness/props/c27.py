"""C27 — Batch jobs complete only after leaving the queue.

The real SlurmConnector.run / undeploy (streamflow/deployment/connector/queue_manager.py) runs 1..6 concurrent
batch jobs on top of a fake inner connector that interprets sbatch / squeue / scontrol / cat / scancel against
an in-memory queue.  Jobs leave the queue, the TTL cache expires and undeploy starts at points chosen by the
seeded one-step-at-a-time event loop (harness/props/lts_loop.py; polling sleeps are sleep(0), TTL expiry is an
explicit schedule-chosen event).  The observation is the event trace; the Coq model (Queue/Model.v) must accept
it and its theorems say that an accepted trace never finishes a job that is still queued.
"""
import random

from harness.lib.framework import Prop, coq_list, coq_nat

EV = {"submit": "Submit", "record": "Record", "clear": "ClearBy", "expire": "Expire", "leave": "Leave",
      "unrecord": "Unrecord"}


class C27(Prop):
    ID = "C27"
    PROPS_FILE = "Props/C27.v"
    CORR_MODULE = "Queue.Corr"
    LEVEL = "proof"
    MAX_WORKERS = 8
    CASE_TIMEOUT = 60
    SHARD_TIMEOUT = 400
    TECHNIQUE = ("Coq proof by induction over event traces of a transition system of the polling protocol + "
                 "vm_compute trace acceptance against the real SlurmConnector under a controlled event loop")
    RULE = ("1..6 concurrent SlurmConnector.run(job_name=..) calls with per-job run times (number of scheduler steps "
            "before the job leaves the fake queue), exit codes and outputs; a schedule-driven TTL-expiry task; "
            "optionally undeploy() started after a random number of steps; every task step chosen by a seeded PRNG. "
            "Non-trivial = >=2 jobs or an undeploy. Distinct = distinct canonical JSON.")
    TRUSTED = ("model: Queue/Model.v (event-level rules of run()'s polling loop, the constant-key TTL cache and "
               "undeploy) is hand-written; the fake inner connector's squeue lists exactly the asked ids still queued "
               "(the assumption about Slurm); cachebox, asyncio.Lock and the Slurm command strings are exercised only",
               "harness/props/lts_loop.py and instrumentation of _scheduled_jobs / _jobs_cache by subclassing")
    ASSUMPTIONS = ("a job id is never reused and a job that left the queue does not come back",
                   "squeue -j <ids> lists exactly those of the asked ids that are still queued",
                   "TTL expiry is modelled as an event that may happen at any time")

    def gen(self, rng, tier):
        n = {"quick": 120, "thorough": 1200, "extended": 1000}[tier]
        cases = []
        for _ in range(n):
            nj = rng.choice([1, 2, 2, 3, 3, 4, 5, 6])
            jobs = [{"rt": rng.choice([0, 1, 2, 3, 5, 8, 13]), "rc": rng.choice([0, 0, 1, 3]),
                     "delay": rng.choice([0, 0, 1, 2, 4])} for _ in range(nj)]
            und = rng.randrange(0, 25) if rng.random() < 0.3 else None
            cases.append({"f": "jobs", "jobs": jobs, "undeploy": und, "seed": rng.randrange(1 << 30)})
        return cases

    # ------------------------------------------------------------------ implementation
    def impl_init(self):
        import asyncio
        import logging
        import types

        import os

        # importing queue_manager imports asyncssh, whose ctypes.util.find_library spawns helper processes that
        # inherit stdin (= the worker's case stream): keep them away from it
        import ctypes.util

        saved, devnull = os.dup(0), os.open(os.devnull, os.O_RDONLY)
        os.dup2(devnull, 0)
        real_find = ctypes.util.find_library
        ctypes.util.find_library = lambda name: None     # asyncssh only probes optional crypto libraries with it
        try:
            from cachebox import TTLCache
            from streamflow.core.deployment import Connector, ExecutionLocation
            from streamflow.deployment.connector import queue_manager as qm
        finally:
            ctypes.util.find_library = real_find
            os.dup2(saved, 0)
            os.close(saved)
            os.close(devnull)
        from streamflow.log_handler import logger

        from harness.props.lts_loop import PickLoop, make_picker

        logger.setLevel(logging.CRITICAL)
        prop = self
        real_sleep = asyncio.sleep

        async def fast_sleep(delay, result=None):      # polling interval -> one suspension
            await real_sleep(0)
            return result

        qm.asyncio = types.SimpleNamespace(**{k: getattr(asyncio, k) for k in dir(asyncio) if not k.startswith("__")})
        qm.asyncio.sleep = fast_sleep

        class Inner(Connector):
            def __init__(self):
                super().__init__("inner", "/nonexistent", 65536)

            async def run(self, location, command, environment=None, workdir=None, stdin=None, stdout=None,
                          stderr=None, capture_output=False, timeout=None, job_name=None):
                w = prop.world
                cmd = list(command)
                if cmd[0] == "squeue":      # the command line is built (from _scheduled_jobs) before it runs
                    arg0 = cmd[cmd.index("-j") + 1]
                    w["log"].append(["lstart", [int(x) for x in arg0.split(",") if x]])
                if "sbatch" in cmd:         # two phases: the job is queued when sbatch runs, the reply comes later
                    j = w["next"]
                    w["next"] += 1
                    w["queue"].add(j)
                    w["log"].append(["submit", j, w["cur"]()])
                    # the job's exit code is fixed at submission (n-th submitted job <-> n-th job spec), so that
                    # scontrol reports the job's OWN code even if the job is cancelled before it ever ran
                    n = len(w["subm"])
                    w["rc"][j] = w["jobs"][n]["rc"] if n < len(w["jobs"]) else 0
                    w["subm"].append(j)
                    await real_sleep(0)
                    return str(j), 0
                await real_sleep(0)
                if cmd[0] == "squeue":
                    arg = cmd[cmd.index("-j") + 1]
                    asked = [int(x) for x in arg.split(",") if x]
                    res = [j for j in asked if j in w["queue"]]
                    w["log"].append(["list", asked, res])
                    return "".join(f"{j}          \n" for j in res), 0
                if cmd[0] == "scontrol":
                    j = int(cmd[4])
                    w["log"].append(["query", j])
                    if "StdOut" in cmd[-1]:
                        return f"/out/{j}\n", 0
                    return f"{w['rc'].get(j, 99)}\n", 0
                if cmd[0] == "cat":
                    return f"output-of-{cmd[1].rsplit('/', 1)[1]}\n", 0
                if cmd[0] == "scancel":
                    ids = [int(x) for x in cmd[1].split()]
                    w["log"].append(["cancel", ids])
                    for j in ids:
                        w["queue"].discard(j)
                    return "", 0
                raise RuntimeError(f"fake inner connector: unknown command {cmd}")

            async def deploy(self, external): ...
            async def undeploy(self, external): ...
            async def get_available_locations(self, service=None): return {}
            @classmethod
            def get_schema(cls): return ""
            async def copy_local_to_remote(self, *a, **k): ...
            async def copy_remote_to_local(self, *a, **k): ...
            async def copy_remote_to_remote(self, *a, **k): ...
            async def get_shell(self, *a, **k): ...
            async def get_stream_reader(self, *a, **k): ...
            async def get_stream_writer(self, *a, **k): ...

        class LogDict(dict):
            def __setitem__(self, k, v):
                prop.world["log"].append(["record", int(k), prop.world["cur"]()])
                super().__setitem__(k, v)

            def pop(self, k, *a):
                prop.world["log"].append(["unrecord" if k in self else "pop-missing", int(k)])
                return super().pop(k, *a)

        class LogCache(TTLCache):
            def clear(self, *a, **k):
                w = prop.world
                w["log"].append(["expire"] if w["expiring"] else ["clear", w["cur"]()])
                return super().clear(*a, **k)

        class Slurm(qm.SlurmConnector):
            """`undeploy` ends with `self._scheduled_jobs = {}`: keep logging on the new dictionary"""
            @property
            def _scheduled_jobs(self):
                return self.__dict__["_sj"]

            @_scheduled_jobs.setter
            def _scheduled_jobs(self, v):
                d = LogDict()
                dict.update(d, v)
                self.__dict__["_sj"] = d

        qm.Slurm = Slurm
        self.k = types.SimpleNamespace(asyncio=asyncio, qm=qm, Inner=Inner, LogDict=LogDict, LogCache=LogCache,
                                       Loc=ExecutionLocation, PickLoop=PickLoop, make_picker=make_picker,
                                       sleep0=lambda: real_sleep(0))

    def impl_run(self, case):
        # cachebox 6.2.0 deadlocks when a garbage collection starts inside the factory it calls with its internal
        # (non re-entrant) mutex held (`locks.setdefault_with(key, lambda: _AsyncLock(...))` in the async `cached`
        # wrapper -> GC -> tp_traverse of the same object -> same mutex): the process then hangs in a futex and not
        # even the per-case alarm can interrupt it (seen three times under load, native backtrace in
        # design/notes/C27.md).  Automatic collection is therefore off while a case runs.
        import gc

        gc.disable()
        try:
            return self._impl_run(case)
        finally:
            gc.enable()
            gc.collect()

    def _impl_run(self, case):
        k = self.k
        asyncio = k.asyncio
        jobs = case["jobs"]
        self.world = w = {"log": [], "queue": set(), "next": 100, "rc": {}, "subm": [], "expiring": False,
                          "cur": None, "jobs": jobs}
        conn = k.qm.Slurm("slurm", "/nonexistent", connector=k.Inner(), service=None, pollingInterval=3600,
                          maxConcurrentJobs=10)
        conn._jobs_cache = k.LogCache(maxsize=1, global_ttl=3600)
        inner_loc = k.Loc(name="node", deployment="inner")
        loc = k.Loc(name="node", deployment="slurm", wraps=inner_loc)
        state = {"running": len(jobs), "undeployed": False}
        jobof = {}     # task index -> job index

        async def job(i):
            spec = jobs[i]
            for _ in range(spec["delay"]):
                await k.sleep0()
            try:
                r = await conn.run(loc, ["echo", f"job{i}"], job_name=f"job{i}")
                w["log"].append(["done", i, "ok", r[0], r[1]])
            except Exception as e:  # noqa
                w["log"].append(["done", i, type(e).__name__, "", -1])
            state["running"] -= 1

        async def leaver():
            # every submitted job leaves the queue after its run time (counted in steps of this task)
            age = {}
            while state["running"] > 0:
                await k.sleep0()
                for n, j in enumerate(list(w["subm"])):
                    w["rc"].setdefault(j, jobs[n]["rc"] if n < len(jobs) else 0)
                    age[j] = age.get(j, 0) + 1
                    if j in w["queue"] and age[j] > jobs[n]["rt"]:
                        w["queue"].discard(j)
                        w["log"].append(["leave", j])

        async def expirer():
            while state["running"] > 0:
                await k.sleep0()
                w["expiring"] = True
                try:
                    conn._jobs_cache.clear()
                finally:
                    w["expiring"] = False

        async def undeployer(after):
            for _ in range(after):
                await k.sleep0()
            w["log"].append(["undeploy-start", sorted(w["queue"])])
            try:
                await conn.undeploy(False)
            except Exception as e:  # noqa
                w["log"].append(["undeploy-error", type(e).__name__, str(e)[:120]])
                return
            w["log"].append(["undeploy-end"])
            state["undeployed"] = True

        rng = random.Random(case.get("seed", 0))
        loop = k.PickLoop(k.make_picker(case.get("sched"), rng), max_steps=8000)
        asyncio.set_event_loop(loop)

        def cur():
            t = asyncio.current_task(loop)
            return jobof.get(loop.ids.get(t), -1)

        w["cur"] = cur
        try:
            for i in range(len(jobs)):
                jobof[len(loop.tasks)] = i
                loop.create_task(job(i))
            loop.create_task(leaver())
            loop.create_task(expirer())
            if case.get("undeploy") is not None:
                loop.create_task(undeployer(case["undeploy"]))
            loop.run_to_quiescence()
            obs = {"log": w["log"], "hang": [i for i, t in enumerate(loop.tasks) if not t.done()],
                   "overrun": loop.overrun, "steps": len(loop.trace)}
            for t in loop.tasks:
                if not t.done():
                    t.cancel()
            loop.run_to_quiescence()
            for t in loop.tasks:
                if t.done() and not t.cancelled():
                    t.exception()
        finally:
            asyncio.set_event_loop(None)
            loop.close()
        return obs

    # ------------------------------------------------------------------ oracle (from the property text)
    MAX_WATCHDOG = 3        # worker-level kills tolerated per check before they become a verdict
    MIN_JUDGED = 0.97       # (for the framework's floor on judged cases)

    def oracle(self, case, obs):
        v = self._judge(case, obs)
        return (v[0], v[2]) if v else None

    def _judge(self, case, obs):
        """(clause, input class, message) or None"""
        if obs.get("hang") is True and "rc" in obs:
            # the whole worker was killed by the shard watchdog (machine overload / import): no verdict on this case
            # -- but only a few times per check
            seen = self.__dict__.setdefault("_wd_seen", set())
            seen.add(id(obs))
            if len(seen) > self.MAX_WATCHDOG:
                return ("harness-watchdog", "any", f"{len(seen)} cases lost to worker-level watchdog kills")
            return None
        if "crash" in obs or obs.get("hang") is True or obs.get("overrun"):
            return ("crash", "any", f"harness-level crash/hang/overrun: {str(obs)[:300]}")
        und = "with-undeploy" if case.get("undeploy") is not None else "no-undeploy"
        queue, jobix, cancelled, recorded = set(), {}, set(), set()
        undeploying = ended = False
        nsub = 0
        for pos, e in enumerate(obs["log"]):
            k = e[0]
            if k == "submit":
                queue.add(e[1])
                jobix[e[1]] = nsub
                nsub += 1
            elif k == "record":
                recorded.add(e[1])
            elif k == "unrecord":
                recorded.discard(e[1])
            elif k == "leave":
                queue.discard(e[1])
            elif k == "undeploy-start":
                undeploying = True
                still = set(queue)
                still_rec = set(recorded)
            elif k == "cancel":
                cancelled |= set(e[1])
                for j in e[1]:
                    if j not in jobix:
                        return ("undeploy-exact", und, f"scancel of {j}, which is not a job of this connector (position {pos})")
                    queue.discard(j)
            elif k == "undeploy-error":
                return ("undeploy-exact", und, f"undeploy() raised {e[1]}: {e[2]} (jobs queued when it started: "
                                               f"{sorted(still)}, cancelled: {sorted(cancelled)})")
            elif k == "undeploy-end":
                ended = True
                recorded = set()
                missed = sorted(still - cancelled)
                if missed:
                    cls = "unrecorded-at-undeploy" if not (set(missed) & still_rec) else und
                    return ("undeploy-exact", cls, f"undeploy left jobs {missed} queued: they were queued when undeploy "
                                                   f"started and were not cancelled (recorded then: {sorted(still_rec)})")
            elif k == "done":
                _, i, r, out, rc = e
                if r != "ok":
                    if r == "KeyError" and ended:
                        return ("run-fails", "keyerror-after-undeploy",
                                f"run() of job {i} raised KeyError: undeploy() replaced _scheduled_jobs by an empty "
                                f"dictionary and the polling loop pops its id from it (log position {pos})")
                    if not undeploying:
                        return ("run-fails", und, f"run() of job {i} raised {r} although nothing was undeployed")
                    return ("run-fails", und, f"run() of job {i} raised {r} during undeploy (log position {pos})")
                mine = obs_job_id(obs["log"], i)
                if mine is None:
                    return ("own-result", und, f"job {i} finished without a submission")
                if mine in queue:
                    return ("after-queue", und, f"run() of job {i} (queue id {mine}) returned while the job is still "
                                                f"queued (log position {pos})")
                want_rc = case["jobs"][jobix[mine]]["rc"] if jobix[mine] < len(case["jobs"]) else None
                if out != f"output-of-{mine}" or rc != want_rc:
                    return ("own-result", und, f"job {i} (queue id {mine}) returned output {out!r} / exit code {rc}, "
                                               f"its own are 'output-of-{mine}' / {want_rc}")
        if obs["hang"]:
            return ("hang", und, f"tasks {obs['hang']} never finish")
        return None

    # ------------------------------------------------------------------ model side
    def coq_case(self, case, obs):
        if "crash" in obs or obs.get("overrun") or obs.get("hang") is True:
            return None
        evs = []
        for e in obs["log"]:
            k = e[0]
            if k in ("submit", "record", "leave", "unrecord"):
                evs.append(f"{EV[k]} {e[1]}")
            elif k == "pop-missing":
                evs.append(f"PopMissing {e[1]}")
            elif k == "clear":
                j = obs_job_id(obs["log"], e[1])
                if j is None:
                    return None
                evs.append(f"ClearBy {j}")
            elif k == "expire":
                evs.append("Expire")
            elif k == "lstart":
                evs.append(f"ListStart {coq_list([coq_nat(x) for x in e[1]])}")
            elif k == "list":
                evs.append(f"Listing {coq_list([coq_nat(x) for x in e[1]])} {coq_list([coq_nat(x) for x in e[2]])}")
            elif k == "cancel":
                evs.append(f"Cancel {coq_list([coq_nat(x) for x in e[1]])}")
            elif k == "undeploy-start":
                evs.append("UndeployStart")
            elif k == "undeploy-error":
                return None     # undeploy raised: outside the model (the oracle reports it)
            elif k == "undeploy-end":
                evs.append("UndeployEnd")
        return f"CTrace {coq_list(evs)}"

    def nontrivial(self, c):
        return len(c["jobs"]) >= 2 or c.get("undeploy") is not None

    def signature(self, c, o, clause):
        v = self._judge(c, o)
        return f"{v[0]}/{v[1]}" if v else clause

    def shrink(self, c):
        js = c["jobs"]
        for i in range(len(js)):
            if len(js) > 1:
                yield {**c, "jobs": js[:i] + js[i + 1:]}
        if c.get("undeploy") is not None:
            yield {**c, "undeploy": None}
        for i, j in enumerate(js):
            for key in ("rt", "delay", "rc"):
                if j[key] > 0:
                    yield {**c, "jobs": js[:i] + [{**j, key: j[key] // 2}] + js[i + 1:]}


def obs_job_id(log, i):
    """queue id submitted by the i-th run() task (submit events carry the index of the submitting task)"""
    for e in log:
        if e[0] == "submit" and e[2] == i:
            return e[1]
    return None


PROP = C27()
PROP.LEVEL_TEXT = (
    "Two models in Coq. (1) Event level (Queue/Model.v): rules for submit/record/clear/listing/unrecord/leave/expire/"
    "undeploy; proved by induction over ALL accepted traces (any number of jobs, any interleaving, any expiry pattern): "
    "run() leaves its polling loop for a job only when the job is no longer queued, finished jobs are never queued, "
    "every cached or in-flight listing contains every recorded+cleared+queued job, undeploy cancels exactly the recorded "
    "snapshot. (2) Coroutine level (Queue/Coroutine.v): run()'s await points (submit call/reply, lock acquisition "
    "before the cache clear and before each poll, squeue in flight with the lock held, polling sleep) as a transition "
    "system over jobs, _scheduled_jobs, cache slot and lock holder; Queue/Refine.v proves that EVERY execution of it "
    "emits a trace accepted by (1), so the guards of ClearBy (no squeue in flight), ListStart, Listing, Unrecord, "
    "Record, Submit follow from the lock structure, and after_queue holds of every coroutine execution. PARTIAL: the "
    "coroutine system is hand-written (no coroutine-level correspondence kind; asyncio.Lock abstracted to free/held; "
    "cachebox's inner lock outside it); it includes undeploy() (snapshot / scancel in flight / dictionary replaced) and "
    "the KeyError of a run() popping from the replaced dictionary, and proves that once undeploy() has returned every "
    "job recorded at its start is out of the queue for every interleaving; the event rules are ALSO checked on every real trace of "
    "SlurmConnector (fake sbatch[two-phase]/squeue/scontrol/scancel behind a fake inner connector, seeded "
    "one-step-at-a-time loop), compared through the END of the trace including after undeploy. Two statements are "
    "false of the code and carried as _refuted + known findings: a job submitted but not yet recorded survives "
    "undeploy; run() raises KeyError after undeploy replaced _scheduled_jobs. Own output/exit code are judged by the "
    "oracle only.")
PROP.LEVEL_NOTE = (
    "Trusted: Coq kernel + vm_compute; the hand-written rules; the assumption that squeue -j lists exactly the asked ids "
    "still queued, ids are never reused and departed jobs do not return; cachebox, asyncio.Lock; instrumentation by "
    "subclassing dict/TTLCache; polling sleeps replaced by sleep(0) and TTL expiry by an explicit event. Slurm state "
    "names and scontrol parsing are exercised, not proved; PBS and Flux connectors are not exercised. No axioms.")
