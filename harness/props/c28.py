"""C28 — Steps get the binding of their nearest bound ancestor."""
import re

from harness.lib.framework import Prop, coq_bool, coq_list, coq_N, coq_opt, coq_str

PARTS = ["a", "b", "c", "main", "s-1", "x.y", "..", "0"]
DEFAULT_WD = "/tmp/streamflow"


def _norm(path):
    """Independent reading of a POSIX path: (root, components) with empty and "." components dropped;
    root is "//" for exactly two leading slashes, "/" for one or more than two, "" if relative."""
    if path.startswith("//") and not path.startswith("///"):
        root = "//"
    elif path.startswith("/"):
        root = "/"
    else:
        root = ""
    return root, [p for p in path.split("/") if p not in ("", ".")]


def _expected_binding(bindings, name, kind="step"):
    """The property text: the binding declared on the step's own path, else on its nearest ancestor path
    (last declaration wins on the same path); None = local."""
    root, comps = _norm(name)
    best = None
    for i, b in enumerate(bindings):
        if b["kind"] != kind:
            continue
        r, c = _norm(b["path"])
        if r == root and r != "" and c == comps[:len(c)]:
            if best is None or len(c) >= best[0]:
                best = (len(c), i)
    return None if best is None else best[1]


def _wraps_name(d):
    w = d.get("wraps")
    return None if w is None else w


def _cycle_or_undefined(deps):
    """(has a wraps cycle reachable from some deployment, has an undefined wraps reference on some chain)"""
    byname = {d["name"]: d for d in deps}
    cyc = undef = False
    for d in deps:
        seen = {d["name"]}
        cur = d
        while cur.get("wraps") is not None:
            n = cur["wraps"]
            if n not in byname:
                undef = True
                break
            if n in seen:
                cyc = True
                break
            seen.add(n)
            cur = byname[n]
    return cyc, undef


def _expected_workdir(deps, name, own):
    """own, else the first workdir along the wraps chain (None if the chain has none)."""
    if own is not None:
        return own
    byname = {d["name"]: d for d in deps}
    cur = byname[name]
    for _ in range(len(deps) + 1):
        if cur.get("workdir") is not None:
            return cur["workdir"]
        if cur.get("wraps") is None:
            return None
        cur = byname[cur["wraps"]]
    return None


class C28(Prop):
    ID = "C28"
    PROPS_FILE = "Props/C28.v"
    CORR_MODULE = "Binding.Corr"
    MAX_WORKERS = 4
    LEVEL_TEXT = ("Theorems (Coq, closed under the global context), for any number of bindings, any path depth and any "
                  "number of deployments: get_binding_config's answer for a step equals the walk `nearest` over the flat "
                  "list of step bindings and its closed form `best` (the step binding with the longest path that is a "
                  "prefix of the step's path, last declaration winning, port bindings without influence, local when "
                  "none), via a trie model of "
                  "put/set_targets/propagate and of PurePosixPath.parts; set_targets never changes an answer; the "
                  "constructor accepts exactly absolute binding paths; _get_workdir returns the deployment's own workdir "
                  "or the first one along the wraps chain; the cycle check terminates, a rejection names a genuine "
                  "cycle, and after acceptance _get_workdir terminates for every deployment. Tied to /repo by running "
                  "the real WorkflowConfig/get_binding_config and the model on generated StreamFlow configurations.")
    LEVEL_NOTE = ("The cycle clause is proved in both directions: a rejection names a genuine cycle, and a wraps cycle reachable "
                  "from a declared deployment is never accepted (C28_cycles_never_accepted; with all references defined the "
                  "answer is the definition error, C28_cycles); C28_cycles_iff states it as one equivalence for unique names and "
                  "defined references, superseding the two statements whose (pinned) names still end in _partial. Trusted: Coq kernel + vm_compute; the hand-written model (tied "
                  "to the code by the correspondence run); PurePosixPath.parts is modelled for '/'-separated ASCII paths; "
                  "Target.__init__'s `or` chain is in Corr.v. No axioms.")
    TECHNIQUE = "Coq proof (induction over paths / binding lists / fuel with a pigeonhole bound) + vm_compute correspondence"
    RULE = ("nearest: 1..8 step/port bindings over paths of depth 0..4 from a small alphabet (root binding, repeated paths, "
            "unnormalised spellings //, /./, trailing /, rare relative or //-rooted paths), 6..10 step/port lookups on "
            "prefixes, extensions and siblings of the bound paths; deploy: 1..6 deployments with wraps chains (string and "
            "mapping form), cycles, self references, rare undefined references, workdirs placed at random, a target per "
            "deployment with or without its own workdir. Non-trivial = a nearest case with >=2 step bindings of which one "
            "is an ancestor of another or a port binding lies on a queried path; a deploy case with a chain of length >=2. "
            "Distinct = distinct canonical JSON.")
    TRUSTED = ("model: Binding/Model.v (WorkflowConfig.put/propagate/_process_binding, set_targets, "
               "_check_stacked_deployments, _get_workdir, get_binding_config's lookup) is hand-written",
               "CPython dict/set, PurePosixPath; Target.__init__'s default working directory")
    ASSUMPTIONS = ("deployment names are unique (they are the keys of a mapping)",
                   "binding and step paths are ASCII; working directories are non-empty strings")

    # ---------------------------------------------------------------- generation
    def _path(self, rng, depth=None):
        d = rng.choice([0, 1, 1, 2, 2, 3, 3, 4]) if depth is None else depth
        return "/" + "/".join(rng.choice(PARTS[:5] if rng.random() < 0.9 else PARTS) for _ in range(d))

    def _spell(self, rng, p):
        r = rng.random()
        if r < 0.8 or p == "/":
            return p
        if r < 0.86:
            i = p.rfind("/")
            return p[:i] + "//" + p[i + 1:] if i > 0 and rng.random() < 0.5 else p + "/"
        if r < 0.92:
            cs = p.split("/")
            i = rng.randrange(1, len(cs))
            return "/".join(cs[:i] + ["."] + cs[i:])
        if r < 0.95:
            return p[1:] or "."  # relative
        if r < 0.98:
            return "/" + p  # "//..." root
        return "//" + p  # "///..." = "/" root

    def _nearest_case(self, rng):
        nb = rng.choice([1, 2, 3, 4, 5, 6, 7, 8])
        paths = []
        bindings = []
        for _ in range(nb):
            r = rng.random()
            if paths and r < 0.35:
                base = rng.choice(paths)
                p = base.rstrip("/") + "/" + rng.choice(PARTS[:5])
            elif paths and r < 0.5:
                p = rng.choice(paths)
            elif paths and r < 0.6:
                cs = rng.choice(paths).split("/")
                p = "/".join(cs[:max(1, rng.randrange(1, len(cs) + 1))]) or "/"
            else:
                p = self._path(rng)
            paths.append(p)
            bindings.append({"kind": "step" if rng.random() < 0.7 else "port", "path": self._spell(rng, p)})
        qs = []
        for _ in range(rng.randrange(6, 11)):
            r = rng.random()
            base = rng.choice(paths)
            if r < 0.3:
                q = base
            elif r < 0.6:
                q = base.rstrip("/") + "".join("/" + rng.choice(PARTS[:5]) for _ in range(rng.randrange(1, 3)))
            elif r < 0.8:
                cs = base.split("/")
                q = "/".join(cs[:rng.randrange(1, len(cs) + 1)]) or "/"
            else:
                q = self._path(rng)
            qs.append([rng.choice(["step", "step", "step", "port"]), self._spell(rng, q) if rng.random() < 0.3 else q])
        return {"f": "nearest", "bindings": bindings, "queries": qs}

    def _deploy_case(self, rng):
        n = rng.choice([1, 2, 3, 3, 4, 4, 5, 6])
        names = [f"d{i}" for i in range(n)]
        deps = []
        style = rng.random()
        for i, nm in enumerate(names):
            d = {"name": nm}
            if style < 0.55:  # mostly chains towards higher indices (acyclic), then maybe one back edge
                w = names[i + 1] if i + 1 < n and rng.random() < 0.75 else None
            else:
                w = rng.choice(names) if rng.random() < 0.6 else None
            if w is None and rng.random() < 0.03:
                w = "undefined"
            d["wraps"] = w
            d["wform"] = rng.choice(["str", "dict"])
            d["workdir"] = f"/w{i}" if rng.random() < 0.3 else None
            deps.append(d)
        if style < 0.55 and rng.random() < 0.3:
            i = rng.randrange(n)
            deps[i]["wraps"] = rng.choice(names[:i + 1])
        targets = [[d["name"], (f"/own{i}" if rng.random() < 0.25 else None)] for i, d in enumerate(deps)]
        return {"f": "deploy", "deployments": deps, "targets": targets}

    def gen(self, rng, tier):
        n = {"quick": 600, "thorough": 3000, "extended": 3000}[tier]
        return [self._nearest_case(rng) for _ in range(n)] + [self._deploy_case(rng) for _ in range(n // 2)]

    # ---------------------------------------------------------------- implementation
    def impl_init(self):
        from streamflow.config.config import WorkflowConfig
        from streamflow.core.exception import WorkflowDefinitionException
        from streamflow.deployment.utils import get_binding_config

        self.WC, self.WDE, self.gbc = WorkflowConfig, WorkflowDefinitionException, get_binding_config

    def _config(self, deployments, bindings):
        return {"workflows": {"wf": {"type": "cwl", "config": {}, "bindings": bindings}},
                "deployments": deployments}

    def impl_run(self, c):
        if c["f"] == "nearest":
            bindings = []
            for i, b in enumerate(c["bindings"]):
                bindings.append({b["kind"]: b["path"], "target": {"deployment": "d", "workdir": f"/b{i}"}})
            try:
                wc = self.WC("wf", self._config({"d": {"type": "fake", "config": {}}}, bindings))
            except self.WDE as e:
                return {"err": "WorkflowDefinitionException", "msg": str(e)[:200]}
            out = []
            for kind, name in c["queries"]:
                bc = self.gbc(name, kind, wc)
                t = bc.targets[0]
                if t.deployment.name == "__LOCAL__":
                    out.append(None)
                else:
                    m = re.fullmatch(r"/b([0-9]+)", t.workdir)
                    out.append(int(m.group(1)) if m and len(bc.targets) == 1 else -1)
            return {"r": out}
        deployments = {}
        for d in c["deployments"]:
            e = {"type": "fake", "config": {}}
            if d["workdir"] is not None:
                e["workdir"] = d["workdir"]
            if d["wraps"] is not None:
                e["wraps"] = d["wraps"] if d["wform"] == "str" else {"deployment": d["wraps"], "service": "s"}
            deployments[d["name"]] = e
        tl = []
        for n, own in c["targets"]:
            t = {"deployment": n}
            if own is not None:
                t["workdir"] = own
            tl.append(t)
        try:
            wc = self.WC("wf", self._config(deployments, [{"step": "/", "target": tl}]))
        except self.WDE as e:
            m = re.search(r"The deployment `(.*)` leads to a circular reference", str(e))
            return {"err": "WorkflowDefinitionException", "name": m.group(1) if m else None, "msg": str(e)[:200]}
        except KeyError as e:
            return {"err": "KeyError", "msg": str(e)[:200]}
        bc = self.gbc("/any/step", "step", wc)
        return {"r": [[t.deployment.name, t.deployment.workdir, t.workdir] for t in bc.targets]}

    # ---------------------------------------------------------------- oracle (from the property text)
    def oracle(self, c, o):
        if "crash" in o or "hang" in o:
            return ("crash", f"implementation crashed/hung: {str(o)[:300]}")
        if c["f"] == "nearest":
            if any(_norm(b["path"])[0] == "" for b in c["bindings"]):
                return None  # relative binding paths are outside the property text
            if "r" not in o:
                return ("nearest-raises", f"absolute bindings rejected: {o.get('msg')}")
            for (kind, name), got in zip(c["queries"], o["r"]):
                if kind != "step":
                    continue
                want = _expected_binding(c["bindings"], name)
                if got != want:
                    return ("nearest", f"step {name!r}: targets of binding {got} used, nearest bound ancestor is "
                                       f"binding {want} (None = local)")
            return None
        cyc, undef = _cycle_or_undefined(c["deployments"])
        if undef:
            return None
        if cyc:
            if o.get("err") != "WorkflowDefinitionException":
                return ("cycle-accepted", f"cyclic wraps chain not rejected with a definition error: {str(o)[:200]}")
            return None
        if "r" not in o:
            return ("acyclic-rejected", f"acyclic wraps chains rejected: {o.get('err')} {o.get('msg')}")
        for (n, own), (gn, dw, tw) in zip(c["targets"], o["r"]):
            want = _expected_workdir(c["deployments"], n, own)
            if gn != n:
                return ("workdir", f"target {n}: deployment {gn} returned")
            if want is not None and tw != want:
                return ("workdir", f"target on {n} (own workdir {own}): working directory {tw!r}, expected {want!r} "
                                   f"(own, else first along the wraps chain)")
        return None

    # ---------------------------------------------------------------- model side
    def coq_case(self, c, o):
        if "crash" in o or "hang" in o:
            return None
        asc = lambda s: all(32 <= ord(ch) < 127 for ch in s)
        if c["f"] == "nearest":
            if not all(asc(b["path"]) for b in c["bindings"]) or not all(asc(q[1]) for q in c["queries"]):
                return None
            bs = coq_list([f"B {coq_bool(b['kind'] == 'step')} {coq_str(b['path'])} {coq_N(i)}"
                           for i, b in enumerate(c["bindings"])])
            if "r" not in o:
                return f"CNearest {bs} false []"
            if any(r is not None and r < 0 for r in o["r"]):
                return None
            qs = coq_list([f"({coq_bool(k == 'step')}, {coq_str(n)}, {coq_opt(r, coq_N)})"
                           for (k, n), r in zip(c["queries"], o["r"])])
            return f"CNearest {bs} true {qs}"
        os_ = lambda s: coq_opt(s, coq_str)
        ds = coq_list([f"D {coq_str(d['name'])} {os_(d['workdir'])} {os_(d['wraps'])}" for d in c["deployments"]])
        if "r" in o:
            ws = coq_list([f"({coq_str(n)}, {os_(own)}, {os_(dw)}, {coq_str(tw)})"
                           for (n, own), (gn, dw, tw) in zip(c["targets"], o["r"])])
            return f"CDeploy {ds} CNoCycle {ws}"
        if o.get("err") == "KeyError":
            return f"CDeploy {ds} CKeyError []"
        if o.get("err") == "WorkflowDefinitionException" and o.get("name") is not None:
            return f"CDeploy {ds} (CCycle {coq_str(o['name'])}) []"
        return None

    def nontrivial(self, c):
        if c["f"] == "nearest":
            steps = [_norm(b["path"]) for b in c["bindings"] if b["kind"] == "step"]
            ports = [_norm(b["path"]) for b in c["bindings"] if b["kind"] == "port"]
            anc = any(a != b and a[0] == b[0] and a[1] == b[1][:len(a[1])] and len(a[1]) < len(b[1])
                      for a in steps for b in steps)
            onp = any(p[0] == _norm(q[1])[0] and p[1] == _norm(q[1])[1][:len(p[1])] for p in ports for q in c["queries"])
            return anc or onp
        byname = {d["name"]: d for d in c["deployments"]}
        return any(d["wraps"] in byname and byname[d["wraps"]]["wraps"] is not None for d in c["deployments"])

    def signature(self, c, o, clause):
        return f"{c['f']}/{clause}"

    def shrink(self, c):
        if c["f"] == "nearest":
            for i in range(len(c["bindings"])):
                yield {**c, "bindings": c["bindings"][:i] + c["bindings"][i + 1:]}
            for i in range(len(c["queries"])):
                if len(c["queries"]) > 1:
                    yield {**c, "queries": [c["queries"][i]]}
        else:
            n = len(c["deployments"])
            for i in range(n):
                if n > 1:
                    nm = c["deployments"][i]["name"]
                    if all(d["wraps"] != nm for d in c["deployments"]):
                        yield {**c, "deployments": c["deployments"][:i] + c["deployments"][i + 1:],
                               "targets": [t for t in c["targets"] if t[0] != nm]}
            for i in range(n):
                d = c["deployments"][i]
                if d["workdir"] is not None:
                    yield {**c, "deployments": c["deployments"][:i] + [{**d, "workdir": None}] + c["deployments"][i + 1:]}


PROP = C28()
