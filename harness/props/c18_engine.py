"""Engine-level scenarios for C18: real workflows on the local deployment with an injected failure, real
RollbackFailureManager recovery, and an execution counter in the injected command.

Imitates tests/test_recovery.py + tests/utils/workflow.py (which checks must not import): an injector step, an
execute pipeline (ScheduleStep -> TransferStep -> ExecuteStep with an in-process Command), ScatterStep / GatherStep.
Differences from the test helpers: the injected fail-stop failure does not wipe the whole work directory, it deletes
exactly the files backing the failing job's inputs one provenance level up (so the set of lost tokens is controlled);
executions are counted in memory; ProvenanceGraph.build_graph is wrapped to record, at planning time, the provenance
table, an independent availability map (recoverable flag + files present on the local file system), the real inputs
and the real built graph.

Only imported inside worker processes (needs StreamFlow on PYTHONPATH)."""
from __future__ import annotations

import asyncio
import json
import os
import posixpath
import shutil
from pathlib import PurePath
from typing import Any, cast

from streamflow.core import utils
from streamflow.core.config import BindingConfig
from streamflow.core.data import DataType
from streamflow.core.deployment import DeploymentConfig, Target
from streamflow.core.exception import FailureHandlingException, WorkflowExecutionException
from streamflow.core.utils import get_job_tag, get_tag
from streamflow.core.workflow import Command, CommandOutput, Job, Status, Token, Workflow
from streamflow.data.remotepath import StreamFlowPath
from streamflow.deployment.utils import get_path_processor
from streamflow.persistence.loading_context import DefaultDatabaseLoadingContext
from streamflow.persistence.utils import load_dependee_tokens
from streamflow.recovery import utils as rutils
from streamflow.workflow.executor import StreamFlowExecutor
from streamflow.workflow.step import (
    DefaultCommandOutputProcessor,
    DeployStep,
    ExecuteStep,
    GatherStep,
    InputInjectorStep,
    ScatterStep,
    ScheduleStep,
    TransferStep,
)
from streamflow.workflow.token import FileToken, JobToken, ListToken, ObjectToken, TerminationToken

DEPLOYMENT = "sfv-local-volatile"
RUNS: dict[str, dict] = {}      # scenario key -> {"counts": {job name: n}, "events": [...], "fail": {...}}


class EFileToken(FileToken):
    async def get_paths(self, context):
        return [self.value]


async def _register(context, location, path, relpath):
    p = StreamFlowPath(path, context=context, location=location)
    if await p.resolve():
        return context.data_manager.register_path(location=location, path=str(p), relpath=relpath,
                                                  data_type=DataType.PRIMARY)
    return None


async def build_token(job: Job, value: Any, context, recoverable: bool) -> Token:
    if isinstance(value, list):
        return ListToken(tag=get_tag(job.inputs.values()),
                         value=[await build_token(job, v, context, recoverable) for v in value])
    if isinstance(value, dict) and value.get("class") == "File":
        locations = context.scheduler.get_locations(job.name)
        relpath = (os.path.relpath(value["path"], job.output_directory)
                   if job.output_directory and value["path"].startswith(job.output_directory)
                   else os.path.basename(value["path"]))
        await _register(context, next(iter(locations)), value["path"], relpath)
        return EFileToken(tag=get_tag(job.inputs.values()), value=value["path"], recoverable=recoverable)
    if isinstance(value, Token):
        t = value.update(value.value)
        t.recoverable = recoverable
        return t
    return Token(tag=get_tag(job.inputs.values()), value=value, recoverable=recoverable)


class EInjectorStep(InputInjectorStep):
    async def process_input(self, job: Job, token_value: Any) -> Token:
        return await build_token(job, token_value, self.workflow.context, True)


class EOutputProcessor(DefaultCommandOutputProcessor):
    def __init__(self, name, workflow, value_type, target=None):
        super().__init__(name, workflow, target)
        self.value_type = value_type

    @classmethod
    async def _load(cls, row, loading_context):
        return cls(name=row["name"], workflow=await loading_context.load_workflow(row["workflow"]),
                   value_type=row["value_type"],
                   target=(await loading_context.load_target(row["target"]) if row["target"] else None))

    async def _save_additional_params(self, database):
        if self.target:
            await self.target.save(database)
        return cast(dict, await super()._save_additional_params(database)) | {"value_type": self.value_type}

    async def process(self, job, command_output, connector=None, recoverable=False):
        context = self.workflow.context
        value = (await command_output).value
        tag = get_tag(job.inputs.values())
        locations = context.scheduler.get_locations(job.name)

        async def ftoken(path):
            if not await StreamFlowPath(path, context=context, location=locations[0]).exists():
                raise WorkflowExecutionException(f"Job {job.name} output does not exist: File {path}")
            await _register(context, next(iter(locations)), path, os.path.relpath(path, job.output_directory))
            return EFileToken(tag=tag, value=path, recoverable=recoverable)

        if self.value_type == "file":
            return await ftoken(value)
        if self.value_type == "list":
            return ListToken(tag=tag, value=[await ftoken(v) for v in value])
        return Token(tag=tag, value=value, recoverable=recoverable)


class ETransferStep(TransferStep):
    async def _transfer_path(self, job: Job, path: str) -> str:
        dm = self.workflow.context.data_manager
        dst_connector = self.workflow.context.scheduler.get_connector(job.name)
        dst_locations = self.workflow.context.scheduler.get_locations(job.name)
        pp = get_path_processor(dst_locations[0])
        if src := await dm.get_source_location(path=path, dst_deployment=dst_connector.deployment_name):
            dst_path = pp.join(job.input_directory, src.relpath)
            await dm.transfer_data(src_location=src.location, src_path=src.path, dst_locations=dst_locations,
                                   dst_path=dst_path, writable=True)
            return dst_path
        raise WorkflowExecutionException(f"Job {job.name} input does not exist: File {path}")

    async def transfer(self, job: Job, token: Token) -> Token:
        if isinstance(token, ListToken):
            return token.update(value=[await self.transfer(job, t) for t in token.value])
        if isinstance(token, FileToken):
            token = token.update(await self._transfer_path(job, token.value))
            token.recoverable = False
            return token
        token = token.update(token.value)
        token.recoverable = False
        return token


def _files_of(token) -> list[str]:
    if isinstance(token, FileToken):
        return [token.value]
    if isinstance(token, ListToken):
        return [p for t in token.value for p in _files_of(t)]
    if isinstance(token, ObjectToken):
        return [p for t in token.value.values() for p in _files_of(t)]
    return []


class ECommand(Command):
    """copies its (file or list-of-files) input into the job's output directory; counts executions; fails as the
    scenario says"""

    def __init__(self, step, key: str, out_kind: str):
        super().__init__(step)
        self.key, self.out_kind = key, out_kind

    async def _save_additional_params(self, database):
        return cast(dict, await super()._save_additional_params(database)) | {"key": self.key, "out_kind": self.out_kind}

    @classmethod
    async def _load(cls, row, loading_context, step):
        return cls(step=step, key=row["key"], out_kind=row["out_kind"])

    async def execute(self, job: Job) -> CommandOutput:
        run = RUNS[self.key]
        context = self.step.workflow.context
        run["counts"][job.name] = run["counts"].get(job.name, 0) + 1
        fail = run["fail"]
        fsteps = (fail.get("steps") or [fail["step"]]) if fail else []
        if (fail and posixpath.dirname(job.name) in fsteps and get_job_tag(job.name) == fail["tag"]
                and run["failed_by"].get(job.name, 0) < fail["times"]):
            run["failed_by"][job.name] = run["failed_by"].get(job.name, 0) + 1
            run["failed"] += 1
            if fail.get("barrier"):
                # several jobs fail together: rendezvous, so that their recoveries are planned concurrently
                ev = run.setdefault("barrier_ev", asyncio.Event())
                run["arrived"] = run.get("arrived", 0) + 1
                if run["arrived"] >= fail["barrier"]:
                    ev.set()
                try:
                    await asyncio.wait_for(ev.wait(), timeout=60)
                except asyncio.TimeoutError:
                    pass
            if fail["kind"] == "lose_job":
                lost = [p for p in run["outputs"].get(fail["lose_job"], []) if os.path.exists(p)]
                for p in lost:
                    os.remove(p)
                run["lost_paths"] = sorted(set(run.get("lost_paths", [])) | set(lost))
            if fail.get("wait_siblings"):
                # fail only after every sibling job of the step ran once, so that what is re-executed later is
                # not an effect of interleaving
                for _ in range(2000):
                    sib = [n for n in run["counts"] if posixpath.dirname(n) == fail["step"]]
                    if len(sib) >= fail["wait_siblings"] and run["done"].get(fail["step"], 0) >= fail["wait_siblings"] - 1:
                        break
                    await asyncio.sleep(0.01)
            if fail["kind"] == "loss":
                lc = DefaultDatabaseLoadingContext(database=context.database)
                frontier = [t for k, t in job.inputs.items()]
                lost = []
                for depth in range(fail.get("depth", 1) + 1):
                    nxt = []
                    for t in frontier:
                        for p in _files_of(t):
                            if fail.get("only_depth") is None or depth >= fail["only_depth"]:
                                lost.append(p)
                        if t.persistent_id is not None:
                            nxt.extend(d for d in await load_dependee_tokens(t.persistent_id, lc)
                                       if not isinstance(d, JobToken))
                    frontier = nxt
                for p in lost:
                    if os.path.isdir(p):
                        shutil.rmtree(p, ignore_errors=True)
                    elif os.path.exists(p):
                        os.remove(p)
                run["lost_paths"] = sorted(set(lost))
            return CommandOutput("Injected failure", Status.FAILED)
        try:
            inputs = [t for k, t in sorted(job.inputs.items())]
            src = _files_of(inputs[0])
            os.makedirs(job.output_directory, exist_ok=True)
            outs = []
            for i, p in enumerate(src):
                if not os.path.exists(p):
                    raise WorkflowExecutionException(f"Job {job.name} input does not exist: File {p}")
                dst = os.path.join(job.output_directory, f"r{i}-{PurePath(job.name).parts[1]}-{get_job_tag(job.name)}")
                shutil.copy(p, dst)
                outs.append(dst)
            value = outs if self.out_kind == "list" else outs[0]
        except WorkflowExecutionException:
            raise
        except Exception as err:  # noqa
            raise FailureHandlingException(err)
        run["done"][posixpath.dirname(job.name)] = run["done"].get(posixpath.dirname(job.name), 0) + 1
        run["outputs"][job.name] = list(outs)
        return CommandOutput(value, Status.COMPLETED)


# ------------------------------------------------------------------------------------------------
_orig_build_graph = rutils.ProvenanceGraph.build_graph


def _fs_available(token) -> bool:
    """independent of the data manager: the recoverable flag and the files on the local file system"""
    if isinstance(token, ListToken):
        return all(_fs_available(t) for t in token.value)
    if isinstance(token, ObjectToken):
        return all(_fs_available(t) for t in token.value.values())
    if isinstance(token, FileToken):
        return bool(token.recoverable) and os.path.exists(token.value)
    return bool(token.recoverable)


async def _dump(context, inputs):
    db = context.database
    async with db.connection as conn:
        async with conn.execute("SELECT token.id AS id, token.port AS port, port.name AS pname FROM token "
                                "JOIN port ON token.port = port.id ORDER BY token.id") as cur:
            rows = [dict(r) for r in await cur.fetchall()]
        async with conn.execute("SELECT dependee, depender FROM provenance") as cur:
            prov = [dict(r) for r in await cur.fetchall()]
    lc = DefaultDatabaseLoadingContext(database=db)
    out = []
    for r in rows:
        t = await lc.load_token(r["id"])
        if isinstance(t, TerminationToken):
            continue
        job = t.value.name if isinstance(t, JobToken) else None
        out.append({"id": r["id"], "port_id": r["port"], "pname": r["pname"], "tag": t.tag, "jobname": job,
                    "avail": _fs_available(t), "missing": any(not os.path.exists(q) for q in _files_of(t)),
                    "recovering": bool(job is not None and await context.failure_manager.is_recovering(job)),
                    "deps": [p["dependee"] for p in prov if p["depender"] == r["id"]]})
    return out


async def _wrapped_build_graph(self, inputs):
    inputs = list(inputs)
    key = getattr(self.context, "_sfv_key", None)
    dump = await _dump(self.context, inputs) if key in RUNS else None
    err = None
    try:
        await _orig_build_graph(self, inputs)
    except FailureHandlingException as e:
        err = e
    if key in RUNS:
        nodes = sorted(self.dag_tokens.get_nodes())
        RUNS[key]["events"].append({
            "inputs": [t.persistent_id for t in inputs], "db": dump,
            "graph": None if err else {
                "nodes": nodes, "edges": sorted([u, v] for u in nodes for v in self.dag_tokens.successors(u)),
                "avail": sorted([k, bool(v.is_available)] for k, v in self.info_tokens.items())}})
    if err:
        raise err


rutils.ProvenanceGraph.build_graph = _wrapped_build_graph


# ------------------------------------------------------------------------------------------------
class Builder:
    def __init__(self, context, workflow, key, dconf):
        self.context, self.wf, self.key, self.dconf = context, workflow, key, dconf

    def _deploy(self):
        name = posixpath.join("__deploy__", self.dconf.name)
        if name not in self.wf.steps:
            return self.wf.create_step(cls=DeployStep, name=name, deployment_config=self.dconf)
        return self.wf.steps[name]

    def _schedule(self, prefix):
        d = self._deploy()
        bc = BindingConfig(targets=[Target(deployment=self.dconf)])
        return self.wf.create_step(cls=ScheduleStep, name=posixpath.join(prefix, "__schedule__"), job_prefix=prefix,
                                   connector_ports={self.dconf.name: d.get_output_port()}, binding_config=bc,
                                   hardware_requirement=None)

    def injector(self, port_name, step_name):
        step_name = f"{step_name}-injector"
        s = self._schedule(step_name)
        st = self.wf.create_step(cls=EInjectorStep, name=step_name, job_port=s.get_output_port())
        st.add_input_port(port_name, self.wf.create_port())
        st.add_output_port(port_name, self.wf.create_port())
        return st

    def pipeline(self, step_name, input_ports, out_name, out_kind):
        s = self._schedule(step_name)
        ex = self.wf.create_step(ExecuteStep, name=step_name, job_port=s.get_output_port())
        ex.command = ECommand(ex, self.key, out_kind)
        for k, port in input_ports.items():
            s.add_input_port(k, port)
            tr = self.wf.create_step(cls=ETransferStep, name=posixpath.join(step_name, "__transfer__", k),
                                     job_port=s.get_output_port())
            tr.add_input_port(k, port)
            tr.add_output_port(k, self.wf.create_port())
            ex.add_input_port(k, tr.get_output_port(k))
        ex.add_output_port(out_name, self.wf.create_port(), EOutputProcessor(out_name, self.wf, out_kind))
        return ex


async def run_scenario(sc: dict, base_dir: str) -> dict:
    """sc: {"key", "shape": "scatter"|"pipeline", "width", "fail": {...}|None}"""
    from streamflow.main import build_context

    key = sc["key"]
    root = os.path.join(base_dir, key)
    workdir = os.path.join(root, "work")
    os.makedirs(workdir, exist_ok=True)
    context = build_context({
        "failureManager": {"type": "default", "config": {"max_retries": 6, "retry_delay": 0}},
        "database": {"type": "default", "config": {"connection": ":memory:"}},
        "path": root})
    context._sfv_key = key if hasattr(context, "__dict__") else None
    fail = sc.get("fail")
    RUNS[key] = {"counts": {}, "events": [], "fail": None, "failed": 0, "done": {}, "failed_by": {}, "outputs": {}}
    try:
        dconf = DeploymentConfig(name=DEPLOYMENT, type="local", config={}, external=True, lazy=False, workdir=workdir)
        await context.deployment_manager.deploy(dconf)
        from streamflow.cwl.workflow import CWLWorkflow

        wf = CWLWorkflow(context=context, name=utils.random_name(), config={}, cwl_version="v1.2")
        await wf.save(context.database)
        b = Builder(context, wf, key, dconf)
        width = sc.get("width", 1)
        files = []
        os.makedirs(os.path.join(root, "in"), exist_ok=True)
        for i in range(width):
            p = os.path.join(root, "in", f"f{i}")
            with open(p, "w") as f:
                f.write(f"element {i}\n")
            files.append({"class": "File", "path": p})
        inj = b.injector("in", "/in")
        inj.get_input_port("in").put(Token(files if sc["shape"] in ("scatter", "fork") else files[0], recoverable=True))
        inj.get_input_port("in").put(TerminationToken())
        names = {}
        if sc["shape"] in ("scatter", "fork"):
            a = b.pipeline("/a", {"in": inj.get_output_port("in")}, "out", "list")
            scat = wf.create_step(cls=ScatterStep, name="/b-scatter")
            scat.add_input_port("out", a.get_output_port("out"))
            scat.add_output_port("out", wf.create_port())
            bb = b.pipeline("/b", {"out": scat.get_output_port("out")}, "out", "file")
            g = wf.create_step(cls=GatherStep, name="/b-gather", size_port=scat.get_size_port())
            g.add_input_port("out", bb.get_output_port("out"))
            g.add_output_port("out", wf.create_port())
            c = b.pipeline("/c", g.get_output_ports(), "out", "list")
            last = c
            if sc["shape"] == "fork":      # a second, parallel consumer of the gathered list
                b.pipeline("/d", g.get_output_ports(), "out", "list")
        else:
            prev = inj.get_output_port("in")
            last = None
            for nm in ("/a", "/b", "/c"):
                last = b.pipeline(nm, {"x": prev}, "out", "file")
                prev = last.get_output_port("out")
        if fail:
            RUNS[key]["fail"] = dict(fail)
        await wf.save(context.database)
        status = "COMPLETED"
        try:
            await asyncio.wait_for(StreamFlowExecutor(wf).run(), timeout=sc.get("timeout", 120))
        except asyncio.TimeoutError:
            status = "TIMEOUT"
        except Exception as e:  # noqa
            status = "EXC:" + type(e).__name__
        toks = last.get_output_port("out").token_list
        result = None
        if toks and not isinstance(toks[0], TerminationToken):
            result = [open(p).read() for p in _files_of(toks[0]) if os.path.exists(p)]
        return {"status": status, "counts": dict(sorted(RUNS[key]["counts"].items())), "events": RUNS[key]["events"],
                "result": result, "lost_paths": [os.path.relpath(p, root) for p in RUNS[key].get("lost_paths", [])]}
    finally:
        try:
            await context.deployment_manager.undeploy_all()
            await context.close()
        except Exception:  # noqa
            pass
        RUNS.pop(key, None)
        shutil.rmtree(root, ignore_errors=True)
