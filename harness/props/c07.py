"""C07 — Recorded provenance is complete and acyclic."""
import copy

from harness.lib.framework import Prop, coq_bool, coq_list, coq_N, coq_nat, coq_str, coq_Z
from harness.props import netlib


def emitted_expectations(case, o):
    """For every token a step emitted (port dump, in memory), the ids of the persisted tokens it was computed from,
    derived from the PROPERTY TEXT and the step semantics (tags), not from what the step passed to the database:
      transformer / conditional : the tokens bearing the same tag on each of the step's input ports
      scatter                   : the scattered list token (element tag minus its last component / same tag for size)
      gather                    : the size token of the key + every element whose tag extends the key by one component
      list-merge combinator     : the same-tag token of every source port
      dot / cartesian combinator: taken from the step's own _persist_token call (marked 'log')
    Returns (expected: {id: sorted ids}, problems: [str])."""
    by_port = {}
    for p, d in o["ports"].items():
        ids = o["mem_ids"][p]
        by_port[p] = [(t, i) for (t, _), i in zip(d["toks"], ids)]
    log = {r[2]: r[3] for r in o["persisted"]}
    exp, problems = {}, []

    def one(port, tag):
        m = [i for t, i in by_port[port] if t == tag]
        if len(m) != 1 or m[0] is None:
            problems.append(f"no unique persisted token with tag {tag} on {port}")
            return []
        return m

    for s in case["steps"]:
        k = s["k"]
        for oname, q in s["outs"].items():
            for tag, tid in by_port[q]:
                if tid is None:
                    problems.append(f"token {tag} on {q} emitted by {s['n']} has no persistent id")
                    continue
                if k in ("xf", "cond"):
                    e = [i for p in s["ins"].values() for i in one(p, tag)]
                elif k == "scatter":
                    src = tag if oname == "__size__" else tag.rsplit(".", 1)[0]
                    e = one(s["ins"]["x"], src)
                elif k == "gather":
                    dp = next(p for n, p in s["ins"].items() if n != "__size__")
                    e = one(s["ins"]["__size__"], tag) + [i for t, i in by_port[dp]
                                                            if t.rsplit(".", 1)[0] == tag and i is not None]
                elif k == "default":
                    # a null primary value is replaced by the default token: the output was computed from both
                    prim = s["ins"]["x"]
                    pv = [v for (t, v) in o["ports"][prim]["toks"] if t == tag]
                    e = one(prim, tag)
                    if pv and pv[0] is None:
                        e = e + [i for _, i in by_port.get(s["dport"], []) if i is not None]
                elif k == "merge":
                    # the merged list of tag T was computed from the token tagged T of EVERY source port
                    e = [i for p in s["ins"].values() for i in one(p, tag)]
                elif k == "exec":
                    jp = s["n"].strip("/") + "__job__"
                    e = [i for p in s["ins"].values() for i in one(p, tag)] + one(jp, tag)
                else:
                    e = list(log.get(tid, []))
                exp[tid] = sorted(set(e))
        if k == "exec":
            # the JobToken of tag T <- the deployment token(s) + the tokens tagged T on every data input port
            jp = s["n"].strip("/") + "__job__"
            dep = [i for _, i in by_port.get("__deploy__", []) if i is not None]
            for tag, tid in by_port.get(jp, []):
                if tid is None:
                    problems.append(f"job token {tag} of {s['n']} has no persistent id")
                    continue
                exp[tid] = sorted(set(dep + [i for p in s["ins"].values() for i in one(p, tag)]))
    for _, tid in by_port.get("__deploy__", []):
        if tid is not None:
            exp[tid] = []
    # orphans: a token row that is on no port although provenance was written for it.  This is what a cancelled
    # `port.put(await self._persist_token(...))` leaves behind (ExecuteStep cancels sibling jobs when one fails):
    # the token was never emitted, so the property says nothing about it; its recorded edges are taken as they are
    # (they still have to be well-ordered and join persisted tokens).
    on_ports = {i for ids in o["mem_ids"].values() for i in ids}
    deps = {}
    for a, b in o["prov"]:
        deps.setdefault(b, []).append(a)
    for b, das in deps.items():
        if b not in on_ports and b not in exp:
            exp[b] = sorted(das)
    return exp, problems



def stepprov_terms(case, o):
    """kind `stepprov`: for the step kinds that have an id-carrying model (Prov/Steps.v) — Transformer and always-emitting
    ConditionalStep rounds, dot/cartesian combinators, depth-1 gathers — what the step recorded (the harness' log of its
    _persist_token calls) next to what the model records on the same tokens.  Only for runs in which every step ran
    to completion (no injected failure, no cancellation)."""
    if o.get("ret") != "ok" or o.get("raised") or netlib.has_unobserved_sink(case):
        return []
    rows = {r[0]: r for r in o["tokens"]}
    by_port = {}
    for p, d in o["ports"].items():
        ids = o["mem_ids"][p]
        if any(i is None for i in ids):
            return []
        by_port[p] = [(t, v, i) for (t, v), i in zip(d["toks"], ids)]
    terms = []
    for s in case["steps"]:
        k = s["k"]
        if not s["outs"]:
            continue
        first_out = next(iter(s["outs"].values()))
        rec = [(rows[r[2]][2], r[3]) for r in o["persisted"] if r[0] == s["n"] and r[1] == first_out and r[2] in rows]
        if k == "xf" or (k == "cond" and s.get("skip", True)):
            cols = [by_port[p] for p in s["ins"].values()]
            n = min(len(c) for c in cols)
            rounds = coq_list([coq_list([f"({coq_str(c[r][0])}, {coq_Z(c[r][2])})" for c in cols]) for r in range(n)])
            obs = coq_list([f"({coq_str(t)}, {coq_list([coq_Z(i) for i in ins])})" for t, ins in rec])
            terms.append(f"CRounds {coq_nat(len(cols))} {coq_nat(len(s['outs']))} {rounds} {obs}")
        elif k in ("dot", "cart"):
            arr = coq_list([f"({coq_str(nm)}, ({coq_N(i)}, {coq_str(t)}))" for nm, p in s["ins"].items()
                            for (t, _, i) in by_port[p]])
            obs = coq_list([coq_list([coq_N(i) for i in ins]) for _, ins in rec])
            items = coq_list([coq_str(nm) for nm in s["ins"]])
            if k == "dot":
                terms.append(f"CDot {items} {arr} {obs}")
            else:
                terms.append(f"CCart {items} {coq_nat(s.get('depth', 1))} {arr} {obs}")
        elif k == "gather" and s.get("depth", 1) == 1:
            sp = s["ins"]["__size__"]
            dp = next(p for nm, p in s["ins"].items() if nm != "__size__")
            if any(not isinstance(v, int) or isinstance(v, bool) for _, v, _ in by_port[sp]):
                continue
            sizes = coq_list([f"({coq_str(t)}, {coq_N(v)}, {coq_N(i)})" for t, v, i in by_port[sp]])
            elems = coq_list([f"({coq_str(t)}, {coq_N(i)})" for t, _, i in by_port[dp]])
            obs = coq_list([f"({coq_str(t)}, {coq_list([coq_N(i) for i in ins])})" for t, ins in rec])
            terms.append(f"CGather {sizes} {elems} {obs}")
    return terms


def discipline_ops(o):
    """the recorded interleaving of _persist_token phases as Begin/Save/Prov ops, or None when the recorded order
    of completions is not the allocation order (then the simple linearisation is not faithful)"""
    ev = o.get("dbev")
    if not ev:
        return None
    allocs = [e[1] for e in ev if e[0] == "alloc"]
    if allocs != sorted(allocs) or not allocs:
        return None
    start = allocs[0]
    if allocs != list(range(start, start + len(allocs))):
        return None
    id_of = {e[1]: e[2] for e in ev if e[0] == "end"}          # call k -> id
    if any(e[0] == "begin" and e[1] not in id_of for e in ev):
        return None                                            # a cancelled _persist_token call
    k_of = {v: k for k, v in id_of.items()}
    ops, edges, dummy = [], [], 100000
    begun = {}
    for e in ev:
        if e[0] == "begin":
            if e[1] not in id_of:
                continue
            begun[e[1]] = [i for i in e[2] if i is not None]
            ops.append(f"(Begin {coq_nat(e[1])} {coq_list([coq_N(i) for i in begun[e[1]]])})")
        elif e[0] == "alloc":
            if e[1] in k_of:
                ops.append(f"(Save {coq_nat(k_of[e[1]])})")
            else:                       # a token saved outside _persist_token (inner tokens of a list, forced sizes)
                dummy += 1
                if dummy > 104000:
                    return None
                ops.append(f"(Begin {coq_nat(dummy % 4999)} [])")
                ops.append(f"(Save {coq_nat(dummy % 4999)})")
        elif e[0] == "prov":
            if e[1] in k_of:
                ops.append(f"(Prov {coq_nat(k_of[e[1]])})")
    return start, ops


class C07(netlib.Guarded, Prop):
    ID = "C07"
    PROPS_FILE = "Props/C07.v"
    CORR_MODULE = "Prov.Corr"
    LEVEL = "translation_validation"
    MAX_WORKERS = 6
    CASE_TIMEOUT = netlib.GUARD_CASE_TIMEOUT      # outer guard only: a hang verdict is structural (see netlib)
    SHARD_TIMEOUT = netlib.GUARD_SHARD_TIMEOUT
    LEVEL_TEXT = (
        "Translation validation: after every generated execution (the C04 workloads: DAGs of transformer/conditional "
        "steps, scatter/gather, dot/cartesian combinators, with and without an injected failure, under a seeded "
        "permuting event loop) the `token` and `provenance` tables are dumped and a checker proved sound in Coq is "
        "evaluated on the dump inside Coq (vm_compute): acceptance implies every edge joins persisted tokens with "
        "dependee id < depender id, the relation is acyclic, every emitted token is persisted and linked to exactly "
        "the expected tokens, and no stray edge exists (C07_checker_sound). The expectations come from the property "
        "text via the tags for transformer/conditional/scatter/gather; for combinators from the step's own call. "
        "Step level (C07_step_inputs_*): on top of the step models proved in the other areas, extended with the ids each step "
        "passes to _persist_token, for every arrival order the recorded inputs of an emitted token are exactly what the step "
        "consumed: ScatterStep (the scattered token), Transformer/ConditionalStep rounds (one token per input port, all of "
        "the tag), GatherStep (the size token and every element of the key, once), flat dot product and cartesian product "
        "(the tokens of the combination), LoopOutputStep policy all; the logged _persist_token calls of the real steps are "
        "fed through these models (kind stepprov). ExecuteStep/ScheduleStep/TransferStep/InputInjectorStep, list-merge, "
        "DefaultTransformer stay per-run only; ExecuteStep's job/tag pairing has a refutation witness. "
        "Additionally a theorem about the writing discipline of _persist_token (get_entity_ids, then save, then "
        "add_provenance, arbitrarily interleaved between steps): every edge ever written goes from an older to a "
        "newer allocated id, for all interleavings; the recorded interleavings of real runs are replayed through "
        "that model. Executions with rollback recovery (C16's generator) are checked structurally only: well-ordered "
        "acyclic relation over persisted tokens, every emitted token of a job-bound step linked, dependees on the same "
        "branch of the tag tree, and — per executed workflow, main or recovery — the exact dependee set of every token a "
        "job-bound step emitted, by tag over that workflow's own ports (loop shapes excepted).")
    LEVEL_NOTE = ("translation validation by a proven-sound checker; the checker constrains exactly the tokens listed in "
                  "`expected`: that list (every token a step emitted, with the tokens it was computed from) is built by the "
                  "harness from the in-memory ports and the tags and is TRUSTED - prov_ok [] [] [] is true, a persisted token "
                  "absent from `expected` is unconstrained; completeness per step class is decided per run, not "
                  "proved; 'persisted before' relies on SQLite allocating increasing rowids (trusted); after rollback "
                  "exactness is checked for job-bound steps only, by tag, and not for loop shapes")
    TECHNIQUE = "proven-sound checker evaluated in Coq on table dumps + Coq theorem on the write discipline"
    RULE = ("the C04 workloads (see C04, incl. Deploy/Schedule/Execute pipelines with misaligned input ports, list-merge "
            "combinators over 2-3 source ports) and DefaultTransformer shapes with a persisted default token, with the "
            "database dumped at quiescence, plus 12 executions with injected faults and rollback recovery (C16 generator); non-trivial = at least 3 emitted "
            "tokens; distinct = distinct canonical JSON")
    TRUSTED = ("SQLite INTEGER PRIMARY KEY allocation order; aiosqlite; the dump (SELECT over token and provenance) "
               "and the in-memory port lists read by the harness",
               "expectations for combinator outputs are the ids the step itself passed to _persist_token")
    ASSUMPTIONS = ("every port carries a tag at most once (true of the generated workloads), so 'the tokens it was "
                   "computed from' can be identified by tag",)

    def gen(self, rng, tier):
        n_tg, n_sg = {"quick": (130, 50), "thorough": (600, 200), "extended": (400, 150)}[tier]
        cases = []
        for _ in range(n_tg):
            c = netlib.gen_tg_net(rng, big=(tier != "quick"), quirk_p=0.05)
            c["f"] = "prov"
            cases.append(c)
        for _ in range(n_sg):
            c = netlib.gen_sg_net(rng)
            c["f"] = "prov"
            cases.append(c)
        for _ in range({"quick": 40, "thorough": 200, "extended": 120}[tier]):
            c = netlib.gen_exec_net(rng, fail_p=0.3)
            c["f"] = "prov"
            cases.append(c)
        for _ in range({"quick": 6, "thorough": 30, "extended": 20}[tier]):
            c = netlib.gen_default_net(rng)
            c["f"] = "prov"
            cases.append(c)
        # get_entity_ids on entities with / without a persistent id (0 included: the test is a truthiness test)
        for _ in range({"quick": 40, "thorough": 300, "extended": 100}[tier]):
            cases.append({"f": "ids", "l": [rng.choice([None, None, 0, rng.randrange(1, 50), rng.randrange(1, 10 ** 6)])
                                            for _ in range(rng.randrange(0, 7))]})
        # executions WITH recovery: the generator of C16 (pipelines / scatter-gather / diamonds of Schedule, Transfer,
        # Execute steps on a volatile local deployment, injected soft and fail-stop faults, rollback failure manager)
        from harness.props.c16 import PROP as P16

        rc = [c for c in P16.gen(rng, "quick" if tier == "quick" else "extended") if c.get("faults")]
        for c in rc[:{"quick": 12, "thorough": 60, "extended": 40}[tier]]:
            cases.append({**c, "f": "recov"})
        return cases

    def impl_init(self):
        import logging

        self.env = netlib.Env()
        logging.getLogger("streamflow").setLevel(logging.CRITICAL)

    def _run_recov(self, c):
        """a run of b-recovery's engine driver (read-only reuse); the tables are dumped just before the context closes"""
        import asyncio

        from harness.props import _recov
        from streamflow.workflow.token import IterationTerminationToken, TerminationToken

        holder = {}
        from streamflow.workflow.executor import StreamFlowExecutor
        from streamflow.workflow.step import BaseStep

        KINDS = ("ExecuteStep", "TransferStep", "ScheduleStep", "InputInjectorStep", "ScatterStep", "GatherStep",
                 "DeployStep")
        seen_wfs, emissions = [], []          # every workflow an executor ran (main + recovery), every _persist_token
        o_run, o_persist = StreamFlowExecutor.run, BaseStep._persist_token

        async def run(ex):
            if all(w is not ex.workflow for w in seen_wfs):
                seen_wfs.append(ex.workflow)
            return await o_run(ex)

        async def persist(st, token, port, input_token_ids):
            r = await o_persist(st, token=token, port=port, input_token_ids=input_token_ids)
            emissions.append((st.workflow, st.name, port.name, r.persistent_id))
            return r

        def kind_of(st):
            return next((b.__name__ for b in type(st).__mro__ if b.__name__ in KINDS), "other")

        def hook(context, wf):
            orig = context.close

            async def close():
                try:
                    db = context.database
                    async with db.connection as cn:
                        async with cn.execute("SELECT id, port, tag, type FROM token ORDER BY id") as cur:
                            rows = await cur.fetchall()
                        async with cn.execute("SELECT dependee, depender FROM provenance ORDER BY depender, dependee") as cur:
                            prov = [[r[0], r[1]] for r in await cur.fetchall()]
                    holder["tokens"] = [[r[0], r[1], r[2], r[3].rsplit(".", 1)[-1]] for r in rows]
                    holder["prov"] = prov
                    main = {}
                    for st in wf.steps.values():
                        kind = next((b.__name__ for b in type(st).__mro__
                                     if b.__name__ in ("ExecuteStep", "TransferStep", "ScheduleStep", "InputInjectorStep",
                                                       "ScatterStep", "GatherStep", "DeployStep")), "other")
                        for pn in st.output_ports.values():
                            po = wf.ports[pn]
                            main.setdefault(pn, {"kind": kind, "step": st.name, "ids": []})
                            main[pn]["ids"] = [[t.tag, t.persistent_id] for t in po.token_list
                                               if not isinstance(t, (TerminationToken, IterationTerminationToken))]   # control tokens are never persisted
                    holder["main"] = main
                    # every workflow that was executed, with its own ports: what recovery re-ran is judged against
                    # the recovery workflow's ports, not the main one's
                    wfs = []
                    for w in seen_wfs:
                        ports = {}
                        for pn, po in w.ports.items():
                            ports[pn] = {"cls": type(po).__name__,
                                         "toks": [[t.tag, t.persistent_id, type(t).__name__] for t in po.token_list
                                                  if not isinstance(t, (TerminationToken, IterationTerminationToken))]}
                        steps = {st.name: {"kind": kind_of(st), "ins": dict(st.input_ports), "outs": dict(st.output_ports)}
                                 for st in w.steps.values()}
                        em = [[sn, pn, tid] for (ww, sn, pn, tid) in emissions if ww is w]
                        wfs.append({"main": w is wf, "steps": steps, "ports": ports, "emitted": em})
                    holder["wfs"] = wfs
                finally:
                    await orig()

            context.close = close

        StreamFlowExecutor.run, BaseStep._persist_token = run, persist      # observation only; restored below
        try:
            _recov.ENGINE_TIMEOUT = max(getattr(_recov, "ENGINE_TIMEOUT", 40), 600)   # in our worker only
            o = _recov.run_engine(c, hooks=hook)
        finally:
            StreamFlowExecutor.run, BaseStep._persist_token = o_run, o_persist
        out = {"ret": "hang" if o.get("hang") else o.get("result", "?"), "recoveries": sum(1 for e in o.get("trace", []) if e and e[0] == "recover")}
        out.update(holder)
        return out

    def impl_run(self, c):
        if c["f"] == "ids":
            from streamflow.core.persistence import PersistableEntity
            from streamflow.core.utils import get_entity_ids

            ents = []
            for i in c["l"]:
                e = PersistableEntity()
                e.persistent_id = i
                ents.append(e)
            return {"ret": "ok", "r": list(get_entity_ids(ents)), "r_none": list(get_entity_ids(None))}
        if c["f"] == "recov":
            return self._run_recov(c)
        o = netlib.run_net(self.env, c, want_db=True)
        return {k: o[k] for k in ("ret", "ports", "persisted", "tokens", "prov", "port_ids", "mem_ids", "dbev",
                                  "raised") if k in o}

    # ------------------------------------------------------------------ oracle (from the property text)
    def oracle(self, c, o):
        o = self.resolve(c, o)
        if o is None:
            return None                     # the wall-clock guard expired twice: no verdict
        if "crash" in o:
            return ("crash", f"the harness could not contain the run: {str(o)[:300]}")
        if c["f"] == "ids":
            # the ids of the persisted entities, in order (rowids start at 1: lists containing 0 are not judged)
            if 0 not in c["l"] and (o["r"] != [i for i in c["l"] if i is not None] or o["r_none"] != []):
                return ("entity-ids", f"get_entity_ids on ids {c['l']} returned {o['r']}")
            return None
        if c["f"] == "recov" and o["ret"] == "hang":
            # the recovery driver (b-recovery's, reused read-only) only has a wall-clock limit: not a verdict here
            self.no_verdict += 1
            return None
        if o["ret"] == "hang":
            return ("hang", "run() never returned although nothing could move any more")
        if c["f"] == "recov":
            return self._oracle_recov(c, o)
        rows = {r[0]: r for r in o["tokens"]}
        exp, problems = emitted_expectations(c, o)
        if problems:
            return ("not-persisted", "; ".join(problems[:3]))
        for s in c["steps"]:
            for q in s["outs"].values():
                for tid in o["mem_ids"][q]:
                    if tid not in rows:
                        return ("not-persisted", f"token id {tid} of port {q} is not in the token table")
                    if rows[tid][1] != o["port_ids"][q]:
                        return ("not-persisted", f"token {tid} of port {q} is recorded under port id {rows[tid][1]}")
        deps = {}
        for a, b in o["prov"]:
            if a not in rows or b not in rows:
                return ("dangling-edge", f"edge ({a},{b}) names a token that is not persisted")
            if not a < b:
                return ("order", f"edge ({a},{b}): dependee not persisted before depender")
            deps.setdefault(b, []).append(a)
        for t, e in exp.items():
            if sorted(deps.get(t, [])) != e:
                return ("wrong-dependees", f"token {t} ({rows[t][2]}): recorded dependees {sorted(deps.get(t, []))}, "
                                           f"computed from {e}")
        for b in deps:
            if b not in exp:
                return ("stray-edge", f"token {b} has recorded dependees but no step emitted it")
        # acyclic (independently of the id order)
        color = {}

        def dfs(x):
            color[x] = 1
            for y in deps.get(x, []):
                if color.get(y) == 1 or (y not in color and dfs(y)):
                    return True
            color[x] = 2
            return False

        for x in list(deps):
            if x not in color and dfs(x):
                return ("cycle", "the provenance relation has a cycle")
        return None

    def _oracle_recov(self, c, o):
        """after an execution with rollbacks: the relation is well-formed and acyclic, every token on a port of the
        workflow is persisted, every token emitted by a job-bound step has recorded dependees, and every dependee
        carries a tag on the same branch of the tag tree as its depender (it was computed from tokens of its own
        tag, its ancestors' or its descendants', never from a sibling's)"""
        if "tokens" not in o:
            return ("hang", f"no table dump: {str(o)[:200]}")
        rows = {r[0]: r for r in o["tokens"]}
        deps = {}
        for a, b in o["prov"]:
            if a not in rows or b not in rows:
                return ("dangling-edge", f"edge ({a},{b}) names a token that is not persisted")
            if not a < b:
                return ("order", f"edge ({a},{b}): dependee not persisted before depender")
            deps.setdefault(b, []).append(a)

        def related(x, y):
            xs, ys = x.split("."), y.split(".")
            k = min(len(xs), len(ys))
            return xs[:k] == ys[:k]

        for pn, d in sorted(o["main"].items()):
            for tag, tid in d["ids"]:
                if tid is None or tid not in rows:
                    return ("not-persisted", f"token {tag} on port {pn} of {d['step']} is not persisted (id {tid})")
                if d["kind"] in ("ExecuteStep", "TransferStep", "ScheduleStep", "InputInjectorStep") and not deps.get(tid):
                    return ("no-dependees", f"token {tid} ({tag}) emitted by {d['step']} has no recorded dependee")
        # (in a loop iteration k+1 is legitimately computed from iteration k, a sibling tag: clause not applied there)
        for b, das in (deps.items() if c["shape"]["kind"] != "loop" else ()):
            for a in das:
                if not related(rows[a][2], rows[b][2]):
                    return ("tag-unrelated", f"token {b} (tag {rows[b][2]}) is linked to token {a} of tag {rows[a][2]}")
        # exact dependee sets of what the job-bound steps emitted, by tag over the ports of the workflow (main or
        # recovery) that emitted it.  Loop shapes reuse tags across iterations: skipped.
        if c["shape"]["kind"] != "loop":
            v = self._exact_recov(o, rows, deps)
            if v:
                return v
        color = {}

        def dfs(x):
            color[x] = 1
            for y in deps.get(x, []):
                if color.get(y) == 1 or (y not in color and dfs(y)):
                    return True
            color[x] = 2
            return False

        import sys
        sys.setrecursionlimit(10000)
        for x in list(deps):
            if x not in color and dfs(x):
                return ("cycle", "the provenance relation has a cycle")
        return None

    def _exact_recov(self, o, rows, deps, stats=None):
        for w in o.get("wfs", []):
            ports = w["ports"]

            def one(pn, tag, want_job=False):
                m = [i for t, i, ty in ports.get(pn, {"toks": []})["toks"]
                     if t == tag and i is not None and (ty == "JobToken") == want_job]
                return m if len(m) == 1 else None

            for sn, pn, tid in w["emitted"]:
                st = w["steps"].get(sn)
                if st is None or tid not in rows or st["kind"] not in ("ExecuteStep", "TransferStep", "ScheduleStep",
                                                                        "InputInjectorStep"):
                    continue
                tag = rows[tid][2]
                data = [p for n, p in st["ins"].items()
                        if n != "__job__" and ports.get(p, {}).get("cls") != "ConnectorPort"]
                conn = [p for n, p in st["ins"].items() if ports.get(p, {}).get("cls") == "ConnectorPort"]
                parts = [one(p, tag) for p in data]
                conn_ids = None
                if st["kind"] == "ScheduleStep":
                    # connector tokens: those on the connector port WHEN the job was scheduled; a redeployed
                    # connector token may be put on the port later, so: the recorded ones must be connector
                    # tokens of this workflow, at least one per connector port
                    conn_ids = {i for p in conn for _, i, _ in ports[p]["toks"] if i is not None}
                else:
                    parts.append(one(st["ins"].get("__job__"), tag, want_job=True))
                if any(x is None for x in parts):
                    if stats is not None:
                        stats["ambiguous"] = stats.get("ambiguous", 0) + 1
                    continue            # the tag does not identify one token per port: exactness not decidable here
                exp = sorted({i for x in parts for i in x})
                if stats is not None:
                    stats["exact"] = stats.get("exact", 0) + 1
                got = sorted(deps.get(tid, []))
                if conn_ids is not None:
                    rest = [i for i in got if i not in exp]
                    if all(i in conn_ids for i in rest) and (rest or not conn) and all(i in got for i in exp):
                        continue
                    got = got + ["<connector tokens: %s>" % sorted(conn_ids)]
                if got != exp:
                    return ("wrong-dependees-recov",
                            f"{'main' if w['main'] else 'recovery'} workflow, step {sn}: token {tid} (tag {tag}) has recorded "
                            f"dependees {got}, the tokens of its tag on the step's ports are {exp}")
        return None

    def coq_case(self, c, o):
        o = self.resolve(c, o)
        if o is None or "crash" in o or o.get("ret") == "hang":
            return None
        if c["f"] == "ids":
            l = coq_list(["None" if i is None else f"(Some {coq_N(i)})" for i in c["l"]])
            return f"CEntityIds {l} {coq_list([coq_N(i) for i in o['r']])}"
        if c["f"] == "recov":
            if "tokens" not in o:
                return None
            deps = {}
            for a, b in o["prov"]:
                deps.setdefault(b, []).append(a)
            toks = coq_list([coq_N(r[0]) for r in o["tokens"]])
            edges = coq_list([f"({coq_N(a)}, {coq_N(b)})" for a, b in o["prov"]])
            ex = coq_list([f"({coq_N(t)}, {coq_list([coq_N(i) for i in sorted(e)])})" for t, e in sorted(deps.items())])
            structural = self._oracle_recov(c, o)
            ok = structural is None or structural[0] in ("no-dependees", "tag-unrelated", "not-persisted", "wrong-dependees-recov")
            return f"CProv {toks} {edges} {ex} {coq_bool(ok)}"
        if c.get("_disc"):
            d = discipline_ops(o)
            if d is None:
                return None
            start, ops = d
            edges = coq_list([f"({coq_N(a)}, {coq_N(b)})" for a, b in o["prov"]])
            return f"CDisc {coq_N(start)} {coq_list(ops)} {edges}"
        exp, problems = emitted_expectations(c, o)
        toks = coq_list([coq_N(r[0]) for r in o["tokens"]])
        edges = coq_list([f"({coq_N(a)}, {coq_N(b)})" for a, b in o["prov"]])
        ex = coq_list([f"({coq_N(t)}, {coq_list([coq_N(i) for i in e])})" for t, e in sorted(exp.items())])
        return f"CProv {toks} {edges} {ex} {coq_bool(self.oracle(c, o) is None)}"

    def nontrivial(self, c):
        if c["f"] == "ids":
            return len(c["l"]) >= 2
        if c["f"] == "recov":
            return True
        return sum(len(v) for v in c["inputs"].values()) * len(c["steps"]) >= 3

    def extra_samples(self):
        return [self.guard_sample()]

    def signature(self, c, o, clause):
        o = self.resolve(c, o) or {}
        if c["f"] == "ids":
            return f"ids/{clause}"
        if c["f"] == "recov":
            return f"recov/{clause}/{c['shape']['kind']}"
        kinds = sorted({s["k"] for s in c["steps"]})
        if clause == "wrong-dependees" and self._mismatch_class(c, o) == "job-pairing":
            return "prov/wrong-dependees/job-pairing"
        return f"prov/{clause}/{'+'.join(kinds)}"

    def _mismatch_class(self, c, o):
        """job-pairing: the only wrong thing is WHICH JobToken of the step an ExecuteStep output is linked to"""
        exp, _ = emitted_expectations(c, o)
        job_ids = {r[0] for r in o["tokens"] if r[3] == "JobToken"}
        deps = {}
        for a, b in o["prov"]:
            deps.setdefault(b, []).append(a)
        for t, e in exp.items():
            got = set(deps.get(t, []))
            if got != set(e) and not ((got ^ set(e)) <= job_ids and len(got) == len(e)):
                return "other"
        return "job-pairing"

    def shrink(self, c):
        if c["f"] == "ids":
            for i in range(len(c["l"])):
                yield {**c, "l": c["l"][:i] + c["l"][i + 1:]}
            return
        if c["f"] == "recov":
            for i in range(len(c["faults"])):
                if len(c["faults"]) > 1:
                    yield {**c, "faults": c["faults"][:i] + c["faults"][i + 1:]}
            return
        used = netlib.consumers(c)
        if len(c["steps"]) > 1 and not any(p in used for p in c["steps"][-1]["outs"].values()):
            d = copy.deepcopy(c)
            d["steps"].pop()
            yield netlib.fix_outputs(d)
        if any(len(v) > 1 for v in c["inputs"].values()) and netlib.tg_only(c):
            d = copy.deepcopy(c)
            d["inputs"] = {p: v[:-1] if len(v) > 1 else v for p, v in d["inputs"].items()}
            keep = {t for v in d["inputs"].values() for t, _ in v}
            if all(set(s.get("fail", [])) <= keep for s in d["steps"]):
                yield d


class _Two(C07):
    """each run is rendered for Coq as the dump check AND (when the recorded order allows) the discipline replay"""

    def coq_case(self, c, o):
        a = super().coq_case(c, o)
        if a is None or c["f"] in ("recov", "ids"):
            return a
        b = super().coq_case({**c, "_disc": True}, o)
        t = a if b is None else f"CAnd ({a}) ({b})"
        o2 = self.resolve(c, o)
        for x in (stepprov_terms(c, o2) if o2 else []):
            t = f"CAnd ({t}) ({x})"
        return t


PROP = _Two()
