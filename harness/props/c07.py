"""C07 — Recorded provenance is complete and acyclic."""
import copy

from harness.lib.framework import Prop, coq_bool, coq_list, coq_N, coq_nat
from harness.props import netlib


def emitted_expectations(case, o):
    """For every token a step emitted (port dump, in memory), the ids of the persisted tokens it was computed from,
    derived from the PROPERTY TEXT and the step semantics (tags), not from what the step passed to the database:
      transformer / conditional : the tokens bearing the same tag on each of the step's input ports
      scatter                   : the scattered list token (element tag minus its last component / same tag for size)
      gather                    : the size token of the key + every element whose tag extends the key by one component
      dot / cartesian combinator: taken from the step's own _persist_token call (marked 'log')
    Returns (expected: {id: sorted ids}, problems: [str])."""
    by_port = {}
    for p, d in o["ports"].items():
        ids = o["mem_ids"][p]
        by_port[p] = [(t, i) for (t, _), i in zip(d["toks"], ids)]
    log = {r[2]: r[3] for r in o["persisted"]}
    exp, problems = {}, []

    def one(port, tag):
        m = [i for t, i in by_port[port] if t == tag]
        if len(m) != 1 or m[0] is None:
            problems.append(f"no unique persisted token with tag {tag} on {port}")
            return []
        return m

    for s in case["steps"]:
        k = s["k"]
        for oname, q in s["outs"].items():
            for tag, tid in by_port[q]:
                if tid is None:
                    problems.append(f"token {tag} on {q} emitted by {s['n']} has no persistent id")
                    continue
                if k in ("xf", "cond"):
                    e = [i for p in s["ins"].values() for i in one(p, tag)]
                elif k == "scatter":
                    src = tag if oname == "__size__" else tag.rsplit(".", 1)[0]
                    e = one(s["ins"]["x"], src)
                elif k == "gather":
                    dp = next(p for n, p in s["ins"].items() if n != "__size__")
                    e = one(s["ins"]["__size__"], tag) + [i for t, i in by_port[dp]
                                                            if t.rsplit(".", 1)[0] == tag and i is not None]
                else:
                    e = list(log.get(tid, []))
                exp[tid] = sorted(set(e))
    return exp, problems


def discipline_ops(o):
    """the recorded interleaving of _persist_token phases as Begin/Save/Prov ops, or None when the recorded order
    of completions is not the allocation order (then the simple linearisation is not faithful)"""
    ev = o.get("dbev")
    if not ev:
        return None
    allocs = [e[1] for e in ev if e[0] == "alloc"]
    if allocs != sorted(allocs) or not allocs:
        return None
    start = allocs[0]
    if allocs != list(range(start, start + len(allocs))):
        return None
    id_of = {e[1]: e[2] for e in ev if e[0] == "end"}          # call k -> id
    k_of = {v: k for k, v in id_of.items()}
    ops, edges, dummy = [], [], 100000
    begun = {}
    for e in ev:
        if e[0] == "begin":
            if e[1] not in id_of:
                continue
            begun[e[1]] = [i for i in e[2] if i is not None]
            ops.append(f"(Begin {coq_nat(e[1])} {coq_list([coq_N(i) for i in begun[e[1]]])})")
        elif e[0] == "alloc":
            if e[1] in k_of:
                ops.append(f"(Save {coq_nat(k_of[e[1]])})")
            else:                       # a token saved outside _persist_token (inner tokens of a list, forced sizes)
                dummy += 1
                if dummy > 104000:
                    return None
                ops.append(f"(Begin {coq_nat(dummy % 4999)} [])")
                ops.append(f"(Save {coq_nat(dummy % 4999)})")
        elif e[0] == "prov":
            if e[1] in k_of:
                ops.append(f"(Prov {coq_nat(k_of[e[1]])})")
    return start, ops


class C07(Prop):
    ID = "C07"
    PROPS_FILE = "Props/C07.v"
    CORR_MODULE = "Prov.Corr"
    LEVEL = "translation_validation"
    MAX_WORKERS = 6
    CASE_TIMEOUT = 120
    LEVEL_TEXT = (
        "Translation validation: after every generated execution (the C04 workloads: DAGs of transformer/conditional "
        "steps, scatter/gather, dot/cartesian combinators, with and without an injected failure, under a seeded "
        "permuting event loop) the `token` and `provenance` tables are dumped and a checker proved sound in Coq is "
        "evaluated on the dump inside Coq (vm_compute): acceptance implies every edge joins persisted tokens with "
        "dependee id < depender id, the relation is acyclic, every emitted token is persisted and linked to exactly "
        "the expected tokens, and no stray edge exists (C07_checker_sound). The expectations come from the property "
        "text via the tags for transformer/conditional/scatter/gather; for combinators from the step's own call. "
        "Additionally a theorem about the writing discipline of _persist_token (get_entity_ids, then save, then "
        "add_provenance, arbitrarily interleaved between steps): every edge ever written goes from an older to a "
        "newer allocated id, for all interleavings; the recorded interleavings of real runs are replayed through "
        "that model. Recovery workloads are not covered.")
    LEVEL_NOTE = ("translation validation by a proven-sound checker; completeness per step class is decided per run, not "
                  "proved; 'persisted before' relies on SQLite allocating increasing rowids (trusted); runs with "
                  "recovery are not generated")
    TECHNIQUE = "proven-sound checker evaluated in Coq on table dumps + Coq theorem on the write discipline"
    RULE = ("the C04 workloads (see C04) with the database dumped at quiescence; non-trivial = at least 3 emitted "
            "tokens; distinct = distinct canonical JSON")
    TRUSTED = ("SQLite INTEGER PRIMARY KEY allocation order; aiosqlite; the dump (SELECT over token and provenance) "
               "and the in-memory port lists read by the harness",
               "expectations for combinator outputs are the ids the step itself passed to _persist_token")
    ASSUMPTIONS = ("every port carries a tag at most once (true of the generated workloads), so 'the tokens it was "
                   "computed from' can be identified by tag",)

    def gen(self, rng, tier):
        n_tg, n_sg = {"quick": (130, 50), "thorough": (600, 200), "extended": (400, 150)}[tier]
        cases = []
        for _ in range(n_tg):
            c = netlib.gen_tg_net(rng, big=(tier != "quick"), quirk_p=0.05)
            c["f"] = "prov"
            cases.append(c)
        for _ in range(n_sg):
            c = netlib.gen_sg_net(rng)
            c["f"] = "prov"
            cases.append(c)
        return cases

    def impl_init(self):
        import logging

        self.env = netlib.Env()
        logging.getLogger("streamflow").setLevel(logging.CRITICAL)

    def impl_run(self, c):
        o = netlib.run_net(self.env, c, want_db=True)
        return {k: o[k] for k in ("ret", "ports", "persisted", "tokens", "prov", "port_ids", "mem_ids", "dbev",
                                  "raised") if k in o}

    # ------------------------------------------------------------------ oracle (from the property text)
    def oracle(self, c, o):
        if "crash" in o or "hang" in o:
            return ("hang", f"crashed or hung: {str(o)[:300]}")
        if o["ret"] == "hang":
            return ("hang", "run() never returned")
        rows = {r[0]: r for r in o["tokens"]}
        exp, problems = emitted_expectations(c, o)
        if problems:
            return ("not-persisted", "; ".join(problems[:3]))
        for s in c["steps"]:
            for q in s["outs"].values():
                for tid in o["mem_ids"][q]:
                    if tid not in rows:
                        return ("not-persisted", f"token id {tid} of port {q} is not in the token table")
                    if rows[tid][1] != o["port_ids"][q]:
                        return ("not-persisted", f"token {tid} of port {q} is recorded under port id {rows[tid][1]}")
        deps = {}
        for a, b in o["prov"]:
            if a not in rows or b not in rows:
                return ("dangling-edge", f"edge ({a},{b}) names a token that is not persisted")
            if not a < b:
                return ("order", f"edge ({a},{b}): dependee not persisted before depender")
            deps.setdefault(b, []).append(a)
        for t, e in exp.items():
            if sorted(deps.get(t, [])) != e:
                return ("wrong-dependees", f"token {t} ({rows[t][2]}): recorded dependees {sorted(deps.get(t, []))}, "
                                           f"computed from {e}")
        for b in deps:
            if b not in exp:
                return ("stray-edge", f"token {b} has recorded dependees but no step emitted it")
        # acyclic (independently of the id order)
        color = {}

        def dfs(x):
            color[x] = 1
            for y in deps.get(x, []):
                if color.get(y) == 1 or (y not in color and dfs(y)):
                    return True
            color[x] = 2
            return False

        for x in list(deps):
            if x not in color and dfs(x):
                return ("cycle", "the provenance relation has a cycle")
        return None

    def coq_case(self, c, o):
        if "crash" in o or "hang" in o or o.get("ret") == "hang":
            return None
        if c.get("_disc"):
            d = discipline_ops(o)
            if d is None:
                return None
            start, ops = d
            edges = coq_list([f"({coq_N(a)}, {coq_N(b)})" for a, b in o["prov"]])
            return f"CDisc {coq_N(start)} {coq_list(ops)} {edges}"
        exp, problems = emitted_expectations(c, o)
        toks = coq_list([coq_N(r[0]) for r in o["tokens"]])
        edges = coq_list([f"({coq_N(a)}, {coq_N(b)})" for a, b in o["prov"]])
        ex = coq_list([f"({coq_N(t)}, {coq_list([coq_N(i) for i in e])})" for t, e in sorted(exp.items())])
        return f"CProv {toks} {edges} {ex} {coq_bool(self.oracle(c, o) is None)}"

    def nontrivial(self, c):
        return sum(len(v) for v in c["inputs"].values()) * len(c["steps"]) >= 3

    def signature(self, c, o, clause):
        kinds = sorted({s["k"] for s in c["steps"]})
        return f"prov/{clause}/{'+'.join(kinds)}"

    def shrink(self, c):
        used = netlib.consumers(c)
        if len(c["steps"]) > 1 and not any(p in used for p in c["steps"][-1]["outs"].values()):
            d = copy.deepcopy(c)
            d["steps"].pop()
            yield netlib.fix_outputs(d)
        if any(len(v) > 1 for v in c["inputs"].values()) and netlib.tg_only(c):
            d = copy.deepcopy(c)
            d["inputs"] = {p: v[:-1] if len(v) > 1 else v for p, v in d["inputs"].items()}
            keep = {t for v in d["inputs"].values() for t, _ in v}
            if all(set(s.get("fail", [])) <= keep for s in d["steps"]):
                yield d


class _Two(C07):
    """each run is rendered for Coq as the dump check AND (when the recorded order allows) the discipline replay"""

    def coq_case(self, c, o):
        a = super().coq_case(c, o)
        if a is None:
            return None
        b = super().coq_case({**c, "_disc": True}, o)
        return a if b is None else f"CAnd ({a}) ({b})"


PROP = _Two()
