"""C13 — Jobs go to the first admissible declared target."""
from harness.lib.framework import Prop, coq_list, coq_N, coq_opt, coq_str

PORTS = ["p", "q", "r"]
DEPS = ["d0", "d1", "d2", "d3"]
SRVS = [None, "a", "b"]
VALS = ["x", "y", "xy", "1", "10", "True", "Tr", "None", "", "a b", "é", 1, 2, 10, True, False, None]
ERRS = {"ValueError": "EMissingInput", "WorkflowDefinitionException": "EUnsupported",
        "WorkflowExecutionException": "ENoTargets"}
KINDS = {"plain": "KPlain", "file": "KFile", "list": "KList", "object": "KObject"}


def _plain(c):
    """port -> str(value) for the plain inputs of the job (the property's "job's input values")."""
    return {p: str(v) for p, k, v in c["inputs"] if k == "plain"}


def _judgeable(c):
    """Every predicate names an existing plain input and no rule names a port twice: the property text
    then says, without interpretation, which targets survive."""
    pl = _plain(c)
    for f in c["filters"]:
        for r in f:
            ports = [p for p, _ in r["job"]]
            if len(set(ports)) != len(ports) or any(p not in pl for p in ports):
                return False
    return True


def _keeps(f, t, pl):
    return any(r["d"] == t[0] and (r["s"] is None or r["s"] == t[1]) and all(pl.get(p) == m for p, m in r["job"])
               for r in f)


def _survivors(c):
    """Indices of the declared targets that survive the filters in order, in declared order;
    None if some filter leaves nothing."""
    pl = _plain(c)
    cur = list(range(len(c["targets"])))
    for f in c["filters"]:
        cur = [i for i in cur if _keeps(f, c["targets"][i], pl)]
        if not cur:
            return None
    return cur


class C13(Prop):
    ID = "C13"
    PROPS_FILE = "Props/C13.v"
    CORR_MODULE = "Filter.Corr"
    MAX_WORKERS = 4
    LEVEL_TEXT = ("Theorems (Coq, closed under the global context), for unbounded numbers of targets, rules, predicates, "
                  "filters and scheduling passes: MatchingBindingFilter.get_targets returns exactly the targets kept by "
                  "the property's wording, in declared order, or raises; it is total on well-formed predicates; a filter "
                  "chain keeps the survivors of all filters in declared order; filter objects are stateless across jobs (a "
                  "sequence of jobs through the same objects = each job through the stateless chain; this holds by "
                  "construction of the model, whose filter_call passes the rules on unchanged: that the real objects keep "
                  "nothing between calls is a modelling decision supported only by the fseq/sseq correspondence); the scheduler's attempt loop (one FIFO-queued "
                  "task per target, re-evaluated on every notify_all) allocates, in the first pass where any target can "
                  "host, the first such target of the list; end to end for schedule(). The pre-fix set()-based code is "
                  "proved to keep only the elements (refuted for order). Tied to /repo by running the real filter chain "
                  "and the real DefaultScheduler (fake connector, one slot per location, blockers released one at a time) "
                  "and the model on the same cases; oracle from the property text on the real observations.")
    LEVEL_NOTE = ("Scheduling assumption the attempt-loop theorems (C13_first*, C13_schedule) rest on: the per-target tasks of one "
                  "schedule() call take the scheduler's lock in creation (= declared) order and asyncio's Lock/Condition hand "
                  "the lock over first-come-first-served, and the scheduler's retry_delay is unset (with a retry interval "
                  "`wait_for(self.wait_queue.wait(), timeout)` wakes each waiting task on its own timer, not in "
                  "condition-queue order, and 'one pass per notify_all' no longer describes the loop); the model IS that discipline (a FIFO of tasks, `host` constant "
                  "during a pass), it is not derived from asyncio. The sched/sseq correspondence exercises exactly this "
                  "assumption on the real DefaultScheduler under asyncio's default loop: the fake connectors' "
                  "get_available_locations take a per-location number of event-loop turns (earlier-declared targets slower in "
                  "half of the cases), so any code path that lets the order in which connectors answer decide who takes the "
                  "lock first is a mismatch and an oracle failure. Not covered: arbitrary permutations of the ready queue "
                  "(on the unchanged tree the task start order then decides the placement; the property quantifies over "
                  "configurations and inputs, not schedules). Hardware/slot accounting (_is_valid) is the abstract predicate "
                  "`host`. str() of a non-string input value is computed by CPython. Trusted: Coq kernel + vm_compute; the "
                  "hand-written model Filter/Model.v tied to the code only by the correspondence run. No axioms.")
    TECHNIQUE = "Coq proof (induction over target/rule/pass lists) + vm_compute correspondence against the real filter and scheduler"
    RULE = ("1..4 declared targets over deployments d0..d3 and services None/a/b (duplicates allowed), chains of 0..3 matching "
            "filters with 1..3 rules of 0..3 predicates (biased to match so that several targets survive; duplicate ports, "
            "missing and file/list/object inputs mixed in), job inputs str/int/bool/None; sched cases add an initial set of "
            "busy locations released one at a time; fseq/sseq cases send 2..4 jobs with varied inputs (and, for fseq, varied sub-lists of the targets) through the SAME filter objects / scheduler, each job judged on its own. Non-trivial = the text determines the survivors and at least two "
            "targets survive, or a filter leaves nothing. Distinct = distinct canonical JSON.")
    TRUSTED = ("model: Filter/Model.v (MatchingRule.eval, MatchingBindingFilter.__init__/get_targets, the filter loop of "
               "DefaultScheduler.schedule, the FIFO attempt loop of schedule/_process_target) is hand-written",
               "asyncio Lock/Condition FIFO hand-over and FIFO ready queue; CPython dict order, str(), any()")
    ASSUMPTIONS = ("tasks of one schedule() call take the scheduler lock in creation order under asyncio's default FIFO loop and "
                   "Lock/Condition hand-over (exercised with connector latencies, not proved)",
                   "the set of targets able to host is constant during one pass over the waiting tasks",
                   "the scheduler's retry_delay is unset (retry_interval None): waiters are only woken by notify_all",
                   "shuffle filters are excluded (property text: shuffle-free chains)")

    # ---------------------------------------------------------------- generation
    def _case(self, rng, kind):
        nt = rng.choice([1, 2, 2, 3, 3, 4, 4])
        deps = rng.sample(DEPS, rng.choice([1, 2, 2, 3, 4]))
        targets = [[rng.choice(deps), rng.choice(SRVS)] for _ in range(nt)]
        inputs = []
        for p in PORTS:
            r = rng.random()
            if r < 0.07:
                continue
            k = "plain" if r < 0.9 else rng.choice(["file", "list", "object"])
            inputs.append([p, k, rng.choice(VALS)])
        pl = {p: str(v) for p, k, v in inputs}
        filters = []
        for _ in range(rng.choice([0, 1, 1, 1, 2, 2, 3])):
            rules = []
            for _ in range(rng.choice([1, 2, 2, 3])):
                t = rng.choice(targets) if rng.random() < 0.85 else [rng.choice(DEPS), rng.choice(SRVS)]
                s = t[1] if rng.random() < 0.5 else (None if rng.random() < 0.8 else rng.choice(SRVS))
                job = []
                for _ in range(rng.choice([0, 1, 1, 2, 2, 3])):
                    p = rng.choice(PORTS)
                    if p in pl and rng.random() < 0.8:
                        m = pl[p]
                    elif p in pl and len(pl[p]) >= 2 and rng.random() < 0.6:
                        # a proper substring of the value: equal under "in", different under "=="
                        m = rng.choice([pl[p][:-1], pl[p][1:], pl[p][:1]])
                    else:
                        m = str(rng.choice(VALS))
                    job.append([p, m])
                rules.append({"d": t[0], "s": s, "form": rng.choice(["str", "dict"]), "job": job})
            if rng.random() < 0.6:  # a rule per deployment: several targets survive
                for d in sorted(set(t[0] for t in targets)):
                    if rng.random() < 0.8:
                        p = rng.choice(PORTS)
                        rules.append({"d": d, "s": None, "form": rng.choice(["str", "dict"]),
                                      "job": [[p, pl[p]]] if p in pl else []})
                rng.shuffle(rules)
            filters.append(rules)
        c = {"f": kind, "targets": targets, "filters": filters, "inputs": inputs}
        if kind == "sched":
            locs = sorted(set((t[0], t[1] or "") for t in targets))
            locs = [[d, s or None] for d, s in locs]
            b0 = [l for l in locs if rng.random() < 0.6]
            rounds = [list(b0)]
            rel = list(b0)
            rng.shuffle(rel)
            cur = list(b0)
            for l in rel[:rng.randrange(0, len(rel) + 1)]:
                cur = [x for x in cur if x != l]
                rounds.append(list(cur))
            c["busy"] = rounds
            c["lat"] = self._lat(rng, targets)
        return c

    def _lat(self, rng, targets):
        """per-location lookup latency (event-loop turns); half of the time the earlier a target is declared the
        slower its connector answers, otherwise random: the order in which connectors answer must not matter"""
        locs = []
        for t in targets:
            if t not in locs:
                locs.append(t)
        if rng.random() < 0.5:
            return [[d, sv, (len(locs) - i) * rng.choice([1, 1, 2])] for i, (d, sv) in enumerate(locs)]
        return [[d, sv, rng.choice([0, 0, 1, 2, 3, 5])] for d, sv in locs]

    def _vary(self, rng, inputs):
        out = []
        for p, k, v in inputs:
            r = rng.random()
            if r < 0.35:
                v = rng.choice(VALS)
            elif r < 0.38:
                continue
            out.append([p, k, v])
        return out

    def _seq_case(self, rng, kind):
        """several jobs through the same filter objects (one scheduler): the filters must not remember anything"""
        while True:
            base = self._case(rng, "filter")
            if base["filters"]:
                break
        nt = len(base["targets"])
        jobs = [base["inputs"]] + [self._vary(rng, base["inputs"]) for _ in range(rng.choice([1, 2, 2, 3]))]
        rng.shuffle(jobs)
        c = {"f": kind, "targets": base["targets"], "filters": base["filters"]}
        if kind == "fseq":
            calls = []
            for inp in jobs:
                if rng.random() < 0.6:
                    sel = list(range(nt))
                else:
                    sel = [i for i in range(nt) if rng.random() < 0.5] or [rng.randrange(nt)]
                    if rng.random() < 0.2:
                        rng.shuffle(sel)
                calls.append({"step": rng.choice(["/s", "/s", "/wf/t"]), "inputs": inp, "sel": sel})
            c["calls"] = calls
        else:
            locs = sorted(set((t[0], t[1] or "") for t in base["targets"]))
            c["busy0"] = [[d, s or None] for d, s in locs if rng.random() < 0.25]
            c["jobs"] = jobs
            c["lat"] = self._lat(rng, base["targets"])
        return c

    def gen(self, rng, tier):
        n = {"quick": 300, "thorough": 3000, "extended": 2500}[tier]
        cases = [self._case(rng, "filter") for _ in range(n)]
        cases += [self._case(rng, "sched") for _ in range(n // 2)]
        cases += [self._seq_case(rng, "fseq") for _ in range(n)]
        cases += [self._seq_case(rng, "sseq") for _ in range(n // 2)]
        return cases

    # ---------------------------------------------------------------- implementation
    def impl_init(self):
        import asyncio
        import os

        from streamflow.core.config import BindingConfig
        from streamflow.core.deployment import DeploymentConfig, FilterConfig, Target
        from streamflow.core.scheduling import AvailableLocation
        from streamflow.core.workflow import Job, Status, Token
        from streamflow.deployment.connector import connector_classes
        from streamflow.deployment.connector.base import BaseConnector
        from streamflow.main import build_context
        from streamflow.scheduling.scheduler import DefaultScheduler
        from streamflow.workflow.token import FileToken, ListToken, ObjectToken

        class QLoop(asyncio.SelectorEventLoop):
            """Default FIFO scheduling; additionally tells when nothing is runnable and no timer is armed."""

            def __init__(self):
                super().__init__()
                self._qw = []

            def _run_once(self):
                if not self._ready and not self._scheduled and self._qw:
                    for f in self._qw:
                        if not f.done():
                            f.set_result(None)
                    self._qw = []
                super()._run_once()

            def quiescent(self):
                f = self.create_future()
                self._qw.append(f)
                return f

        class FakeConnector(BaseConnector):
            def __init__(self, deployment_name, config_dir, **kw):
                super().__init__(deployment_name, config_dir, 1024)

            async def deploy(self, external):
                pass

            async def undeploy(self, external):
                pass

            LAT = {}  # (deployment, service) -> event-loop turns the lookup takes (set per case)

            async def get_available_locations(self, service=None):
                for _ in range(FakeConnector.LAT.get((self.deployment_name, service), 0)):
                    await asyncio.sleep(0)
                n = f"{self.deployment_name}:{service}"
                return {n: AvailableLocation(name=n, deployment=self.deployment_name, hostname="h",
                                             service=service, slots=1)}

            @classmethod
            def get_schema(cls):
                return ""

        class PlainFileToken(FileToken):
            async def get_paths(self, context):
                return [self.value]

        connector_classes["fake"] = FakeConnector
        self.a = asyncio
        self.FC = FakeConnector
        self.loop = QLoop()
        asyncio.set_event_loop(self.loop)
        self.k = dict(BindingConfig=BindingConfig, Target=Target, FilterConfig=FilterConfig, Job=Job, Status=Status,
                      Token=Token, DefaultScheduler=DefaultScheduler, ListToken=ListToken, ObjectToken=ObjectToken,
                      FileToken=PlainFileToken)

        async def init():
            self.ctx = build_context({"database": {"type": "default", "config": {"connection": ":memory:"}},
                                      "path": os.getcwd()})
            self.deps = {}
            for d in DEPS:
                self.deps[d] = DeploymentConfig(name=d, type="fake", config={}, external=True, lazy=False)
                await self.ctx.deployment_manager.deploy(self.deps[d])

        self.loop.run_until_complete(init())

    def _job(self, name, inputs):
        k = self.k
        toks = {}
        for p, kind, v in inputs:
            if kind == "plain":
                toks[p] = k["Token"](v)
            elif kind == "file":
                toks[p] = k["FileToken"](str(v))
            elif kind == "list":
                toks[p] = k["ListToken"]([k["Token"](v)])
            else:
                toks[p] = k["ObjectToken"]({"k": k["Token"](v)})
        return k["Job"](name=name, workflow_id=0, inputs=toks, input_directory=None, output_directory=None,
                        tmp_directory=None)

    def _binding(self, c):
        k = self.k
        targets = [k["Target"](deployment=self.deps[d], service=s) for d, s in c["targets"]]
        fcs = []
        for i, f in enumerate(c["filters"]):
            cfg = []
            for r in f:
                if r["s"] is not None:
                    tgt = {"deployment": r["d"], "service": r["s"]}
                elif r["form"] == "dict":
                    tgt = {"deployment": r["d"]}
                else:
                    tgt = r["d"]
                cfg.append({"target": tgt, "job": [{"port": p, "match": m} for p, m in r["job"]]})
            fcs.append(k["FilterConfig"](name=f"f{i}", type="matching", config={"filters": cfg}))
        return targets, k["BindingConfig"](targets=targets, filters=fcs)

    @staticmethod
    def _err(e):
        n = type(e).__name__
        return {"err": n if n in ERRS else "other:" + n, "msg": str(e)[:200]}

    async def _run(self, c):
        k, a = self.k, self.a
        sch = k["DefaultScheduler"](self.ctx)
        self.ctx.scheduler = sch
        targets, bc = self._binding(c)
        idx = {id(t): i for i, t in enumerate(targets)}
        job = self._job("/step/0", c.get("inputs", []))
        if c["f"] == "filter":
            # exactly the three lines of DefaultScheduler.schedule that apply the filters
            try:
                ts = list(bc.targets)
                for f in (sch._get_binding_filter(f) for f in bc.filters):
                    ts = await f.get_targets(job, ts)
                return {"r": [idx.get(id(t), -1) for t in ts]}
            except Exception as e:
                return self._err(e)
        if c["f"] == "fseq":
            # the same three lines, on the filter objects the scheduler caches, for one job after the other
            rs = []
            for n, call in enumerate(c["calls"]):
                jb = self._job(f"{call['step']}/{n}", call["inputs"])
                try:
                    ts = [targets[i] for i in call["sel"]]
                    for f in (sch._get_binding_filter(f) for f in bc.filters):
                        ts = await f.get_targets(jb, ts)
                    rs.append({"r": [idx.get(id(t), -1) for t in ts]})
                except Exception as e:
                    rs.append(self._err(e))
            return {"rs": rs}
        if c["f"] == "sseq":
            rs = []
            try:
                for n, (d, s) in enumerate(c["busy0"]):
                    bj = self._job(f"/blocker{n}/0", [])
                    await sch.schedule(bj, k["BindingConfig"](targets=[k["Target"](deployment=self.deps[d], service=s)]),
                                       None)
                for n, inp in enumerate(c["jobs"]):
                    jb = self._job(f"/step/{n}", inp)
                    task = a.create_task(sch.schedule(jb, bc, None))
                    await self.loop.quiescent()
                    if task.done() and not task.cancelled() and task.exception() is not None:
                        rs.append(self._err(task.exception()))
                    else:
                        al = sch.job_allocations.get(jb.name)
                        rs.append({"a": None if al is None else idx.get(id(al.target), -1)})
            finally:
                cur = a.current_task()
                rest = [t for t in a.all_tasks() if t is not cur]
                for t in rest:
                    t.cancel()
                await a.gather(*rest, return_exceptions=True)
            return {"rs": rs}
        order = []
        orig = sch._process_target

        async def spy(target, job_context, hardware_requirement):
            if job_context.job is job:
                order.append(idx.get(id(target), -1))
            return await orig(target=target, job_context=job_context, hardware_requirement=hardware_requirement)

        sch._process_target = spy
        blockers = {}
        for n, (d, s) in enumerate(c["busy"][0]):
            bj = self._job(f"/blocker{n}/0", [])
            await sch.schedule(bj, k["BindingConfig"](targets=[k["Target"](deployment=self.deps[d], service=s)]), None)
            blockers[(d, s)] = bj.name
        task = a.create_task(sch.schedule(job, bc, None))
        allocs = []
        obs = {}

        def alloc():
            al = sch.job_allocations.get(job.name)
            return None if al is None else idx.get(id(al.target), -1)

        try:
            await self.loop.quiescent()
            if task.done() and task.exception() is not None:
                return {"order": self._err(task.exception()), "alloc": []}
            allocs.append(alloc())
            prev = c["busy"][0]
            for b in c["busy"][1:]:
                for l in prev:
                    if l not in b:
                        await sch.notify_status(blockers[(l[0], l[1])], k["Status"].COMPLETED)
                prev = b
                await self.loop.quiescent()
                if task.done() and task.exception() is not None:
                    return {"order": self._err(task.exception()), "alloc": []}
                allocs.append(alloc())
            obs = {"order": {"r": list(order)}, "alloc": allocs, "done": task.done()}
        finally:
            cur = a.current_task()
            rest = [t for t in a.all_tasks() if t is not cur]
            for t in rest:
                t.cancel()
            await a.gather(*rest, return_exceptions=True)
        return obs

    def impl_run(self, c):
        # connector latencies: how many event-loop turns get_available_locations of each location takes
        self.FC.LAT = {(d, sv): n for d, sv, n in c.get("lat", [])}
        try:
            return self.loop.run_until_complete(self._run(c))
        finally:
            self.FC.LAT = {}

    # ---------------------------------------------------------------- oracle (from the property text)
    @staticmethod
    def _judge_list(exp, got, what):
        """exp: surviving indices in declared order or None; got: {"r": [...]} or {"err": ..}"""
        if exp is None:
            if "r" in got:
                return ("filtered-out-returned", f"{what}: no target survives the filters, yet {got['r']} returned")
            return None
        if "r" not in got:
            return ("filter-raises", f"{what}: targets {exp} survive, but the filters raised {got.get('err')}")
        if got["r"] != exp:
            if sorted(got["r"]) == exp:
                return ("filter-order", f"{what}: survivors returned as {got['r']}, declared order is {exp}")
            return ("filter-set", f"{what}: returned {got['r']}, the survivors are {exp}")
        return None

    def oracle(self, c, o):
        if "crash" in o or "hang" in o:
            return ("crash", f"implementation crashed/hung: {str(o)[:300]}")
        if c["f"] in ("fseq", "sseq"):
            return self._oracle_seq(c, o)
        lst = o if c["f"] == "filter" else o["order"]
        if str(lst.get("err", "")).startswith("other:"):
            return ("unexpected-exception", f"{lst['err']}: {lst.get('msg')}")
        if not _judgeable(c):
            # whatever the reading of odd predicates, survivors are declared targets in declared order
            if "r" in lst and any(x >= y for x, y in zip(lst["r"], lst["r"][1:])):
                return ("filter-order", f"returned targets {lst['r']} are not in declared order")
            return None
        exp = _survivors(c)
        v = self._judge_list(exp, lst, c["f"])
        if v:
            return v
        if c["f"] == "sched" and exp is not None:
            prev = None
            if len(o["alloc"]) != len(c["busy"]):
                return ("allocation", f"{len(o['alloc'])} observations for {len(c['busy'])} passes")
            for k, (b, got) in enumerate(zip(c["busy"], o["alloc"])):
                cands = [i for i in exp if c["targets"][i] not in b]
                want = prev if prev is not None else (cands[0] if cands else None)
                if got != want:
                    if prev is None and got in cands:
                        return ("first-admissible", f"pass {k}: surviving targets able to host are {cands} (declared "
                                                    f"order), the job was placed on {got}")
                    return ("allocation", f"pass {k}: allocation is {got}, expected {want} (survivors {exp}, busy {b})")
                prev = got
        return None

    def _oracle_seq(self, c, o):
        """every job of the sequence is judged on its own, from the rule texts and ITS inputs and targets"""
        rs = o.get("rs", [])
        n = len(c["calls"]) if c["f"] == "fseq" else len(c["jobs"])
        if len(rs) != n:
            return ("crash", f"{len(rs)} observations for {n} jobs")
        busy = [list(b) for b in c.get("busy0", [])]
        for k_, got in enumerate(rs):
            if str(got.get("err", "")).startswith("other:"):
                return ("unexpected-exception", f"job {k_}: {got['err']}: {got.get('msg')}")
            if c["f"] == "fseq":
                call = c["calls"][k_]
                sel, inputs = call["sel"], call["inputs"]
            else:
                sel, inputs = list(range(len(c["targets"]))), c["jobs"][k_]
            sub = {"filters": c["filters"], "inputs": inputs, "targets": [c["targets"][i] for i in sel]}
            if not _judgeable(sub):
                if "r" in got and [sel.index(x) for x in got["r"] if x in sel] != sorted(sel.index(x) for x in got["r"] if x in sel):
                    return ("filter-order", f"job {k_}: returned targets {got['r']} are not in the binding's order {sel}")
                if got.get("a") is not None:
                    busy.append(c["targets"][got["a"]])
                continue
            sv = _survivors(sub)
            exp = None if sv is None else [sel[i] for i in sv]
            if c["f"] == "fseq":
                v = self._judge_list(exp, got, f"job {k_} of the sequence (targets {sel})")
                if v:
                    # order clauses compare with the binding's own order
                    if v[0] == "filter-set" and "r" in got and exp is not None and sorted(got["r"]) == sorted(exp):
                        return ("filter-order", v[1])
                    return (("seq-" + v[0]) if k_ > 0 else v[0], v[1])
                continue
            if exp is None:
                if "err" not in got:
                    return ("seq-filtered-out-placed", f"job {k_}: no target survives the filters, yet observed {got}")
                continue
            if "err" in got:
                return ("seq-filter-raises" if k_ > 0 else "filter-raises",
                        f"job {k_}: targets {exp} survive its filters, but schedule() raised {got['err']}")
            cands = [i for i in exp if c["targets"][i] not in busy]
            want = cands[0] if cands else None
            if got["a"] != want:
                return ("seq-first-admissible" if k_ > 0 else "first-admissible",
                        f"job {k_}: surviving targets able to host are {cands} (declared order, busy {busy}), "
                        f"the job was placed on {got['a']}")
            if got["a"] is not None:
                busy.append(c["targets"][got["a"]])
        return None

    # ---------------------------------------------------------------- model side
    def coq_case(self, c, o):
        if "crash" in o or "hang" in o:
            return None
        if c["f"] in ("fseq", "sseq"):
            return self._coq_seq(c, o)
        os_ = lambda s: coq_opt(s, coq_str)
        ts = coq_list([f"T {coq_N(i)} {coq_str(d)} {os_(s)}" for i, (d, s) in enumerate(c["targets"])])
        fs = coq_list([coq_list([
            f"R {coq_str(r['d'])} {os_(r['s'])} " + coq_list([f"({coq_str(p)}, {coq_str(m)})" for p, m in r["job"]])
            for r in f]) for f in c["filters"]])
        job = coq_list([f"({coq_str(p)}, ({KINDS[k]}, {coq_str(str(v))}))" for p, k, v in c["inputs"]])

        def res(x):
            if "r" in x:
                if any(i < 0 for i in x["r"]):
                    return None
                return "(Ok " + coq_list([coq_N(i) for i in x["r"]]) + ")"
            if x.get("err") in ERRS:
                return f"(Err {ERRS[x['err']]})"
            return None

        if c["f"] == "filter":
            r = res(o)
            return None if r is None else f"CFilter {ts} {fs} {job} {r}"
        r = res(o["order"])
        if r is None or any(a is not None and a < 0 for a in o["alloc"]):
            return None
        busy = coq_list([coq_list([f"({coq_str(d)}, {os_(s)})" for d, s in b]) for b in c["busy"]])
        al = coq_list([coq_opt(a, coq_N) for a in o["alloc"]])
        return f"CSched {ts} {fs} {job} {busy} {r} {al}"

    def _coq_seq(self, c, o):
        os_ = lambda s: coq_opt(s, coq_str)
        ts = coq_list([f"T {coq_N(i)} {coq_str(d)} {os_(s)}" for i, (d, s) in enumerate(c["targets"])])
        fs = coq_list([coq_list([
            f"R {coq_str(r['d'])} {os_(r['s'])} " + coq_list([f"({coq_str(p)}, {coq_str(m)})" for p, m in r["job"]])
            for r in f]) for f in c["filters"]])
        jobt = lambda inputs: coq_list([f"({coq_str(p)}, ({KINDS[k]}, {coq_str(str(v))}))" for p, k, v in inputs])
        obs = []
        for got in o["rs"]:
            if "err" in got:
                if got["err"] not in ERRS:
                    return None
                obs.append(f"(Err {ERRS[got['err']]})")
            elif c["f"] == "fseq":
                if any(i < 0 for i in got["r"]):
                    return None
                obs.append("(Ok " + coq_list([coq_N(i) for i in got["r"]]) + ")")
            else:
                if got["a"] is not None and got["a"] < 0:
                    return None
                obs.append(f"(Ok {coq_opt(got['a'], coq_N)})")
        if c["f"] == "fseq":
            calls = coq_list([f"({coq_str(cl['step'])}, {jobt(cl['inputs'])}, {coq_list([coq_N(i) for i in cl['sel']])})"
                              for cl in c["calls"]])
            return f"CFilterSeq {ts} {fs} {calls} {coq_list(obs)}"
        busy = coq_list([f"({coq_str(d)}, {os_(s)})" for d, s in c["busy0"]])
        return f"CSchedSeq {ts} {fs} {busy} {coq_list([jobt(j) for j in c['jobs']])} {coq_list(obs)}"

    def nontrivial(self, c):
        if c["f"] in ("fseq", "sseq"):
            return len(c["filters"]) >= 1 and len(c["targets"]) >= 2
        if not _judgeable(c) or not c["filters"]:
            return False
        s = _survivors(c)
        return s is None or len(s) >= 2

    def signature(self, c, o, clause):
        return f"{c['f']}/{clause}"

    def shrink(self, c):
        if c["f"] in ("fseq", "sseq"):
            key = "calls" if c["f"] == "fseq" else "jobs"
            for i in range(len(c[key])):
                if len(c[key]) > 1:
                    yield {**c, key: c[key][:i] + c[key][i + 1:]}
            for i in range(len(c["filters"])):
                if len(c["filters"]) > 1:
                    yield {**c, "filters": c["filters"][:i] + c["filters"][i + 1:]}
                f = c["filters"][i]
                for j in range(len(f)):
                    if len(f) > 1:
                        yield {**c, "filters": c["filters"][:i] + [f[:j] + f[j + 1:]] + c["filters"][i + 1:]}
            if c["f"] == "sseq" and c["busy0"]:
                yield {**c, "busy0": []}
            if c.get("lat"):
                yield {**c, "lat": [[d, sv, min(n, 1)] for d, sv, n in c["lat"]]}
            return
        n = len(c["targets"])
        for i in range(n):
            if n > 1:
                d = {**c, "targets": c["targets"][:i] + c["targets"][i + 1:]}
                yield d
        for i in range(len(c["filters"])):
            yield {**c, "filters": c["filters"][:i] + c["filters"][i + 1:]}
            f = c["filters"][i]
            for j in range(len(f)):
                if len(f) > 1:
                    yield {**c, "filters": c["filters"][:i] + [f[:j] + f[j + 1:]] + c["filters"][i + 1:]}
                for k in range(len(f[j]["job"])):
                    r = {**f[j], "job": f[j]["job"][:k] + f[j]["job"][k + 1:]}
                    yield {**c, "filters": c["filters"][:i] + [f[:j] + [r] + f[j + 1:]] + c["filters"][i + 1:]}
        for i in range(len(c["inputs"])):
            yield {**c, "inputs": c["inputs"][:i] + c["inputs"][i + 1:]}
        if c["f"] == "sched":
            if len(c["busy"]) > 1:
                yield {**c, "busy": c["busy"][:-1]}
            if c["busy"] != [[]]:
                yield {**c, "busy": [[]]}
            yield {**c, "f": "filter"}


PROP = C13()
