"""C18 — Recovery re-runs only failed jobs and producers of lost data (function level).

Implementation side: the real ProvenanceGraph.build_graph, load_dependee_tokens, DefaultDatabaseLoadingContext,
Token.load / Token.is_available, create_graph_mapper, GraphMapper.* and GraphMapper.get_step_ids run against a stub
database (rows only) and a stub failure manager (is_recovering).  Oracle: written from the property text over the
provenance table.  Model side: ProvGraph/Corr.v.
"""
import asyncio
from types import SimpleNamespace

from harness.lib.framework import Prop, coq_bool, coq_list, coq_N, coq_opt

try:  # only importable in the worker (PYTHONPATH=<tree under examination>)
    from streamflow.workflow.token import JobToken as _JobToken

    class StubJobToken(_JobToken):
        """A JobToken whose Job is just a name (Job.load needs the whole deployment machinery)."""
        __slots__ = ()

        @classmethod
        async def _load(cls, row, loading_context):
            return cls(tag=row["tag"], value=SimpleNamespace(name=row["value"]["name"]), recoverable=row["recoverable"])
except Exception:  # main process: StreamFlow is not imported there
    StubJobToken = None


def pname(n):
    return f"p{n}"


def tagstr(n):
    return f"0.{n}"


def jname(n):
    return f"/job{n}"


class _DB:
    def __init__(self, c):
        self.tok = {t["id"]: t for t in c["db"]}
        self.steps = {s["id"]: s for s in c.get("steps", [])}
        self.ports = {p[0]: p[1] for p in c.get("ports", [])}

    async def get_port_from_token(self, tid):
        t = self.tok[tid]
        return {"id": t["port_id"], "name": pname(t["port"])}

    async def get_dependees(self, tid):
        return [{"dependee": d, "depender": tid} for d in self.tok[tid]["deps"]]

    async def get_token(self, tid):
        t = self.tok[tid]
        if t["job"] is not None:
            return {"id": tid, "type": "harness.props.c18.StubJobToken", "tag": tagstr(t["tag"]),
                    "value": {"name": jname(t["job"])}, "recoverable": t["avail"]}
        return {"id": tid, "type": "streamflow.core.workflow.Token", "tag": tagstr(t["tag"]), "value": None,
                "recoverable": t["avail"]}

    async def get_input_steps(self, port_id):
        return [{"step": s["id"], "port": port_id} for s in self.steps.values() if port_id in s["out"]]

    async def get_input_ports(self, step_id):
        return [{"step": step_id, "port": p} for p in self.steps[step_id]["in"]]

    async def get_port(self, pid):
        return {"id": pid, "name": pname(self.ports[pid])}

    async def get_step(self, sid):
        return {"id": sid, "name": f"/s{sid}"}


class _FM:
    def __init__(self, c):
        self.rec = {jname(t["job"]) for t in c["db"] if t["job"] is not None and t["recovering"]}

    async def is_recovering(self, name):
        return name in self.rec


def _ancestors(db, roots):
    tok = {t["id"]: t for t in db}
    seen, todo = set(), list(roots)
    while todo:
        x = todo.pop()
        if x in seen or x not in tok:
            continue
        seen.add(x)
        todo.extend(tok[x]["deps"])
    return seen


class C18(Prop):
    ID = "C18"
    PROPS_FILE = "Props/C18.v"
    CORR_MODULE = "ProvGraph.Corr"
    LEVEL_TEXT = (
        "Theorems (Coq, closed under the global context) over a model of ProvenanceGraph.build_graph, create_graph_mapper, "
        "GraphMapper and GraphMapper.get_step_ids on top of the C20 graph model, for every provenance table, availability "
        "map, recovering-job map, input list and set-iteration order (unbounded): the built graph contains only provenance "
        "ancestors of the failed job's inputs reached through lost tokens; a token gets predecessors only if it is lost, so "
        "the search stops at available data; every non-input token of the graph is a direct dependee of a lost token of the "
        "graph; with no data lost the graph is exactly the inputs; every port of the mapper built by create_graph_mapper "
        "carries a token of that graph, so a step selected by get_step_ids has graph tokens on all its input ports and on "
        "an output port; a job step (private job port) is selected only if a LOST token of the graph sits on one of its "
        "output ports (STEP granularity); per JOB (step, tag) a job token is in the graph only if the job is the failed one "
        "or one of its own outputs is lost; the tokens _inject_tokens injects are available graph tokens and those handed to "
        "Step.restore (ScatterStep's valid tags) are unavailable graph tokens of the port; GraphMapper's add/move_token_to_root/replace_token/remove_port keep both graphs mirror-consistent, "
        "token_availability and token_instances with the same keys and every listed token under its own single port; "
        "_synchronize_workflows (mapper side) keeps that consistency, detaches everything a job recovered elsewhere had "
        "produced and only removes ports, so the step-selection statement covers the whole path build_graph -> "
        "create_graph_mapper -> _synchronize_workflows -> get_step_ids. "
        "Engine level (exercised, not proved): real workflows (scatter/gather and pipelines) run on the local deployment "
        "with injected soft or data-losing failures (also two concurrent ones sharing a producer of lost data) and real "
        "RollbackFailureManager recovery; every job executed more than once must be a failing job or have its job token in "
        "the model's recovery graph computed from the provenance dumped from the real database with independently "
        "recorded availability, and may run at most once more per distinct lost token made by it. "
        "PARTIAL: no theorem that create_graph_mapper copies the graph edge by edge, nor about _update_token's effect on "
        "the token graph when two tokens are 'equal' (compared with the real classes instead); that a job re-executed in "
        "the recovery workflow has its job token in the recovery graph (the dataflow of the recovery workflow: which TAGS "
        "of a selected step run again) is not proved, it is checked on every engine run; _synchronize_workflows, "
        "_populate_workflow, the boundary rules of _inject_tokens and Step.restore are exercised by the engine runs only.")
    LEVEL_NOTE = (
        "Trusted: Coq kernel + vm_compute; hand-written models ProvGraph/Model.v and Graph/Model.v (tied to the code by "
        "the correspondence run only); the database, Token.is_available and is_recovering are a finite table in the model; "
        "function-level cases use stubs for them, engine-level cases dump the real in-memory SQLite database and record "
        "availability as 'recoverable flag and files present on the local file system'. Set iteration order is a model "
        "parameter: plans with 'equal' tokens (same port and tag/job) are compared only up to build_graph. The engine "
        "scenarios are a handful of shapes, not a quantification over programs. No axioms.")
    TECHNIQUE = ("Coq proof (BFS invariants over the explicit frontier/queue, key-set monotonicity of the mapper) + vm_compute "
                 "correspondence against the real classes + real recovered runs judged against the model's permitted set")
    RULE = ("engine: 5 (quick) / 11 (thorough) real recovered runs: scatter(11..13 or 21 wide)->job->gather->job, 3-job "
            "pipelines and a fork (two consumers of the gathered list failing together after losing one scattered output, "
            "so that two recoveries overlap); failure in the scattered or a later job, soft or deleting the files behind the failing job's inputs "
            "1..3 provenance levels up, one or two failures; plan: layered workflows (2..5 layers, 1..3 steps per layer, "
            "job steps with a private job port fed by a schedule step, 1..3 tags), random availability / recovering flags, "
            "failed job = a job step and tag; some with duplicate ('re-executed') tokens, some soft failures, some "
            "unrecoverable; sync: provenance-shaped mappers (2..5 jobs) built by GraphMapper.add in shuffled order, then the "
            "real _synchronize_workflows with a random subset of the jobs being recovered elsewhere; mapper: sequences of GraphMapper.add / move_token_to_root / replace_token / remove_port over "
            "<=12 token ids sharing (port, tag). Non-trivial = engine run with a failure, plan with >=1 lost input, mapper "
            "sequence with >=1 replace/move. Distinct = distinct canonical JSON.")
    TRUSTED = ("models: ProvGraph/Model.v, Graph/Model.v are hand-written; function-level cases replace SQLite by a stub "
               "returning rows and use the base-class Token.is_available (recoverable flag); engine-level cases use the real "
               "database, data manager, scheduler and failure manager with harness-defined steps/command (imitating "
               "tests/utils/workflow.py); CPython dict/set are exercised only",)
    ASSUMPTIONS = ("token ids are positive; a port holds either only JobTokens or none",
                   "is_available / is_recovering answers do not change during one build_graph call",
                   "engine runs: availability of a token = its recoverable flag and, for files, presence on the local file system")
    MAX_WORKERS = 4
    COQ_SHARD = 120
    CASE_TIMEOUT = 240
    SHARD_TIMEOUT = 1500

    # ---------------------------------------------------------------- generation
    def _plan(self, rng):
        nlayers = rng.randrange(2, 6)
        ntags = rng.choice([1, 1, 2, 3])
        pid = [0]
        tid = [0]
        sid = [0]
        ports, steps, db = [], [], []
        port_tok = {}  # (port id, tag) -> token id

        def new_port(name=None):
            pid[0] += 1
            ports.append([pid[0], name if name is not None else pid[0]])
            return pid[0]

        def new_tok(port, tag, job, deps, avail):
            tid[0] += 1
            db.append({"id": tid[0], "port_id": port, "port": dict(map(tuple, ports))[port], "tag": tag, "job": job,
                       "avail": avail, "recovering": False, "deps": deps})
            port_tok[(port, tag)] = tid[0]
            return tid[0]

        p_avail = rng.choice([0.3, 0.5, 0.7, 0.9, 1.0])
        src = [new_port() for _ in range(rng.randrange(1, 4))]
        for p in src:
            for tg in range(ntags):
                new_tok(p, tg, None, [], rng.random() < 0.97)
        avail_ports = list(src)
        job_steps = []
        jobn = [0]
        for _layer in range(nlayers):
            new_ports = []
            for _ in range(rng.randrange(1, 4)):
                ins = rng.sample(avail_ports, min(len(avail_ports), rng.randrange(1, 3)))
                is_job = rng.random() < 0.75
                outs = [new_port() for _ in range(rng.randrange(1, 3))]
                sid[0] += 1
                me = sid[0]
                if is_job:
                    jp = new_port()
                    sid[0] += 1
                    steps.append({"id": sid[0], "in": list(ins), "out": [jp], "job": False})       # schedule step
                    steps.append({"id": me, "in": list(ins) + [jp], "out": outs, "job": True, "jobport": jp})
                    job_steps.append(steps[-1])
                else:
                    steps.append({"id": me, "in": list(ins), "out": outs, "job": False})
                for tg in range(ntags):
                    deps = [port_tok[(p, tg)] for p in ins]
                    if is_job:
                        jobn[0] += 1
                        jt = new_tok(jp, tg, jobn[0], list(deps), True)
                        deps = deps + [jt]
                    for o in outs:
                        new_tok(o, tg, None, list(deps), rng.random() < p_avail)
                new_ports.extend(outs)
            avail_ports.extend(new_ports)
        if not job_steps:
            return None
        F = rng.choice(job_steps)
        tg = rng.randrange(ntags)
        inputs = [port_tok[(p, tg)] for p in F["in"]]
        r = rng.random()
        if r < 0.15:  # soft failure: nothing lost
            for i in inputs:
                next(t for t in db if t["id"] == i)["avail"] = True
        if rng.random() < 0.25:  # some other job is being recovered right now
            jts = [t for t in db if t["job"] is not None and t["id"] not in inputs]
            for t in rng.sample(jts, min(len(jts), rng.randrange(1, 3))):
                t["recovering"] = True
        if rng.random() < 0.12:  # a port that exists twice (same name, other id): original + recovery workflow copy
            p = rng.choice(ports)
            ports.append([pid[0] + 1, p[1]])
            pid[0] += 1
        if rng.random() < 0.15:  # a re-executed token: same port and tag, new id
            t = rng.choice(db)
            tid[0] += 1
            dup = dict(t, id=tid[0], avail=rng.random() < 0.5)
            db.append(dup)
            for u in db:
                if t["id"] in u["deps"] and rng.random() < 0.5:
                    u["deps"] = u["deps"] + [dup["id"]]
        if rng.random() < 0.1 and inputs:
            inputs = inputs + [inputs[0]]
        names = dict(map(tuple, ports))
        return {"f": "plan", "db": db, "inputs": inputs,
                "steps": [{"id": s["id"], "in": s["in"], "out": s["out"], "job": s["job"]} for s in steps],
                "ports": ports, "out_names": sorted({names[o] for o in F["out"]}), "failed_step": F["id"]}

    def _mapper(self, rng):
        nports = rng.randrange(2, 5)
        ntok = rng.randrange(4, 13)
        toks = {}
        for i in range(1, ntok + 1):
            port = rng.randrange(1, nports + 1)
            job_port = port == 1 and nports > 2
            toks[i] = {"id": i, "port": port, "port_id": port + 10 * rng.randrange(0, 2), "tag": rng.randrange(0, 3),
                       "job": rng.randrange(1, 3) if job_port else None, "avail": rng.random() < 0.4}
        ops = []
        for _ in range(rng.randrange(3, 16)):
            r = rng.random()
            if r < 0.7 or not ops:
                a = rng.randrange(1, ntok + 1)
                b = rng.randrange(1, ntok + 1) if rng.random() < 0.8 else None
                if b == a:
                    b = None
                ops.append(["add", toks[a], toks[b] if b else None])
            elif r < 0.8:
                ops.append(["move", rng.randrange(1, ntok + 1)])
            elif r < 0.92:
                t = toks[rng.randrange(1, ntok + 1)]
                ops.append(["replace", t["port"], t["id"], t["tag"], t["job"], rng.random() < 0.6 if rng.random() < 0.3 else t["avail"]])
            else:
                ops.append(["rmport", rng.randrange(1, nports + 1)])
        return {"f": "mapper", "ops": ops}

    def _engine(self, rng, tier):
        """a handful of real recovered runs (local deployment, in-memory database, RollbackFailureManager)"""
        w = rng.choice([11, 12, 13])
        scen = [
            {"shape": "scatter", "width": w, "fail": {"step": "/b", "tag": "0.10", "kind": "loss", "times": 1, "depth": 1,
                                                      "wait_siblings": w}},
            {"shape": "scatter", "width": 12, "fail": {"step": "/b", "tag": f"0.{rng.choice([1, 2, 5])}", "kind": "soft",
                                                       "times": 1, "wait_siblings": 12}},
            {"shape": "pipeline", "width": 1, "fail": {"step": "/c", "tag": "0", "kind": "loss", "times": 1, "depth": 1}},
            {"shape": "scatter", "width": rng.choice([3, 4, 6]),
             "fail": {"step": "/b", "tag": "0.1", "kind": "loss", "times": 1, "depth": 1, "wait_siblings": None}},
        ]
        scen.append({"shape": "fork", "width": rng.choice([3, 4, 5]),
                     "fail": {"steps": ["/c", "/d"], "step": "/c", "tag": "0", "kind": "lose_job",
                              "lose_job": f"/b/0.{rng.choice([0, 1, 2])}", "times": 1, "barrier": 2}})
        if tier != "quick":
            scen += [
                {"shape": "scatter", "width": 21, "fail": {"step": "/b", "tag": "0.20", "kind": "loss", "times": 1, "depth": 1,
                                                           "wait_siblings": 21}},
                {"shape": "scatter", "width": 12, "fail": {"step": "/b", "tag": "0.11", "kind": "soft", "times": 2,
                                                           "wait_siblings": 12}},
                {"shape": "pipeline", "width": 1, "fail": {"step": "/b", "tag": "0", "kind": "soft", "times": 1}},
                {"shape": "pipeline", "width": 1, "fail": {"step": "/c", "tag": "0", "kind": "loss", "times": 1, "depth": 3}},
                {"shape": "scatter", "width": 12, "fail": {"step": "/c", "tag": "0", "kind": "loss", "times": 1, "depth": 1}},
                {"shape": "scatter", "width": 5, "fail": None},
            ]
        for sc in scen:
            if sc["fail"] and sc["fail"].get("wait_siblings") is None:
                sc["fail"].pop("wait_siblings", None)
                sc["fail"]["wait_siblings"] = sc["width"] if sc["shape"] == "scatter" and sc["fail"]["step"] == "/b" else 0
        return [{"f": "engine", **sc} for sc in scen]

    def _sync(self, rng):
        """a provenance-shaped mapper (jobs with input, job token, output; outputs feeding later jobs) and a set of
        jobs that another recovery workflow is already recovering: drives the real _synchronize_workflows"""
        k = rng.randrange(2, 6)
        tid = [0]

        def tok(port, job, avail):
            tid[0] += 1
            return {"id": tid[0], "port": port, "port_id": port, "tag": 0, "job": job, "avail": avail}

        adds, jobtoks, prev_out = [], [], []
        src = tok(1, None, True)
        for i in range(k):
            x = rng.choice(prev_out) if prev_out and rng.random() < 0.8 else src
            j = tok(10 + i, i + 1, False)
            outs = [tok(30 + 10 * i + q, None, rng.random() < 0.3) for q in range(rng.randrange(1, 3))]
            for o in outs:
                adds.append(["add", x, o])
                adds.append(["add", j, o])
            if rng.random() < 0.5:
                adds.append(["add", x, j])
            jobtoks.append(j)
            prev_out.extend(outs)
        rng.shuffle(adds)
        rec = [j["job"] for j in jobtoks if rng.random() < 0.45]
        order = [j["job"] for j in jobtoks]
        rng.shuffle(order)
        return {"f": "sync", "ops": adds, "recovering": rec, "order": order}

    def gen(self, rng, tier):
        n = {"quick": 400, "thorough": 4000, "extended": 2500}[tier]
        cases = self._engine(rng, tier)
        for _ in range({"quick": 40, "thorough": 400, "extended": 250}[tier]):
            cases.append(self._sync(rng))
        while len(cases) < n:
            c = self._plan(rng) if len(cases) % 5 != 4 else self._mapper(rng)
            if c:
                cases.append(c)
        return cases

    # ---------------------------------------------------------------- implementation
    def impl_init(self):
        from streamflow.core.exception import FailureHandlingException
        from streamflow.core.workflow import Token
        from streamflow.persistence.loading_context import DefaultDatabaseLoadingContext
        from streamflow.recovery import utils as ru

        self.FHE, self.Token, self.LC, self.ru = FailureHandlingException, Token, DefaultDatabaseLoadingContext, ru

    def _mobs(self, m):
        un = lambda s: int(s[1:])
        dn = sorted(m.dag_tokens.get_nodes())
        pn = sorted(m.dcg_ports.get_nodes())
        return {"dag_nodes": dn, "dag_edges": sorted([u, v] for u in dn for v in m.dag_tokens.successors(u)),
                "port_nodes": sorted(un(p) for p in pn),
                "port_edges": sorted([un(u), un(v)] for u in pn for v in m.dcg_ports.successors(u)),
                "port_tokens": sorted([un(k), sorted(v)] for k, v in m.port_tokens.items()),
                "name_ids": sorted([un(k), sorted(v)] for k, v in m.port_name_ids.items()),
                "avail": sorted([k, bool(v)] for k, v in m.token_availability.items()),
                "inst": sorted(m.token_instances.keys())}

    def _err(self, e):
        if isinstance(e, self.FHE):
            return "EFailure"
        if isinstance(e, ValueError):
            return "EValue"
        if isinstance(e, (KeyError, AttributeError)):
            return "EKey"
        raise e

    async def _run_plan(self, c):
        ctx = SimpleNamespace(database=_DB(c), failure_manager=_FM(c))
        lc = self.LC(database=ctx.database)
        inputs = [await lc.load_token(i) for i in c["inputs"]]
        prov = self.ru.ProvenanceGraph(ctx)
        try:
            await prov.build_graph(inputs)
        except self.FHE:
            return {"build": "err"}
        nodes = sorted(prov.dag_tokens.get_nodes())
        obs = {"build": {"nodes": nodes, "edges": sorted([u, v] for u in nodes for v in prov.dag_tokens.successors(u)),
                         "avail": sorted([k, bool(v.is_available)] for k, v in prov.info_tokens.items())}}
        try:
            mapper = await self.ru.create_graph_mapper(ctx, prov)
        except Exception as e:  # noqa
            obs["mapper"] = {"err": self._err(e)}
            return obs
        obs["mapper"] = self._mobs(mapper)
        obs["steps"] = sorted(await mapper.get_step_ids([pname(n) for n in c["out_names"]]))
        # the real _inject_tokens on recording ports: which tokens are put into which port, in which order
        from streamflow.recovery import failure_manager as fm

        class _Port:
            def __init__(self, name):
                self.name, self.got = name, []

            def put(self, token):
                self.got.append(token.persistent_id)

        class _Ports(dict):
            def __missing__(self, k):
                self[k] = _Port(k)
                return self[k]

        wf = SimpleNamespace(ports=_Ports())
        try:
            await fm._inject_tokens(None, SimpleNamespace(output_ports={}), mapper, wf)
            obs["inject"] = sorted([int(k[1:]), v.got] for k, v in wf.ports.items())
        except self.FHE:
            obs["inject"] = "EFailure"
        return obs

    def _ptok(self, t):
        if t["job"] is not None:
            inst = StubJobToken(value=SimpleNamespace(name=jname(t["job"])), tag=tagstr(t["tag"]))
        else:
            inst = self.Token(value=None, tag=tagstr(t["tag"]))
        inst.persistent_id = t["id"]
        return self.ru.ProvenanceToken(instance=inst, is_available=t["avail"], port_id=t["port_id"], port_name=pname(t["port"]))

    def _run_mapper(self, c):
        m = self.ru.GraphMapper(None)
        steps = []
        for op in c["ops"]:
            try:
                if op[0] == "add":
                    m.add(self._ptok(op[1]), self._ptok(op[2]) if op[2] else None)
                elif op[0] == "move":
                    m.move_token_to_root(op[1])
                elif op[0] == "replace":
                    t = {"id": op[2], "tag": op[3], "job": op[4], "avail": op[5], "port": op[1], "port_id": 0}
                    m.replace_token(pname(op[1]), self._ptok(t).instance, op[5])
                elif op[0] == "rmport":
                    m.remove_port(pname(op[1]))
            except Exception as e:  # noqa
                steps.append({"err": self._err(e)})
                break
            steps.append(self._mobs(m))
        return {"steps": steps}

    async def _run_sync(self, c):
        from streamflow.core.workflow import Status
        from streamflow.recovery.failure_manager import RollbackFailureManager
        from streamflow.workflow.token import JobToken

        m = self.ru.GraphMapper(None)
        try:
            for op in c["ops"]:
                m.add(self._ptok(op[1]), self._ptok(op[2]) if op[2] else None)
        except Exception as e:  # noqa
            return {"build_err": self._err(e)}
        rec = {jname(j) for j in c["recovering"]}
        notified = []

        class _Sched:
            def get_allocation(self, name):
                return SimpleNamespace(status=Status.RUNNING if name in rec else Status.COMPLETED)

            async def notify_status(self, name, status):
                notified.append(name)

        class _Port:
            def __init__(self, name):
                self.name = name

            def add_inter_port(self, port, boundary_tags, boundary_action):
                pass

        class _Ports(dict):
            def __missing__(self, k):
                self[k] = _Port(k)
                return self[k]

        class _Wf:
            def __init__(self):
                self.ports = _Ports()

            def create_port(self, cls=None, name=None):
                self.ports[name] = _Port(name)
                return self.ports[name]

        fm = RollbackFailureManager(SimpleNamespace(scheduler=_Sched()))
        job_tokens = [t for t in m.token_instances.values() if isinstance(t, JobToken)]
        present = {t.value.name for t in job_tokens}
        names = [jname(j) for j in c["order"] if jname(j) in present] + ["/failed/0"]
        requests = [fm.get_request(nm) for nm in names]
        for r in requests:
            r.workflow = _Wf()
        jts = [next(t.persistent_id for t in job_tokens if t.value.name == nm) for nm in names if nm in rec]
        try:
            await fm._synchronize_workflows(failed_job="/failed/0", job_tokens=job_tokens, mapper=m,
                                            retry_requests=requests, workflow=_Wf())
        except Exception as e:  # noqa
            return {"jts": jts, "after": {"err": self._err(e)}}
        return {"jts": jts, "after": self._mobs(m), "rolled_back": sorted(notified)}

    def _run_engine(self, c):
        import os
        import shutil

        from harness.props import c18_engine as E

        base = f"/var/tmp/sfv-c18-engine-{os.getpid()}"
        self._engine_n = getattr(self, "_engine_n", 0) + 1
        sc = dict(c, key=f"s{self._engine_n}")
        try:
            o = asyncio.run(E.run_scenario(sc, base))
        finally:
            shutil.rmtree(base, ignore_errors=True)
        # canonical numbering of port names, tags and job names (no uuids in the observation)
        ports, tags, jobs = {}, {}, {}
        num = lambda m, k: m.setdefault(k, len(m) + 1)
        evs = []
        for e in o["events"]:
            db = [{"id": t["id"], "port_id": t["port_id"], "port": num(ports, t["pname"]), "tag": num(tags, t["tag"]),
                   "tagstr": t["tag"], "job": None if t["jobname"] is None else num(jobs, t["jobname"]),
                   "jobname": t["jobname"], "avail": t["avail"], "missing": t.get("missing", False),
                   "recovering": t["recovering"], "deps": t["deps"]}
                  for t in e["db"]]
            evs.append({"inputs": e["inputs"], "db": db, "graph": e["graph"]})
        want = [f"element {i}\n" for i in range(c["width"])]
        return {"status": o["status"], "counts": o["counts"], "events": evs, "result_ok": o["result"] == want,
                "lost_paths": len(o["lost_paths"])}

    def impl_run(self, c):
        if c["f"] == "engine":
            return self._run_engine(c)
        if c["f"] == "sync":
            return asyncio.run(self._run_sync(c))
        if c["f"] == "plan":
            return asyncio.run(self._run_plan(c))
        return self._run_mapper(c)

    # ---------------------------------------------------------------- oracle (from the property text)
    def oracle(self, c, o):
        if "crash" in o or "hang" in o:
            return ("crash", f"implementation crashed/hung: {str(o)[:400]}")
        if c["f"] == "engine":
            return self._engine_oracle(c, o)
        if c["f"] != "plan":
            return None   # GraphMapper operation sequences are judged by the correspondence only
        tok = {t["id"]: t for t in c["db"]}
        lost = lambda t: not t["avail"] and not (t["job"] is not None and t["recovering"])
        b = o["build"]
        anc = _ancestors(c["db"], c["inputs"])
        unrecoverable = any(lost(tok[x]) and not tok[x]["deps"] for x in _reach_through_lost(tok, c["inputs"]))
        if b == "err":
            if not unrecoverable:
                return ("spurious-failure", "build_graph raised although every lost token that is reached has previous tokens")
            return None
        nodes, edges = set(b["nodes"]), {tuple(e) for e in b["edges"]}
        if not nodes <= anc:
            return ("not-ancestor", f"tokens {sorted(nodes - anc)} are in the recovery graph but are not provenance "
                                    f"ancestors of the failed job's inputs {c['inputs']}")
        if not set(c["inputs"]) <= nodes:
            return ("input-missing", f"inputs {sorted(set(c['inputs']) - nodes)} are not in the recovery graph")
        for p, t in edges:
            if not lost(tok[t]):
                return ("available-expanded", f"token {t} is available (or its job is being recovered) but its producer "
                                              f"side {p} was pulled into the recovery graph")
            if p not in tok[t]["deps"]:
                return ("edge-not-provenance", f"edge {p}->{t} is not a recorded dependency")
        for n in nodes - set(c["inputs"]):
            if not any(p == n for p, _ in edges):
                return ("unjustified-token", f"token {n} is in the graph, is not an input and no lost token depends on it")
        for n in nodes:
            if lost(tok[n]) and set(tok[n]["deps"]) - {p for p, t in edges if t == n}:
                return ("lost-not-expanded", f"lost token {n}: previous tokens {tok[n]['deps']} not all in the graph")
        if all(not lost(tok[i]) for i in c["inputs"]):
            if nodes != set(c["inputs"]) or edges:
                return ("soft-failure-extra", f"no input is lost but the graph is {sorted(nodes)} {sorted(edges)}")
        if "steps" in o:
            names = dict(map(tuple, c["ports"]))
            for s in c["steps"]:
                if s["id"] in o["steps"] and s["job"] and s["id"] != c["failed_step"]:
                    outs = {names[p] for p in s["out"]}
                    produced_lost = [n for n in nodes if tok[n]["port"] in outs and lost(tok[n])]
                    if not produced_lost:
                        return ("job-rerun-without-loss", f"job step {s['id']} is selected for re-execution but none of "
                                                          f"the tokens on its output ports {sorted(outs)} in the graph is lost")
        return None

    def _engine_facts(self, c, o):
        """(failed job names, {re-executed job: count}, permitted job names, {job: number of distinct lost tokens made
        from its job token}) -- from the property text: a job may run again if it failed, or if a token made from its
        job token is lost and is a provenance ancestor, reached through lost tokens only, of the inputs of a failed job"""
        failed = set()
        if c["fail"]:
            failed = {f"{st}/{c['fail']['tag']}" for st in (c["fail"].get("steps") or [c["fail"]["step"]])}
        permitted, lost_out = set(), {}
        for e in o["events"]:
            tok = {t["id"]: t for t in e["db"]}
            reach = _reach_through_lost(tok, e["inputs"])
            for x in reach:
                if tok[x]["jobname"] is not None:
                    permitted.add(tok[x]["jobname"])
                t = tok[x]
                if t["missing"]:          # data really gone (not merely a never-recoverable copy)
                    for p in t["deps"]:
                        if p in tok and tok[p]["jobname"] is not None and t["jobname"] is None:
                            lost_out.setdefault(tok[p]["jobname"], set()).add(x)
        rerun = {j: n for j, n in o["counts"].items() if n > 1}
        return failed, rerun, permitted, lost_out

    def _engine_oracle(self, c, o):
        if o["status"] != "COMPLETED" or not o["result_ok"]:
            return ("engine-run", f"recovered run ended {o['status']}, result correct: {o['result_ok']}")
        failed, rerun, permitted, lost_out = self._engine_facts(c, o)
        times = c["fail"]["times"] if c["fail"] else 0
        for f in sorted(failed):
            if o["counts"].get(f, 0) != times + 1:
                return ("failed-job-count", f"{f} failed {times} time(s) but ran {o['counts'].get(f, 0)} times")
        for j, n in sorted(rerun.items()):
            if j in failed:
                continue
            if j not in permitted:
                return ("rerun-not-permitted", f"job {j} ran {n} times although it is not a failing job {sorted(failed)} and "
                                               f"is not a producer of lost data needed by one (permitted: {sorted(permitted)})")
            # data made by the job was lost len(lost_out[j]) times (distinct lost tokens, however many recoveries
            # needed them): that many re-executions are justified, not one per recovery
            losses = len(lost_out.get(j, ()))
            if losses == 0:
                return ("rerun-without-loss", f"job {j} ran {n} times: it is not a failing job {sorted(failed)} and no token "
                                              f"made by it is lost (its outputs are all on disk)")
            if n > 1 + losses:
                return ("rerun-too-often", f"job {j} ran {n} times but only {losses} token(s) made by it were lost "
                                           f"(needed by {len(o['events'])} recovery plan(s))")
        if not failed and rerun:
            return ("rerun-without-failure", f"jobs re-executed without any failure: {rerun}")
        return None

    # ---------------------------------------------------------------- model side
    def _tok(self, t):
        return (f"(mkTok {coq_N(t['id'])} {coq_N(t['port_id'])} {coq_N(t['port'])} {coq_N(t['tag'])} "
                f"{coq_opt(t['job'], coq_N)} {coq_bool(t['avail'])} {coq_bool(t['recovering'])} "
                f"{coq_list([coq_N(d) for d in t['deps']])})")

    def _pinfo(self, t):
        return (f"({coq_N(t['id'])}, mkInfo {coq_bool(t['avail'])} {coq_N(t['port_id'])} {coq_N(t['port'])} "
                f"{coq_N(t['tag'])} {coq_opt(t['job'], coq_N)})")

    def _mobs_term(self, s):
        if "err" in s:
            return f"(MErr {s['err']})"
        ns = lambda l: coq_list([coq_N(x) for x in l])
        pairs = lambda l: coq_list([f"({coq_N(a)},{coq_N(b)})" for a, b in l])
        nl = lambda l: coq_list([f"({coq_N(a)},{ns(b)})" for a, b in l])
        nb = lambda l: coq_list([f"({coq_N(a)},{coq_bool(b)})" for a, b in l])
        return (f"(MOk (mkMobs {ns(s['dag_nodes'])} {pairs(s['dag_edges'])} {ns(s['port_nodes'])} {pairs(s['port_edges'])} "
                f"{nl(s['port_tokens'])} {nl(s['name_ids'])} {nb(s['avail'])} {ns(s['inst'])}))")

    def coq_case(self, c, o):
        if "crash" in o or "hang" in o:
            return None
        ns = lambda l: coq_list([coq_N(x) for x in l])
        if c["f"] == "engine":
            failed, rerun, _, _ = self._engine_facts(c, o)
            evs = []
            for e in o["events"]:
                g = e["graph"]
                bt = "BObsErr" if g is None else (
                    f"(BObsOk {ns(g['nodes'])} {coq_list([f'({coq_N(u)},{coq_N(v)})' for u, v in g['edges']])} "
                    f"{coq_list([f'({coq_N(k)},{coq_bool(v)})' for k, v in g['avail']])})")
                evs.append(f"({coq_list([self._tok(t) for t in e['db']])}, {ns(e['inputs'])}, {bt})")
            ids = []
            for j in sorted(rerun):
                if j not in failed:
                    ids.append(ns(sorted({t["id"] for e in o["events"] for t in e["db"] if t["jobname"] == j})))
            return f"CEngine {coq_list(evs)} {coq_list(ids)}"
        if c["f"] == "plan":
            b = o["build"]
            it = "None"
            if b == "err":
                bt, mt, st = "BObsErr", "None", "[]"
            else:
                bt = (f"(BObsOk {ns(b['nodes'])} {coq_list([f'({coq_N(u)},{coq_N(v)})' for u, v in b['edges']])} "
                      f"{coq_list([f'({coq_N(k)},{coq_bool(v)})' for k, v in b['avail']])})")
                mt = f"(Some {self._mobs_term(o['mapper'])})"
                st = ns(o.get("steps", []))
                if isinstance(o.get("inject"), list):
                    it = "(Some " + coq_list([f"({coq_N(p)},{ns(sorted(ts))})" for p, ts in o["inject"]]) + ")"
            steps = coq_list([f"(mkStep {coq_N(s['id'])} {ns(s['in'])} {ns(s['out'])})" for s in c["steps"]])
            ports = coq_list([f"({coq_N(a)},{coq_N(b)})" for a, b in c["ports"]])
            return (f"CPlan {coq_list([self._tok(t) for t in c['db']])} {ns(c['inputs'])} {steps} {ports} "
                    f"{ns(c['out_names'])} {bt} {mt} {st} {it}")
        if c["f"] == "sync":
            if "build_err" in o:
                return None
            adds = [f"(MAdd {self._pinfo(op[1])} " + ("None" if op[2] is None else f"(Some {self._pinfo(op[2])})") + ")"
                    for op in c["ops"]]
            return f"CSync {coq_list(adds)} {ns(o['jts'])} {self._mobs_term(o['after'])}"
        terms = []
        for op, s in zip(c["ops"], o["steps"]):
            if op[0] == "add":
                b = "None" if op[2] is None else f"(Some {self._pinfo(op[2])})"
                t = f"(MAdd {self._pinfo(op[1])} {b})"
            elif op[0] == "move":
                t = f"(MMove {coq_N(op[1])})"
            elif op[0] == "replace":
                t = f"(MReplace {coq_N(op[1])} {coq_N(op[2])} {coq_N(op[3])} {coq_opt(op[4], coq_N)} {coq_bool(op[5])})"
            else:
                t = f"(MRemovePort {coq_N(op[1])})"
            terms.append(f"({t}, {self._mobs_term(s)})")
        return f"CMapper {coq_list(terms)}"

    def nontrivial(self, c):
        if c["f"] == "engine":
            return c["fail"] is not None
        if c["f"] == "sync":
            return bool(c["recovering"])
        if c["f"] == "plan":
            tok = {t["id"]: t for t in c["db"]}
            return any(not tok[i]["avail"] for i in c["inputs"])
        return any(op[0] in ("move", "replace") for op in c["ops"])

    def signature(self, c, o, clause):
        return f"{c['f']}/{clause}"

    def shrink(self, c):
        if c["f"] == "engine":
            return
        if c["f"] == "plan":
            for i, t in enumerate(c["db"]):
                if not t["avail"]:
                    db = [dict(x) for x in c["db"]]
                    db[i]["avail"] = True
                    yield {**c, "db": db}
                if t["recovering"]:
                    db = [dict(x) for x in c["db"]]
                    db[i]["recovering"] = False
                    yield {**c, "db": db}
        else:
            for i in range(len(c["ops"]) - 1, -1, -1):
                yield {**c, "ops": c["ops"][:i] + c["ops"][i + 1:]}


def _reach_through_lost(tok, inputs):
    """tokens the backward search must visit: inputs, and dependees of visited lost tokens"""
    seen, todo = set(), list(inputs)
    while todo:
        x = todo.pop()
        if x in seen or x not in tok:
            continue
        seen.add(x)
        t = tok[x]
        if not t["avail"] and not (t["job"] is not None and t["recovering"]):
            todo.extend(t["deps"])
    return seen


PROP = C18()
