// C31 oracle side: evaluates the JavaScript that cwl_utils would send to its node sandbox, with a Proxy
// around `inputs` that records every property read (get / has traps).  One JSON request per line on stdin:
//   {"code": "...", "inputs": {...}, "runtime": {...}}   ->   {"ok": bool, "err": name|null, "reads": [...], "value": json|null}
'use strict';
const vm = require('vm');
const rl = require('readline').createInterface({ input: process.stdin, terminal: false });
rl.on('line', (line) => {
  let out;
  try {
    const req = JSON.parse(line);
    const reads = [];
    const target = JSON.parse(JSON.stringify(req.inputs));
    const proxy = new Proxy(target, {
      // members inherited from Object.prototype (valueOf / toString probed by + and template conversion) are not
      // fields of the inputs object: not recorded unless the object really has such a field
      get(t, k, r) { if (typeof k === 'string' && (!(k in Object.prototype) || Object.prototype.hasOwnProperty.call(t, k))) reads.push(k); return Reflect.get(t, k, r); },
      has(t, k) { if (typeof k === 'string') reads.push(k); return Reflect.has(t, k); },
    });
    // universal mode (kind realworld): every property of inputs / self / runtime exists and is again a universal
    // object (callable, converts to the string "u", length 1), so expressions written for unknown input shapes evaluate;
    // only property reads on the inputs object itself are recorded
    function U(rec) {
      const f = function () { return U(null); };
      return new Proxy(f, {
        get(t, k) {
          if (typeof k === 'symbol') { return k === Symbol.toPrimitive ? (() => 'u') : undefined; }
          if (rec) rec.push(k);
          if (k === 'length') return 1;
          if (k === 'toString' || k === 'valueOf' || k === 'toJSON') return () => 'u';
          if (k === 'then') return undefined;
          return U(null);
        },
        has(t, k) { if (rec && typeof k === 'string') rec.push(k); return true; },
        apply() { return U(null); },
        construct() { return U(null); },
      });
    }
    const ctx = req.universal
      ? vm.createContext({ inputs: U(reads), self: U(null), runtime: U(null) })
      : vm.createContext({ inputs: proxy, self: null, runtime: req.runtime });
    let ok = true, err = null, val = null;
    try {
      val = vm.runInContext(req.code, ctx, { timeout: 5000 });
    } catch (e) {
      ok = false; err = String((e && e.name) || e);
    }
    const got = reads.slice();          // serialising the result below must not count as reads
    let value = null;
    try { const s = JSON.stringify(val); value = s === undefined ? null : JSON.parse(s); } catch (e) { value = null; }
    out = { ok: ok, err: err, reads: got, value: value };
  } catch (e) {
    out = { ok: false, err: 'harness:' + String(e), reads: [], value: null };
  }
  process.stdout.write(JSON.stringify(out) + '\n');
});
