import asyncio, os, sys, tempfile
from streamflow.persistence.sqlite import SqliteConnection
async def one(delay):
    d = tempfile.mkdtemp(dir='/var/tmp/sfv-race')
    c = SqliteConnection(os.path.join(d,'db.sqlite'), 1000000, 20, True)
    async def first():
        async with c as db:
            async with db.execute("select count(*) from token") as cur: return await cur.fetchone()
    async def second():
        await asyncio.sleep(delay)
        async with c as db:
            async with db.execute("select count(*) from token") as cur: return await cur.fetchone()
    r = await asyncio.gather(first(), second(), return_exceptions=True)
    await c.close()
    return r
async def main():
    bad=0
    for k in range(0,200):
        r = await one(k*0.00025)
        if any(isinstance(x,Exception) for x in r):
            bad+=1; print(k, [repr(x) for x in r if isinstance(x,Exception)][0]) if bad<4 else None
    print("failures", bad); sys.exit(1 if bad else 0)
asyncio.run(main())
