"""Standalone reproduction of the C13 finding (pre-fix): MatchingBindingFilter.get_targets loses the declared
order of the surviving targets (they are collected in a set() of id-hashed Target objects).
Run: PYTHONPATH=/repo /venv/bin/python /verif/design/fixes/C13_repro.py   -> exit 1 and a message when the order is lost.
This is the witness of Props/C13.v:C13_declared_order_before_fix_refuted (two targets d/a, d/b, one rule on d)."""
import asyncio
import sys

from streamflow.core.deployment import DeploymentConfig, Target
from streamflow.core.workflow import Job, Token
from streamflow.deployment.filter import MatchingBindingFilter


async def main():
    bad = 0
    for trial in range(50):
        dep = DeploymentConfig(name="d", type="ssh", config={})
        targets = [Target(deployment=dep, service=s) for s in ("a", "b", "c", "e")]
        f = MatchingBindingFilter(name="f", filters=[{"target": "d", "job": [{"port": "p", "match": "x"}]}])
        job = Job(name="/s/0", workflow_id=0, inputs={"p": Token("x")}, input_directory=None,
                  output_directory=None, tmp_directory=None)
        got = [t.service for t in await f.get_targets(job, list(targets))]
        if got != ["a", "b", "c", "e"]:
            bad += 1
            last = got
    if bad:
        print(f"declared order a,b,c,e lost in {bad}/50 trials, e.g. {last}")
        return 1
    print("declared order kept in 50/50 trials")
    return 0


sys.exit(asyncio.run(main()))
