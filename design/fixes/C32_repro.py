"""Standalone reproduction of the C32 finding (pre-fix): remap_path percent-decodes plain paths and does not
re-encode file:// locations, so names containing '%' are lost when a value is remapped and remapped back.
Run: PYTHONPATH=/repo /venv/bin/python /verif/design/fixes/C32_repro.py   (exit 1 when a name is lost)
Witness of Props/C32.v:C32_percent_before_fix_refuted."""
import posixpath
import sys

from streamflow.cwl.utils import remap_path

bad = 0
for p in ["/old/a%20b", "file:///old/100%25", "/old/100%25.txt", "file:///old/a%2520b"]:
    fwd = remap_path(posixpath, p, "/old", "/new")
    back = remap_path(posixpath, fwd, "/new", "/old")
    print(f"{p!r} -> {fwd!r} -> {back!r}", "" if back == p else "   LOST")
    bad += back != p
sys.exit(1 if bad else 0)
