(* DESIGN-PHASE FEASIBILITY SPIKE — not part of the framework, not referenced by MANIFEST.json.
   The slow path of shlex.quote ('…' with every ' rewritten to '"'"') against a fragment of the POSIX sh
   word lexer in which any character the shell would interpret makes the result None.
   quote_verbatim: one quoted string lexes to exactly itself; join_verbatim: a blank-joined list of
   quoted strings lexes to exactly that list. ~110 lines, closed under the global context, ~15 min.
   The real Shell/Model.v adds the safe-character fast path, the empty string, and double-quote /
   unquoted fragments (which is where C24/C25 find their counterexamples). *)
From Coq Require Import List Bool Ascii Arith Lia.
Import ListNotations.
Local Open Scope char_scope.

(* strings as list ascii for proofs *)
Definition str := list ascii.

Definition is_sq (c : ascii) := Ascii.eqb c "'".
Definition is_dq (c : ascii) := Ascii.eqb c """".

(* body of shlex.quote's slow path: every ' becomes '"'"' *)
Fixpoint esc (s : str) : str :=
  match s with
  | [] => []
  | c :: s' => if is_sq c then ["'"; """"; "'"; """"; "'"] ++ esc s' else c :: esc s'
  end.
Definition quote_slow (s : str) : str := "'" :: esc s ++ ["'"].

(* POSIX sh word lexer fragment.  None = some character would be interpreted (expansion, operator, glob). *)
Inductive mode := Norm | SQ | DQ.
Definition special (c : ascii) : bool :=
  existsb (Ascii.eqb c) ["$"; "`"; "\"; "*"; "?"; "["; "]"; "~"; "#"; "&"; "|"; ";"; "<"; ">"; "("; ")"; "{"; "}"; "!"; "="; "%"; "^"; "010"].
Definition blank (c : ascii) : bool := Ascii.eqb c " " || Ascii.eqb c "009".
Definition dq_special (c : ascii) : bool := existsb (Ascii.eqb c) ["$"; "`"; "\"].

(* inw: are we inside a word (so that '' yields an empty word) *)
Fixpoint lex (m : mode) (inw : bool) (cur : str) (acc : list str) (s : str) : option (list str) :=
  match s with
  | [] => match m with
          | Norm => Some (if inw then acc ++ [cur] else acc)
          | _ => None
          end
  | c :: s' =>
    match m with
    | Norm =>
        if is_sq c then lex SQ true cur acc s'
        else if is_dq c then lex DQ true cur acc s'
        else if blank c then (if inw then lex Norm false [] (acc ++ [cur]) s' else lex Norm false [] acc s')
        else if special c then None
        else lex Norm true (cur ++ [c]) acc s'
    | SQ => if is_sq c then lex Norm true cur acc s' else lex SQ true (cur ++ [c]) acc s'
    | DQ => if is_dq c then lex Norm true cur acc s'
            else if dq_special c then None
            else lex DQ true (cur ++ [c]) acc s'
    end
  end.
Definition sh_words (s : str) := lex Norm false [] [] s.

Eval vm_compute in sh_words (quote_slow ["a"; "'"; " "; "$"; "b"]).

Lemma sq_not_dq c : is_sq c = true -> is_dq c = false.
Proof. unfold is_sq, is_dq. intros H. apply Ascii.eqb_eq in H. subst. reflexivity. Qed.
Lemma sq_char : is_sq "'" = true. Proof. reflexivity. Qed.
Lemma dq_char : is_dq """" = true. Proof. reflexivity. Qed.
Lemma sq_dqspecial : dq_special "'" = false. Proof. reflexivity. Qed.

(* inside single quotes: the escaped body followed by the closing quote yields cur ++ s *)
Lemma lex_body s : forall cur acc rest,
  lex SQ true cur acc (esc s ++ "'" :: rest) = lex Norm true (cur ++ s) acc rest.
Proof.
  induction s as [|c s IH]; intros cur acc rest; simpl.
  - rewrite app_nil_r. reflexivity.
  - destruct (is_sq c) eqn:E.
    + simpl. rewrite IH. apply Ascii.eqb_eq in E. subst c. rewrite <- app_assoc. reflexivity.
    + simpl. rewrite E. rewrite IH. rewrite <- app_assoc. reflexivity.
Qed.

Theorem quote_verbatim s : sh_words (quote_slow s) = Some [s].
Proof.
  unfold sh_words, quote_slow. cbn [lex]. rewrite sq_char.
  rewrite (lex_body s [] [] []). simpl. reflexivity.
Qed.

(* several quoted arguments joined by blanks *)
Fixpoint joinq (args : list str) : str :=
  match args with
  | [] => []
  | [a] => quote_slow a
  | a :: rest => quote_slow a ++ " " :: joinq rest
  end.

Lemma lex_args args : forall acc, args <> [] ->
  lex Norm false [] acc (joinq args) = Some (acc ++ args).
Proof.
  induction args as [|a args IH]; intros acc Hne; [congruence|].
  destruct args as [|b args].
  - simpl joinq. unfold quote_slow. cbn [lex]. rewrite sq_char.
    rewrite (lex_body a [] acc []). reflexivity.
  - change (joinq (a :: b :: args)) with (quote_slow a ++ " " :: joinq (b :: args)).
    unfold quote_slow at 1. cbn [lex app]. rewrite sq_char.
    rewrite <- app_assoc. cbn [app]. rewrite (lex_body a [] acc (" " :: joinq (b :: args))).
    cbn [lex app]. replace (is_sq " ") with false by reflexivity. replace (is_dq " ") with false by reflexivity.
    replace (blank " ") with true by reflexivity.
    rewrite IH by congruence. rewrite <- app_assoc. reflexivity.
Qed.
Theorem join_verbatim args : args <> [] -> sh_words (joinq args) = Some args.
Proof. intros H. unfold sh_words. rewrite lex_args; auto. Qed.
Print Assumptions join_verbatim.
