(* DESIGN-PHASE FEASIBILITY SPIKE — not part of the framework, not referenced by MANIFEST.json.
   Single-key, depth-1 abstraction of GatherStep (streamflow/workflow/step.py) with nat indices
   instead of string tags. Shows that "gather of any arrival permutation of a scattered list
   returns the original list" is provable in ~250 lines, closed under the global context,
   in about 25 minutes of work. The real model (Gather/Model.v) will carry string tags,
   several keys, depth d, the forced gather at termination and statuses. *)
From Coq Require Import List ZArith Lia Bool Permutation Sorting.Sorted Arith.
Import ListNotations.

(* Spike: single-key gather, depth 1. Elements carry index i (tag = key ++ [i]) and payload. *)
Inductive arr := Size (n : nat) | Elem (i : nat) (v : nat).

Record gst := { size : option nat; toks : list (nat * nat); out : list (list nat) }.

Fixpoint insert (x : nat * nat) (l : list (nat * nat)) :=
  match l with
  | [] => [x]
  | y :: l' => if Nat.leb (fst x) (fst y) then x :: l else y :: insert x l'
  end.
Definition sort l := fold_right insert [] l.

Definition gather (s : gst) : gst :=
  {| size := size s; toks := toks s; out := out s ++ [map snd (sort (toks s))] |}.

Definition step (s : gst) (a : arr) : gst :=
  match a with
  | Size n =>
      let s' := {| size := Some n; toks := toks s; out := out s |} in
      if Nat.eqb (length (toks s)) n then gather s' else s'
  | Elem i v =>
      let s' := {| size := size s; toks := toks s ++ [(i, v)]; out := out s |} in
      match size s with
      | Some n => if Nat.eqb (length (toks s')) n then gather s' else s'
      | None => s'
      end
  end.

Definition init := {| size := None; toks := []; out := [] |}.
Definition run (l : list arr) := fold_left step l init.

Definition elems (vs : list nat) : list arr := map (fun p => Elem (fst p) (snd p)) (combine (seq 0 (length vs)) vs).

Eval vm_compute in out (run [Elem 2 7; Size 3; Elem 0 5; Elem 1 6]).

(* ---------- sorting facts ---------- *)
Lemma insert_perm x l : Permutation (insert x l) (x :: l).
Proof.
  induction l as [|y l IH]; simpl; auto.
  destruct (Nat.leb (fst x) (fst y)); auto.
  rewrite IH. apply perm_swap.
Qed.
Lemma sort_perm l : Permutation (sort l) l.
Proof. induction l as [|x l IH]; simpl; auto. rewrite insert_perm. auto. Qed.

Definition lef (a b : nat * nat) := fst a <= fst b.
Lemma insert_sorted x l : Sorted lef l -> Sorted lef (insert x l).
Proof.
  induction l as [|y l IH]; simpl; intros Hs.
  - constructor; constructor.
  - destruct (Nat.leb (fst x) (fst y)) eqn:E.
    + apply Nat.leb_le in E. constructor; auto.
    + apply Nat.leb_gt in E. inversion Hs as [|? ? Hs' Hhd]; subst.
      constructor; auto.
      destruct l as [|z l]; simpl.
      * constructor. unfold lef. lia.
      * destruct (Nat.leb (fst x) (fst z)); constructor; unfold lef; try lia.
        inversion Hhd; subst. assumption.
Qed.
Lemma sort_sorted l : Sorted lef (sort l).
Proof. induction l; simpl; [constructor | apply insert_sorted; auto]. Qed.

(* uniqueness: a lef-sorted list whose keys have no duplicates is determined by its permutation class *)
Lemma sorted_strong l : Sorted lef l -> StronglySorted lef l.
Proof. apply Sorted_StronglySorted. unfold Relations_1.Transitive, lef. intros; lia. Qed.

Lemma sorted_unique l1 l2 :
  NoDup (map fst l1) -> Permutation l1 l2 -> Sorted lef l1 -> Sorted lef l2 -> l1 = l2.
Proof.
  revert l2. induction l1 as [|a l1 IH]; intros l2 Hnd Hp H1 H2.
  - apply Permutation_nil in Hp. subst; auto.
  - destruct l2 as [|b l2]. { apply Permutation_sym, Permutation_nil in Hp. discriminate. }
    assert (Hs1 := sorted_strong _ H1). assert (Hs2 := sorted_strong _ H2).
    inversion Hs1 as [|? ? Hs1' Hall1]; subst. inversion Hs2 as [|? ? Hs2' Hall2]; subst.
    assert (a = b).
    { assert (Ha : In a (b :: l2)) by (eapply Permutation_in; [exact Hp | left; auto]).
      assert (Hb : In b (a :: l1)) by (eapply Permutation_in; [apply Permutation_sym; exact Hp | left; auto]).
      destruct Ha as [->|Ha]; auto. destruct Hb as [->|Hb]; auto.
      rewrite Forall_forall in Hall1, Hall2.
      specialize (Hall1 _ Hb). specialize (Hall2 _ Ha). unfold lef in *.
      assert (fst a = fst b) by lia.
      inversion Hnd as [|? ? Hnin _]; subst. exfalso. apply Hnin.
      rewrite H. apply in_map. exact Hb. }
    subst b. f_equal. apply IH.
    + inversion Hnd; auto.
    + eapply Permutation_cons_inv; eauto.
    + inversion H1; auto.
    + inversion H2; auto.
Qed.

Definition indexed (vs : list nat) := combine (seq 0 (length vs)) vs.

Lemma indexed_fst_gen k (vs : list nat) : map fst (combine (seq k (length vs)) vs) = seq k (length vs).
Proof. revert k; induction vs as [|v vs IH]; intros k; simpl; auto. f_equal. apply IH. Qed.
Lemma indexed_snd_gen k (vs : list nat) : map snd (combine (seq k (length vs)) vs) = vs.
Proof. revert k; induction vs as [|v vs IH]; intros k; simpl; auto. f_equal. apply IH. Qed.
Lemma seq_sorted_gen k (vs : list nat) : Sorted lef (combine (seq k (length vs)) vs).
Proof.
  revert k; induction vs as [|v vs IH]; intros k; simpl. constructor.
  constructor. apply IH. destruct vs; simpl; constructor. unfold lef; simpl; lia.
Qed.

Lemma sort_indexed l vs : Permutation l (indexed vs) -> map snd (sort l) = vs.
Proof.
  intros Hp. assert (sort l = indexed vs).
  { apply sorted_unique.
    - eapply Permutation_NoDup. apply Permutation_map, Permutation_sym.
      transitivity l; [apply sort_perm | exact Hp].
      unfold indexed. rewrite indexed_fst_gen. apply seq_NoDup.
    - transitivity l; [apply sort_perm | exact Hp].
    - apply sort_sorted.
    - apply seq_sorted_gen. }
  rewrite H. apply indexed_snd_gen.
Qed.

(* ---------- state characterisation ---------- *)
Definition is_size (a : arr) := match a with Size _ => true | _ => false end.
Fixpoint elems_of (l : list arr) : list (nat * nat) :=
  match l with [] => [] | Elem i v :: l' => (i, v) :: elems_of l' | Size _ :: l' => elems_of l' end.
Definition has_size (l : list arr) := existsb is_size l.

Lemma elems_of_app l1 l2 : elems_of (l1 ++ l2) = elems_of l1 ++ elems_of l2.
Proof. induction l1 as [|[n|i v] l1 IH]; simpl; auto. f_equal; auto. Qed.

Section Fixed.
Variable n : nat.
Definition sizes_ok (l : list arr) := forall m, In (Size m) l -> m = n.
Definition incomplete (l : list arr) := has_size l = false \/ length (elems_of l) < n.

Lemma run_app l a : run (l ++ [a]) = step (run l) a.
Proof. unfold run. rewrite fold_left_app. reflexivity. Qed.

Lemma incomplete_prefix l a : incomplete (l ++ [a]) -> incomplete l.
Proof.
  unfold incomplete, has_size. rewrite existsb_app, elems_of_app, app_length. simpl.
  intros [H|H]; [left | right; lia].
  apply orb_false_iff in H. tauto.
Qed.

Lemma run_incomplete l :
  sizes_ok l -> incomplete l ->
  run l = {| size := if has_size l then Some n else None; toks := elems_of l; out := [] |}.
Proof.
  induction l as [|a l IH] using rev_ind; intros Hok Hinc.
  - reflexivity.
  - assert (Hok' : sizes_ok l) by (intros m Hm; apply Hok; apply in_or_app; auto).
    rewrite run_app, (IH Hok' (incomplete_prefix _ _ Hinc)).
    unfold incomplete in Hinc. unfold has_size in *. rewrite existsb_app, elems_of_app. simpl.
    destruct a as [m|i v]; simpl.
    + assert (m = n) by (apply Hok; apply in_or_app; right; left; auto). subst m.
      rewrite orb_true_r, app_nil_r.
      destruct Hinc as [Hinc|Hinc].
      * rewrite existsb_app in Hinc. simpl in Hinc. rewrite orb_true_r in Hinc. discriminate.
      * rewrite elems_of_app, app_length in Hinc. simpl in Hinc.
        destruct (Nat.eqb_spec (length (elems_of l)) n); [lia | reflexivity].
    + rewrite !orb_false_r.
      destruct (existsb is_size l) eqn:E; simpl; auto.
      destruct Hinc as [Hinc|Hinc].
      * rewrite existsb_app in Hinc. simpl in Hinc. rewrite E in Hinc. discriminate.
      * rewrite elems_of_app in Hinc. simpl in Hinc.
        destruct (Nat.eqb_spec (length (elems_of l ++ [(i, v)])) n); [lia | reflexivity].
Qed.
End Fixed.

(* ---------- the theorem ---------- *)
Definition arrivals (vs : list nat) : list arr :=
  Size (length vs) :: map (fun p => Elem (fst p) (snd p)) (indexed vs).

Lemma elems_of_map l : elems_of (map (fun p => Elem (fst p) (snd p)) l) = l.
Proof. induction l as [|[i v] l IH]; simpl; auto. f_equal; auto. Qed.

Lemma elems_of_perm l1 l2 : Permutation l1 l2 -> Permutation (elems_of l1) (elems_of l2).
Proof.
  induction 1; simpl; auto.
  - destruct x; auto.
  - destruct x, y; auto. apply perm_swap.
  - etransitivity; eauto.
Qed.
Lemma has_size_perm l1 l2 : Permutation l1 l2 -> has_size l1 = has_size l2.
Proof.
  unfold has_size. induction 1; simpl; auto.
  - rewrite IHPermutation; auto.
  - destruct (is_size x), (is_size y); auto.
  - congruence.
Qed.
Lemma count_size l : has_size l = true -> forall l1 a, l = l1 ++ [a] -> is_size a = true \/ has_size l1 = true.
Proof. intros H l1 a ->. unfold has_size in *. rewrite existsb_app in H. simpl in H.
  apply orb_true_iff in H. destruct H; auto. rewrite orb_false_r in H. auto. Qed.

Fixpoint nsizes (l : list arr) := match l with [] => 0 | a :: l' => (if is_size a then 1 else 0) + nsizes l' end.
Lemma nsizes_perm l1 l2 : Permutation l1 l2 -> nsizes l1 = nsizes l2.
Proof. induction 1; simpl; lia. Qed.
Lemma nsizes_app l1 l2 : nsizes (l1 ++ l2) = nsizes l1 + nsizes l2.
Proof. induction l1; simpl; lia. Qed.
Lemma nsizes_map l : nsizes (map (fun p : nat * nat => Elem (fst p) (snd p)) l) = 0.
Proof. induction l; simpl; auto. Qed.
Lemma nsizes_zero l : nsizes l = 0 -> has_size l = false.
Proof. unfold has_size. induction l as [|a l IH]; simpl; auto. destruct (is_size a); simpl; [lia | auto]. Qed.

Theorem gather_roundtrip vs arr :
  Permutation arr (arrivals vs) -> out (run arr) = [vs].
Proof.
  intros Hp. set (n := length vs).
  assert (Hlen : length (elems_of arr) = n).
  { rewrite (Permutation_length (elems_of_perm _ _ Hp)). unfold arrivals. simpl.
    rewrite elems_of_map. unfold indexed. rewrite combine_length, seq_length. lia. }
  assert (Hns : nsizes arr = 1).
  { rewrite (nsizes_perm _ _ Hp). unfold arrivals. simpl. rewrite nsizes_map. reflexivity. }
  assert (Hok : sizes_ok n arr).
  { intros m Hm. eapply Permutation_in in Hm; [|exact Hp]. destruct Hm as [Hm|Hm].
    - inversion Hm; reflexivity.
    - apply in_map_iff in Hm. destruct Hm as [p [Hm _]]. discriminate. }
  assert (Hel : Permutation (elems_of arr) (indexed vs)).
  { rewrite (elems_of_perm _ _ Hp). unfold arrivals. simpl. rewrite elems_of_map. reflexivity. }
  destruct arr as [|a0 arr0] using rev_ind. { simpl in Hns; lia. }
  clear IHarr0. rename arr0 into l. rename a0 into a.
  rewrite nsizes_app in Hns. simpl in Hns.
  rewrite elems_of_app, app_length in Hlen.
  assert (Hok' : sizes_ok n l) by (intros m Hm; apply Hok; apply in_or_app; auto).
  rewrite run_app.
  destruct a as [m|i v]; simpl in *.
  - assert (m = n) by (apply Hok; apply in_or_app; right; left; auto). subst m.
    assert (Hinc : incomplete n l) by (left; apply nsizes_zero; lia).
    rewrite (run_incomplete n l Hok' Hinc). simpl.
    rewrite Nat.add_0_r in Hlen. rewrite Hlen, Nat.eqb_refl. unfold gather; simpl.
    f_equal. apply sort_indexed. rewrite elems_of_app in Hel. simpl in Hel. rewrite app_nil_r in Hel. exact Hel.
  - assert (Hinc : incomplete n l) by (right; lia).
    rewrite (run_incomplete n l Hok' Hinc). simpl.
    assert (Hhs : has_size l = true).
    { destruct (has_size l) eqn:E; auto. exfalso.
      assert (nsizes l = 0 -> False) by lia. apply H.
      clear -E. unfold has_size in E. induction l as [|b l IH]; simpl in *; auto.
      apply orb_false_iff in E. destruct E as [E1 E2]. rewrite E1. simpl. auto. }
    rewrite Hhs. rewrite app_length. simpl. rewrite Hlen, Nat.eqb_refl. unfold gather; simpl.
    f_equal. apply sort_indexed. rewrite elems_of_app in Hel. simpl in Hel. exact Hel.
Qed.
Print Assumptions gather_roundtrip.
