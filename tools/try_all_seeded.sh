#!/bin/sh
# tools/try_all_seeded.sh [names...]: runs every seeded mutant against the check of its property, one line each
cd "$(dirname "$0")/.."
names="$@"; [ -z "$names" ] && names=$(ls seeded)
for n in $names; do
  [ -f seeded/$n/patch.diff ] || continue
  id=$(echo $n | cut -c1-3)
  [ -f harness/props/$(echo $id | tr C c).py ] || { echo "$n: no check for $id yet"; continue; }
  out=$(tools/try_mutant.sh seeded/$n $id 2>&1)
  echo "$n: $(echo "$out" | grep -c '^VIOLATION') VIOLATION line(s) [$(echo "$out" | grep -c 'no-failing-input-found') without input] | $(echo "$out" | grep 'demo on' | tr '\n' ' ') | $(echo "$out" | grep "quick:" | tail -1)"
done
