#!/usr/bin/env python3
"""Regenerates the generated sections of DESIGN.md (between <!-- BEGIN GEN:x --> / <!-- END GEN:x --> markers):
asbuilt (per-property table), findings (fixed/known), seeded (which checks catch which changes)."""
import glob, json, os, re, subprocess
V = os.path.dirname(os.path.dirname(os.path.abspath(__file__)))
props = [json.loads(l) for l in open(f"{V}/properties.jsonl")]
claimed = set(json.load(open(f"{V}/tools/claimed.json")))
res = json.load(open(f"{V}/seeded/results.json")) if os.path.exists(f"{V}/seeded/results.json") else {}

def thms(i):
    f = f"{V}/coq/theories/Props/{i}.v"
    if not os.path.exists(f):
        return []
    return re.findall(r"^\s*Theorem\s+([A-Za-z0-9_']+)", open(f).read(), flags=re.M)

def ev(i):
    f = f"{V}/evidence/{i}.json"
    return json.load(open(f)) if os.path.exists(f) else None

def known(i):
    k, fx = [], []
    f = f"{V}/known/{i}.txt"
    if os.path.exists(f):
        for line in open(f):
            line = line.strip()
            if line.startswith("known:"): k.append(line)
            if line.startswith("fixed:"): fx.append(line)
    return k, fx

asb = ["| id | claimed | level | theorems (full / partial / refuted) | last evidence: cases, in model domain, wall | known / fixed | notes |",
       "|--|--|--|--|--|--|--|"]
for p in props:
    i = p["id"]; t = thms(i); e = ev(i); k, fx = known(i)
    full = [n for n in t if not n.endswith(("_partial", "_refuted"))]
    part = [n for n in t if n.endswith("_partial")]; ref = [n for n in t if n.endswith("_refuted")]
    cov = e["coverage"] if e else {}
    asb.append(f"| {i} | {'yes' if i in claimed else 'no'} | {e['level'] if e else '-'} | {len(full)} / {len(part)} / {len(ref)} | "
               f"{cov.get('evaluations','-')}, {cov.get('correspondence_cases','-')}, {e['wall_s'] if e else '-'} s | {len(k)} / {len(fx)} | design/notes/{i}.md |")

fnd = []
log = subprocess.run(["git", "-C", "/repo", "log", "--format=%h %s", "200ed97..HEAD"], capture_output=True, text=True).stdout.strip().splitlines()
fnd.append("**Repaired in `/repo` (one unguarded `fix:` commit each, oldest last):**\n")
for l in log:
    fnd.append(f"* `{l.split()[0]}` {' '.join(l.split()[1:])}")
fnd.append("\n**Recorded as known findings (`known/Cxx.txt`; suppressed only for the listed signature, replay in `corpus/Cxx/`):**\n")
for p in props:
    k, fx = known(p["id"])
    for line in k:
        m = re.match(r"known:\s+property=(\S+)\s+sig=(\S+)\s+(.*)", line)
        if m:
            fnd.append(f"* {m.group(1)} `{m.group(2)}` — {m.group(3)[:260]}{'…' if len(m.group(3))>260 else ''}")

sd = ["| seeded change | property | what it does / what it needs to manifest | outcome against the check |", "|--|--|--|--|"]
for n in sorted(os.listdir(f"{V}/seeded")):
    d = f"{V}/seeded/{n}"
    if not os.path.isdir(d): continue
    try: m = json.load(open(f"{d}/meta.json"))
    except Exception: m = {}
    r = res.get(n, {})
    what = (str(m.get("summary", ""))[:200] + " / NEEDS: " + str(m.get("needs_to_manifest", ""))[:160]).replace("|", "/").replace("\n", " ")
    sd.append(f"| `{n}` | {n[:3]} | {what} | **{r.get('outcome','not yet run')}** — {r.get('note','')} |")

secs = {"asbuilt": "\n".join(asb), "findings": "\n".join(fnd), "seeded": "\n".join(sd)}
s = open(f"{V}/DESIGN.md").read()
for k, body in secs.items():
    pat = re.compile(rf"(<!-- BEGIN GEN:{k} -->\n).*?(<!-- END GEN:{k} -->)", re.S)
    if pat.search(s):
        s = pat.sub(lambda m: m.group(1) + body + "\n" + m.group(2), s)
    else:
        print("marker missing:", k)
open(f"{V}/DESIGN.md", "w").write(s)
print("ok")
