#!/bin/sh
# tools/keep_mutant.sh <name>: copy patch.diff/demo/meta.json from /tmp/mut/<name> to seeded/<name>, drop the worktree
n=$1; mkdir -p /verif/seeded/$n
cp /tmp/mut/$n/patch.diff /tmp/mut/$n/meta.json /verif/seeded/$n/ && cp /tmp/mut/$n/demo*.py /verif/seeded/$n/ && git -C /repo worktree remove --force /tmp/mut/$n && echo kept $n
