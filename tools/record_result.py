#!/usr/bin/env python3
"""tools/record_result.py <name> <outcome> [note]  — records the outcome of running a seeded mutant against its check"""
import json, os, sys
p = os.path.join(os.path.dirname(os.path.dirname(os.path.abspath(__file__))), "seeded", "results.json")
d = json.load(open(p)) if os.path.exists(p) else {}
d[sys.argv[1]] = {"outcome": sys.argv[2], "note": " ".join(sys.argv[3:])}
json.dump(d, open(p, "w"), indent=1, sort_keys=True)
