#!/usr/bin/env python3
"""tools/coqbuild.py Area/File.v ...  — builds the given theory files and exactly their dependency cone
(full .vo compilation with coqc, never -vos), under a lock, rebuilding what is stale.  Used by the checks
(so that a check rebuilds only what it needs) and during development; MANIFEST.setup_cmd does the full
`make` of everything instead."""
import fcntl
import os
import re
import subprocess
import sys

COQ = os.path.join(os.path.dirname(os.path.dirname(os.path.abspath(__file__))), "coq")
TH = os.path.join(COQ, "theories")
REQ = re.compile(r"From\s+SF\s+Require\s+(?:Import|Export)?\s*([^.]*(?:\.[A-Za-z_][^.\s]*)*)\s*\.(?:\s|$)")


def deps(rel):
    txt = open(os.path.join(TH, rel), encoding="utf-8").read()
    txt = re.sub(r"\(\*.*?\*\)", " ", txt, flags=re.S)
    out = []
    for m in re.finditer(r"From\s+SF\s+Require\s+(?:Import\s+|Export\s+)?((?:[A-Za-z_][\w']*(?:\.[A-Za-z_][\w']*)*\s*)+)\.", txt):
        for mod in m.group(1).split():
            out.append(mod.replace(".", "/") + ".v")
    return out


def build(rel, done, log):
    """returns mtime of the up-to-date .vo, building it if needed"""
    if rel in done:
        return done[rel]
    src = os.path.join(TH, rel)
    if not os.path.exists(src):
        raise SystemExit(f"coqbuild: missing {src}")
    newest = os.path.getmtime(src)
    for d in deps(rel):
        newest = max(newest, build(d, done, log))
    vo = src + "o"
    lockf = os.path.join(os.path.dirname(COQ), "build", "lock_" + rel.replace("/", "_"))
    with open(lockf, "w") as lk:
        fcntl.flock(lk, fcntl.LOCK_EX)          # per-file lock: two builders never compile the same file at once
        _compile(rel, src, vo, newest, log)
    done[rel] = os.path.getmtime(vo)
    return done[rel]


def _compile(rel, src, vo, newest, log):
    if not os.path.exists(vo) or os.path.getmtime(vo) < newest:
        r = subprocess.run(["timeout", "1800", "coqc", "-q", "-w",
                            "-notation-overridden,-deprecated-hint-without-locality,-deprecated-instance-without-locality",
                            "-Q", TH, "SF", src], cwd=COQ, stdout=subprocess.PIPE, stderr=subprocess.STDOUT, text=True)
        log.append(f"COQC {rel}\n{r.stdout}")
        if r.returncode != 0:
            sys.stdout.write("".join(log[-1:]))
            raise SystemExit(r.returncode or 1)


def main():
    os.makedirs(os.path.join(os.path.dirname(COQ), "build"), exist_ok=True)
    done, log = {}, []
    for rel in sys.argv[1:]:
        build(rel, done, log)
    if "-v" in os.environ.get("COQBUILD_FLAGS", ""):
        sys.stdout.write("".join(log))
    else:
        for l in log:
            sys.stdout.write(l.split("\n", 1)[0] + "\n")


if __name__ == "__main__":
    main()
