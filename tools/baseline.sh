#!/bin/sh
# tools/baseline.sh [tree]: runs the pinned suite on a tree (default /repo) with the guard OFF and reports
# which of the 171 stable tests do not pass.
t=${1:-/repo}; out=/verif/build/baseline_$$.xml
cd $t && env -u STREAMFLOW_VERIF PYTHONPATH=$t /venv/bin/python -m pytest -ra -q -p no:cacheprovider --timeout=900 --continue-on-collection-errors --junitxml=$out > /verif/build/baseline_$$.log 2>&1
python3 - $out <<'PY'
import json,sys,xml.etree.ElementTree as ET
stable=set(json.load(open('/root/.vp/BASELINE.json'))['stable_pass'])
ok=set()
for tc in ET.parse(sys.argv[1]).getroot().iter('testcase'):
    if not any(c.tag in('failure','error','skipped') for c in tc):
        ok.add(tc.get('classname')+'::'+tc.get('name'))
miss=sorted(stable-ok)
print(f"stable passing: {len(stable&ok)}/{len(stable)}")
for m in miss: print("NOT PASSING:",m)
PY
