#!/bin/sh
# tools/sweep.sh "<seeds>" [parallel] [ids...]: quick check of every claimed property for each seed; one line per run
cd "$(dirname "$0")/.."
seeds=${1:-"40 41 42"}; par=${2:-3}; shift 2 2>/dev/null
ids="$@"; [ -z "$ids" ] && ids=$(python3 -c "import json;print(' '.join(json.load(open('tools/claimed.json'))))")
for s in $seeds; do for i in $ids; do echo "$i $s"; done; done | xargs -P $par -L 1 sh -c '
  out=$(VERIF_SEED=$1 ./check $0 --tier quick 2>&1); rc=$?
  echo "$0 seed=$1 rc=$rc | $(echo "$out" | grep -c "^VIOLATION") viol | $(echo "$out" | grep "^VIOLATION" | head -2 | tr "\n" " ") | $(echo "$out" | tail -1 | cut -c1-150)"'
