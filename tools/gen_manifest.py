#!/venv/bin/python
"""Regenerates /verif/MANIFEST.json from the property modules present in harness/props/ (claimed) and
tools/unclaimed.json (reason per property not claimed).  Run after adding a property module."""
import glob
import json
import os
import sys

VERIF = os.path.dirname(os.path.dirname(os.path.abspath(__file__)))
sys.path.insert(0, VERIF)
from harness.lib.framework import load_prop  # noqa: E402

ids = [json.loads(l)["id"] for l in open(os.path.join(VERIF, "properties.jsonl"))]
present = sorted(os.path.basename(f)[:-3].upper() for f in glob.glob(os.path.join(VERIF, "harness/props/c[0-9]*.py")))
# only properties the coordinator has reviewed and seen quiet on the unchanged tree are claimed
claimed = [i for i in json.load(open(os.path.join(VERIF, "tools/claimed.json"))) if i in present]
unclaimed = json.load(open(os.path.join(VERIF, "tools/unclaimed.json")))
checks = []
for pid in claimed:
    p = load_prop(pid)
    checks.append({
        "property_id": pid,
        "quick_cmd": f"./check {pid} --tier quick",
        "thorough_cmd": f"./check {pid} --tier thorough",
        "evidence_file": f"/verif/evidence/{pid}.json",
        "replay_cmd_template": f"./check {pid} --replay {{path}}",
        "engine": "coq-model+correspondence",
        "level_claimed": {"category": p.LEVEL, "text": p.LEVEL_TEXT, "design_ref": f"DESIGN.md §3 {pid}"},
        "level_note": p.LEVEL_NOTE,
        "technique": p.TECHNIQUE,
    })
na = [{"property_id": i, "reason": unclaimed.get(i, "not built yet: no model/theorem/correspondence exists for it in this tree")}
      for i in ids if i not in claimed]
m = {
    "version": 1,
    "setup_cmd": "cd /verif && timeout 3400 tools/setup.py",
    "hooks": {
        "guard": "STREAMFLOW_VERIF",
        "enable": "the harness sets STREAMFLOW_VERIF=1 in the environment of its worker processes; /repo contains "
                  "no hook code: everything is observed by importing /repo as a library and monkey-patching from the harness",
        "baseline_off_cmd": "cd /repo && /venv/bin/python -m pytest -ra -q -p no:cacheprovider --timeout=900 "
                            "--continue-on-collection-errors",
        "source_commits": [],
        "add_only": True,
    },
    "engines": [{
        "name": "coq-model+correspondence", "path": "/verif/check",
        "serves_properties": claimed,
        "kind_free_text": "Hand-written Gallina models with theorems (Coq 8.16.1, full .vo build, Print Assumptions "
                          "checked on every run) tied to /repo by a correspondence check: the implementation and the "
                          "model (evaluated by the kernel with vm_compute) run on the same generated cases; a property "
                          "oracle on the implementation searches for the concrete failing input."}],
    "checks": checks,
    "not_applicable": na,
    "notes": "See DESIGN.md. KNOWN_FINDINGS.txt lists genuine defects recorded or fixed. seeded/ holds validated mutants.",
}
json.dump(m, open(os.path.join(VERIF, "MANIFEST.json"), "w"), indent=1)
print("claimed", claimed, "unclaimed", len(na))
