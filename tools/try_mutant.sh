#!/bin/sh
# tools/try_mutant.sh <dir with patch.diff [+ demo.py]> <Cxx> [tier]
# Applies the patch to a scratch worktree, runs the demo on original and mutant, runs the check against the mutant.
d=$(realpath "$1"); id=$2; tier=${3:-quick}; w=/var/tmp/sfv-try-$$
git -C /repo worktree add -q $w HEAD || exit 2
trap 'git -C /repo worktree remove --force $w' EXIT
demo=$(ls $d/demo*.py 2>/dev/null | head -1)
[ -n "$demo" ] && cp $demo $w/ && demo=$w/$(basename $demo)
if [ -n "$demo" ]; then
  (cd $w && mkdir -p $w/.demo_home && HOME=$w/.demo_home PYTHONPATH=$w timeout 600 /venv/bin/python $demo >/dev/null 2>&1); echo "demo on original: exit $?"
fi
git -C $w apply $d/patch.diff || { echo "patch does not apply"; exit 2; }
if [ -n "$demo" ]; then
  (cd $w && mkdir -p $w/.demo_home && HOME=$w/.demo_home PYTHONPATH=$w timeout 600 /venv/bin/python $demo >/dev/null 2>&1); echo "demo on mutant: exit $?"
fi
cd "$(dirname "$0")/.." && VERIF_REPO=$w ./check $id --tier $tier; echo "check exit $?"
