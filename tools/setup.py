#!/venv/bin/python
"""MANIFEST.setup_cmd: full .vo build (coqc, never -vos) of the dependency cone of every claimed property
(Props/Cxx.v and its correspondence module), in parallel; also writes coq/_CoqProject + Makefile for people who
prefer `make`.  Exit status 0 only if every cone built."""
import json, os, subprocess, sys
from concurrent.futures import ThreadPoolExecutor
V = os.path.dirname(os.path.dirname(os.path.abspath(__file__)))
sys.path.insert(0, V)
from harness.lib.framework import load_prop  # noqa: E402
subprocess.run([os.path.join(V, "coq", "gen_project.sh")], check=False)
ids = json.load(open(os.path.join(V, "tools", "claimed.json")))
def one(i):
    p = load_prop(i)
    r = subprocess.run([sys.executable, os.path.join(V, "tools", "coqbuild.py"), p.PROPS_FILE,
                        p.CORR_MODULE.replace(".", "/") + ".v"], stdout=subprocess.PIPE, stderr=subprocess.STDOUT, text=True)
    return i, r.returncode, r.stdout
bad = 0
with ThreadPoolExecutor(12) as ex:
    for i, rc, out in ex.map(one, ids):
        print(f"{i}: {'ok' if rc == 0 else 'FAILED'}")
        if rc:
            bad += 1
            print(out[-3000:])
sys.exit(1 if bad else 0)
