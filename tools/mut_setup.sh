#!/bin/sh
# tools/mut_setup.sh Cxx <suffix>: scratch worktree /tmp/mut/Cxx<suffix> with PROPERTY.json (the property's text only)
id=$1; n=$1$2; mkdir -p /tmp/mut
git -C /repo worktree add -q /tmp/mut/$n HEAD || exit 1
python3 - "$id" "/tmp/mut/$n/PROPERTY.json" <<'PY'
import json,sys
for l in open('/verif/properties.jsonl'):
    d=json.loads(l)
    if d['id']==sys.argv[1]:
        json.dump({k:d[k] for k in ('id','title','statement','quantifier','why_tests_cant','anchors')},open(sys.argv[2],'w'),indent=1)
PY
cp /verif/design/MUTANT_BRIEF.md /tmp/mut/$n/TASK.md; echo /tmp/mut/$n
