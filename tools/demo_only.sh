#!/bin/sh
# tools/demo_only.sh <dir>: confirm the demonstration passes on the original tree and fails with the patch
d=$(realpath "$1"); w=/var/tmp/sfv-demo-$$
git -C /repo worktree add -q $w HEAD || exit 2
trap 'git -C /repo worktree remove --force $w' EXIT
demo=$(ls $d/demo*.py | head -1); cp $demo $w/; demo=$w/$(basename $demo)
(cd $w && mkdir -p $w/.demo_home && HOME=$w/.demo_home PYTHONPATH=$w timeout 900 /venv/bin/python $demo >/dev/null 2>&1); echo "demo on original: exit $?"
git -C $w apply $d/patch.diff || { echo "patch does not apply"; exit 2; }
(cd $w && mkdir -p $w/.demo_home && HOME=$w/.demo_home PYTHONPATH=$w timeout 900 /venv/bin/python $demo >/dev/null 2>&1); echo "demo on mutant: exit $?"
