#!/bin/sh
# Regenerates KNOWN_FINDINGS.txt (the single committed known-findings file) from the per-property sources known/Cxx.txt
cd "$(dirname "$0")/.."
{ cat <<'H'
# Genuine defects of alpha-unito/streamflow found by the checks in /verif (generated from known/Cxx.txt by tools/merge_known.sh).
#   known: property=Cxx sig=<finding signature> <what fails, with the concrete input>     (suppressed, printed as KNOWN-FINDING)
#   fixed: property=Cxx <commit in /repo> <what failed>                                    (suppresses nothing)
# The checks only read this file and known/*.txt; they never write to them.
H
for f in known/C*.txt; do grep -h '^known:\|^fixed:' "$f"; done; } > KNOWN_FINDINGS.txt
grep -c '^known:' KNOWN_FINDINGS.txt; grep -c '^fixed:' KNOWN_FINDINGS.txt
