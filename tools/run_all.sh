#!/bin/sh
# tools/run_all.sh [tier] [seed] [ids...] — runs the checks one after the other, validates evidence, prints a table.
tier=${1:-quick}; seed=${2:-0}; shift 2 2>/dev/null
cd /verif
ids="$@"; [ -z "$ids" ] && ids=$(ls harness/props/c[0-9]*.py | sed 's|.*/c\([0-9]*\)\.py|C\1|')
for id in $ids; do
  s=$(date +%s)
  out=$(VERIF_SEED=$seed ./check $id --tier $tier 2>&1); rc=$?
  e=$(date +%s)
  v=$(/opt/veriftools/pyvenv/bin/python - $id <<'PY'
import json,sys,jsonschema
try:
    jsonschema.validate(json.load(open(f'/verif/evidence/{sys.argv[1]}.json')), json.load(open('/root/.vp/EVIDENCE.schema.json'))); print("evidence-ok")
except Exception as ex: print("EVIDENCE-INVALID", str(ex)[:80])
PY
)
  echo "$id rc=$rc $((e-s))s $v | $(echo "$out" | grep -c '^VIOLATION') violation(s), $(echo "$out" | grep -c '^KNOWN-FINDING') known | $(echo "$out" | tail -1)"
done
