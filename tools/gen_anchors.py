#!/venv/bin/python
"""Records, per property, the normalised-AST digest of every anchored source file of /repo's current tree
in /verif/anchors.json.  Run after the models were validated against that tree (i.e. after every fix: commit)."""
import json, os, sys
V = os.path.dirname(os.path.dirname(os.path.abspath(__file__)))
sys.path.insert(0, V)
from harness.lib import framework as fw  # noqa: E402
out = {}
for line in open(os.path.join(V, "properties.jsonl")):
    pid = json.loads(line)["id"]
    out[pid] = {f: fw.file_digest(os.path.join("/repo", f)) for f in fw.anchor_files(pid)}
json.dump(out, open(os.path.join(V, "anchors.json"), "w"), indent=1, sort_keys=True)
print("recorded", sum(len(v) for v in out.values()), "digests")
