#!/usr/bin/env python3
"""Pins the theorem names of every Props/Cxx.v in /verif/theorems.json (run at integration, after reviewing renames)."""
import glob, json, os, re
V = os.path.dirname(os.path.dirname(os.path.abspath(__file__)))
out = {}
for f in sorted(glob.glob(f"{V}/coq/theories/Props/C*.v")):
    out[os.path.basename(f)[:-2]] = re.findall(r"^\s*Theorem\s+([A-Za-z0-9_']+)", open(f).read(), flags=re.M)
json.dump(out, open(f"{V}/theorems.json", "w"), indent=1, sort_keys=True)
print(sum(len(v) for v in out.values()), "theorems pinned")
