#!/bin/sh
# Regenerates _CoqProject from the files present, so that adding a theory file needs no edit here.
cd "$(dirname "$0")"
{ echo "-Q theories SF"; echo "-arg -w -arg -notation-overridden,-deprecated-hint-without-locality,-deprecated-instance-without-locality"; find theories -name '*.v' | LC_ALL=C sort; } > _CoqProject
coq_makefile -f _CoqProject -o Makefile >/dev/null
