(* DbCache/Proofs.v — lemmas about DbCache/Model.v.
   Main results:
     run_coherent   : with deep-copy post-processing, every positional read of every operation sequence
                      (adds, updates, reads, arbitrary caller mutations) equals the read of the cache-free database;
     run_isolated   : with deep-copy post-processing, caller mutations change no later answer at all
                      (keyword calls included);
     alias_witness / keyword_witness : concrete sequences on which shallow post-processing, resp. a keyword call
                      after an update, answer differently from the cache-free database. *)
From Coq Require Import List Bool NArith ZArith Lia Arith.
From SF Require Import Base.Str DbCache.Model.
Import ListNotations.
Local Open Scope string_scope. Local Open Scope list_scope.

(* ------------------------------------------------------------------ keys *)
Lemma tbl_eqb_eq a b : tbl_eqb a b = true <-> a = b.
Proof.
  unfold tbl_eqb. split.
  - destruct a, b; simpl; intros H; try reflexivity; discriminate H.
  - intros ->. apply N.eqb_refl.
Qed.

Lemma dkey_eqb_eq a b : dkey_eqb a b = true <-> a = b.
Proof.
  destruct a as [t i], b as [t' i']. unfold dkey_eqb. simpl. rewrite andb_true_iff, tbl_eqb_eq, N.eqb_eq.
  split; [intros [-> ->]; reflexivity | intros H; inversion H; auto].
Qed.

Lemma ckey_eqb_eq a b : ckey_eqb a b = true <-> a = b.
Proof.
  destruct a as [[t k] i], b as [[t' k'] i']. unfold ckey_eqb. simpl.
  rewrite !andb_true_iff, tbl_eqb_eq, N.eqb_eq, eqb_true_iff.
  split; [intros [[-> ->] ->]; reflexivity | intros H; inversion H; auto].
Qed.

Section AssocLemmas.
  Context {K V : Type} (keqb : K -> K -> bool).
  Hypothesis keqb_eq : forall a b, keqb a b = true <-> a = b.

  Lemma keqb_refl k : keqb k k = true.
  Proof. apply keqb_eq. reflexivity. Qed.

  Lemma keqb_neq a b : a <> b -> keqb a b = false.
  Proof. intros H. destruct (keqb a b) eqn:E; [apply keqb_eq in E; contradiction | reflexivity]. Qed.

  Lemma klookup_kset_same k (v : V) l : klookup keqb k (kset keqb k v l) = Some v.
  Proof.
    induction l as [|[k' v'] l IH]; simpl.
    - rewrite keqb_refl. reflexivity.
    - destruct (keqb k k') eqn:E; simpl; rewrite E; [reflexivity | exact IH].
  Qed.

  Lemma klookup_kset_other k k' (v : V) l : k' <> k -> klookup keqb k' (kset keqb k v l) = klookup keqb k' l.
  Proof.
    intros Hn. induction l as [|[k2 v2] l IH]; simpl.
    - rewrite (keqb_neq _ _ Hn). reflexivity.
    - destruct (keqb k k2) eqn:E; simpl.
      + apply keqb_eq in E. subst k2. rewrite (keqb_neq _ _ Hn). reflexivity.
      + destruct (keqb k' k2); [reflexivity | exact IH].
  Qed.

  Lemma klookup_kdel_same k (l : list (K * V)) : klookup keqb k (kdel keqb k l) = None.
  Proof.
    induction l as [|[k2 v2] l IH]; simpl; [reflexivity|].
    destruct (keqb k k2) eqn:E; [exact IH | simpl; rewrite E; exact IH].
  Qed.

  Lemma klookup_kdel_other k k' (l : list (K * V)) : k' <> k -> klookup keqb k' (kdel keqb k l) = klookup keqb k' l.
  Proof.
    intros Hn. induction l as [|[k2 v2] l IH]; simpl; [reflexivity|].
    destruct (keqb k k2) eqn:E.
    - apply keqb_eq in E. subst k2. rewrite (keqb_neq _ _ Hn). exact IH.
    - simpl. destruct (keqb k' k2); [reflexivity | exact IH].
  Qed.

  Lemma klookup_app_some k (l : list (K * V)) x v : klookup keqb k l = Some v -> klookup keqb k (l ++ [x]) = Some v.
  Proof.
    induction l as [|[k2 v2] l IH]; simpl; [discriminate|].
    destruct (keqb k k2); [auto | exact IH].
  Qed.
End AssocLemmas.

(* ------------------------------------------------------------------ handles that share nothing *)
Definition own_field (cf : string * field) : bool := match snd cf with Own _ => true | Shared _ _ => false end.
Definition all_own (h : handle) : bool := forallb own_field h.
Definition deep_handles (s : st) : Prop := forallb all_own (handles s) = true.

Lemma all_own_alookup h c f : all_own h = true -> alookup c h = Some f -> exists v, f = Own v.
Proof.
  induction h as [|[c' f'] h IH]; simpl; [discriminate|].
  intros H. apply andb_true_iff in H. destruct H as [H1 H2].
  destruct (String.eqb c c').
  - intros E. inversion E. subst f'. unfold own_field in H1. simpl in H1.
    destruct f; [eexists; reflexivity | discriminate].
  - apply IH. exact H2.
Qed.

Lemma all_own_aset h c v : all_own h = true -> all_own (aset c (Own v) h) = true.
Proof.
  induction h as [|[c' f'] h IH]; simpl; [reflexivity|].
  intros H. apply andb_true_iff in H. destruct H as [H1 H2].
  destruct (String.eqb c c'); simpl.
  - rewrite H2. reflexivity.
  - rewrite H1. apply IH. exact H2.
Qed.

Lemma all_own_adel h c : all_own h = true -> all_own (adel c h) = true.
Proof.
  induction h as [|[c' f'] h IH]; simpl; [reflexivity|].
  intros H. apply andb_true_iff in H. destruct H as [H1 H2].
  destruct (String.eqb c c'); simpl; [exact H2 | rewrite H1; apply IH; exact H2].
Qed.

Lemma forallb_lset {A} (f : A -> bool) i x l : forallb f l = true -> f x = true -> forallb f (lset i x l) = true.
Proof.
  revert i. induction l as [|y l IH]; intros i H Hx; [destruct i; reflexivity|].
  simpl in H. apply andb_true_iff in H. destruct H as [H1 H2].
  destruct i; simpl; [rewrite Hx, H2; reflexivity | rewrite H1; apply IH; assumption].
Qed.

Lemma forallb_nth_error {A} (f : A -> bool) l i x : forallb f l = true -> nth_error l i = Some x -> f x = true.
Proof.
  revert i. induction l as [|y l IH]; intros i H E; destruct i; simpl in *; try discriminate.
  - inversion E. subst. apply andb_true_iff in H. tauto.
  - apply andb_true_iff in H. eapply IH; [tauto | exact E].
Qed.

Lemma all_own_fresh r : all_own (fresh_handle r) = true.
Proof. induction r as [|[c v] r IH]; simpl; [reflexivity | exact IH]. Qed.

Lemma resolve_fresh cs r : resolve cs (fresh_handle r) = r.
Proof. induction r as [|[c v] r IH]; simpl; [reflexivity | unfold resolve, fresh_handle in *; simpl; rewrite IH; reflexivity]. Qed.

Lemma forallb_snoc {A} (f : A -> bool) l x : forallb f l = true -> f x = true -> forallb f (l ++ [x]) = true.
Proof. intros H Hx. rewrite forallb_app, H. simpl. rewrite Hx. reflexivity. Qed.

(* ------------------------------------------------------------------ a caller's mutation under deep copies *)
Lemma mutate_deep s h p m :
  deep_handles s ->
  let s' := fst (mutate s h p m) in
  db s' = db s /\ cache s' = cache s /\ cells s' = cells s /\ deep_handles s'.
Proof.
  intros D. unfold mutate.
  destruct (nth_error (handles s) h) as [hd|] eqn:Eh; simpl; [|auto].
  assert (Hhd : all_own hd = true) by (eapply forallb_nth_error; [exact D | exact Eh]).
  destruct p as [|[c|i] p']; simpl; auto.
  assert (Hset : forall v, deep_handles (mkst (db s) (cache s) (cells s) (lset h (aset c (Own v) hd) (handles s)))).
  { intros v. unfold deep_handles. simpl. apply forallb_lset; [exact D | apply all_own_aset; exact Hhd]. }
  assert (Hin : forall q mm,
    let r := match alookup c hd with
             | None => (s, OMut false)
             | Some (Own v) =>
                 match jv_mut q mm v with
                 | Some v' => (mkst (db s) (cache s) (cells s) (lset h (aset c (Own v') hd) (handles s)), OMut true)
                 | None => (s, OMut false)
                 end
             | Some (Shared cid c') =>
                 match jv_mut q mm (field_val (cells s) (Shared cid c')) with
                 | Some v' =>
                     (mkst (db s) (cache s) (lset cid (aset c' v' (nth cid (cells s) [])) (cells s)) (handles s),
                      OMut true)
                 | None => (s, OMut false)
                 end
             end in
    db (fst r) = db s /\ cache (fst r) = cache s /\ cells (fst r) = cells s /\ deep_handles (fst r)).
  { intros q mm. destruct (alookup c hd) as [f|] eqn:Ef; simpl; auto.
    destruct (all_own_alookup _ _ _ Hhd Ef) as [v ->].
    destruct (jv_mut q mm v); simpl; repeat split; auto. }
  destruct p' as [|e p''].
  - destruct m as [v|v|].
    + simpl. repeat split; auto.
    + apply (Hin [] (MAppend v)).
    + destruct (alookup c hd) eqn:Ef; simpl; auto. repeat split; auto.
      unfold deep_handles. simpl. apply forallb_lset; [exact D | apply all_own_adel; exact Hhd].
  - destruct m as [v|v|]; apply (Hin (e :: p'')).
Qed.

Lemma mutate_db s h p m : db (fst (mutate s h p m)) = db s.
Proof.
  unfold mutate. destruct (nth_error (handles s) h) as [hd|]; [|reflexivity].
  destruct p as [|[c|i] p']; try reflexivity.
  destruct p' as [|e p'']; destruct m as [v|v|]; simpl;
    repeat match goal with
           | |- context [match ?x with _ => _ end] => destruct x; simpl
           end; reflexivity.
Qed.

(* ------------------------------------------------------------------ the database part of a step is the spec's *)
Lemma step_db md s o : db (fst (step md s o)) = fst (spec_step (db s) o).
Proof.
  destruct o as [t r|t id fs|t kw id|t id|h p m]; simpl.
  - reflexivity.
  - destruct fs; reflexivity.
  - destruct (cached t).
    + destruct (klookup ckey_eqb (t, kw, id) (cache s)); simpl.
      * destruct (klookup dkey_eqb (t, id) (db s)); reflexivity.
      * destruct (klookup dkey_eqb (t, id) (db s)); reflexivity.
    + destruct (klookup dkey_eqb (t, id) (db s)); reflexivity.
  - destruct (klookup dkey_eqb (t, id) (db s)); reflexivity.
  - apply mutate_db.
Qed.

(* ------------------------------------------------------------------ coherence invariant *)
Definition inv (s : st) : Prop :=
  forall t id cid, klookup ckey_eqb (t, false, id) (cache s) = Some cid ->
    exists r, nth_error (cells s) cid = Some r /\ klookup dkey_eqb (t, id) (db s) = Some r.

Lemma inv_init : inv init.
Proof. intros t id cid H. discriminate H. Qed.

Lemma resolve_deep cs cid r : resolve cs (postprocess Deep cid r) = r.
Proof. apply resolve_fresh. Qed.

Lemma db_update_other t id fs d k : k <> (t, id) -> klookup dkey_eqb k (db_update t id fs d) = klookup dkey_eqb k d.
Proof.
  intros Hn. unfold db_update. destruct (klookup dkey_eqb (t, id) d); [|reflexivity].
  apply (klookup_kset_other dkey_eqb dkey_eqb_eq). exact Hn.
Qed.

Definition read_out (x : out) : option row := match x with ORow r => Some r | _ => None end.

(* one positional step under deep copies: invariants kept, and a read answers as the spec does *)
Lemma step_coherent s o :
  inv s -> deep_handles s -> positional o = true ->
  let s' := fst (step Deep s o) in
  inv s' /\ deep_handles s' /\
  (is_read o = true -> read_out (snd (step Deep s o)) = read_out (snd (spec_step (db s) o))).
Proof.
  intros I D P.
  destruct o as [t r|t id fs|t kw id|t id|h p m].
  - (* Add *)
    simpl. split; [|split; [exact D | discriminate]].
    intros t' id' cid H. simpl in H. destruct (I _ _ _ H) as [r' [H1 H2]].
    exists r'. split; [exact H1|]. simpl. apply klookup_app_some. exact H2.
  - (* Update *)
    simpl. destruct fs as [|f fs]; simpl; [split; [exact I | split; [exact D | discriminate]]|].
    split; [|split; [exact D | discriminate]].
    intros t' id' cid H. simpl in H.
    destruct (dkey_eqb (t', id') (t, id)) eqn:E.
    + apply dkey_eqb_eq in E. inversion E. subst.
      rewrite (klookup_kdel_same ckey_eqb) in H. discriminate H.
    + assert (Hn : (t', id') <> (t, id)) by (intros X; rewrite X in E; rewrite (proj2 (dkey_eqb_eq _ _) eq_refl) in E; discriminate).
      rewrite (klookup_kdel_other ckey_eqb ckey_eqb_eq) in H by (intros X; inversion X; subst; apply Hn; reflexivity).
      destruct (I _ _ _ H) as [r' [H1 H2]]. exists r'. split; [exact H1|]. simpl.
      rewrite db_update_other by exact Hn. exact H2.
  - (* Get *)
    simpl in P. destruct kw; [discriminate|]. simpl.
    destruct (cached t) eqn:Ec.
    + destruct (klookup ckey_eqb (t, false, id) (cache s)) as [cid|] eqn:Eh.
      * (* hit *)
        destruct (I _ _ _ Eh) as [r [H1 H2]].
        assert (Hnth : nth cid (cells s) [] = r) by (apply nth_error_nth; exact H1).
        simpl. split; [exact I|]. split.
        { unfold deep_handles. simpl. apply forallb_snoc; [exact D | rewrite Hnth; apply all_own_fresh]. }
        intros _. rewrite H2. simpl. rewrite Hnth. f_equal. apply resolve_fresh.
      * (* miss *)
        destruct (klookup dkey_eqb (t, id) (db s)) as [r|] eqn:Ed; simpl.
        { split; [|split].
          - intros t' id' cid H. simpl in H. simpl.
            destruct (ckey_eqb (t', false, id') (t, false, id)) eqn:E.
            + apply ckey_eqb_eq in E. inversion E. subst.
              rewrite (klookup_kset_same ckey_eqb ckey_eqb_eq) in H. inversion H. subst cid.
              exists r. split; [|exact Ed]. rewrite nth_error_app2 by lia. rewrite Nat.sub_diag. reflexivity.
            + rewrite (klookup_kset_other ckey_eqb ckey_eqb_eq) in H
                by (intros X; rewrite X in E; rewrite (proj2 (ckey_eqb_eq _ _) eq_refl) in E; discriminate).
              destruct (I _ _ _ H) as [r' [H1 H2]]. exists r'. split; [|exact H2].
              rewrite nth_error_app1; [exact H1 | apply nth_error_Some; rewrite H1; discriminate].
          - unfold deep_handles. simpl. apply forallb_snoc; [exact D | apply all_own_fresh].
          - intros _. f_equal. apply resolve_fresh. }
        { split; [exact I | split; [exact D | reflexivity]]. }
    + destruct (klookup dkey_eqb (t, id) (db s)) as [r|] eqn:Ed; simpl.
      * split; [exact I|]. split; [|reflexivity].
        unfold deep_handles. simpl. apply forallb_snoc; [exact D | apply all_own_fresh].
      * split; [exact I | split; [exact D | reflexivity]].
  - (* GetFresh *)
    simpl. destruct (klookup dkey_eqb (t, id) (db s)) as [r|] eqn:Ed; simpl.
    + split; [exact I|]. split; [|reflexivity].
      unfold deep_handles. simpl. apply forallb_snoc; [exact D | apply all_own_fresh].
    + split; [exact I | split; [exact D | reflexivity]].
  - (* Mutate *)
    simpl. destruct (mutate_deep s h p m D) as [H1 [H2 [H3 H4]]].
    split; [|split; [exact H4 | discriminate]].
    intros t id cid H. rewrite H2 in H. destruct (I _ _ _ H) as [r [Ha Hb]].
    exists r. rewrite H3, H1. split; assumption.
Qed.

Lemma reads_cons o ops x xs :
  reads (o :: ops) (x :: xs) = if is_read o then read_out x :: reads ops xs else reads ops xs.
Proof. reflexivity. Qed.

Lemma run_cons md s o ops :
  run md s (o :: ops) = (fst (run md (fst (step md s o)) ops), snd (step md s o) :: snd (run md (fst (step md s o)) ops)).
Proof.
  simpl. destruct (step md s o) as [s1 x]. simpl. destruct (run md s1 ops) as [s2 xs]. reflexivity.
Qed.

Lemma spec_run_cons d o ops : spec_run d (o :: ops) = snd (spec_step d o) :: spec_run (fst (spec_step d o)) ops.
Proof. simpl. destruct (spec_step d o). reflexivity. Qed.

Lemma run_coherent_gen ops : forall s,
  inv s -> deep_handles s -> forallb positional ops = true ->
  reads ops (snd (run Deep s ops)) = reads ops (spec_run (db s) ops).
Proof.
  induction ops as [|o ops IH]; intros s I D P; [reflexivity|].
  simpl in P. apply andb_true_iff in P. destruct P as [Po Pops].
  destruct (step_coherent s o I D Po) as [I' [D' R]].
  rewrite run_cons, spec_run_cons. cbn [snd]. rewrite !reads_cons.
  rewrite <- (step_db Deep s o).
  rewrite (IH _ I' D' Pops).
  destruct (is_read o) eqn:Er; [rewrite (R eq_refl)|]; reflexivity.
Qed.

Theorem run_coherent ops :
  forallb positional ops = true ->
  reads ops (snd (run Deep init ops)) = reads ops (spec_run [] ops).
Proof. intros P. apply (run_coherent_gen ops init inv_init eq_refl P). Qed.

(* ------------------------------------------------------------------ isolation: mutations are invisible *)
Definition same_store (s s' : st) : Prop := db s = db s' /\ cache s = cache s' /\ cells s = cells s'.

Lemma step_same_store md s s' o :
  is_mutate o = false -> same_store s s' ->
  snd (step md s o) = snd (step md s' o) /\ same_store (fst (step md s o)) (fst (step md s' o)).
Proof.
  intros M [H1 [H2 H3]]. destruct s as [d c cs hs], s' as [d' c' cs' hs']. simpl in H1, H2, H3. subst d' c' cs'.
  unfold same_store.
  destruct o as [t r|t id fs|t kw id|t id|h p m]; simpl.
  - auto.
  - destruct fs; simpl; auto.
  - destruct (cached t).
    + destruct (klookup ckey_eqb (t, kw, id) c); simpl; auto.
      destruct (klookup dkey_eqb (t, id) d); simpl; auto.
    + destruct (klookup dkey_eqb (t, id) d); simpl; auto.
  - destruct (klookup dkey_eqb (t, id) d); simpl; auto.
  - discriminate M.
Qed.

Lemma step_deep_handles s o : deep_handles s -> deep_handles (fst (step Deep s o)).
Proof.
  intros D. destruct o as [t r|t id fs|t kw id|t id|h p m]; simpl.
  - exact D.
  - destruct fs; exact D.
  - destruct (cached t).
    + destruct (klookup ckey_eqb (t, kw, id) (cache s)); simpl.
      * unfold deep_handles. simpl. apply forallb_snoc; [exact D | apply all_own_fresh].
      * destruct (klookup dkey_eqb (t, id) (db s)); simpl; [|exact D].
        unfold deep_handles. simpl. apply forallb_snoc; [exact D | apply all_own_fresh].
    + destruct (klookup dkey_eqb (t, id) (db s)); simpl; [|exact D].
      unfold deep_handles. simpl. apply forallb_snoc; [exact D | apply all_own_fresh].
  - destruct (klookup dkey_eqb (t, id) (db s)); simpl; [|exact D].
    unfold deep_handles. simpl. apply forallb_snoc; [exact D | apply all_own_fresh].
  - apply (mutate_deep s h p m D).
Qed.

Definition drop_mutations (ops : list op) : list op := filter (fun o => negb (is_mutate o)) ops.

Lemma run_isolated_gen ops : forall s s',
  deep_handles s -> same_store s s' ->
  reads ops (snd (run Deep s ops)) = reads (drop_mutations ops) (snd (run Deep s' (drop_mutations ops))).
Proof.
  induction ops as [|o ops IH]; intros s s' D S; [reflexivity|].
  rewrite run_cons. cbn [snd]. rewrite reads_cons.
  destruct (is_mutate o) eqn:M.
  - (* a mutation: dropped on the right, changes nothing but handles on the left *)
    destruct o; try discriminate M. simpl drop_mutations. simpl is_read. cbv iota.
    apply IH.
    + apply (mutate_deep s h p m D).
    + destruct (mutate_deep s h p m D) as [H1 [H2 [H3 _]]]. destruct S as [S1 [S2 S3]].
      unfold same_store. simpl. rewrite H1, H2, H3. auto.
  - assert (E : drop_mutations (o :: ops) = o :: drop_mutations ops) by (unfold drop_mutations; simpl; rewrite M; reflexivity).
    rewrite E, run_cons. cbn [snd]. rewrite reads_cons.
    destruct (step_same_store Deep s s' o M S) as [X Y].
    rewrite (IH _ (fst (step Deep s' o)) (step_deep_handles s o D) Y), X. reflexivity.
Qed.

Theorem run_isolated ops :
  reads ops (snd (run Deep init ops)) = reads (drop_mutations ops) (snd (run Deep init (drop_mutations ops))).
Proof. apply run_isolated_gen; [reflexivity | repeat split]. Qed.

(* ------------------------------------------------------------------ witnesses *)
Definition sched_pol : jv := JObj [("type", JStr "data_locality"); ("config", JObj [])].
Definition depl_row : row :=
  [("name", JStr "d"); ("type", JStr "docker"); ("config", JObj []); ("external", JNum 0); ("lazy", JNum 0);
   ("scheduling_policy", sched_pol); ("workdir", JNull); ("wraps", JNull)].

(* add a deployment; read it; the caller deletes a key inside the returned row's scheduling_policy; read again *)
Definition alias_witness : list op :=
  [Add TDeployment depl_row; Get TDeployment false 1%N;
   Mutate 0 [PKey "scheduling_policy"; PKey "type"] MDel; Get TDeployment false 1%N].

Lemma alias_witness_differs :
  forallb positional alias_witness = true /\
  reads alias_witness (snd (run Shallow init alias_witness)) <> reads alias_witness (spec_run [] alias_witness).
Proof. split; [reflexivity|]. vm_compute. intros H. inversion H. Qed.

Lemma alias_witness_deep_ok :
  reads alias_witness (snd (run Deep init alias_witness)) = reads alias_witness (spec_run [] alias_witness).
Proof. vm_compute. reflexivity. Qed.

(* add a port; read it by keyword; rename it; read it by keyword again: the first answer comes back *)
Definition port_row : row := [("name", JStr "p"); ("workflow", JNum 1); ("type", JStr "streamflow.core.workflow.Port"); ("params", JObj [])].
Definition keyword_witness : list op :=
  [Add TPort port_row; Get TPort true 1%N; Update TPort 1%N [("name", JStr "q")]; Get TPort true 1%N].

Lemma keyword_witness_differs :
  forallb (fun o => negb (is_mutate o)) keyword_witness = true /\
  reads keyword_witness (snd (run Deep init keyword_witness)) <> reads keyword_witness (spec_run [] keyword_witness).
Proof. split; [reflexivity|]. vm_compute. intros H. inversion H. Qed.

(* ------------------------------------------------------------------ the get / update race (before commit f4717ad)
   A cached getter that misses is two events -- the SELECT is answered; later the row is inserted into the cache --
   and an update_* (UPDATE + pop) could run between them.  Since f4717ad both run under one lock
   (SqliteDatabase._cache_lock), which is the atomicity [step] assumes.  The interleaving without the lock: *)
Definition race_witness : st * out :=
  let s1 := fst (step Deep init (Add TPort port_row)) in
  let selected := match klookup dkey_eqb (TPort, 1%N) (db s1) with Some r => r | None => [] end in
  let s2 := fst (step Deep s1 (Update TPort 1%N [("name", JStr "q")])) in
  let s3 := mkst (db s2) (kset ckey_eqb (TPort, false, 1%N) (length (cells s2)) (cache s2)) (cells s2 ++ [selected])
                 (handles s2) in
  step Deep s3 (Get TPort false 1%N).

Lemma race_witness_stale :
  read_out (snd race_witness) <> klookup dkey_eqb (TPort, 1%N) (db (fst race_witness)) /\
  klookup dkey_eqb (TPort, 1%N) (db (fst race_witness)) <> None.
Proof. split; vm_compute; intros H; inversion H. Qed.
