(* DbCache/Corr.v — correspondence cases for DbCache/Model.v (used by the C09 check).
   A case is an operation sequence together with what the real SqliteDatabase answered to each operation and
   the deep value of every row handed to the caller, read at the very end (so that sharing between handed-out
   rows is compared too, not only what the property needs). *)
From Coq Require Import List Bool NArith ZArith.
From SF Require Import Base.Str Base.Corr.
From SF Require Export DbCache.Model.
Import ListNotations.

(* The post-processing of the @cached getters in the tree as it is now. *)
Definition code_mode : mode := Deep.

Fixpoint jv_eqb (a b : jv) : bool :=
  match a, b with
  | JNull, JNull => true
  | JBool x, JBool y => Bool.eqb x y
  | JNum x, JNum y => Z.eqb x y
  | JStr x, JStr y => String.eqb x y
  | JArr x, JArr y =>
      (fix go (x y : list jv) : bool :=
         match x, y with
         | [], [] => true
         | a :: x', b :: y' => jv_eqb a b && go x' y'
         | _, _ => false
         end) x y
  | JObj x, JObj y =>
      (fix go (x y : list (string * jv)) : bool :=
         match x, y with
         | [], [] => true
         | (k, a) :: x', (k', b) :: y' => String.eqb k k' && jv_eqb a b && go x' y'
         | _, _ => false
         end) x y
  | _, _ => false
  end.

Definition row_eqb (a b : row) : bool := list_eqb (pair_eqb String.eqb jv_eqb) a b.

Definition out_eqb (a b : out) : bool :=
  match a, b with
  | OId x, OId y => N.eqb x y
  | OUnit, OUnit => true
  | OErr, OErr => true
  | ORow x, ORow y => row_eqb x y
  | OMut x, OMut y => Bool.eqb x y
  | _, _ => false
  end.

Inductive ccase :=
| CSeq (ops : list op) (outs : list out) (final : list row).

Definition check_case (c : ccase) : bool :=
  match c with
  | CSeq ops outs final =>
      let '(s, xs) := run code_mode init ops in
      list_eqb out_eqb xs outs && list_eqb row_eqb (map (resolve (cells s)) (handles s)) final
  end.
