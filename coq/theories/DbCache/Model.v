(* DbCache/Model.v — the row caches of StreamFlow's SQLite database, with enough of Python's object
   identity to express aliasing between a cached row and the rows handed to callers.

   ANCHORS:
     streamflow.persistence.sqlite.SqliteDatabase.get_deployment / get_filter / get_port / get_step /
       get_target / get_token                  (@cached(cache=lambda self: self.<t>_cache, postprocess=...))
     streamflow.persistence.sqlite.SqliteDatabase.get_workflow / get_execution / get_port_from_token /
       get_workflow_ports / get_workflow_steps / get_workflows_by_name (uncached read paths: [GetFresh], they neither
       read nor fill any cache and hand out rows nobody else holds)
     streamflow.persistence.sqlite.SqliteDatabase.add_* / update_*   (update_* pops <t>_cache[id])
     streamflow.persistence.base.CachedDatabase.__init__             (LRUCache(maxsize=sys.maxsize): no eviction)
     cachebox.cached / cachebox.make_key / postprocess_copy_mutables / postprocess_deepcopy (library, mirrored)

     streamflow.persistence.sqlite._serialized / SqliteDatabase._cache_lock  (commits f4717ad, f092d59: the cached getters
       that have an update_* (all but get_token: token rows are never updated) and those update_* run one at a time; this is why one [step] per operation is faithful also when callers are
       concurrent -- before it, a getter's SELECT and its cache insertion could enclose an update, see
       DbCache/Proofs.v race_witness)

   What is mirrored, as the code is:
   * a cached getter looks its key up in the table's cache; a hit returns postprocess(cached object); a miss
     runs the SELECT, json-decodes the row into a FRESH object, stores it and returns postprocess(it);
     a missing row raises (dict(None)) and nothing is stored;
   * the cache key is cachebox.make_key of the arguments without self: the bare id for a positional call, a
     tuple (MARK, "port_id", id) for a keyword call -- two different keys ([kw] below);
   * update_<t>(id, fields) executes the UPDATE (an empty field list is an SQL syntax error and raises before
     anything else happens) and then pops the key [id] -- the positional key only;
   * postprocess: cachebox's default (postprocess_copy_mutables) is a one-level copy: the returned dict is
     new, its values ARE the cached values ([Shallow]); postprocess_deepcopy shares nothing ([Deep]).
     The tree in /repo uses [Deep] since the fix recorded in known/C09.txt; [Shallow] is the code before it.

   Object identity: a cached row object is a [cell]; a row handed to a caller is a [handle], a dict whose
   column values are either owned by the handle or are the very objects of a cell's columns ([Shared]).
   Cells are never handed out themselves in either mode, so a cell's set of columns never changes; what
   can change is the inside of a column object, through a handle that shares it. *)
From Coq Require Import List Bool NArith ZArith Ascii.
From SF Require Import Base.Str.
Import ListNotations.
Local Open Scope string_scope. Local Open Scope list_scope.

(* ------------------------------------------------------------------ JSON values (as json.loads builds them) *)
Inductive jv :=
| JNull
| JBool (b : bool)
| JNum (z : Z)
| JStr (s : string)
| JArr (l : list jv)
| JObj (l : list (string * jv)).      (* dict in insertion order, unique keys *)

Definition row := list (string * jv).   (* dict(sqlite Row): column -> value, in SELECT order *)

Fixpoint alookup {V} (k : string) (l : list (string * V)) : option V :=
  match l with
  | [] => None
  | (k', v) :: l' => if String.eqb k k' then Some v else alookup k l'
  end.

(* d[k] = v : an existing key keeps its position, a new key goes last *)
Fixpoint aset {V} (k : string) (v : V) (l : list (string * V)) : list (string * V) :=
  match l with
  | [] => [(k, v)]
  | (k', v') :: l' => if String.eqb k k' then (k', v) :: l' else (k', v') :: aset k v l'
  end.

(* del d[k] *)
Fixpoint adel {V} (k : string) (l : list (string * V)) : list (string * V) :=
  match l with
  | [] => []
  | (k', v') :: l' => if String.eqb k k' then l' else (k', v') :: adel k l'
  end.

Fixpoint lset {A} (i : nat) (v : A) (l : list A) : list A :=
  match l, i with
  | [], _ => []
  | _ :: l', O => v :: l'
  | x :: l', S i' => x :: lset i' v l'
  end.

Fixpoint ldel {A} (i : nat) (l : list A) : list A :=
  match l, i with
  | [], _ => []
  | _ :: l', O => l'
  | x :: l', S i' => x :: ldel i' l'
  end.

(* ------------------------------------------------------------------ what a caller does to a returned object *)
Inductive pel := PKey (k : string) | PIdx (i : nat).
Inductive mut :=
| MSet (v : jv)        (* obj[last] = v      (dict: any key; list: existing index) *)
| MAppend (v : jv)     (* obj[last].append(v), or obj.append(v) on the empty path  (lists only) *)
| MDel.                (* del obj[last]      (existing key / index) *)

Definition child (e : pel) (x : jv) : option jv :=
  match e, x with
  | PKey k, JObj l => alookup k l
  | PIdx i, JArr l => nth_error l i
  | _, _ => None
  end.

Definition set_child (e : pel) (v : jv) (x : jv) : option jv :=
  match e, x with
  | PKey k, JObj l => Some (JObj (aset k v l))
  | PIdx i, JArr l => if Nat.ltb i (length l) then Some (JArr (lset i v l)) else None
  | _, _ => None
  end.

Definition del_child (e : pel) (x : jv) : option jv :=
  match e, x with
  | PKey k, JObj l => match alookup k l with Some _ => Some (JObj (adel k l)) | None => None end
  | PIdx i, JArr l => if Nat.ltb i (length l) then Some (JArr (ldel i l)) else None
  | _, _ => None
  end.

(* the object [x] after the caller's mutation at path [p]; None = the path does not exist / wrong type
   (Python raises before anything is changed) *)
Fixpoint jv_mut (p : list pel) (m : mut) (x : jv) : option jv :=
  match p with
  | [] => match m, x with
          | MAppend v, JArr l => Some (JArr (l ++ [v]))
          | _, _ => None
          end
  | e :: p' =>
      match p', m with
      | [], MSet v => set_child e v x
      | [], MDel => del_child e x
      | _, _ => match child e x with
                | None => None
                | Some c => match jv_mut p' m c with
                            | None => None
                            | Some c' => set_child e c' x
                            end
                end
      end
  end.

(* ------------------------------------------------------------------ tables *)
Inductive tbl := TDeployment | TFilter | TPort | TStep | TTarget | TToken | TWorkflow | TExecution.

Definition tbl_idx (t : tbl) : N :=
  match t with
  | TDeployment => 0 | TFilter => 1 | TPort => 2 | TStep => 3
  | TTarget => 4 | TToken => 5 | TWorkflow => 6 | TExecution => 7
  end%N.
Definition tbl_eqb (a b : tbl) : bool := N.eqb (tbl_idx a) (tbl_idx b).

(* get_workflow and get_execution are not decorated with @cached *)
Definition cached (t : tbl) : bool :=
  match t with TWorkflow | TExecution => false | _ => true end.

Definition dkey := (tbl * N)%type.                 (* table, row id *)
Definition ckey := (tbl * bool * N)%type.          (* table, passed-by-keyword?, row id *)
Definition dkey_eqb (a b : dkey) : bool := tbl_eqb (fst a) (fst b) && N.eqb (snd a) (snd b).
Definition ckey_eqb (a b : ckey) : bool :=
  tbl_eqb (fst (fst a)) (fst (fst b)) && Bool.eqb (snd (fst a)) (snd (fst b)) && N.eqb (snd a) (snd b).

Section Assoc.
  Context {K V : Type} (keqb : K -> K -> bool).
  Fixpoint klookup (k : K) (l : list (K * V)) : option V :=
    match l with
    | [] => None
    | (k', v) :: l' => if keqb k k' then Some v else klookup k l'
    end.
  Fixpoint kset (k : K) (v : V) (l : list (K * V)) : list (K * V) :=
    match l with
    | [] => [(k, v)]
    | (k', v') :: l' => if keqb k k' then (k', v) :: l' else (k', v') :: kset k v l'
    end.
  Fixpoint kdel (k : K) (l : list (K * V)) : list (K * V) :=
    match l with
    | [] => []
    | (k', v') :: l' => if keqb k k' then kdel k l' else (k', v') :: kdel k l'
    end.
End Assoc.

(* ------------------------------------------------------------------ state *)
Inductive field := Own (v : jv) | Shared (cid : nat) (col : string).
Definition handle := list (string * field).
Inductive mode := Shallow | Deep.

Record st := mkst {
  db : list (dkey * row);          (* the SQLite tables, rows as a fresh read decodes them *)
  cache : list (ckey * nat);       (* key -> cell *)
  cells : list row;                (* cached row objects, by allocation order *)
  handles : list handle            (* rows handed to the caller, in order of the successful reads *)
}.
Definition init : st := mkst [] [] [] [].

Inductive op :=
| Add (t : tbl) (r : row)                (* add_<t>(...) ; r = the columns after "id", as a read decodes them *)
| Update (t : tbl) (id : N) (fs : row)   (* update_<t>(id, {col: value}) ; values as a read decodes them *)
| Get (t : tbl) (kw : bool) (id : N)     (* get_<t>(id) / get_<t>(<t>_id=id) *)
| GetFresh (t : tbl) (id : N)            (* a read path that never touches the cache *)
| Mutate (h : nat) (p : list pel) (m : mut).   (* the caller changes the h-th row it was given *)

Inductive out :=
| OId (n : N)
| OUnit
| OErr
| ORow (r : row)       (* deep value of the returned row at the time it is returned *)
| OMut (ok : bool).

Fixpoint count_tbl (t : tbl) (d : list (dkey * row)) : N :=
  match d with
  | [] => 0%N
  | ((t', _), _) :: d' => if tbl_eqb t t' then N.succ (count_tbl t d') else count_tbl t d'
  end.

Fixpoint set_cols (fs : row) (r : row) : row :=
  match fs with
  | [] => r
  | (c, v) :: fs' => set_cols fs' (match alookup c r with Some _ => aset c v r | None => r end)
  end.

Definition db_add (t : tbl) (r : row) (d : list (dkey * row)) : N * list (dkey * row) :=
  let id := N.succ (count_tbl t d) in
  (id, d ++ [((t, id), ("id", JNum (Z.of_N id)) :: r)]).

Definition db_update (t : tbl) (id : N) (fs : row) (d : list (dkey * row)) : list (dkey * row) :=
  match klookup dkey_eqb (t, id) d with
  | Some r => kset dkey_eqb (t, id) (set_cols fs r) d
  | None => d
  end.

Definition postprocess (m : mode) (cid : nat) (r : row) : handle :=
  match m with
  | Shallow => map (fun cv => (fst cv, Shared cid (fst cv))) r
  | Deep => map (fun cv => (fst cv, Own (snd cv))) r
  end.
Definition fresh_handle (r : row) : handle := map (fun cv => (fst cv, Own (snd cv))) r.

Definition field_val (cs : list row) (f : field) : jv :=
  match f with
  | Own v => v
  | Shared cid c => match alookup c (nth cid cs []) with Some v => v | None => JNull end
  end.
Definition resolve (cs : list row) (h : handle) : row := map (fun cf => (fst cf, field_val cs (snd cf))) h.

(* is the mutation one of the returned dict itself (row[c] = v, del row[c]) rather than of an object inside it? *)
Definition top_level (p : list pel) (m : mut) : bool :=
  match p, m with
  | [PKey _], MSet _ => true
  | [PKey _], MDel => true
  | _, _ => false
  end.

Definition mutate (s : st) (h : nat) (p : list pel) (m : mut) : st * out :=
  match nth_error (handles s) h with
  | None => (s, OMut false)
  | Some hd =>
      match p with
      | PKey c :: p' =>
          match p', m with
          | [], MSet v =>
              (mkst (db s) (cache s) (cells s) (lset h (aset c (Own v) hd) (handles s)), OMut true)
          | [], MDel =>
              match alookup c hd with
              | Some _ => (mkst (db s) (cache s) (cells s) (lset h (adel c hd) (handles s)), OMut true)
              | None => (s, OMut false)
              end
          | _, _ =>
              match alookup c hd with
              | None => (s, OMut false)
              | Some (Own v) =>
                  match jv_mut p' m v with
                  | Some v' => (mkst (db s) (cache s) (cells s) (lset h (aset c (Own v') hd) (handles s)), OMut true)
                  | None => (s, OMut false)
                  end
              | Some (Shared cid c') =>
                  match jv_mut p' m (field_val (cells s) (Shared cid c')) with
                  | Some v' =>
                      (mkst (db s) (cache s) (lset cid (aset c' v' (nth cid (cells s) [])) (cells s)) (handles s),
                       OMut true)
                  | None => (s, OMut false)
                  end
              end
          end
      | _ => (s, OMut false)
      end
  end.

Definition step (md : mode) (s : st) (o : op) : st * out :=
  match o with
  | Add t r =>
      let '(id, d') := db_add t r (db s) in
      (mkst d' (cache s) (cells s) (handles s), OId id)
  | Update t id fs =>
      match fs with
      | [] => (s, OErr)
      | _ => (mkst (db_update t id fs (db s)) (kdel ckey_eqb (t, false, id) (cache s)) (cells s) (handles s), OUnit)
      end
  | Get t kw id =>
      if cached t then
        match klookup ckey_eqb (t, kw, id) (cache s) with
        | Some cid =>
            let h := postprocess md cid (nth cid (cells s) []) in
            (mkst (db s) (cache s) (cells s) (handles s ++ [h]), ORow (resolve (cells s) h))
        | None =>
            match klookup dkey_eqb (t, id) (db s) with
            | None => (s, OErr)
            | Some r =>
                let cid := length (cells s) in
                let cs := cells s ++ [r] in
                let h := postprocess md cid r in
                (mkst (db s) (kset ckey_eqb (t, kw, id) cid (cache s)) cs (handles s ++ [h]), ORow (resolve cs h))
            end
        end
      else
        match klookup dkey_eqb (t, id) (db s) with
        | None => (s, OErr)
        | Some r => (mkst (db s) (cache s) (cells s) (handles s ++ [fresh_handle r]), ORow r)
        end
  | GetFresh t id =>
      match klookup dkey_eqb (t, id) (db s) with
      | None => (s, OErr)
      | Some r => (mkst (db s) (cache s) (cells s) (handles s ++ [fresh_handle r]), ORow r)
      end
  | Mutate h p m => mutate s h p m
  end.

Fixpoint run (md : mode) (s : st) (ops : list op) : st * list out :=
  match ops with
  | [] => (s, [])
  | o :: ops' =>
      let '(s1, x) := step md s o in
      let '(s2, xs) := run md s1 ops' in
      (s2, x :: xs)
  end.

(* ------------------------------------------------------------------ the specification: no cache at all *)
Definition spec_step (d : list (dkey * row)) (o : op) : list (dkey * row) * out :=
  match o with
  | Add t r => let '(id, d') := db_add t r d in (d', OId id)
  | Update t id fs => match fs with [] => (d, OErr) | _ => (db_update t id fs d, OUnit) end
  | Get t _ id | GetFresh t id =>
      match klookup dkey_eqb (t, id) d with None => (d, OErr) | Some r => (d, ORow r) end
  | Mutate _ _ _ => (d, OUnit)      (* what the caller does to its own copy is none of the database's business *)
  end.

Fixpoint spec_run (d : list (dkey * row)) (ops : list op) : list out :=
  match ops with
  | [] => []
  | o :: ops' => let '(d1, x) := spec_step d o in x :: spec_run d1 ops'
  end.

(* the answers of the read operations only, None = the read raised *)
Definition is_read (o : op) : bool := match o with Get _ _ _ | GetFresh _ _ => true | _ => false end.
Fixpoint reads (ops : list op) (outs : list out) : list (option row) :=
  match ops, outs with
  | o :: ops', x :: outs' =>
      if is_read o then (match x with ORow r => Some r | _ => None end) :: reads ops' outs'
      else reads ops' outs'
  | _, _ => []
  end.

Definition positional (o : op) : bool := match o with Get _ true _ => false | _ => true end.
Definition no_nested_mutation (o : op) : bool := match o with Mutate _ p m => top_level p m | _ => true end.
Definition is_mutate (o : op) : bool := match o with Mutate _ _ _ => true | _ => false end.
