(* RecSync/Delivery.v — delivery of regenerated tokens to attached recoveries (property C19, partial), on top of the
   InterWorkflowPort specification of Port/Boundary.v (imported, not modified).

   ANCHORS:
     streamflow.recovery.failure_manager.RollbackFailureManager._synchronize_workflows
        (attach: retry_request.workflow.ports[name].add_inter_port(port=new_port, boundary_tags=[job_token.tag],
                                                                  boundary_action=PROPAGATE))
     streamflow.workflow.port.InterWorkflowPort.put / add_inter_port   (via Port/Model.v, Port/Boundary.v)

   Port 0 is the port of the RUNNING recovery workflow on which the producer's regenerated token appears; port k is
   the port of the ATTACHED recovery workflow.  An attachment is the rule (PROPAGATE, target k, boundary tags [g]). *)
From Coq Require Import List Bool Arith Lia.
From SF Require Import Base.Str Port.Model Port.Proofs Port.Boundary.
Import ListNotations.
Local Open Scope string_scope. Local Open Scope list_scope.

Fixpoint after (ss : sstate) (ops : list op) : sstate :=
  match ops with
  | [] => ss
  | o :: r => after (fst (sstep ss o)) r
  end.

Lemma strace_app : forall a b ss, strace ss (a ++ b) = strace ss a ++ strace (after ss a) b.
Proof.
  induction a as [|o r IH]; intros b ss; simpl; [reflexivity|].
  destruct (sstep ss o) as [ss' l] eqn:E. simpl. rewrite IH, app_assoc. reflexivity.
Qed.

Lemma strace_cons ss o r : strace ss (o :: r) = snd (sstep ss o) ++ strace (fst (sstep ss o)) r.
Proof. simpl. destruct (sstep ss o) as [ss' l]. reflexivity. Qed.

Lemma in_pputs k t l : In (PPut k t) l -> In t (pputs k l).
Proof.
  unfold pputs. intros H. apply in_flat_map. exists (PPut k t). split; [assumption|].
  simpl. rewrite Nat.eqb_refl. left. reflexivity.
Qed.

(* an attachment for tag g towards port k *)
Definition attach_rule (k : nat) (g : string) (r : srule) : Prop := sprop r = true /\ stgt r = k /\ sT r = [g].

Lemma attach_show k g x r : attach_rule k g r -> attach_rule k g (show x r).
Proof. unfold attach_rule, show. simpl. auto. Qed.

Lemma covered_single g seen : covered [g] (seen ++ [g]) = true.
Proof.
  apply covered_spec. intros x. simpl. destruct (string_dec g x) as [->|Hne].
  - rewrite count_occ_app. simpl. destruct (string_dec x x); [lia|contradiction].
  - lia.
Qed.

Lemma sreplay_attach k g : forall toks r, attach_rule k g r -> attach_rule k g (fst (sreplay r toks)).
Proof.
  induction toks as [|t rest IH]; intros r Hr; simpl; [assumption|].
  specialize (IH (show (tag_of t) r) (attach_show k g _ r Hr)).
  destruct (sreplay (show (tag_of t) r) rest) as [r2 l]. exact IH.
Qed.

(* a rule added late is shown the history: if the token is there, it is forwarded at once *)
Lemma sreplay_forwards k g t : forall toks r,
  attach_rule k g r -> In t toks -> tag_of t = g -> In (PPut k t) (snd (sreplay r toks)).
Proof.
  induction toks as [|x rest IH]; intros r Hr Hin Hg; [destruct Hin|].
  simpl. pose proof (attach_show k g (tag_of x) r Hr) as Hr'.
  specialize (IH (show (tag_of x) r) Hr').
  destruct (sreplay (show (tag_of x) r) rest) as [r2 l]. simpl in *.
  destruct Hin as [->|Hin].
  - apply in_or_app. left. destruct Hr as (Hp & Ht & HT).
    unfold sfire, sact, show. simpl. rewrite HT, Hp, Ht, Hg, covered_single. simpl. left. reflexivity.
  - apply in_or_app. right. apply IH; assumption.
Qed.

Lemma sstep_keeps_attach k g ss o :
  (exists r, In r (srules ss) /\ attach_rule k g r) ->
  exists r, In r (srules (fst (sstep ss o))) /\ attach_rule k g r.
Proof.
  intros (r & Hin & Hr). unfold sstep. destruct o as [[|j] t|j c|tgt tags pr te]; simpl.
  - destruct (is_term t); simpl; [eauto|].
    exists (show (tag_of t) r). split; [apply in_map; assumption|apply attach_show; assumption].
  - eauto.
  - eauto.
  - destruct (sreplay (mksr pr te tgt tags []) (filter (fun t => negb (is_term t)) (hist0 ss))) as [r' l].
    simpl. exists r. split; [apply in_or_app; left; assumption|assumption].
Qed.

Lemma after_keeps_attach k g : forall ops ss,
  (exists r, In r (srules ss) /\ attach_rule k g r) ->
  exists r, In r (srules (after ss ops)) /\ attach_rule k g r.
Proof.
  induction ops as [|o r IH]; intros ss H; simpl; [assumption|].
  apply IH. apply sstep_keeps_attach. assumption.
Qed.

(* a put of a non-termination token with tag g is forwarded to k by an existing attachment *)
Lemma put_forwards k g ss t :
  (exists r, In r (srules ss) /\ attach_rule k g r) -> is_term t = false -> tag_of t = g ->
  In (PPut k t) (snd (sstep ss (Put 0 t))).
Proof.
  intros (r & Hin & Hr) Hnt Hg. unfold sstep. simpl. rewrite Hnt. simpl.
  apply in_or_app. left. apply in_flat_map. exists (show (tag_of t) r). split; [apply in_map; assumption|].
  destruct Hr as (Hp & Ht & HT).
  unfold sfire, sact, show. simpl. rewrite HT, Hp, Ht, Hg, covered_single. simpl. left. reflexivity.
Qed.

Lemma add_creates_attach k g te ss :
  exists r, In r (srules (fst (sstep ss (AddInter k [g] true te)))) /\ attach_rule k g r.
Proof.
  unfold sstep. simpl.
  pose proof (sreplay_attach k g (filter (fun t => negb (is_term t)) (hist0 ss)) (mksr true te k [g] [])
                ltac:(repeat split)) as H.
  destruct (sreplay (mksr true te k [g] []) (filter (fun t => negb (is_term t)) (hist0 ss))) as [r' l].
  simpl in *. exists r'. split; [apply in_or_app; right; left; reflexivity|assumption].
Qed.

(* EARLY attachment: the recovery attached (at any point), the regenerated token is put later *)
Lemma early_attach_delivered k g te t pre mid post :
  is_term t = false -> tag_of t = g ->
  In t (pputs k (strace sinit (pre ++ AddInter k [g] true te :: mid ++ Put 0 t :: post))).
Proof.
  intros Hnt Hg. apply in_pputs.
  rewrite strace_app. apply in_or_app. right.
  change (AddInter k [g] true te :: mid ++ Put 0 t :: post) with ([AddInter k [g] true te] ++ mid ++ Put 0 t :: post).
  rewrite strace_app. apply in_or_app. right.
  rewrite strace_app. apply in_or_app. right.
  rewrite strace_cons. apply in_or_app. left.
  apply (put_forwards k g); [|assumption|assumption].
  apply after_keeps_attach. simpl. apply add_creates_attach.
Qed.

(* LATE attachment: the token is already in the history of the running recovery's port when the recovery attaches *)
Lemma late_attach_delivered k g te t pre post :
  is_term t = false -> tag_of t = g -> In t (hist0 (after sinit pre)) ->
  In t (pputs k (strace sinit (pre ++ AddInter k [g] true te :: post))).
Proof.
  intros Hnt Hg Hh. apply in_pputs. rewrite strace_app. apply in_or_app. right.
  rewrite strace_cons. apply in_or_app. left.
  set (ss := after sinit pre) in *.
  pose proof (sreplay_forwards k g t (filter (fun t => negb (is_term t)) (hist0 ss)) (mksr true te k [g] [])
                ltac:(repeat split)) as H.
  unfold sstep. simpl.
  destruct (sreplay (mksr true te k [g] []) (filter (fun t => negb (is_term t)) (hist0 ss))) as [r' l].
  simpl in *. apply H; [|assumption].
  apply filter_In. split; [assumption|]. rewrite Hnt. reflexivity.
Qed.

Lemma hist0_after : forall ops ss, hist0 (after ss ops) = hist0 ss ++ pputs 0 (strace ss ops).
Proof.
  induction ops as [|o r IH]; intros ss; [simpl; now rewrite app_nil_r|].
  rewrite strace_cons, pputs_app. cbn [after]. rewrite IH.
  unfold sstep. destruct (sexpand ss o) as [l rs]. simpl. now rewrite app_assoc.
Qed.

(* ---- composed with the InterWorkflowPort theorem (Port/Boundary.v: boundary_formula) ---- *)
Theorem attached_early_receives n k g te t pre mid post s es p :
  run (init KInter n) (pre ++ AddInter k [g] true te :: mid ++ Put 0 t :: post) = (s, es) ->
  0 < n -> nth_error (ports s) k = Some p -> is_term t = false -> tag_of t = g ->
  In t (tl p).
Proof.
  intros Hrun Hn Hp Hnt Hg. rewrite (boundary_formula n _ s es k p Hrun Hn Hp).
  apply early_attach_delivered; assumption.
Qed.

Theorem attached_late_receives n k g te t pre post s0 es0 p0 s es p :
  run (init KInter n) pre = (s0, es0) -> nth_error (ports s0) 0 = Some p0 -> In t (tl p0) ->
  run (init KInter n) (pre ++ AddInter k [g] true te :: post) = (s, es) ->
  0 < n -> nth_error (ports s) k = Some p -> is_term t = false -> tag_of t = g ->
  In t (tl p).
Proof.
  intros Hrun0 Hp0 Hin Hrun Hn Hp Hnt Hg. rewrite (boundary_formula n _ s es k p Hrun Hn Hp).
  apply late_attach_delivered; [assumption|assumption|].
  rewrite hist0_after. simpl. rewrite <- (boundary_formula n pre s0 es0 0 p0 Hrun0 Hn Hp0). assumption.
Qed.
