(* RecSync/Model.v — synchronisation of concurrent recoveries (property C19).  Definitions only.

   ANCHORS:
     streamflow.recovery.failure_manager.RollbackFailureManager.is_recovering
                                   (scheduler status in ROLLBACK / RUNNING / FIREABLE)
     streamflow.recovery.failure_manager.RollbackFailureManager._synchronize_workflows
                                   (per request: recovering => attach to the running recovery, no update;
                                    otherwise _update_request, which notifies ROLLBACK)
     streamflow.recovery.failure_manager.RollbackFailureManager._update_request
     streamflow.recovery.failure_manager.RollbackFailureManager._recover
                                   (`for request in sorted(retry_requests, key=id): enter request.lock`,
                                    all locks held across _synchronize_workflows and _populate_workflow)

   Not modelled: the provenance graph search, the boundary-port propagation between recovery workflows
   (InterWorkflowPort, property C03's model) and the executors; liveness of a critical section relies on them. *)
From Coq Require Import List Bool Arith NArith Lia.
From SF Require Import Base.Str Retry.Model.
Import ListNotations.
Local Open Scope string_scope. Local Open Scope list_scope.

(* ---------------------------------------------------------------- part 1: who re-executes what *)
Inductive status := Waiting | Fireable | Running | Skipped | Completed | Failed | Cancelled | Recovery | Rollback.

Definition recovering (s : status) : bool :=
  match s with Rollback | Running | Fireable => true | _ => false end.

(* NOTE: [status_of] answers Completed for a job that was never given a status; the real
   DefaultScheduler.get_allocation raises WorkflowExecutionException for a job without an allocation.  Every job that reaches
   _synchronize_workflows has been scheduled, so has one; the theorems are meant for such jobs (named assumption of C19). *)
Definition statuses := list (string * status).
Fixpoint status_of (st : statuses) (j : string) : status :=
  match st with
  | [] => Completed
  | (k, s) :: r => if String.eqb k j then s else status_of r j
  end.
Definition set_status (st : statuses) (j : string) (s : status) : statuses := (j, s) :: st.

Record rstate := { vers : versions; stat : statuses }.

(* one request of _synchronize_workflows: (new state, Some (before, after|raise) if _update_request ran) *)
Inductive decision := Attach | Updated (before after : N) | Refused (before : N).

Definition sync_one (lim : limit) (s : rstate) (j : string) : rstate * decision :=
  if recovering (status_of (stat s) j) then (s, Attach)
  else
    let v := version_of (vers s) j in
    match update_request lim (vers s) j with
    | Some vs' => ({| vers := vs'; stat := set_status (stat s) j Rollback |}, Updated v (v + 1))
    | None => (s, Refused v)
    end.

(* the loop; stops at the first refusal (FailureHandlingException) *)
Fixpoint sync (lim : limit) (s : rstate) (reqs : list string) : rstate * list (string * decision) :=
  match reqs with
  | [] => (s, [])
  | j :: r =>
      let '(s', d) := sync_one lim s j in
      match d with
      | Refused _ => (s', [(j, d)])
      | _ => let '(s'', l) := sync lim s' r in (s'', (j, d) :: l)
      end
  end.

(* a history: recoveries synchronising (each a whole critical section, see part 2) and the engine / scheduler
   changing the status of a job (a re-execution starting, completing, failing ...) *)
Inductive revent := Sync (reqs : list string) | SetStatus (j : string) (s : status).

Definition rstep (lim : limit) (s : rstate) (e : revent) : rstate * list (string * decision) :=
  match e with
  | Sync reqs => sync lim {| vers := ensure_requests (vers s) (map (fun j => (j, false)) reqs); stat := stat s |} reqs
  | SetStatus j x => ({| vers := vers s; stat := set_status (stat s) j x |}, [])
  end.

Fixpoint rrun (lim : limit) (s : rstate) (h : list revent) : rstate * list (list (string * decision)) :=
  match h with
  | [] => (s, [])
  | e :: r => let '(s', l) := rstep lim s e in let '(s'', ls) := rrun lim s' r in (s'', l :: ls)
  end.

Definition is_update_of (p : string) (jd : string * decision) : bool :=
  String.eqb (fst jd) p && match snd jd with Updated _ _ => true | _ => false end.

(* how many times job p was rolled back (= re-executed) in a history *)
Definition updates_of (p : string) (ls : list (list (string * decision))) : nat :=
  length (filter (is_update_of p) (concat ls)).

(* a window in which the engine does not take p out of the recovering statuses: only syncs, and status
   changes that keep p recovering or concern other jobs *)
Definition keeps_recovering (p : string) (e : revent) : bool :=
  match e with
  | Sync _ => true
  | SetStatus j x => negb (String.eqb j p) || recovering x
  end.

(* ---------------------------------------------------------------- part 2: lock acquisition order *)
(* A recovery thread must take the locks [need] (strictly increasing: sorted by the global key) one by one;
   [got] of them are taken so far; after the last one it runs its critical section and releases all. *)
Record thread := { need : list nat; got : nat }.

Fixpoint increasing (l : list nat) : Prop :=
  match l with
  | [] => True
  | x :: r => (forall y, In y r -> x < y) /\ increasing r
  end.

Definition held (t : thread) : list nat := firstn (got t) (need t).
Definition next (t : thread) : option nat := nth_error (need t) (got t).
Definition holds (t : thread) (l : nat) : Prop := In l (held t).
(* t waits for u: the next lock t needs is held by u *)
Definition waits_for (t u : thread) : Prop := exists l, next t = Some l /\ holds u l.
(* rank: 0 if nothing is held, else 1 + the largest (= last) held lock *)
Definition rank (t : thread) : nat := fold_right (fun l acc => Nat.max (S l) acc) 0 (held t).
