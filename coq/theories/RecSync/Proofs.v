(* RecSync/Proofs.v — lemmas about RecSync/Model.v (property C19). *)
From Coq Require Import List Bool Arith NArith Lia Relations.
From SF Require Import Base.Str Retry.Model RecSync.Model.
Import ListNotations.
Local Open Scope string_scope. Local Open Scope list_scope.

(* ---------------------------------------------------------------- part 1 *)
Definition cnt (p : string) (l : list (string * decision)) : nat := length (filter (is_update_of p) l).

Lemma updates_of_cons p l ls : updates_of p (l :: ls) = cnt p l + updates_of p ls.
Proof. unfold updates_of, cnt. simpl. rewrite filter_app, app_length. reflexivity. Qed.

Lemma status_set st j x p :
  status_of (set_status st j x) p = if String.eqb j p then x else status_of st p.
Proof. reflexivity. Qed.

Definition rec_p (p : string) (s : rstate) : bool := recovering (status_of (stat s) p).

Lemma sync_one_spec lim s j p :
  let '(s', d) := sync_one lim s j in
  (rec_p p s = true -> rec_p p s' = true /\ is_update_of p (j, d) = false) /\
  (is_update_of p (j, d) = true -> rec_p p s' = true) /\
  (is_update_of p (j, d) = false -> rec_p p s = false -> j <> p \/ exists b, d = Refused b) /\
  (is_update_of p (j, d) = false -> rec_p p s' = rec_p p s).
Proof.
  unfold sync_one, rec_p, is_update_of. cbn [fst snd].
  destruct (String.eqb_spec j p) as [->|Hne].
  - (* j = p *)
    destruct (recovering (status_of (stat s) p)) eqn:Erp.
    + cbn. repeat split; auto; try discriminate.
    + destruct (update_request lim (vers s) p) as [vs'|]; cbn.
      * rewrite String.eqb_refl. cbn. repeat split; auto; try discriminate.
      * repeat split; auto; try discriminate. intros _ _. right. eauto.
  - (* j <> p : never an update of p, p's status untouched *)
    destruct (recovering (status_of (stat s) j)).
    + cbn. repeat split; auto; try discriminate.
    + destruct (update_request lim (vers s) j) as [vs'|]; cbn.
      * destruct (String.eqb_spec j p) as [E|_]; [contradiction|].
        repeat split; auto; try discriminate.
      * repeat split; auto; try discriminate.
Qed.

Lemma sync_count lim p reqs : forall s,
  let '(s', l) := sync lim s reqs in
  (rec_p p s = true -> rec_p p s' = true /\ cnt p l = 0) /\
  (cnt p l <= 1) /\ (cnt p l = 1 -> rec_p p s' = true).
Proof.
  induction reqs as [|j r IH]; intros s; simpl.
  - repeat split; auto; unfold cnt; simpl; lia.
  - pose proof (sync_one_spec lim s j p) as H1.
    destruct (sync_one lim s j) as [s1 d].
    destruct H1 as (Ha & Hb & _ & Hd).
    assert (Hc1 : cnt p [(j, d)] = if is_update_of p (j, d) then 1 else 0).
    { unfold cnt. simpl. destruct (is_update_of p (j, d)); reflexivity. }
    destruct d as [|b a|b].
    + specialize (IH s1). destruct (sync lim s1 r) as [s2 l].
      destruct IH as (I1 & I2 & I3).
      assert (Hu : is_update_of p (j, Attach) = false) by (unfold is_update_of; simpl; apply andb_false_r).
      assert (Hcl : cnt p ((j, Attach) :: l) = cnt p l) by (unfold cnt; simpl; rewrite Hu; reflexivity).
      rewrite Hcl. split; [|split; assumption]. intros Hp. apply I1. rewrite (Hd Hu). assumption.
    + specialize (IH s1). destruct (sync lim s1 r) as [s2 l].
      destruct IH as (I1 & I2 & I3).
      destruct (is_update_of p (j, Updated b a)) eqn:Hu.
      * assert (Hcl : cnt p ((j, Updated b a) :: l) = S (cnt p l)) by (unfold cnt; simpl; rewrite Hu; reflexivity).
        destruct (I1 (Hb eq_refl)) as [Hr2 H0]. rewrite Hcl, H0.
        split; [|split; [lia|intros _; assumption]]. intros Hp. destruct (Ha Hp) as [_ Hf]. congruence.
      * assert (Hcl : cnt p ((j, Updated b a) :: l) = cnt p l) by (unfold cnt; simpl; rewrite Hu; reflexivity).
        rewrite Hcl. split; [|split; assumption]. intros Hp. apply I1. rewrite (Hd eq_refl). assumption.
    + assert (Hu : is_update_of p (j, Refused b) = false) by (unfold is_update_of; simpl; apply andb_false_r).
      rewrite Hc1, Hu. split; [|split; [lia|intros E; discriminate E]]. intros Hp. destruct (Ha Hp). auto.
Qed.

(* ONCE PER LOSS: in any window of the history in which the engine has not yet taken p out of the recovering
   statuses (its re-execution has not finished), however many recoveries synchronise, with whatever request
   sets in whatever order, p is rolled back at most once -- and not at all if it was already recovering. *)
Lemma rrun_count lim p h : forall s,
  forallb (keeps_recovering p) h = true ->
  let '(s', ls) := rrun lim s h in
  (rec_p p s = true -> updates_of p ls = 0 /\ rec_p p s' = true) /\ updates_of p ls <= 1.
Proof.
  induction h as [|e r IH]; intros s Hk; simpl.
  - unfold updates_of. simpl. repeat split; auto.
  - simpl in Hk. apply andb_true_iff in Hk. destruct Hk as [Hke Hkr].
    destruct e as [reqs|j x]; simpl.
    + set (s0 := {| vers := ensure_requests (vers s) (map (fun j => (j, false)) reqs); stat := stat s |}).
      pose proof (sync_count lim p reqs s0) as HS. destruct (sync lim s0 reqs) as [s1 l].
      specialize (IH s1 Hkr). destruct (rrun lim s1 r) as [s2 ls].
      destruct HS as (S1 & S2 & S3). destruct IH as (I1 & I2).
      rewrite updates_of_cons. split.
      * intros Hp. destruct (S1 Hp) as [Hr1 H0]. destruct (I1 Hr1) as [H00 Hr2]. split; [lia|assumption].
      * destruct (Nat.eq_dec (cnt p l) 1) as [E1|N1].
        -- destruct (I1 (S3 E1)) as [H00 _]. lia.
        -- lia.
    + set (s1 := {| vers := vers s; stat := set_status (stat s) j x |}).
      specialize (IH s1 Hkr). destruct (rrun lim s1 r) as [s2 ls]. destruct IH as (I1 & I2).
      rewrite updates_of_cons. unfold cnt. simpl. split; [|assumption].
      intros Hp. apply I1. unfold rec_p, s1. simpl.
      destruct (String.eqb_spec j p) as [->|Hne].
      * simpl in Hke. rewrite String.eqb_refl in Hke. simpl in Hke. assumption.
      * assumption.
Qed.

Lemma once_per_loss lim p h s :
  forallb (keeps_recovering p) h = true -> updates_of p (snd (rrun lim s h)) <= 1.
Proof.
  intros Hk. pose proof (rrun_count lim p h s Hk) as H. destruct (rrun lim s h) as [s' ls]. apply H.
Qed.

Lemma attach_while_recovering lim p h s :
  forallb (keeps_recovering p) h = true -> recovering (status_of (stat s) p) = true ->
  updates_of p (snd (rrun lim s h)) = 0.
Proof.
  intros Hk Hp. pose proof (rrun_count lim p h s Hk) as H. destruct (rrun lim s h) as [s' ls].
  destruct H as [H _]. apply H. assumption.
Qed.

(* ---------------------------------------------------------------- part 2 *)
Lemma fold_max_ge l x : In x l -> S x <= fold_right (fun l acc => Nat.max (S l) acc) 0 l.
Proof.
  induction l as [|y r IH]; cbn [fold_right In]; [intros []|]. intros [->|H]; [apply Nat.le_max_l|].
  etransitivity; [apply (IH H)|apply Nat.le_max_r].
Qed.

Lemma fold_max_le l b : (forall x, In x l -> x < b) -> fold_right (fun l acc => Nat.max (S l) acc) 0 l <= b.
Proof.
  induction l as [|y r IH]; cbn [fold_right]; intros H; [lia|].
  pose proof (H y (or_introl eq_refl)). specialize (IH (fun x Hx => H x (or_intror Hx))).
  apply Nat.max_lub; assumption.
Qed.

Lemma increasing_prefix_lt l : increasing l -> forall k x y, nth_error l k = Some y -> In x (firstn k l) -> x < y.
Proof.
  induction l as [|a r IH]; intros Hinc k x y Hn Hin.
  - destruct k; discriminate.
  - destruct Hinc as [Ha Hr]. destruct k as [|k]; simpl in *; [destruct Hin|].
    destruct Hin as [<-|Hin].
    + apply Ha. eapply nth_error_In; eauto.
    + eapply IH; eauto.
Qed.

Lemma holds_rank t l : holds t l -> S l <= rank t.
Proof. apply fold_max_ge. Qed.

Lemma next_rank t l : increasing (need t) -> next t = Some l -> rank t <= l.
Proof.
  intros Hinc Hn. unfold rank. apply fold_max_le. intros x Hx.
  eapply increasing_prefix_lt; eauto.
Qed.

(* ordered acquisition: whoever waits has a strictly smaller rank than whoever it waits for *)
Lemma waits_rank t u : increasing (need t) -> waits_for t u -> rank t < rank u.
Proof.
  intros Hinc (l & Hn & Hh). pose proof (next_rank t l Hinc Hn). pose proof (holds_rank u l Hh). lia.
Qed.

Definition ordered_wait (t u : thread) : Prop := increasing (need t) /\ waits_for t u.

Lemma wait_chain_rank t u : clos_trans thread ordered_wait t u -> rank t < rank u.
Proof.
  induction 1 as [t u [Hi Hw]|t m u _ IH1 _ IH2]; [apply waits_rank; assumption|lia].
Qed.

(* NO DEADLOCK among recoveries: no cycle in the wait-for relation *)
Lemma no_cyclic_wait t : ~ clos_trans thread ordered_wait t t.
Proof. intros H. pose proof (wait_chain_rank t t H). lia. Qed.

(* and a thread that waits for nobody (its next lock is free, or it has them all) can move; with finitely many
   threads the maximal-rank thread among the unfinished ones is never blocked: *)
Lemma max_rank_not_blocked t (ts : list thread) :
  increasing (need t) -> (forall u, In u ts -> rank u <= rank t) -> forall u, In u ts -> ~ waits_for t u.
Proof.
  intros Hinc Hmax u Hu Hw. pose proof (waits_rank t u Hinc Hw). pose proof (Hmax u Hu). lia.
Qed.
