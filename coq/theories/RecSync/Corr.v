(* RecSync/Corr.v — correspondence cases for RecSync/Model.v (used by the C19 check). *)
From Coq Require Import List Bool NArith.
From SF Require Import Base.Str Base.Corr.
From SF Require Export Retry.Model RecSync.Model.
Import ListNotations.
Local Open Scope list_scope.

Definition decision_eqb (a b : decision) : bool :=
  match a, b with
  | Attach, Attach => true
  | Updated x y, Updated x' y' => N.eqb x x' && N.eqb y y'
  | Refused x, Refused x' => N.eqb x x'
  | _, _ => false
  end.

Definition jd (j : string) (d : decision) : string * decision := (j, d).
Definition jd_eqb (a b : string * decision) : bool := String.eqb (fst a) (fst b) && decision_eqb (snd a) (snd b).

Inductive ccase :=
(* a history of real _synchronize_workflows calls (request names in loop order) interleaved with scheduler
   status changes, and what the real manager decided for every request: attach / update b->a / refuse *)
| CRHist (lim : limit) (h : list revent) (log : list (list (string * decision))).

Definition check_case (c : ccase) : bool :=
  match c with
  | CRHist lim h log =>
      list_eqb (list_eqb jd_eqb) (snd (rrun lim {| vers := []; stat := [] |} h)) log
  end.
