(* ProvGraph/Corr.v — correspondence cases for ProvGraph/Model.v (used by the C18 check).
   CPlan:   a provenance table + failed-job inputs + step table, with what the real ProvenanceGraph.build_graph,
            create_graph_mapper and GraphMapper.get_step_ids produced.  build_graph is deterministic and always
            compared.  The mapper part is compared (under two set-iteration orders of the model) only when
            the built graph is conflict-free (no two tokens that GraphMapper.get_equal_token identifies):
            with conflicts the result depends on CPython's set order, which the model does not fix.
   CMapper: an operation sequence on a GraphMapper (add / move_token_to_root / replace_token / remove_port)
            in caller-chosen order, compared after every operation under two orders. *)
From Coq Require Import List Bool NArith Arith.
From SF Require Import Base.Corr Graph.Corr.
From SF Require Export Graph.Model ProvGraph.Model.
Import ListNotations.

Record mobs := mkMobs {
  mo_dag_nodes : list N; mo_dag_edges : list (N * N);
  mo_port_nodes : list N; mo_port_edges : list (N * N);
  mo_port_tokens : list (N * list N);
  mo_name_ids : list (N * list N);
  mo_avail : list (N * bool);
  mo_inst : list N                     (* keys of token_instances *)
}.

Inductive mres := MOk (o : mobs) | MErr (e : merr).

Inductive bobs :=
| BObsOk (nodes : list N) (edges : list (N * N)) (avail : list (N * bool))
| BObsErr.

Inductive mop :=
| MAdd (a : N * pinfo) (b : option (N * pinfo))
| MMove (t : N)
| MReplace (port tid tag : N) (job : option N) (avail : bool)
| MRemovePort (p : N).

Inductive ccase :=
| CPlan (d : db) (inputs : list N) (steps : list steprec) (ports : list (N * N)) (out_names : list N)
        (b : bobs) (m : option mres) (step_ids : list N)
        (inj : option (list (N * list N)))   (* per mapper port: the tokens the real _inject_tokens put into it *)
| CMapper (ops : list (mop * mres))
| CSync (adds : list mop) (jts : list N) (o : mres)
   (* a GraphMapper built by [adds] (GraphMapper.add calls in this order), then the real
      RollbackFailureManager._synchronize_workflows with the jobs of the job tokens [jts] being recovered elsewhere;
      [o]: the mapper afterwards *)
| CEngine (evs : list (db * list N * bobs)) (reruns : list (list N)).
   (* a real recovered run: for every recovery that was planned, the provenance table dumped from the real database
      with the independently recorded availability, the real inputs and the real built graph; [reruns]: for every
      job (other than the failed one) that the run executed more than once, the ids of its job tokens *)

Definition nb_eqb (a b : N * bool) : bool := N.eqb (fst a) (fst b) && Bool.eqb (snd a) (snd b).
Definition nl_eqb (a b : N * list N) : bool := N.eqb (fst a) (fst b) && same_set N.eqb (snd a) (snd b).

Definition mobs_ok (m : mapper) (o : mobs) : bool :=
  same_set N.eqb (get_nodes (m_dag m)) (mo_dag_nodes o)
  && same_set nn_eqb (edges_of (gsucc (m_dag m))) (mo_dag_edges o)
  && same_set nn_eqb (flip_pairs (edges_of (gpred (m_dag m)))) (mo_dag_edges o)
  && same_set N.eqb (get_nodes (m_ports m)) (mo_port_nodes o)
  && same_set nn_eqb (edges_of (gsucc (m_ports m))) (mo_port_edges o)
  && same_set nn_eqb (flip_pairs (edges_of (gpred (m_ports m)))) (mo_port_edges o)
  && same_set nl_eqb (m_port_tokens m) (mo_port_tokens o)
  && same_set nl_eqb (m_name_ids m) (mo_name_ids o)
  && same_set nb_eqb (m_avail m) (mo_avail o)
  && same_set N.eqb (map fst (m_inst m)) (mo_inst o).

Definition merr_eqb (a b : merr) : bool :=
  match a, b with
  | EFailure, EFailure => true | EValue, EValue => true | EKey, EKey => true | _, _ => false
  end.

Definition mres_ok (r : mapper + merr) (o : mres) : bool :=
  match r, o with
  | inl m, MOk ob => mobs_ok m ob
  | inr e, MErr e' => merr_eqb e e'
  | _, _ => false
  end.

(* no two tokens of the built graph are identified by get_equal_token *)
Definition conflict (a b : N * pinfo) : bool :=
  negb (N.eqb (fst a) (fst b)) && N.eqb (i_port (snd a)) (i_port (snd b)) &&
  match i_job (snd a), i_job (snd b) with
  | Some x, Some y => N.eqb x y
  | None, None => N.eqb (i_tag (snd a)) (i_tag (snd b))
  | _, _ => true
  end.
Definition conflict_free (info : list (N * pinfo)) : bool :=
  forallb (fun a => forallb (fun b => negb (conflict a b)) info) info.

Definition plan_mapper_ok (order : list node -> list node) (dag : graph) (info : list (N * pinfo))
  (steps : list steprec) (ports : list (N * N)) (out_names : list N) (m : option mres) (sids : list N)
  (inj : option (list (N * list N))) : bool :=
  match create_graph_mapper order dag info, m with
  | Some (inl mp), Some (MOk ob) =>
      mobs_ok mp ob && same_set N.eqb (get_step_ids mp steps ports out_names) sids
      && match inj with
         | Some l => same_set nl_eqb (map (fun kv => (fst kv, injected_tokens mp (fst kv))) (m_port_tokens mp)) l
         | None => true
         end
  | Some (inr e), Some (MErr e') => merr_eqb e e'
  | _, _ => false
  end.

Definition apply_mop (order : list node -> list node) (m : mapper) (op : mop) : mapper + merr :=
  match op with
  | MAdd a b => madd order m a b
  | MMove t => inl (move_token_to_root order m t)
  | MReplace port tid tag job avail => replace_token order m port tid tag job avail
  | MRemovePort p => inl (remove_port order m p)
  end.

Fixpoint check_mops (order : list node -> list node) (m : mapper) (ops : list (mop * mres)) : bool :=
  match ops with
  | [] => true
  | (op, o) :: rest =>
      let r := apply_mop order m op in
      mres_ok r o && match r with inl m' => check_mops order m' rest | inr _ => true end
  end.

Definition build_ok (d : db) (inputs : list N) (b : bobs) : bool :=
  match build_graph d inputs, b with
  | BOk dag info, BObsOk nodes edges avail =>
      same_set N.eqb (get_nodes dag) nodes
      && same_set nn_eqb (edges_of (gsucc dag)) edges
      && same_set nb_eqb (map (fun kv => (fst kv, i_avail (snd kv))) info) avail
  | BErr, BObsErr => true
  | _, _ => false
  end.

(* the tokens the model puts into the recovery graphs of the run *)
Definition permitted_tokens (evs : list (db * list N * bobs)) : list N :=
  flat_map (fun e => match build_graph (fst (fst e)) (snd (fst e)) with
                     | BOk dag _ => get_nodes dag
                     | _ => []
                     end) evs.

Fixpoint run_mops (order : list node -> list node) (m : mapper) (ops : list mop) : mapper + merr :=
  match ops with
  | [] => inl m
  | op :: rest => match apply_mop order m op with inl m' => run_mops order m' rest | inr e => inr e end
  end.

Definition sync_ok (order : list node -> list node) (adds : list mop) (jts : list N) (o : mres) : bool :=
  match run_mops order empty_mapper adds with
  | inl m => mres_ok (inl (sync_mapper order m jts)) o
  | inr _ => false
  end.

Definition check_case (c : ccase) : bool :=
  match c with
  | CSync adds jts o => sync_ok (fun l => l) adds jts o && sync_ok (@rev node) adds jts o
  | CEngine evs reruns =>
      forallb (fun e => build_ok (fst (fst e)) (snd (fst e)) (snd e)) evs
      && forallb (fun ids => existsb (fun t => mem t (permitted_tokens evs)) ids) reruns
  | CPlan d inputs steps ports out_names b m sids inj =>
      match build_graph d inputs, b with
      | BOk dag info, BObsOk nodes edges avail =>
          same_set N.eqb (get_nodes dag) nodes
          && same_set nn_eqb (edges_of (gsucc dag)) edges
          && same_set nn_eqb (flip_pairs (edges_of (gpred dag))) edges
          && same_set nb_eqb (map (fun kv => (fst kv, i_avail (snd kv))) info) avail
          && (negb (conflict_free info)
              || (plan_mapper_ok (fun l => l) dag info steps ports out_names m sids inj
                  && plan_mapper_ok (@rev node) dag info steps ports out_names m sids inj))
      | BErr, BObsErr => true
      | _, _ => false
      end
  | CMapper ops =>
      check_mops (fun l => l) empty_mapper ops && check_mops (@rev node) empty_mapper ops
  end.
