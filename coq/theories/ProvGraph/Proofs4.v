(* ProvGraph/Proofs4.v — per JOB (step, tag): its job token enters the recovery graph only if the job is the failed
   one or one of its own outputs is lost; and token-level facts about the mapper (every listed token is a token of
   the recovery graph, listed under its port, with the availability recorded by build_graph), which give: injected
   tokens are available graph tokens, tokens handed to restore (and the scatter filter's valid tags) are
   unavailable graph tokens. *)
From Coq Require Import List Bool NArith Arith Lia Permutation.
From SF Require Import Graph.Model Graph.Util Graph.Proofs Graph.Proofs2
                       ProvGraph.Model ProvGraph.Proofs ProvGraph.Proofs2 ProvGraph.Proofs3.
Import ListNotations.

(* ---- job level ---- *)
Section Job.
  Variables (d : db) (inputs : list N) (dag : graph) (info : list (N * pinfo)).
  Hypothesis HB : build_graph d inputs = BOk dag info.

  Definition job_token_of (J j : N) : Prop := exists r, find_tok d j = Some r /\ t_job r = Some J.

  (* [inter x]: x is a token made for job J on the way to its execution (its transferred inputs);
     [out t]: t is an output of job J.  The provenance of a job has this shape: *)
  Variables (J : N) (inter out : N -> Prop).
  Hypothesis H1 : forall j t, job_token_of J j -> dep d t j -> inter t \/ out t.
  Hypothesis H2 : forall x t, inter x -> dep d t x -> out t.

  Theorem job_token_in_graph_only_if_needed j :
    is_node dag j -> job_token_of J j ->
    (In j inputs \/ exists x, inter x /\ In x inputs) \/
    (exists t, out t /\ is_node dag t /\ lostT d t).
  Proof.
    intros Nj Jj.
    destruct (build_graph_spec d inputs dag info HB) as [W [_ [_ [E [Jst _]]]]].
    destruct (Jst j Nj) as [Hin|[t [St Lt]]]; [left; left; exact Hin|].
    assert (Nt : is_node dag t) by (eapply sedge_node_r; eassumption).
    destruct (E j t St) as [_ Dt].
    destruct (H1 j t Jj Dt) as [It|Ot].
    - destruct (Jst t Nt) as [Hin|[t' [St' Lt']]]; [left; right; exists t; auto|].
      right. exists t'. split; [|split; [eapply sedge_node_r; eassumption|assumption]].
      destruct (E t t' St') as [_ Dt']. eapply H2; eassumption.
    - right. exists t. auto.
  Qed.
End Job.

(* ---- token level: what the mapper lists ---- *)
Section Tokens.
  Variable order : list node -> list node.
  Hypothesis Hperm : forall l, Permutation (order l) l.
  Variables (dag : graph) (info : list (N * pinfo)).
  Hypothesis W : WF dag.

  Definition port_fn (t : N) : N := match aget info t with Some pi => i_port pi | None => 0%N end.

  (* every listed token is a graph node with an info entry, and its recorded availability is the info's *)
  Definition good_token (m : mapper) (t : N) : Prop :=
    exists pi, is_node dag t /\ aget info t = Some pi /\ aget (m_avail m) t = Some (i_avail pi).

  Record TI (m : mapper) : Prop := {
    ti_mi : MI port_fn m;
    ti_listed : forall p t, In t (mgetd (m_port_tokens m) p) -> good_token m t
  }.

  Lemma TI_empty : TI empty_mapper.
  Proof. split; [apply MI_empty|intros p t []]. Qed.

  Lemma TI_remove_port m p : TI m -> TI (remove_port order m p).
  Proof.
    intros [M L]. split; [apply MI_remove_port; assumption|].
    intros p' t. simpl. unfold mgetd. rewrite mget_mdel. destruct (N.eqb p p'); [intros []|].
    intros H. destruct (L p' t H) as [pi [A [B C]]]. exists pi. auto.
  Qed.

  Lemma TI_fold_remove_port l : forall m, TI m -> TI (fold_left (remove_port order) l m).
  Proof. induction l as [|p l IH]; intros m H; simpl; [assumption|]. apply IH, TI_remove_port, H. Qed.

  Lemma TI_drop_token st r : TI (fst st) -> TI (fst (drop_token st r)).
  Proof.
    intros [M L]. split; [apply MI_drop_token; assumption|].
    intros p t. simpl. unfold mgetd. rewrite mget_map_vals.
    destruct (mget (m_port_tokens (fst st)) p) eqn:E; simpl; [|intros []].
    rewrite In_sdiscard. intros [Hne Hin].
    assert (In t (mgetd (m_port_tokens (fst st)) p)) as Hin' by (unfold mgetd; rewrite E; exact Hin).
    destruct (L p t Hin') as [pi [A [B C]]]. exists pi. split; [assumption|]. split; [assumption|].
    simpl. rewrite aget_adel. destruct (N.eqb_spec r t); [congruence|assumption].
  Qed.

  Lemma TI_fold_drop_token l : forall st, TI (fst st) -> TI (fst (fold_left drop_token l st)).
  Proof. induction l as [|r l IH]; intros st H; simpl; [assumption|]. apply IH, TI_drop_token, H. Qed.

  Lemma TI_move m t : TI m -> TI (move_token_to_root order m t).
  Proof.
    intros H. unfold move_token_to_root. apply TI_fold_remove_port. apply TI_fold_drop_token. simpl.
    destruct H as [M L]. split.
    - destruct M as [A B C D]. split; simpl; try assumption. exact (WF_gstep order Hperm (m_dag m) (Promote t) A).
    - exact L.
  Qed.

  (* the token presented to the mapper: a graph node, with its info *)
  Definition presented (tid : N) (pi : pinfo) : Prop := is_node dag tid /\ aget info tid = Some pi.

  Lemma TI_replace_token m tid pi m' : TI m -> presented tid pi ->
    replace_token order m (i_port pi) tid (i_tag pi) (i_job pi) (i_avail pi) = inl m' -> TI m'.
  Proof.
    intros [M L] [Nt It] R.
    assert (Hport : i_port pi = port_fn tid) by (unfold port_fn; rewrite It; reflexivity).
    split; [eapply MI_replace_token; eassumption|].
    revert R. unfold replace_token.
    destruct (get_equal_token order m (i_port pi) (i_tag pi) (i_job pi)) as [old|] eqn:G; [|discriminate].
    apply (get_equal_token_In order Hperm) in G.
    destruct (N.eqb old tid).
    - destruct (aget (m_avail m) old) as [a|]; [|discriminate].
      destruct (Bool.eqb a (i_avail pi)); [|discriminate]. intros H. injection H as <-. exact L.
    - destruct (replace order (m_dag m) old tid) as [dag' [l| |]]; try discriminate;
        intros H; injection H as <-; simpl; intros p t Hin;
        apply In_mgetd_setdefault_add in Hin;
        (destruct Hin as [Hin|[-> ->]];
         [|exists pi; split; [assumption|]; split; [assumption|]; simpl; rewrite aget_aset, N.eqb_refl; reflexivity]);
        rewrite mgetd_upd in Hin by reflexivity;
        assert (Hin' : In t (mgetd (m_port_tokens m) p) /\ t <> old)
          by (destruct (N.eqb_spec (i_port pi) p) as [<- |Hne];
              [apply In_sdiscard in Hin; tauto
              |split; [assumption|]; intros ->;
               destruct (mi_listed _ m M p old Hin) as [E1 _]; destruct (mi_listed _ m M (i_port pi) old G) as [E2 _];
               congruence]);
        destruct Hin' as [Hl Hne']; destruct (L p t Hl) as [pi' [A [B C]]];
        (destruct (N.eq_dec t tid) as [-> |Hnt];
         [exists pi; split; [assumption|]; split; [assumption|]; simpl; rewrite aget_aset, N.eqb_refl; reflexivity
         |exists pi'; split; [assumption|]; split; [assumption|]; simpl; rewrite aget_aset, aget_adel;
          destruct (N.eqb_spec tid t); [congruence|]; destruct (N.eqb_spec old t); [congruence|assumption]]).
  Qed.

  Lemma TI_new m tid pi : TI m -> presented tid pi ->
    TI (mkM (m_ports m) (m_dag m) (m_name_ids m) (setdefault_add (m_port_tokens m) (i_port pi) tid)
            (aset (m_avail m) tid (i_avail pi)) (aset (m_inst m) tid (i_tag pi, i_job pi))).
  Proof.
    intros [M L] [Nt It].
    assert (Hport : i_port pi = port_fn tid) by (unfold port_fn; rewrite It; reflexivity).
    split; [apply MI_new; assumption|].
    simpl. intros p t Hin. apply In_mgetd_setdefault_add in Hin.
    destruct Hin as [Hin|[-> ->]].
    - destruct (L p t Hin) as [pi' [A [B C]]].
      destruct (N.eq_dec t tid) as [-> |Hne].
      + exists pi. split; [assumption|]. split; [assumption|]. simpl. rewrite aget_aset, N.eqb_refl. reflexivity.
      + exists pi'. split; [assumption|]. split; [assumption|]. simpl. rewrite aget_aset.
        destruct (N.eqb_spec tid t); [congruence|assumption].
    - exists pi. split; [assumption|]. split; [assumption|]. simpl. rewrite aget_aset, N.eqb_refl. reflexivity.
  Qed.

  Lemma TI_update_token m tid pi m' r : TI m -> presented tid pi ->
    update_token order m (i_port pi) tid (i_tag pi) (i_job pi) (i_avail pi) = inl (m', r) -> TI m'.
  Proof.
    intros T Pr. unfold update_token.
    destruct (get_equal_token order m (i_port pi) (i_tag pi) (i_job pi)) as [e|].
    - destruct (N.eqb e 0).
      + intros H. injection H as <- <-. apply TI_new; assumption.
      + destruct (aget (m_avail m) e) as [[|]|]; try discriminate.
        * intros H. injection H as <- <-. assumption.
        * destruct (i_avail pi) eqn:Ea.
          -- destruct (replace_token order m (i_port pi) tid (i_tag pi) (i_job pi) true) as [m2|e2] eqn:R; [|discriminate].
             intros H. injection H as <- <-. apply TI_move. rewrite <- Ea in R. eapply TI_replace_token; eassumption.
          -- intros H. injection H as <- <-. assumption.
    - intros H. injection H as <- <-. apply TI_new; assumption.
  Qed.

  Lemma TI_set m ports dag' ids : TI m -> WF ports -> WF dag' ->
    TI (mkM ports dag' ids (m_port_tokens m) (m_avail m) (m_inst m)).
  Proof.
    intros [[A B C D] L] Wp Wd. split; [split; simpl; assumption|]. simpl. exact L.
  Qed.

  Lemma TI_madd m a b m' : TI m -> presented (fst a) (snd a) ->
    (forall b', b = Some b' -> presented (fst b') (snd b')) -> madd order m a b = inl m' -> TI m'.
  Proof.
    intros T Pa Pb. unfold madd.
    set (m0 := mkM _ (m_dag m) _ (m_port_tokens m) (m_avail m) (m_inst m)).
    assert (T0 : TI m0).
    { apply TI_set; [assumption| |apply (mi_dag _ m (ti_mi m T))].
      destruct (add_spec (m_ports m) (i_port (snd a))
                         (match b with Some b0 => Some (i_port (snd b0)) | None => None end)
                         (mi_ports _ m (ti_mi m T))) as [Wp _]. exact Wp. }
    destruct (update_token order m0 (i_port (snd a)) (fst a) (i_tag (snd a)) (i_job (snd a)) (i_avail (snd a)))
      as [[m1 ta]|e] eqn:U1; [|discriminate].
    assert (T1 : TI m1) by (eapply TI_update_token; eassumption).
    destruct b as [b|].
    - destruct (update_token order m1 (i_port (snd b)) (fst b) (i_tag (snd b)) (i_job (snd b)) (i_avail (snd b)))
        as [[m2 tb]|e] eqn:U2; [|discriminate].
      assert (T2 : TI m2) by (eapply TI_update_token; [exact T1|apply Pb; reflexivity|exact U2]).
      intros H. injection H as <-. apply TI_set; [assumption|apply (mi_ports _ m2 (ti_mi m2 T2))|].
      destruct (add_spec (m_dag m2) ta (Some tb) (mi_dag _ m2 (ti_mi m2 T2))) as [Wd _]. exact Wd.
    - intros H. injection H as <-. apply TI_set; [assumption|apply (mi_ports _ m1 (ti_mi m1 T1))|].
      destruct (add_spec (m_dag m1) ta None (mi_dag _ m1 (ti_mi m1 T1))) as [Wd _]. exact Wd.
  Qed.

  Theorem TI_create_graph_mapper m : create_graph_mapper order dag info = Some (inl m) -> TI m.
  Proof.
    intros H. apply (cgm_invariant order Hperm dag info W TI); [|apply TI_empty|exact H].
    intros m0 a b m1 T0 A Na Ia Hb. apply (TI_madd m0 a b m1); [exact T0|split; assumption| |exact A].
    intros b' E. destruct (Hb b' E). split; assumption.
  Qed.

  (* consequences for what is injected and what is regenerated *)
  Lemma avail_of_good m t : good_token m t ->
    exists pi, is_node dag t /\ aget info t = Some pi /\ avail_of m t = i_avail pi.
  Proof.
    intros [pi [A [B C]]]. exists pi. split; [assumption|]. split; [assumption|].
    unfold avail_of. rewrite C. destruct (i_avail pi); reflexivity.
  Qed.

  Theorem injected_are_available m port t : TI m -> In t (injected_tokens m port) ->
    exists pi, is_node dag t /\ aget info t = Some pi /\ i_port pi = port /\ i_avail pi = true.
  Proof.
    intros T H. unfold injected_tokens in H. apply filter_In in H. destruct H as [Hin Ha].
    destruct (avail_of_good m t (ti_listed m T port t Hin)) as [pi [A [B C]]].
    exists pi. split; [assumption|]. split; [assumption|]. split; [|congruence].
    destruct (mi_listed _ m (ti_mi m T) port t Hin) as [E _]. unfold port_fn in E. rewrite B in E. congruence.
  Qed.

  Theorem restored_are_unavailable m port t : TI m -> In t (restore_tokens m port) ->
    exists pi, is_node dag t /\ aget info t = Some pi /\ i_port pi = port /\ i_avail pi = false.
  Proof.
    intros T H. unfold restore_tokens in H. apply filter_In in H. destruct H as [Hin Ha].
    destruct (avail_of_good m t (ti_listed m T port t Hin)) as [pi [A [B C]]].
    exists pi. split; [assumption|]. split; [assumption|]. split.
    - destruct (mi_listed _ m (ti_mi m T) port t Hin) as [E _]. unfold port_fn in E. rewrite B in E. congruence.
    - apply negb_true_iff in Ha. congruence.
  Qed.
End Tokens.
