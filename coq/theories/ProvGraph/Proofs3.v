(* ProvGraph/Proofs3.v — GraphMapper keeps its maps mutually consistent (for every set-iteration order):
   both graphs stay mirror-consistent, token_availability and token_instances have the same keys, every token
   listed under a port is a known token of that port (hence listed under one port only). *)
From Coq Require Import List Bool NArith Arith Lia Permutation.
From SF Require Import Graph.Model Graph.Util Graph.Proofs Graph.Proofs2 Graph.Proofs5
                       ProvGraph.Model ProvGraph.Proofs ProvGraph.Proofs2.
Import ListNotations.

(* ---- generic association lists ---- *)
Lemma aget_aset {A} (m : list (N * A)) k v k' :
  aget (aset m k v) k' = if N.eqb k k' then Some v else aget m k'.
Proof.
  induction m as [|[k2 v2] m IH]; simpl.
  - rewrite (N.eqb_sym k' k). reflexivity.
  - destruct (N.eqb_spec k k2) as [->|Hne]; simpl.
    + destruct (N.eqb_spec k' k2) as [->|H2]; [rewrite N.eqb_refl; reflexivity|].
      destruct (N.eqb_spec k2 k'); [congruence|reflexivity].
    + destruct (N.eqb_spec k' k2) as [->|H2].
      * destruct (N.eqb_spec k k2); [congruence|reflexivity].
      * apply IH.
Qed.

Lemma aget_adel {A} (m : list (N * A)) k k' :
  aget (adel m k) k' = if N.eqb k k' then None else aget m k'.
Proof.
  unfold adel. induction m as [|[k2 v2] m IH]; simpl.
  - destruct (N.eqb k k'); reflexivity.
  - destruct (N.eqb_spec k k2) as [->|Hne]; simpl.
    + rewrite IH. destruct (N.eqb_spec k2 k') as [->|H2]; [reflexivity|].
      destruct (N.eqb_spec k' k2); [congruence|reflexivity].
    + destruct (N.eqb_spec k' k2) as [->|H2].
      * destruct (N.eqb_spec k k2); [congruence|reflexivity].
      * apply IH.
Qed.

Lemma In_mgetd_setdefault_add m k x p t :
  In t (mgetd (setdefault_add m k x) p) <-> In t (mgetd m p) \/ (p = k /\ t = x).
Proof.
  unfold setdefault_add, mgetd. destruct (mget m k) eqn:E; rewrite mget_mset;
    destruct (N.eqb_spec k p) as [->|Hne].
  - rewrite E. rewrite In_sadd. intuition.
  - intuition congruence.
  - rewrite E. simpl. intuition.
  - intuition congruence.
Qed.

Section Consistency.
  Variable order : list node -> list node.
  Hypothesis Hperm : forall l, Permutation (order l) l.
  Variable port_of : N -> N.          (* the port (name) every token belongs to *)

  Record MI (m : mapper) : Prop := {
    mi_dag : WF (m_dag m);
    mi_ports : WF (m_ports m);
    mi_keys : forall t, aget (m_avail m) t = None <-> aget (m_inst m) t = None;
    mi_listed : forall p t, In t (mgetd (m_port_tokens m) p) -> p = port_of t /\ aget (m_inst m) t <> None
  }.

  Lemma MI_empty : MI empty_mapper.
  Proof. split; simpl; try apply WF_empty; [tauto|intros p t []]. Qed.

  Lemma WF_gstep g op : WF g -> WF (fst (gstep order g op)).
  Proof. intros W. apply (gstep_refines order Hperm g op W). Qed.

  Lemma MI_remove_port m p : MI m -> MI (remove_port order m p).
  Proof.
    intros [A B C D]. split; simpl; try assumption.
    - exact (WF_gstep (m_ports m) (RemoveNodes [p] false) B).
    - intros p' t. unfold mgetd. rewrite mget_mdel. destruct (N.eqb p p'); [intros []|apply D].
  Qed.

  Lemma MI_fold_remove_port l : forall m, MI m -> MI (fold_left (remove_port order) l m).
  Proof. induction l as [|p l IH]; intros m H; simpl; [assumption|]. apply IH, MI_remove_port, H. Qed.

  Lemma MI_drop_token st r : MI (fst st) -> MI (fst (drop_token st r)).
  Proof.
    intros [A B C D]. split; simpl; try assumption.
    - intros t. rewrite !aget_adel. destruct (N.eqb r t); [tauto|apply C].
    - intros p t. unfold mgetd. rewrite mget_map_vals.
      destruct (mget (m_port_tokens (fst st)) p) eqn:E; simpl; [|intros []].
      rewrite In_sdiscard. intros [Hne Hin].
      assert (In t (mgetd (m_port_tokens (fst st)) p)) as Hin' by (unfold mgetd; rewrite E; exact Hin).
      destruct (D p t Hin') as [D1 D2]. split; [assumption|].
      rewrite aget_adel. destruct (N.eqb_spec r t); [congruence|assumption].
  Qed.

  Lemma MI_fold_drop_token l : forall st, MI (fst st) -> MI (fst (fold_left drop_token l st)).
  Proof. induction l as [|r l IH]; intros st H; simpl; [assumption|]. apply IH, MI_drop_token, H. Qed.

  Lemma MI_move m t : MI m -> MI (move_token_to_root order m t).
  Proof.
    intros H. unfold move_token_to_root. apply MI_fold_remove_port.
    apply MI_fold_drop_token. simpl. destruct H as [A B C D]. split; simpl; try assumption.
    exact (WF_gstep (m_dag m) (Promote t) A).
  Qed.

  Lemma get_equal_token_In m port tag job e :
    get_equal_token order m port tag job = Some e -> In e (mgetd (m_port_tokens m) port).
  Proof.
    unfold get_equal_token. intros H. apply find_some in H. destruct H as [H _].
    apply (proj1 (order_In order Hperm _ _)) in H. exact H.
  Qed.

  Lemma MI_replace_token m port tid tag job avail m' :
    MI m -> port = port_of tid -> replace_token order m port tid tag job avail = inl m' -> MI m'.
  Proof.
    intros M Hport. unfold replace_token.
    destruct (get_equal_token order m port tag job) as [old|] eqn:G; [|discriminate].
    apply get_equal_token_In in G.
    destruct (N.eqb old tid).
    - destruct (aget (m_avail m) old) as [a|]; [|discriminate].
      destruct (Bool.eqb a avail); [|discriminate]. intros H. injection H as <-. assumption.
    - destruct M as [A B C D].
      pose proof (WF_gstep (m_dag m) (Replace old tid) A) as WR. simpl in WR.
      destruct (replace order (m_dag m) old tid) as [dag' [l| |]] eqn:R; try discriminate;
        intros H; injection H as <-; (split; simpl; try assumption).
      all: try (intros t; rewrite !aget_aset, !aget_adel;
                destruct (N.eqb tid t); [split; discriminate|]; destruct (N.eqb old t); [tauto|apply C]).
      all: intros p t Hin; apply In_mgetd_setdefault_add in Hin; rewrite aget_aset, aget_adel;
        destruct Hin as [Hin|[-> ->]];
        [|split; [assumption|rewrite N.eqb_refl; discriminate]];
        rewrite mgetd_upd in Hin by reflexivity;
        destruct (N.eqb_spec port p) as [<-|Hne];
        [ apply In_sdiscard in Hin; destruct Hin as [Hne' Hin]; destruct (D port t Hin) as [D1 D2];
          split; [assumption|]; destruct (N.eqb tid t); [discriminate|];
          destruct (N.eqb_spec old t); [congruence|assumption]
        | destruct (D p t Hin) as [D1 D2]; split; [assumption|]; destruct (N.eqb tid t); [discriminate|];
          destruct (N.eqb_spec old t) as [<-|]; [|assumption];
          destruct (D port old G) as [E1 _]; congruence ].
  Qed.

  Lemma MI_new m port tid tag job avail : MI m -> port = port_of tid ->
    MI (mkM (m_ports m) (m_dag m) (m_name_ids m) (setdefault_add (m_port_tokens m) port tid)
            (aset (m_avail m) tid avail) (aset (m_inst m) tid (tag, job))).
  Proof.
    intros [A B C D] Hport. split; simpl; try assumption.
    - intros t. rewrite !aget_aset. destruct (N.eqb tid t); [split; discriminate|apply C].
    - intros p t Hin. apply In_mgetd_setdefault_add in Hin. rewrite aget_aset.
      destruct Hin as [Hin|[-> ->]].
      + destruct (D p t Hin) as [D1 D2]. split; [assumption|]. destruct (N.eqb tid t); [discriminate|assumption].
      + split; [assumption|]. rewrite N.eqb_refl. discriminate.
  Qed.

  Lemma MI_update_token m port tid tag job avail m' r :
    MI m -> port = port_of tid -> update_token order m port tid tag job avail = inl (m', r) -> MI m'.
  Proof.
    intros M Hport. unfold update_token.
    destruct (get_equal_token order m port tag job) as [e|].
    - destruct (N.eqb e 0).
      + intros H. injection H as <- <-. apply MI_new; assumption.
      + destruct (aget (m_avail m) e) as [[|]|]; try discriminate.
        * intros H. injection H as <- <-. assumption.
        * destruct avail.
          -- destruct (replace_token order m port tid tag job true) as [m2|e2] eqn:R; [|discriminate].
             intros H. injection H as <- <-. apply MI_move. eapply MI_replace_token; eassumption.
          -- intros H. injection H as <- <-. assumption.
    - intros H. injection H as <- <-. apply MI_new; assumption.
  Qed.

  Lemma MI_set_dag m g : MI m -> WF g ->
    MI (mkM (m_ports m) g (m_name_ids m) (m_port_tokens m) (m_avail m) (m_inst m)).
  Proof. intros [A B C D] W. split; simpl; assumption. Qed.

  Lemma MI_madd m a b m' : MI m ->
    i_port (snd a) = port_of (fst a) ->
    (forall b', b = Some b' -> i_port (snd b') = port_of (fst b')) ->
    madd order m a b = inl m' -> MI m'.
  Proof.
    intros M Ha Hb. unfold madd.
    set (m0 := mkM _ (m_dag m) _ (m_port_tokens m) (m_avail m) (m_inst m)).
    assert (M0 : MI m0).
    { destruct M as [A B C D]. split; simpl; try assumption.
      destruct (add_spec (m_ports m) (i_port (snd a))
                         (match b with Some b0 => Some (i_port (snd b0)) | None => None end) B) as [W _].
      exact W. }
    destruct (update_token order m0 (i_port (snd a)) (fst a) (i_tag (snd a)) (i_job (snd a)) (i_avail (snd a)))
      as [[m1 ta]|e] eqn:U1; [|discriminate].
    assert (M1 : MI m1) by (eapply MI_update_token; eassumption).
    destruct b as [b|].
    - destruct (update_token order m1 (i_port (snd b)) (fst b) (i_tag (snd b)) (i_job (snd b)) (i_avail (snd b)))
        as [[m2 tb]|e] eqn:U2; [|discriminate].
      assert (M2 : MI m2) by (eapply MI_update_token; [exact M1|apply Hb; reflexivity|exact U2]).
      intros H. injection H as <-. apply MI_set_dag; [assumption|].
      destruct (add_spec (m_dag m2) ta (Some tb) (mi_dag m2 M2)) as [W _]. exact W.
    - intros H. injection H as <-. apply MI_set_dag; [assumption|].
      destruct (add_spec (m_dag m1) ta None (mi_dag m1 M1)) as [W _]. exact W.
  Qed.

  (* a token is listed under at most one port *)
  Lemma MI_one_port m p1 p2 t : MI m ->
    In t (mgetd (m_port_tokens m) p1) -> In t (mgetd (m_port_tokens m) p2) -> p1 = p2.
  Proof.
    intros M H1 H2. destruct (mi_listed m M p1 t H1) as [-> _]. destruct (mi_listed m M p2 t H2) as [-> _].
    reflexivity.
  Qed.
End Consistency.

(* operation sequences on a GraphMapper, as driven by the correspondence (ProvGraph/Corr.v, CMapper) *)
Inductive mop' :=
| OAdd (a : N * pinfo) (b : option (N * pinfo))
| OMove (t : N)
| OReplace (port tid tag : N) (job : option N) (avail : bool)
| ORemovePort (p : N).

Definition apply_op (order : list node -> list node) (m : mapper) (op : mop') : mapper + merr :=
  match op with
  | OAdd a b => madd order m a b
  | OMove t => inl (move_token_to_root order m t)
  | OReplace port tid tag job avail => replace_token order m port tid tag job avail
  | ORemovePort p => inl (remove_port order m p)
  end.

Definition op_respects (port_of : N -> N) (op : mop') : Prop :=
  match op with
  | OAdd a b => i_port (snd a) = port_of (fst a) /\
                forall b', b = Some b' -> i_port (snd b') = port_of (fst b')
  | OReplace port tid _ _ _ => port = port_of tid
  | _ => True
  end.

Theorem MI_apply_op order (Hperm : forall l, Permutation (order l) l) port_of m op m' :
  MI port_of m -> op_respects port_of op -> apply_op order m op = inl m' -> MI port_of m'.
Proof.
  intros M R. destruct op as [a b|t|port tid tag job avail|p]; simpl in *.
  - destruct R as [Ra Rb]. eapply MI_madd; eassumption.
  - intros H. injection H as <-. apply MI_move; assumption.
  - eapply MI_replace_token; eassumption.
  - intros H. injection H as <-. apply MI_remove_port; assumption.
Qed.

(* create_graph_mapper: the mapper it returns is consistent, the port of a token being the one of its info *)
Theorem MI_create_graph_mapper order (Hperm : forall l, Permutation (order l) l) dag info m :
  WF dag -> create_graph_mapper order dag info = Some (inl m) ->
  MI (fun t => match aget info t with Some pi => i_port pi | None => 0%N end) m.
Proof.
  intros W H.
  apply (cgm_invariant order Hperm dag info W
           (MI (fun t => match aget info t with Some pi => i_port pi | None => 0%N end))); [|apply MI_empty|exact H].
  intros m0 a b m1 M0 A _ Ia Hb. eapply MI_madd; [exact Hperm|exact M0| | |exact A].
  - rewrite Ia. reflexivity.
  - intros b' E. destruct (Hb b' E) as [_ Ib]. rewrite Ib. reflexivity.
Qed.
