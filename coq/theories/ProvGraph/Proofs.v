(* ProvGraph/Proofs.v — what ProvenanceGraph.build_graph builds, and which steps get_step_ids selects. *)
From Coq Require Import List Bool NArith Arith Lia.
From SF Require Import Graph.Model Graph.Util Graph.Proofs Graph.Proofs2 ProvGraph.Model.
Import ListNotations.

Section Build.
  Variable d : db.
  Variable inputs : list N.

  (* recorded provenance: p is one of the previous tokens of t *)
  Definition dep (t p : N) : Prop := exists r, find_tok d t = Some r /\ In p (t_deps r).
  (* t's data is lost: not available, and not a job token whose job is being recovered elsewhere *)
  Definition lostT (t : N) : Prop := exists r, find_tok d t = Some r /\ expanded r = true.

  (* provenance ancestors of the inputs / those reached through lost tokens only *)
  Inductive anc : N -> Prop :=
  | anc_in x : In x inputs -> anc x
  | anc_dep t p : anc t -> dep t p -> anc p.
  Inductive reach : N -> Prop :=
  | reach_in x : In x inputs -> reach x
  | reach_dep t p : reach t -> lostT t -> dep t p -> reach p.

  Lemma reach_anc x : reach x -> anc x.
  Proof. induction 1; [apply anc_in; assumption|eapply anc_dep; eassumption]. Qed.

  Definition has_info (info : list (N * pinfo)) (x : N) : Prop := aget info x <> None.

  Lemma aget_app_other {A} (m : list (N * A)) k v k' :
    aget (m ++ [(k, v)]) k' = match aget m k' with Some x => Some x | None => if N.eqb k' k then Some v else None end.
  Proof.
    induction m as [|[k2 v2] m IH]; simpl; [reflexivity|].
    destruct (N.eqb k' k2); [reflexivity|apply IH].
  Qed.

  Lemma has_info_setdefault info t v x : has_info (asetdefault info t v) x <-> has_info info x \/ x = t.
  Proof.
    unfold has_info, asetdefault. destruct (aget info t) eqn:E.
    - split; [tauto|]. intros [H| ->]; [assumption|congruence].
    - rewrite aget_app_other. destruct (aget info x) eqn:E2.
      + split; [left; congruence|congruence].
      + destruct (N.eqb_spec x t); [subst; split; [auto|congruence]|].
        split; [congruence|]. intros [H|H]; congruence.
  Qed.

  Record Inv (dag : graph) (info : list (N * pinfo)) (fr : list N) : Prop := {
    v_wf : WF dag;
    v_inputs : forall x, In x inputs -> is_node dag x;
    v_reach : forall x, is_node dag x -> reach x;
    v_edges : forall p t, sedge dag p t -> lostT t /\ dep t p;
    v_just : forall x, is_node dag x -> In x inputs \/ exists t, sedge dag x t;
    v_front : forall x, In x fr -> is_node dag x;
    v_seen : forall x, is_node dag x -> In x fr \/ has_info info x;
    v_done : forall t, has_info info t -> lostT t -> forall p, dep t p -> sedge dag p t
  }.

  (* the initial loop: for t in token_frontier: self.add(t) *)
  Lemma init_fold l : forall g, WF g ->
    let g' := fold_left (fun g t => add g t None) l g in
    WF g' /\ (forall x, is_node g' x <-> is_node g x \/ In x l) /\ (forall a b, sedge g' a b <-> sedge g a b).
  Proof.
    induction l as [|t l IH]; intros g W; simpl.
    - split; [assumption|]. split; intros; tauto.
    - destruct (add_spec g t None W) as [W1 [N1 E1]].
      destruct (IH (add g t None) W1) as [W2 [N2 E2]].
      split; [assumption|]. split.
      + intros x. rewrite N2, N1. intuition congruence.
      + intros a b. rewrite E2, E1. intuition congruence.
  Qed.

  Lemma Inv_init : Inv (fold_left (fun g t => add g t None) inputs empty_graph) [] inputs.
  Proof.
    destruct (init_fold inputs empty_graph WF_empty) as [W [Nn E]].
    assert (He : forall x, ~ is_node empty_graph x) by (intros x H; apply H; reflexivity).
    assert (Hs : forall a b, ~ sedge empty_graph a b) by (intros a b []).
    split; try assumption.
    - intros x H. apply Nn. auto.
    - intros x H. apply Nn in H. destruct H as [H|H]; [destruct (He x H)|apply reach_in; assumption].
    - intros p t H. apply E in H. destruct (Hs p t H).
    - intros x H. apply Nn in H. destruct H as [H|H]; [destruct (He x H)|auto].
    - intros x H. apply Nn. auto.
    - intros x H. apply Nn in H. destruct H as [H|H]; [destruct (He x H)|auto].
    - intros t H. exfalso. apply H. reflexivity.
  Qed.

  (* the inner loop over the previous tokens *)
  Lemma dep_fold info t deps : forall dag fr, WF dag ->
    let st := fold_left (dep_step info t) deps (dag, fr) in
    WF (fst st) /\
    (forall x, is_node (fst st) x <-> is_node dag x \/ (deps <> [] /\ x = t) \/ In x deps) /\
    (forall a b, sedge (fst st) a b <-> sedge dag a b \/ (b = t /\ In a deps)) /\
    (forall x, In x fr -> In x (snd st)) /\
    (forall x, In x (snd st) -> In x fr \/ In x deps) /\
    (forall p, In p deps -> In p (snd st) \/ has_info info p).
  Proof.
    induction deps as [|p deps IH]; intros dag fr W; cbn [fold_left].
    - simpl. split; [assumption|]. repeat split; intros; try tauto; intuition congruence.
    - destruct (add_spec dag p (Some t) W) as [W1 [N1 E1]].
      set (fr1 := if (match aget info p with Some _ => true | None => false end) || mem p fr
                  then fr else fr ++ [p]).
      destruct (IH (add dag p (Some t)) fr1 W1) as [W2 [N2 [E2 [F1 [F2 F3]]]]].
      assert (Hfr : forall x, In x fr -> In x fr1).
      { intros x H. unfold fr1. destruct (_ || _); [assumption|apply in_app_iff; auto]. }
      assert (Hfr' : forall x, In x fr1 -> In x fr \/ x = p).
      { intros x H. unfold fr1 in H. destruct (_ || _); [auto|].
        apply in_app_iff in H. destruct H as [H|[H|[]]]; auto. }
      assert (Hp : In p fr1 \/ has_info info p).
      { unfold fr1, has_info. destruct (aget info p); simpl; [right; congruence|].
        destruct (mem p fr) eqn:M; simpl; [left; apply mem_In; assumption|].
        left. apply in_app_iff. right. left. reflexivity. }
      assert (Hstep : dep_step info t (dag, fr) p = (add dag p (Some t), fr1)) by reflexivity.
      rewrite Hstep.
      split; [assumption|]. split; [|split; [|split; [|split]]].
      + intros x. rewrite N2, N1. split.
        * intros [[H|[H|H]]|[[_ H]|H]].
          -- left; exact H.
          -- right. right. left. symmetry; exact H.
          -- right. left. split; [discriminate|injection H as H; exact H].
          -- right. left. split; [discriminate|exact H].
          -- right. right. right. exact H.
        * intros [H|[[_ H]|[H|H]]].
          -- left. left. exact H.
          -- left. right. right. rewrite H; reflexivity.
          -- left. right. left. symmetry; exact H.
          -- right. right. exact H.
      + intros a b. rewrite E2, E1. split.
        * intros [[H|[H1 H2]]|[H1 H2]].
          -- left; exact H.
          -- right. split; [injection H2 as H2; exact H2|left; symmetry; exact H1].
          -- right. split; [exact H1|right; exact H2].
        * intros [H|[H1 [H2|H2]]].
          -- left. left. exact H.
          -- left. right. split; [symmetry; exact H2|rewrite H1; reflexivity].
          -- right. split; assumption.
      + intros x H. apply F1. apply Hfr. assumption.
      + intros x H. destruct (F2 x H) as [H1|H1]; [|right; right; exact H1].
        destruct (Hfr' x H1) as [H2|H2]; [left; exact H2|right; left; symmetry; exact H2].
      + intros q [<- |H]; [|apply F3; assumption].
        destruct Hp as [Hp|Hp]; [left; apply F1; assumption|auto].
  Qed.

  Lemma find_tok_id i r : find_tok d i = Some r -> t_id r = i.
  Proof.
    induction d as [|r0 d' IH]; simpl; [discriminate|].
    destruct (N.eqb_spec (t_id r0) i); [intros H; injection H as <-; assumption|assumption].
  Qed.

  Lemma Inv_leaf dag info t fr r v :
    Inv dag info (t :: fr) -> find_tok d t = Some r -> expanded r = false ->
    Inv (add dag t None) (asetdefault info t v) fr.
  Proof.
    intros I Hr He. destruct I.
    destruct (add_spec dag t None v_wf0) as [W1 [N1 E1]].
    assert (Ht : is_node dag t) by (apply v_front0; left; reflexivity).
    assert (Hn : forall x, is_node (add dag t None) x <-> is_node dag x).
    { intros x. rewrite N1. intuition congruence. }
    assert (Hs : forall a b, sedge (add dag t None) a b <-> sedge dag a b).
    { intros a b. rewrite E1. intuition congruence. }
    split; try assumption.
    - intros x H. apply Hn. auto.
    - intros x H. apply Hn in H. auto.
    - intros p q H. apply Hs in H. auto.
    - intros x H. apply Hn in H. destruct (v_just0 x H) as [A|[q A]]; [auto|]. right. exists q. apply Hs. assumption.
    - intros x H. apply Hn. apply v_front0. right. assumption.
    - intros x H. apply Hn in H. rewrite has_info_setdefault.
      destruct (v_seen0 x H) as [[<- |A]|A]; auto.
    - intros q Hq Hl p Hp. apply Hs. apply has_info_setdefault in Hq. destruct Hq as [Hq| ->].
      + apply v_done0; assumption.
      + exfalso. destruct Hl as [r' [A B]]. rewrite Hr in A. injection A as <-. congruence.
  Qed.

  Lemma Inv_expand dag info t fr r v :
    Inv dag info (t :: fr) -> find_tok d t = Some r -> expanded r = true -> t_deps r <> [] ->
    let st := fold_left (dep_step info t) (t_deps r) (dag, fr) in
    Inv (fst st) (asetdefault info t v) (snd st).
  Proof.
    intros I Hr He Hne st. destruct I.
    destruct (dep_fold info t (t_deps r) dag fr v_wf0) as [W1 [N1 [E1 [F1 [F2 F3]]]]].
    fold st in W1, N1, E1, F1, F2, F3.
    assert (Ht : is_node dag t) by (apply v_front0; left; reflexivity).
    assert (Hl : lostT t) by (exists r; auto).
    assert (Hd : forall p, In p (t_deps r) -> dep t p) by (intros p H; exists r; auto).
    split; try assumption.
    - intros x H. apply N1. auto.
    - intros x H. apply N1 in H. destruct H as [H|[[_ ->]|H]]; auto.
      eapply reach_dep; [apply v_reach0; exact Ht|assumption|apply Hd; assumption].
    - intros p q H. apply E1 in H. destruct H as [H|[-> H]]; auto.
    - intros x H. apply N1 in H. destruct H as [H|[[_ ->]|H]].
      + destruct (v_just0 x H) as [A|[q A]]; [auto|]. right. exists q. apply E1. auto.
      + destruct (v_just0 t Ht) as [A|[q A]]; [auto|]. right. exists q. apply E1. auto.
      + right. exists t. apply E1. auto.
    - intros x H. apply N1. destruct (F2 x H) as [A|A]; [|auto]. left. apply v_front0. right. assumption.
    - intros x H. rewrite has_info_setdefault. apply N1 in H. destruct H as [H|[[_ ->]|H]]; auto.
      + destruct (v_seen0 x H) as [[<- |A]|A]; auto.
      + destruct (F3 x H); auto.
    - intros q Hq Hlq p Hp. apply E1. apply has_info_setdefault in Hq. destruct Hq as [Hq| ->].
      + left. apply v_done0; assumption.
      + right. split; [reflexivity|]. destruct Hp as [r' [A B]]. rewrite Hr in A. injection A as <-. assumption.
  Qed.

  Lemma expanded_cases r :
    expanded r = (if job_recovering r then false else if t_avail r then false else true).
  Proof. unfold expanded. destruct (job_recovering r), (t_avail r); reflexivity. Qed.

  Lemma build_loop_inv : forall fuel dag info fr dag' info',
    Inv dag info fr -> build_loop fuel d dag info fr = BOk dag' info' -> Inv dag' info' [].
  Proof.
    induction fuel as [|f IH]; intros dag info fr dag' info' I H; [discriminate|].
    simpl in H. destruct fr as [|t fr]; [injection H as <- <-; assumption|].
    destruct (find_tok d t) as [r|] eqn:Hr; [|discriminate].
    pose proof (expanded_cases r) as Hx.
    destruct (job_recovering r) eqn:Hj.
    - eapply IH; [|exact H]. eapply Inv_leaf; eassumption.
    - destruct (t_avail r) eqn:Ha.
      + eapply IH; [|exact H]. eapply Inv_leaf; eassumption.
      + destruct (t_deps r) as [|p deps] eqn:Hd; [discriminate|].
        refine (IH _ _ _ _ _ _ H).
        change (Inv (fst (fold_left (dep_step info t) (p :: deps) (dag, fr)))
                    (asetdefault info t (info_of r false))
                    (snd (fold_left (dep_step info t) (p :: deps) (dag, fr)))).
        rewrite <- Hd.
        apply Inv_expand; try assumption. rewrite Hd. discriminate.
  Qed.

  Theorem build_graph_spec dag info : build_graph d inputs = BOk dag info ->
    WF dag /\
    (forall x, In x inputs -> is_node dag x) /\
    (forall x, is_node dag x -> reach x) /\
    (forall p t, sedge dag p t -> lostT t /\ dep t p) /\
    (forall x, is_node dag x -> In x inputs \/ exists t, sedge dag x t /\ lostT t) /\
    (forall t, is_node dag t -> lostT t -> forall p, dep t p -> sedge dag p t) /\
    (forall x, is_node dag x -> has_info info x).
  Proof.
    intros H. unfold build_graph in H.
    pose proof (build_loop_inv _ _ _ _ _ _ Inv_init H) as I. destruct I.
    split; [assumption|]. split; [assumption|]. split; [assumption|]. split; [assumption|].
    assert (Hseen : forall x, is_node dag x -> has_info info x).
    { intros x Hx. destruct (v_seen0 x Hx) as [[]|A]; assumption. }
    split; [|split; [|assumption]].
    - intros x Hx. destruct (v_just0 x Hx) as [A|[t A]]; [auto|]. right. exists t. split; [assumption|].
      apply v_edges0 in A. tauto.
    - intros t Ht Hl p Hp. apply v_done0; auto.
  Qed.

  (* no data lost: the graph is exactly the inputs *)
  Theorem build_graph_soft dag info : build_graph d inputs = BOk dag info ->
    (forall i, In i inputs -> ~ lostT i) ->
    (forall x, is_node dag x <-> In x inputs) /\ (forall p t, ~ sedge dag p t).
  Proof.
    intros H Hs. destruct (build_graph_spec dag info H) as [W [A [B [C _]]]].
    assert (R : forall x, reach x -> In x inputs).
    { intros x Hx. induction Hx as [x Hx|t p Ht IH Hl Hd]; [assumption|]. exfalso. apply (Hs t IH Hl). }
    split.
    - intros x. split; [intros Hx; apply R, B, Hx|apply A].
    - intros p t He. destruct (C p t He) as [Hl _]. apply (Hs t); [|assumption].
      apply R, B. eapply sedge_node_r; eassumption.
  Qed.
End Build.

(* ---- get_step_ids ---- *)
Theorem get_step_ids_sound m steps ports outs s :
  In s (get_step_ids m steps ports outs) ->
  exists st, In st steps /\ s_id st = s /\
    (forall i, In i (s_in st) -> exists nm, port_name ports i = Some nm /\ mget (m_port_tokens m) nm <> None) /\
    (exists o nm, In o (s_out st) /\ mget (m_port_tokens m) nm <> None /\ ~ In nm outs /\
                  list_min (mgetd (m_name_ids m) nm) = Some o).
Proof.
  unfold get_step_ids. rewrite in_map_iff. intros [st [Hid Hin]].
  apply filter_In in Hin. destruct Hin as [Hin Hall]. apply filter_In in Hin. destruct Hin as [Hst Hex].
  assert (Hkeys : forall nm, In nm (map fst (m_port_tokens m)) -> mget (m_port_tokens m) nm <> None).
  { intros nm. generalize (m_port_tokens m). induction a as [|[k v] a IH]; simpl; [intros []|].
    intros [<- |H]; [rewrite N.eqb_refl; discriminate|]. destruct (N.eqb nm k); [discriminate|auto]. }
  exists st. split; [assumption|]. split; [assumption|]. split.
  - intros i Hi. rewrite forallb_forall in Hall. specialize (Hall i Hi).
    destruct (port_name ports i) as [nm|]; [|discriminate]. exists nm. split; [reflexivity|].
    apply Hkeys. apply mem_In. assumption.
  - apply existsb_exists in Hex. destruct Hex as [o [Ho Hm]]. apply mem_In in Hm.
    apply in_flat_map in Hm. destruct Hm as [nm [Hnm Hmin]].
    apply filter_In in Hnm. destruct Hnm as [Hk Hout].
    exists o, nm. split; [assumption|]. split; [apply Hkeys; assumption|]. split.
    + apply negb_true_iff in Hout. apply mem_false. assumption.
    + destruct (list_min (mgetd (m_name_ids m) nm)); [|destruct Hmin].
      destruct Hmin as [<- |[]]. reflexivity.
Qed.
