(* ProvGraph/Model.v — executable model of the recovery planning in streamflow.recovery.utils, on top of
   Graph/Model.v.  Definitions only.

   ANCHORS:
     streamflow.recovery.utils.ProvenanceGraph.add
     streamflow.recovery.utils.ProvenanceGraph.build_graph
     streamflow.recovery.utils.create_graph_mapper
     streamflow.recovery.utils.GraphMapper.add / _update_token / get_equal_token
     streamflow.recovery.utils.GraphMapper.replace_token / move_token_to_root / remove_port
     streamflow.recovery.utils.GraphMapper.get_step_ids
     streamflow.recovery.failure_manager.RollbackFailureManager._synchronize_workflows (mapper side: sync_mapper)
     streamflow.recovery.failure_manager._inject_tokens        (which tokens are put: injected_tokens)
     streamflow.recovery.failure_manager.RollbackFailureManager._recover (on_tokens of step.restore: restore_tokens)
     streamflow.workflow.step.ScatterStep.restore               (valid_tags / FilterTokenPort: scatter_valid_tags)

   What is abstracted.
   * The database and the tokens are a finite table [db]: one record per token with its id, port (id and
     name), tag (an opaque number: tags are only compared for equality here), job name if it is a JobToken,
     the answer of [token.is_available(context)], the answer of [failure_manager.is_recovering(job name)],
     and the ids returned by [load_dependee_tokens] in database order.  Token ids are positive (SQLite
     row ids): [if equal_token_id := ...] treats id 0 as "no token".
   * Steps are a table (id, input port ids, output port ids); [get_input_steps(port)] = the steps that have
     [port] among their outputs; port names come from the [ports] table.
   * [order] is the iteration order of Python sets, as in Graph/Model.v.
   * while loops run on fuel (number of tokens + inputs + 1); [BFuel]/[None] never happens on the
     correspondence cases (it would be a mismatch). *)
From Coq Require Import List Bool NArith.
From SF Require Import Graph.Model.
Import ListNotations.

Record tokrec := mkTok {
  t_id : N; t_port_id : N; t_port : N (* port name *); t_tag : N; t_job : option N;
  t_avail : bool; t_recovering : bool; t_deps : list N }.
Definition db := list tokrec.

Fixpoint find_tok (d : db) (i : N) : option tokrec :=
  match d with
  | [] => None
  | r :: d' => if N.eqb (t_id r) i then Some r else find_tok d' i
  end.

(* generic association lists (dicts with non-set values) *)
Fixpoint aget {A} (m : list (N * A)) (k : N) : option A :=
  match m with [] => None | (k', v) :: m' => if N.eqb k k' then Some v else aget m' k end.
Fixpoint aset {A} (m : list (N * A)) (k : N) (v : A) : list (N * A) :=
  match m with
  | [] => [(k, v)]
  | (k', v') :: m' => if N.eqb k k' then (k', v) :: m' else (k', v') :: aset m' k v
  end.
Definition adel {A} (m : list (N * A)) (k : N) : list (N * A) :=
  filter (fun kv => negb (N.eqb k (fst kv))) m.
Definition asetdefault {A} (m : list (N * A)) (k : N) (v : A) : list (N * A) :=
  match aget m k with Some _ => m | None => m ++ [(k, v)] end.

(* ---------------- ProvenanceGraph.build_graph ---------------- *)
Record pinfo := mkInfo { i_avail : bool; i_port_id : N; i_port : N; i_tag : N; i_job : option N }.
Definition info_of (r : tokrec) (avail : bool) : pinfo :=
  mkInfo avail (t_port_id r) (t_port r) (t_tag r) (t_job r).

Inductive bres :=
| BOk (dag : graph) (info : list (N * pinfo))
| BErr            (* FailureHandlingException: unavailable token without previous tokens *)
| BFuel.

(* is the token expanded (its previous tokens loaded)? *)
Definition job_recovering (r : tokrec) : bool :=
  match t_job r with Some _ => t_recovering r | None => false end.
Definition expanded (r : tokrec) : bool := negb (job_recovering r) && negb (t_avail r).

(* for prev_token in prev_tokens: self.add(prev_token, token); enqueue if unseen *)
Definition dep_step (info : list (N * pinfo)) (t : N) (st : graph * list N) (p : N) : graph * list N :=
  (add (fst st) p (Some t),
   if (match aget info p with Some _ => true | None => false end) || mem p (snd st)
   then snd st else snd st ++ [p]).

Fixpoint build_loop (fuel : nat) (d : db) (dag : graph) (info : list (N * pinfo)) (frontier : list N)
  : bres :=
  match fuel with
  | O => BFuel
  | S f =>
      match frontier with
      | [] => BOk dag info
      | t :: fr =>
          match find_tok d t with
          | None => BErr
          | Some r =>
              if job_recovering r then
                build_loop f d (add dag t None) (asetdefault info t (info_of r false)) fr
              else if t_avail r then
                build_loop f d (add dag t None) (asetdefault info t (info_of r true)) fr
              else
                match t_deps r with
                | [] => BErr
                | deps =>
                    let st := fold_left (dep_step info t) deps (dag, fr) in
                    build_loop f d (fst st) (asetdefault info t (info_of r false)) (snd st)
                end
          end
      end
  end.

Definition build_graph (d : db) (inputs : list N) : bres :=
  build_loop (length d + length inputs + 1) d
             (fold_left (fun g t => add g t None) inputs empty_graph) [] inputs.

(* ---------------- GraphMapper ---------------- *)
Record mapper := mkM {
  m_ports : graph;                       (* dcg_ports, over port names *)
  m_dag : graph;                         (* dag_tokens *)
  m_name_ids : amap;                     (* port_name_ids *)
  m_port_tokens : amap;                  (* port_tokens *)
  m_avail : list (N * bool);             (* token_availability *)
  m_inst : list (N * (N * option N))     (* token_instances: (tag, job name) *)
}.
Definition empty_mapper : mapper := mkM empty_graph empty_graph [] [] [] [].

Inductive merr := EFailure (* FailureHandlingException *) | EValue (* ValueError from replace *)
                | EKey (* KeyError / missing entry *).

Definition setdefault_add (m : amap) (k x : N) : amap :=
  match mget m k with Some l => mset m k (sadd x l) | None => mset m k [x] end.

Section Ordered.
  Variable order : list node -> list node.

  (* get_equal_token(port_name, token) *)
  Definition get_equal_token (m : mapper) (port tag : N) (job : option N) : option N :=
    find (fun tid =>
            match aget (m_inst m) tid with
            | Some (tag', job') =>
                match job with
                | Some j => match job' with Some j' => N.eqb j j' | None => false end
                | None => N.eqb tag' tag
                end
            | None => false
            end)
         (order (mgetd (m_port_tokens m) port)).

  (* remove_port *)
  Definition remove_port (m : mapper) (port : N) : mapper :=
    mkM (fst (remove_nodes order (m_ports m) [port] false)) (m_dag m)
        (mdel (m_name_ids m) port) (mdel (m_port_tokens m) port) (m_avail m) (m_inst m).

  (* body of: for removed_token_id in promote_to_source(...) *)
  Definition drop_token (st : mapper * list N) (r : N) : mapper * list N :=
    let m := fst st in
    let pt := map (fun kv => (fst kv, sdiscard r (snd kv))) (m_port_tokens m) in
    let empties := map fst (filter (fun kv => is_nil (snd kv)) pt) in
    (mkM (m_ports m) (m_dag m) (m_name_ids m) pt (adel (m_avail m) r) (adel (m_inst m) r),
     fold_left (fun acc p => sadd p acc) empties (snd st)).

  (* move_token_to_root *)
  Definition move_token_to_root (m : mapper) (tid : N) : mapper :=
    let pr := promote order (m_dag m) tid in
    let m1 := mkM (m_ports m) (fst pr) (m_name_ids m) (m_port_tokens m) (m_avail m) (m_inst m) in
    let st := fold_left drop_token (snd pr) (m1, []) in
    fold_left remove_port (order (snd st)) (fst st).

  (* replace_token(port_name, token, is_available) *)
  Definition replace_token (m : mapper) (port tid tag : N) (job : option N) (avail : bool)
    : mapper + merr :=
    match get_equal_token m port tag job with
    | None => inr EFailure
    | Some old =>
        if N.eqb old tid then
          match aget (m_avail m) old with
          | Some a => if Bool.eqb a avail then inl m else inr EFailure
          | None => inr EKey
          end
        else
          match replace order (m_dag m) old tid with
          | (_, ValueErr) => inr EValue
          | (dag', _) =>
              inl (mkM (m_ports m) dag' (m_name_ids m)
                       (setdefault_add (upd (m_port_tokens m) port (sdiscard old)) port tid)
                       (aset (adel (m_avail m) old) tid avail)
                       (aset (adel (m_inst m) old) tid (tag, job)))
          end
    end.

  (* _update_token(port_name, token, is_available) -> (mapper, token id) *)
  Definition update_token (m : mapper) (port tid tag : N) (job : option N) (avail : bool)
    : (mapper * N) + merr :=
    match get_equal_token m port tag job with
    | Some e =>
        if N.eqb e 0 then   (* falsy id: treated as "no equal token" *)
          inl (mkM (m_ports m) (m_dag m) (m_name_ids m) (setdefault_add (m_port_tokens m) port tid)
                   (aset (m_avail m) tid avail) (aset (m_inst m) tid (tag, job)), tid)
        else
          match aget (m_avail m) e with
          | None => inr EKey
          | Some true => inl (m, e)
          | Some false =>
              if avail then
                match replace_token m port tid tag job avail with
                | inl m' => inl (move_token_to_root m' tid, tid)
                | inr e => inr e
                end
              else inl (m, e)
          end
    | None =>
        inl (mkM (m_ports m) (m_dag m) (m_name_ids m) (setdefault_add (m_port_tokens m) port tid)
                 (aset (m_avail m) tid avail) (aset (m_inst m) tid (tag, job)), tid)
    end.

  (* add(token_info_a, token_info_b=None); a token info = (token id, pinfo) *)
  Definition madd (m : mapper) (a : N * pinfo) (b : option (N * pinfo)) : mapper + merr :=
    let ia := snd a in
    let ids1 := setdefault_add (m_name_ids m) (i_port ia) (i_port_id ia) in
    let ids2 := match b with Some b => setdefault_add ids1 (i_port (snd b)) (i_port_id (snd b)) | None => ids1 end in
    let ports := add (m_ports m) (i_port ia) (match b with Some b => Some (i_port (snd b)) | None => None end) in
    let m0 := mkM ports (m_dag m) ids2 (m_port_tokens m) (m_avail m) (m_inst m) in
    match update_token m0 (i_port ia) (fst a) (i_tag ia) (i_job ia) (i_avail ia) with
    | inr e => inr e
    | inl (m1, ta) =>
        match b with
        | None => inl (mkM (m_ports m1) (add (m_dag m1) ta None) (m_name_ids m1) (m_port_tokens m1)
                           (m_avail m1) (m_inst m1))
        | Some b =>
            let ib := snd b in
            match update_token m1 (i_port ib) (fst b) (i_tag ib) (i_job ib) (i_avail ib) with
            | inr e => inr e
            | inl (m2, tb) =>
                inl (mkM (m_ports m2) (add (m_dag m2) ta (Some tb)) (m_name_ids m2) (m_port_tokens m2)
                         (m_avail m2) (m_inst m2))
            end
        end
    end.

  (* create_graph_mapper(context, provenance) *)
  Definition cgm_pred_step (info : list (N * pinfo)) (visited : list N) (t : N) (ti : pinfo)
    (st : (mapper + merr) * list N) (p : N) : (mapper + merr) * list N :=
    let q := if mem p visited || mem p (snd st) then snd st else snd st ++ [p] in
    match fst st with
    | inr e => (inr e, q)
    | inl m =>
        match aget info p with
        | None => (inr EKey, q)
        | Some pi => (madd m (p, pi) (Some (t, ti)), q)
        end
    end.

  Fixpoint cgm_loop (fuel : nat) (dag : graph) (info : list (N * pinfo)) (m : mapper)
    (queue visited : list N) : option (mapper + merr) :=
    match fuel with
    | O => None
    | S f =>
        match queue with
        | [] => Some (inl m)
        | t :: q =>
            match aget info t with
            | None => Some (inr EKey)
            | Some ti =>
                let visited' := t :: visited in
                match madd m (t, ti) None with
                | inr e => Some (inr e)
                | inl m1 =>
                    let st := fold_left (cgm_pred_step info visited' t ti)
                                        (order (predecessors dag t)) (inl m1, q) in
                    match fst st with
                    | inr e => Some (inr e)
                    | inl m2 => cgm_loop f dag info m2 (snd st) visited'
                    end
                end
            end
        end
    end.

  Definition create_graph_mapper (dag : graph) (info : list (N * pinfo)) : option (mapper + merr) :=
    cgm_loop (length (gsucc dag) + 1) dag info empty_mapper (order (get_sinks dag)) [].
End Ordered.

(* ---------------- RollbackFailureManager._synchronize_workflows: its effect on the mapper ---------------- *)
(* For every retry request whose job is being recovered by another recovery workflow (is_recovering), with [jt] the
   JobToken of that job found by get_job_token among the mapper's token instances:
       for token_id in (mapper.dag_tokens.successors(jt) if mapper.dag_tokens.contains(jt) else []):
           mapper.move_token_to_root(token_id)
   (the successor set is copied before the loop).  The other branch (_update_request / retry_request.workflow) and
   the inter-workflow port wiring do not touch the mapper and are not modelled.  [jts]: the job tokens of the
   recovering requests, in the order of [retry_requests]. *)
Section Sync.
  Variable order : list node -> list node.
  Definition sync_step (m : mapper) (jt : N) : mapper :=
    if contains (m_dag m) jt
    then fold_left (move_token_to_root order) (order (successors (m_dag m) jt)) m
    else m.
  Definition sync_mapper (m : mapper) (jts : list N) : mapper := fold_left sync_step jts m.
End Sync.

(* ---------------- which tokens of a port are injected / regenerated ---------------- *)
(* failure_manager._inject_tokens: the tokens put into a port of the recovery workflow are the AVAILABLE mapper
   tokens of that port (Python sorts them by tag before the puts; the order is not modelled, only the set).
   failure_manager._recover: [step.restore(on_tokens = ...)] receives the UNAVAILABLE mapper tokens of the step's
   output ports.  ScatterStep.restore: valid_tags = their tags; the output port becomes a FilterTokenPort that
   lets a token through iff its tag is one of them. *)
Definition avail_of (m : mapper) (t : N) : bool :=
  match aget (m_avail m) t with Some true => true | _ => false end.
Definition injected_tokens (m : mapper) (port : N) : list N :=
  filter (avail_of m) (mgetd (m_port_tokens m) port).
Definition restore_tokens (m : mapper) (port : N) : list N :=
  filter (fun t => negb (avail_of m t)) (mgetd (m_port_tokens m) port).
Definition scatter_valid_tags (m : mapper) (port : N) : list N :=
  flat_map (fun t => match aget (m_inst m) t with Some (tag, _) => [tag] | None => [] end) (restore_tokens m port).
Definition filter_port_admits (valid_tags : list N) (tag : N) : bool := mem tag valid_tags.

(* ---------------- GraphMapper.get_step_ids ---------------- *)
Record steprec := mkStep { s_id : N; s_in : list N; s_out : list N }.   (* port ids *)

Definition list_min (l : list N) : option N :=
  match l with [] => None | x :: l' => Some (fold_left N.min l' x) end.

Definition port_name (ports : list (N * N)) (pid : N) : option N := aget ports pid.

Definition get_step_ids (m : mapper) (steps : list steprec) (ports : list (N * N))
  (output_port_names : list N) : list N :=
  let names := filter (fun p => negb (mem p output_port_names)) (map fst (m_port_tokens m)) in
  let port_ids := flat_map (fun p => match list_min (mgetd (m_name_ids m) p) with
                                     | Some i => [i] | None => [] end) names in
  let cand := filter (fun s => existsb (fun o => mem o port_ids) (s_out s)) steps in
  let ok := filter (fun s =>
              forallb (fun i => match port_name ports i with
                                | Some nm => mem nm (map fst (m_port_tokens m))
                                | None => false end) (s_in s)) cand in
  map s_id ok.
