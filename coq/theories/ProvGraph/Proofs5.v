(* ProvGraph/Proofs5.v — _synchronize_workflows (mapper side) between create_graph_mapper and get_step_ids: it only
   removes ports and tokens and keeps the mapper consistent, so the planning theorems hold for the mapper that
   get_step_ids really receives; and the tokens it moves to the root have lost their producers' edges. *)
From Coq Require Import List Bool NArith Arith Lia Permutation.
From SF Require Import Graph.Model Graph.Util Graph.Proofs Graph.Proofs2 Graph.Proofs3
                       ProvGraph.Model ProvGraph.Proofs ProvGraph.Proofs2 ProvGraph.Proofs3 ProvGraph.Proofs4.
Import ListNotations.

Section SyncProofs.
  Variable order : list node -> list node.
  Hypothesis Hperm : forall l, Permutation (order l) l.

  Lemma K_fold_move l : forall m nm, K (fold_left (move_token_to_root order) l m) nm -> K m nm.
  Proof.
    induction l as [|t l IH]; intros m nm H; simpl in H; [assumption|].
    apply IH in H. eapply K_move. eassumption.
  Qed.

  Lemma K_sync_step m jt nm : K (sync_step order m jt) nm -> K m nm.
  Proof. unfold sync_step. destruct (contains (m_dag m) jt); [apply K_fold_move|auto]. Qed.

  Lemma K_sync jts : forall m nm, K (sync_mapper order m jts) nm -> K m nm.
  Proof.
    unfold sync_mapper. induction jts as [|jt l IH]; intros m nm H; simpl in H; [assumption|].
    apply IH in H. eapply K_sync_step. eassumption.
  Qed.

  (* any property preserved by move_token_to_root is preserved by the synchronisation *)
  Lemma sync_preserves (I : mapper -> Prop) :
    (forall m t, I m -> I (move_token_to_root order m t)) ->
    forall jts m, I m -> I (sync_mapper order m jts).
  Proof.
    intros Hmove. unfold sync_mapper.
    assert (Hfold : forall l m, I m -> I (fold_left (move_token_to_root order) l m)).
    { induction l as [|t l IH]; intros m H; simpl; [assumption|]. apply IH, Hmove, H. }
    induction jts as [|jt l IH]; intros m H; simpl; [assumption|].
    apply IH. unfold sync_step. destruct (contains (m_dag m) jt); [apply Hfold|]; assumption.
  Qed.

  Lemma MI_sync port_of jts m : MI port_of m -> MI port_of (sync_mapper order m jts).
  Proof. apply sync_preserves. intros m0 t. apply MI_move. exact Hperm. Qed.

  Lemma TI_sync dag info jts m : TI dag info m -> TI dag info (sync_mapper order m jts).
  Proof. apply sync_preserves. intros m0 t. apply TI_move. exact Hperm. Qed.

  (* moving a token to the root removes its incoming edges, and no mapper operation of the synchronisation adds
     edges to the token graph *)
  Lemma move_dag m t :
    m_dag (move_token_to_root order m t) = fst (promote order (m_dag m) t).
  Proof.
    unfold move_token_to_root.
    set (m1 := mkM _ _ _ _ _ _).
    assert (Hd : forall l st, m_dag (fst (fold_left drop_token l st)) = m_dag (fst st)).
    { induction l as [|r l IH]; intros st; simpl; [reflexivity|]. rewrite IH. reflexivity. }
    assert (Hr : forall l m0, m_dag (fold_left (remove_port order) l m0) = m_dag m0).
    { induction l as [|p l IH]; intros m0; simpl; [reflexivity|]. rewrite IH. reflexivity. }
    rewrite Hr, Hd. reflexivity.
  Qed.

  Lemma move_edges m t u v : WF (m_dag m) ->
    sedge (m_dag (move_token_to_root order m t)) u v -> sedge (m_dag m) u v /\ v <> t.
  Proof.
    intros W. rewrite move_dag. destruct (is_node_dec (m_dag m) t) as [Ht|Ht].
    - destruct (promote_spec order Hperm t (m_dag m) W Ht) as [_ [_ [_ [_ E]]]].
      intros H. apply E in H. tauto.
    - rewrite (promote_absent order t (m_dag m) Ht). simpl. intros H. split; [assumption|].
      intros ->. apply Ht. eapply sedge_node_r; eassumption.
  Qed.

  Lemma fold_move_edges l : forall m u v, WF (m_dag m) ->
    sedge (m_dag (fold_left (move_token_to_root order) l m)) u v ->
    sedge (m_dag m) u v /\ ~ In v l.
  Proof.
    induction l as [|t l IH]; intros m u v W H; simpl in *; [tauto|].
    assert (W' : WF (m_dag (move_token_to_root order m t))).
    { rewrite move_dag. exact (WF_gstep order Hperm (m_dag m) (Promote t) W). }
    destruct (IH _ u v W' H) as [A B].
    destruct (move_edges m t u v W A) as [C D]. split; [assumption|]. intros [E|E]; [congruence|contradiction].
  Qed.

  (* after synchronising on a recovering job token jt that is in the token graph, no token keeps jt as a producer:
     everything jt had produced has been detached (moved to the root) *)
  Theorem sync_step_detaches m jt v : WF (m_dag m) ->
    ~ sedge (m_dag (sync_step order m jt)) jt v.
  Proof.
    intros W H. unfold sync_step in H. destruct (contains (m_dag m) jt) eqn:C.
    - destruct (fold_move_edges _ m jt v W H) as [A B].
      apply B. apply (order_In order Hperm). exact A.
    - apply contains_false in C. apply C. eapply sedge_node_l. eassumption.
  Qed.
End SyncProofs.

(* ---- the whole chain: build_graph -> create_graph_mapper -> _synchronize_workflows -> get_step_ids ---- *)
Section PlanSync.
  Variable order : list node -> list node.
  Hypothesis Hperm : forall l, Permutation (order l) l.
  Variables (d : db) (inputs : list N) (dag : graph) (info : list (N * pinfo)) (m : mapper) (jts : list N).
  Hypothesis HB : build_graph d inputs = BOk dag info.
  Hypothesis HM : create_graph_mapper order dag info = Some (inl m).

  Let m' := sync_mapper order m jts.

  Theorem synced_port_has_graph_token nm : mget (m_port_tokens m') nm <> None ->
    exists t, is_node dag t /\ port_of_token d t nm.
  Proof.
    intros H. apply (mapper_port_has_graph_token order Hperm d inputs dag info m HB HM).
    apply (K_sync order jts m nm). exact H.
  Qed.

  Theorem synced_selected_step_lost_output steps ports outs s st i jp out_names :
    In s (get_step_ids m' steps ports outs) -> In st steps -> s_id st = s ->
    (forall st', In st' steps -> s_id st' = s -> st' = st) ->
    In i (s_in st) -> port_name ports i = Some jp ->
    private_port d jp out_names ->
    (forall x, In x inputs -> ~ port_of_token d x jp) ->
    exists t, is_node dag t /\ lostT d t /\ exists nm, port_of_token d t nm /\ In nm out_names.
  Proof.
    intros H Hst Hid Huniq Hi Hjp Hpriv Hin.
    destruct (get_step_ids_sound m' steps ports outs s H) as [st' [A [B [C _]]]].
    assert (st' = st) as -> by (apply Huniq; assumption).
    destruct (C i Hi) as [nm [N1 N2]].
    destruct (synced_port_has_graph_token nm N2) as [j [Nj [rj [R1 R2]]]].
    rewrite Hjp in N1. injection N1 as <-.
    destruct (build_graph_spec d inputs dag info HB) as [W [_ [_ [E [J _]]]]].
    destruct (J j Nj) as [Jin|[t [Jt Lt]]].
    - exfalso. apply (Hin j Jin). exists rj. auto.
    - exists t. split; [eapply sedge_node_r; eassumption|]. split; [assumption|].
      destruct (E j t Jt) as [_ [rt [T1 T2]]].
      exists (t_port rt). split; [exists rt; auto|]. eapply Hpriv; eassumption.
  Qed.
End PlanSync.
