(* ProvGraph/Proofs2.v — create_graph_mapper / GraphMapper: every port of the mapper is the port of a token of
   the recovery graph (for every set-iteration order, conflicts or not), and what that gives for get_step_ids. *)
From Coq Require Import List Bool NArith Arith Lia Permutation.
From SF Require Import Graph.Model Graph.Util Graph.Proofs Graph.Proofs2 ProvGraph.Model ProvGraph.Proofs.
Import ListNotations.

(* ---- keys of the amap operations used on port_tokens ---- *)
Lemma mget_setdefault_add_none m k x k' :
  mget (setdefault_add m k x) k' = None <-> mget m k' = None /\ k' <> k.
Proof.
  assert (H : forall v, mget (mset m k v) k' = None <-> mget m k' = None /\ k' <> k).
  { intros v. rewrite mget_mset. destruct (N.eqb_spec k k') as [Heq|Hne].
    - subst. split; [discriminate|]. intros [_ B]. congruence.
    - split; [intros A; split; [assumption|congruence]|tauto]. }
  unfold setdefault_add. destruct (mget m k); apply H.
Qed.

Lemma mget_map_vals (f : list node -> list node) (m : amap) k :
  mget (map (fun kv => (fst kv, f (snd kv))) m) k = option_map f (mget m k).
Proof.
  induction m as [|[k2 v2] m IH]; simpl; [reflexivity|]. destruct (N.eqb k k2); [reflexivity|assumption].
Qed.

Definition K (m : mapper) (nm : N) : Prop := mget (m_port_tokens m) nm <> None.

Section Keys.
  Variable order : list node -> list node.

  Lemma K_remove_port m p nm : K (remove_port order m p) nm -> K m nm.
  Proof. unfold K, remove_port. simpl. rewrite mget_mdel. destruct (N.eqb p nm); [congruence|auto]. Qed.

  Lemma K_fold_remove_port l : forall m nm, K (fold_left (remove_port order) l m) nm -> K m nm.
  Proof.
    induction l as [|p l IH]; intros m nm H; simpl in H; [assumption|].
    apply IH in H. eapply K_remove_port. eassumption.
  Qed.

  Lemma K_drop_token st r nm : K (fst (drop_token st r)) nm <-> K (fst st) nm.
  Proof.
    unfold K, drop_token. simpl. rewrite mget_map_vals. destruct (mget (m_port_tokens (fst st)) nm); simpl;
      split; congruence.
  Qed.

  Lemma K_fold_drop_token l : forall st nm, K (fst (fold_left drop_token l st)) nm <-> K (fst st) nm.
  Proof.
    induction l as [|r l IH]; intros st nm; simpl; [tauto|]. rewrite IH. apply K_drop_token.
  Qed.

  Lemma K_move m t nm : K (move_token_to_root order m t) nm -> K m nm.
  Proof.
    unfold move_token_to_root. intros H. apply K_fold_remove_port in H.
    apply K_fold_drop_token in H. exact H.
  Qed.

  Lemma K_replace_token m port tid tag job avail m' nm :
    replace_token order m port tid tag job avail = inl m' -> K m' nm -> K m nm \/ nm = port.
  Proof.
    unfold replace_token. destruct (get_equal_token order m port tag job) as [old|]; [|discriminate].
    destruct (N.eqb old tid).
    - destruct (aget (m_avail m) old) as [a|]; [|discriminate].
      destruct (Bool.eqb a avail); [|discriminate]. intros H. injection H as <-. auto.
    - destruct (replace order (m_dag m) old tid) as [dag' [l| |]]; try discriminate;
        intros H; injection H as <-; unfold K; simpl; intros H;
        destruct (N.eq_dec nm port) as [->|Hne]; auto; left; intros A; apply H;
        apply mget_setdefault_add_none; (split; [|assumption]); apply mget_upd_none; assumption.
  Qed.

  Lemma K_update_token m port tid tag job avail m' r nm :
    update_token order m port tid tag job avail = inl (m', r) -> K m' nm -> K m nm \/ nm = port.
  Proof.
    assert (Hnew : forall mm, K (mkM (m_ports m) (m_dag m) (m_name_ids m) (setdefault_add (m_port_tokens m) port tid)
                                     (aset (m_avail m) tid avail) (aset (m_inst m) tid (tag, job))) mm ->
                              K m mm \/ mm = port).
    { intros mm H. unfold K in *. simpl in H. destruct (N.eq_dec mm port) as [->|Hne]; auto. left.
      intros A. apply H. apply mget_setdefault_add_none. auto. }
    unfold update_token. destruct (get_equal_token order m port tag job) as [e|].
    - destruct (N.eqb e 0).
      + intros H. injection H as <- <-. apply Hnew.
      + destruct (aget (m_avail m) e) as [[|]|]; try discriminate.
        * intros H. injection H as <- <-. auto.
        * destruct avail.
          -- destruct (replace_token order m port tid tag job true) as [m2|e2] eqn:R; [|discriminate].
             intros H. injection H as <- <-. intros H. apply K_move in H.
             eapply K_replace_token; eassumption.
          -- intros H. injection H as <- <-. auto.
    - intros H. injection H as <- <-. apply Hnew.
  Qed.

  Lemma K_madd m a b m' nm : madd order m a b = inl m' ->
    K m' nm -> K m nm \/ nm = i_port (snd a) \/ (exists b', b = Some b' /\ nm = i_port (snd b')).
  Proof.
    unfold madd.
    set (m0 := mkM _ (m_dag m) _ (m_port_tokens m) (m_avail m) (m_inst m)).
    assert (K0 : forall x, K m0 x -> K m x) by (intros x H; exact H).
    destruct (update_token order m0 (i_port (snd a)) (fst a) (i_tag (snd a)) (i_job (snd a)) (i_avail (snd a)))
      as [[m1 ta]|e] eqn:U1; [|discriminate].
    destruct b as [b|].
    - destruct (update_token order m1 (i_port (snd b)) (fst b) (i_tag (snd b)) (i_job (snd b)) (i_avail (snd b)))
        as [[m2 tb]|e] eqn:U2; [|discriminate].
      intros H. injection H as <-. unfold K at 1. simpl. intros H.
      destruct (K_update_token _ _ _ _ _ _ _ _ nm U2 H) as [H1| ->].
      + destruct (K_update_token _ _ _ _ _ _ _ _ nm U1 H1) as [H0| ->]; auto.
      + right. right. exists b. auto.
    - intros H. injection H as <-. unfold K at 1. simpl. intros H.
      destruct (K_update_token _ _ _ _ _ _ _ _ nm U1 H) as [H0| ->]; auto.
  Qed.
End Keys.

(* ---- create_graph_mapper ---- *)
Section CGM.
  Variable order : list node -> list node.
  Hypothesis Hperm : forall l, Permutation (order l) l.
  Variables (dag : graph) (info : list (N * pinfo)).
  Hypothesis W : WF dag.

  (* nm is the port of a token of the graph *)
  Definition graph_port (nm : N) : Prop :=
    exists t pi, is_node dag t /\ aget info t = Some pi /\ i_port pi = nm.
  Definition P (m : mapper) : Prop := forall nm, K m nm -> graph_port nm.

  Lemma P_madd m a b m' : P m -> madd order m a b = inl m' ->
    is_node dag (fst a) -> aget info (fst a) = Some (snd a) ->
    (forall b', b = Some b' -> is_node dag (fst b') /\ aget info (fst b') = Some (snd b')) -> P m'.
  Proof.
    intros Pm H Na Ia Hb nm Hk.
    destruct (K_madd order m a b m' nm H Hk) as [A|[->|[b' [-> ->]]]].
    - apply Pm. assumption.
    - exists (fst a), (snd a). auto.
    - destruct (Hb b' eq_refl) as [Nb Ib]. exists (fst b'), (snd b'). auto.
  Qed.

  Section Generic.
    (* any property of the mapper preserved by [madd] on token infos of graph nodes holds of the result *)
    Variable I : mapper -> Prop.
    Hypothesis I_madd : forall m a b m', I m -> madd order m a b = inl m' ->
      is_node dag (fst a) -> aget info (fst a) = Some (snd a) ->
      (forall b', b = Some b' -> is_node dag (fst b') /\ aget info (fst b') = Some (snd b')) -> I m'.

  Lemma pred_fold visited t ti L : forall st m2,
    (forall m, fst st = inl m -> I m) -> is_node dag t -> aget info t = Some ti ->
    (forall p, In p L -> is_node dag p) -> (forall x, In x (snd st) -> is_node dag x) ->
    let r := fold_left (cgm_pred_step order info visited t ti) L st in
    (fst r = inl m2 -> I m2) /\ (forall x, In x (snd r) -> is_node dag x).
  Proof.
    induction L as [|p L IH]; intros st m2 Hst Nt It HL Hq; simpl.
    - split; [apply Hst|assumption].
    - destruct st as [ms q0]. simpl in Hst, Hq.
      apply IH; try assumption.
      + intros m. unfold cgm_pred_step. simpl.
        destruct ms as [m0|e]; [|simpl; intros Hm; discriminate Hm].
        destruct (aget info p) as [pi|] eqn:Ip; [|simpl; intros Hm; discriminate Hm]. simpl. intros Hm.
        eapply (I_madd m0 (p, pi) (Some (t, ti))); [apply Hst; reflexivity|exact Hm| | |]; simpl.
        * apply HL. left. reflexivity.
        * assumption.
        * intros b' Hb. injection Hb as <-. simpl. auto.
      + intros q Hq'. apply HL. right. assumption.
      + intros x Hx0.
        assert (Hx' : In x (if mem p visited || mem p q0 then q0 else q0 ++ [p])).
        { revert Hx0. unfold cgm_pred_step. simpl. destruct ms; [destruct (aget info p)|]; exact (fun h => h). }
        destruct (mem p visited || mem p q0); [apply Hq; assumption|].
        apply in_app_iff in Hx'. destruct Hx' as [A|[<- |[]]]; [apply Hq; assumption|apply HL; left; reflexivity].
  Qed.

  Lemma cgm_loop_I : forall fuel m queue visited r,
    I m -> (forall x, In x queue -> is_node dag x) ->
    cgm_loop order fuel dag info m queue visited = Some (inl r) -> I r.
  Proof.
    induction fuel as [|f IH]; intros m queue visited r Pm Hq H; [discriminate|].
    destruct queue as [|t q]; cbn [cgm_loop] in H; [injection H as <-; assumption|].
    revert H.
    destruct (aget info t) as [ti|] eqn:It; [|intros H; discriminate H].
    destruct (madd order m _ None) as [m1|e] eqn:A; [|intros H; discriminate H].
    intros H.
    assert (Nt : is_node dag t) by (apply Hq; left; reflexivity).
    assert (P1 : I m1).
    { eapply (I_madd m (t, ti) None); [exact Pm|exact A|exact Nt|exact It|]. intros b' Hb. discriminate. }
    revert H.
    destruct (fst (fold_left _ _ _)) as [m2|e] eqn:E; [|intros H; discriminate H].
    intros H.
    destruct (pred_fold (t :: visited) t ti (order (predecessors dag t)) (inl m1, q) m2) as [F1 F2]; try assumption.
    - intros m0 Hm. simpl in Hm. injection Hm as <-. assumption.
    - intros p Hp. apply (proj1 (order_In order Hperm _ _)) in Hp.
      assert (sedge dag p t) as Hs by (apply (wf_mirror dag W); exact Hp).
      eapply sedge_node_l. eassumption.
    - intros x Hx. apply Hq. right. assumption.
    - eapply IH; [apply F1; exact E|exact F2|exact H].
  Qed.


    Theorem cgm_invariant m : I empty_mapper ->
      create_graph_mapper order dag info = Some (inl m) -> I m.
    Proof.
      unfold create_graph_mapper. intros I0 H.
      eapply cgm_loop_I; [exact I0| |exact H].
      intros x Hx. apply (proj1 (order_In order Hperm _ _)) in Hx. unfold get_sinks in Hx.
      apply in_map_iff in Hx. destruct Hx as [[k v] [<- Hf]]. apply filter_In in Hf. destruct Hf as [Hin _].
      simpl. unfold is_node. clear -Hin. induction (gsucc dag) as [|[k2 v2] l IH]; [destruct Hin|].
      simpl. destruct (N.eqb_spec k k2); [discriminate|]. destruct Hin as [Heq|Hin]; [congruence|auto].
    Qed.
  End Generic.

  Theorem mapper_ports_in_graph m :
    create_graph_mapper order dag info = Some (inl m) -> forall nm, K m nm -> graph_port nm.
  Proof.
    intros H. apply (cgm_invariant P P_madd m); [|exact H].
    intros nm Hk. exfalso. apply Hk. reflexivity.
  Qed.
End CGM.

(* ---- info_tokens entries are the records of the table ---- *)
Lemma aget_setdefault {A} (m : list (N * A)) t v x :
  aget (asetdefault m t v) x = match aget m x with Some y => Some y | None => if N.eqb x t then Some v else None end.
Proof.
  unfold asetdefault. destruct (aget m t) eqn:E.
  - destruct (aget m x) eqn:E2; [reflexivity|]. destruct (N.eqb_spec x t); [subst; congruence|reflexivity].
  - apply aget_app_other.
Qed.

Lemma build_loop_info d : forall fuel dag info fr dag' info',
  (forall t pi, aget info t = Some pi -> exists r a, find_tok d t = Some r /\ pi = info_of r a) ->
  build_loop fuel d dag info fr = BOk dag' info' ->
  forall t pi, aget info' t = Some pi -> exists r a, find_tok d t = Some r /\ pi = info_of r a.
Proof.
  induction fuel as [|f IH]; intros dag info fr dag' info' Hi H; [discriminate|].
  simpl in H. destruct fr as [|t fr]; [injection H as <- <-; assumption|].
  destruct (find_tok d t) as [r|] eqn:Hr; [|discriminate].
  assert (Hstep : forall a x pi, aget (asetdefault info t (info_of r a)) x = Some pi ->
                    exists r0 a0, find_tok d x = Some r0 /\ pi = info_of r0 a0).
  { intros a x pi Hx. rewrite aget_setdefault in Hx. destruct (aget info x) eqn:E.
    - injection Hx as <-. eapply Hi. eassumption.
    - destruct (N.eqb_spec x t); [|discriminate]. subst x. injection Hx as <-. exists r, a. auto. }
  destruct (job_recovering r).
  - eapply IH; [apply Hstep|exact H].
  - destruct (t_avail r).
    + eapply IH; [apply Hstep|exact H].
    + destruct (t_deps r); [discriminate|]. eapply IH; [apply Hstep|exact H].
Qed.

Lemma build_graph_info d inputs dag info : build_graph d inputs = BOk dag info ->
  forall t pi, aget info t = Some pi -> exists r, find_tok d t = Some r /\ i_port pi = t_port r.
Proof.
  unfold build_graph. intros H t pi Hp.
  assert (H0 : forall t pi, aget (@nil (N * pinfo)) t = Some pi ->
                 exists r a, find_tok d t = Some r /\ pi = info_of r a) by (intros ? ? E; discriminate E).
  destruct (build_loop_info d _ _ _ _ _ _ H0 H t pi Hp) as [r [a [A ->]]].
  exists r. auto.
Qed.

Lemma find_tok_In d t r : find_tok d t = Some r -> In r d.
Proof.
  induction d as [|r0 d IH]; simpl; [discriminate|].
  destruct (N.eqb (t_id r0) t); [intros H; injection H as <-; left; reflexivity|intros H; right; auto].
Qed.

(* ---- the whole planning chain ---- *)
Section Plan.
  Variable order : list node -> list node.
  Hypothesis Hperm : forall l, Permutation (order l) l.
  Variables (d : db) (inputs : list N) (dag : graph) (info : list (N * pinfo)) (m : mapper).
  Hypothesis HB : build_graph d inputs = BOk dag info.
  Hypothesis HM : create_graph_mapper order dag info = Some (inl m).

  Definition port_of_token (t nm : N) : Prop := exists r, find_tok d t = Some r /\ t_port r = nm.

  (* every port of the mapper carries a token of the recovery graph *)
  Theorem mapper_port_has_graph_token nm : mget (m_port_tokens m) nm <> None ->
    exists t, is_node dag t /\ port_of_token t nm.
  Proof.
    intros H. destruct (build_graph_spec d inputs dag info HB) as [W _].
    destruct (mapper_ports_in_graph order Hperm dag info W m HM nm H) as [t [pi [A [B C]]]].
    destruct (build_graph_info d inputs dag info HB t pi B) as [r [R1 R2]].
    exists t. split; [assumption|]. exists r. split; [assumption|congruence].
  Qed.

  (* a selected step: all its input ports and one of its output ports carry graph tokens *)
  Theorem selected_step_ports steps ports outs s : In s (get_step_ids m steps ports outs) ->
    exists st, In st steps /\ s_id st = s /\
      (forall i, In i (s_in st) -> exists nm t, port_name ports i = Some nm /\ is_node dag t /\ port_of_token t nm) /\
      (exists o nm t, In o (s_out st) /\ ~ In nm outs /\ is_node dag t /\ port_of_token t nm).
  Proof.
    intros H. destruct (get_step_ids_sound m steps ports outs s H) as [st [A [B [C [o [nm [D [E [F G]]]]]]]]].
    exists st. split; [assumption|]. split; [assumption|]. split.
    - intros i Hi. destruct (C i Hi) as [nm' [N1 N2]].
      destruct (mapper_port_has_graph_token nm' N2) as [t [T1 T2]]. exists nm', t. auto.
    - destruct (mapper_port_has_graph_token nm E) as [t [T1 T2]]. exists o, nm, t. auto.
  Qed.

  (* the property for job steps.  [jp] is the name of an input port of the selected step (its job port); it is
     private: whatever was made from a token of port [jp] sits on a port named in [out_names] (the step's output
     ports); and the failed job itself has no input on [jp] (it is another step's job port).  Then the step was
     selected only because a LOST token of the recovery graph sits on one of its output ports. *)
  Definition private_port (jp : N) (out_names : list N) : Prop :=
    forall t p rt rp, find_tok d t = Some rt -> In p (t_deps rt) -> find_tok d p = Some rp ->
                      t_port rp = jp -> In (t_port rt) out_names.

  Theorem selected_job_step_lost_output steps ports outs s st i jp out_names :
    In s (get_step_ids m steps ports outs) -> In st steps -> s_id st = s ->
    (forall st', In st' steps -> s_id st' = s -> st' = st) ->
    In i (s_in st) -> port_name ports i = Some jp ->
    private_port jp out_names ->
    (forall x, In x inputs -> ~ port_of_token x jp) ->
    exists t, is_node dag t /\ lostT d t /\ exists nm, port_of_token t nm /\ In nm out_names.
  Proof.
    intros H Hst Hid Huniq Hi Hjp Hpriv Hin.
    destruct (selected_step_ports steps ports outs s H) as [st' [A [B [C _]]]].
    assert (st' = st) as -> by (apply Huniq; assumption).
    destruct (C i Hi) as [nm [j [N1 [N2 [rj [R1 R2]]]]]].
    rewrite Hjp in N1. injection N1 as <-.
    destruct (build_graph_spec d inputs dag info HB) as [_ [_ [_ [E [J _]]]]].
    destruct (J j N2) as [Jin|[t [Jt Lt]]].
    - exfalso. apply (Hin j Jin). exists rj. auto.
    - exists t. split; [|split; [assumption|]].
      + destruct (build_graph_spec d inputs dag info HB) as [W _]. eapply sedge_node_r; eassumption.
      + destruct (E j t Jt) as [_ [rt [T1 T2]]].
        exists (t_port rt). split; [exists rt; auto|].
        eapply Hpriv; eassumption.
  Qed.
End Plan.
