(* Hardware/Model.v — executable model of streamflow/core/scheduling.py: Storage and Hardware arithmetic.
   Definitions only (proofs are in Hardware/Proofs.v).

   ANCHORS:
     streamflow.core.scheduling._reduce_storages
     streamflow.core.scheduling.Storage.__init__        (negative size raises)
     streamflow.core.scheduling.Storage.__add__ / __sub__ / __or__ / __ior__
     streamflow.core.scheduling.Hardware.__init__       (empty storage map -> {"/": Storage("/", 0)})
     streamflow.core.scheduling.Hardware.__add__ / __sub__ / __or__ / __ior__
     streamflow.core.scheduling.Hardware._normalize_storage / normalized / is_normalized / satisfies

   Conventions.  Amounts are exact integers (Z): every operation of the code is +, -, max, >=, which
   commute with multiplication by a positive common denominator, so a run on Fractions n/D is the run
   on the numerators (the correspondence does exactly that).  A Python dict is an association list in
   insertion order; replacing the value of an existing key keeps its position.  A Python set of paths
   is a list; union appends the new elements; the correspondence compares paths as sets.
   Exceptions: WorkflowExecutionException from Storage.__init__ = NegativeSize, ArithmeticError from the
   Storage operators = MountMismatch, WorkflowExecutionException from satisfies = MissingMount. *)
From Coq Require Import List Bool ZArith.
From SF Require Import Base.Str.
Import ListNotations.
Local Open Scope string_scope. Local Open Scope list_scope. Local Open Scope Z_scope.

Record storage := mkst { mount : string; size : Z; paths : list string; bind : option string }.
Definition smap := list (string * storage).
Record hw := mkhw { cores : Z; mem : Z; stor : smap }.

Inductive herr := NegativeSize | MountMismatch | MissingMount.
Inductive res (A : Type) := Ok (a : A) | Err (e : herr).
Arguments Ok {A} a. Arguments Err {A} e.

Definition bind_res {A B} (r : res A) (f : A -> res B) : res B :=
  match r with Ok a => f a | Err e => Err e end.
Notation "x <- r ;; k" := (bind_res r (fun x => k)) (at level 61, r at next level, right associativity).

(* ---- dict helpers ---- *)
Fixpoint lookup {V} (k : string) (m : list (string * V)) : option V :=
  match m with
  | [] => None
  | (k', v) :: m' => if String.eqb k k' then Some v else lookup k m'
  end.
Fixpoint replace {V} (k : string) (v : V) (m : list (string * V)) : list (string * V) :=
  match m with
  | [] => []
  | (k', v') :: m' => if String.eqb k k' then (k', v) :: m' else (k', v') :: replace k v m'
  end.
Definition values {K V} (m : list (K * V)) : list V := map snd m.
Definition keys {K V} (m : list (K * V)) : list K := map fst m.
Definition mem_str (s : string) (l : list string) : bool := existsb (String.eqb s) l.

(* set union of paths: self.paths | other.paths *)
Definition punion (a b : list string) : list string :=
  a ++ filter (fun p => negb (mem_str p a)) b.

(* ---- Storage ---- *)
(* Storage.__init__ *)
Definition new_storage (m : string) (s : Z) (p : list string) (b : option string) : res storage :=
  if s <? 0 then Err NegativeSize else Ok (mkst m s p b).

Definition st_add (a b : storage) : res storage :=
  if negb (String.eqb (mount a) (mount b)) then Err MountMismatch
  else new_storage (mount a) (size a + size b) (punion (paths a) (paths b)) (bind a).
Definition st_sub (a b : storage) : res storage :=
  if negb (String.eqb (mount a) (mount b)) then Err MountMismatch
  else new_storage (mount a) (size a - size b) (punion (paths a) (paths b)) (bind a).
(* Storage.__ior__: in place, no constructor call *)
Definition st_ior (a b : storage) : res storage :=
  if negb (String.eqb (mount a) (mount b)) then Err MountMismatch
  else Ok (mkst (mount a) (Z.max (size a) (size b)) (punion (paths a) (paths b)) (bind a)).

(* ---- _reduce_storages ---- *)
Definition reduce_step (op : storage -> storage -> res storage) (acc : smap) (d : storage) : res smap :=
  match lookup (mount d) acc with
  | Some cur => r <- op cur d ;; Ok (replace (mount d) r acc)
  | None => c <- new_storage (mount d) (size d) (paths d) (bind d) ;; Ok (acc ++ [(mount d, c)])
  end.
Fixpoint reduce_from (op : storage -> storage -> res storage) (acc : smap) (l : list storage) : res smap :=
  match l with
  | [] => Ok acc
  | d :: l' => acc' <- reduce_step op acc d ;; reduce_from op acc' l'
  end.
Definition reduce_storages (l : list storage) (op : storage -> storage -> res storage) : res smap :=
  reduce_from op [] l.

(* ---- Hardware ---- *)
Definition root_storage : storage := mkst "/" 0 [] None.
(* Hardware.__init__: storage or {os.sep: Storage(os.sep, 0.0)} *)
Definition new_hw (c m : Z) (s : smap) : hw :=
  mkhw c m (match s with [] => [("/", root_storage)] | _ => s end).
Definition default_hw : hw := new_hw 0 0 [].

Definition normalize_storage (a : hw) : res smap := reduce_storages (values (stor a)) st_add.

Definition hw_add (a b : hw) : res hw :=
  na <- normalize_storage a ;; nb <- normalize_storage b ;;
  r <- reduce_storages (values na ++ values nb) st_add ;;
  Ok (new_hw (cores a + cores b) (mem a + mem b) r).
Definition hw_sub (a b : hw) : res hw :=
  na <- normalize_storage a ;; nb <- normalize_storage b ;;
  r <- reduce_storages (values na ++ values nb) st_sub ;;
  Ok (new_hw (cores a - cores b) (mem a - mem b) r).

(* Hardware.__ior__ on the storage maps (keys, not mount points, decide what is merged) *)
Fixpoint ior_storages (acc : smap) (l : smap) : res smap :=
  match l with
  | [] => Ok acc
  | (k, d) :: l' =>
      match lookup k acc with
      | None => ior_storages (acc ++ [(k, d)]) l'
      | Some cur => r <- st_ior cur d ;; ior_storages (replace k r acc) l'
      end
  end.
(* Hardware.__or__ = deepcopy then __ior__ ; the attribute is assigned directly (no constructor) *)
Definition hw_or (a b : hw) : res hw :=
  s <- ior_storages (stor a) (stor b) ;; Ok (mkhw (cores a + cores b) (mem a + mem b) s).

Definition normalized (a : hw) : res hw :=
  s <- normalize_storage a ;; Ok (new_hw (cores a) (mem a) s).
Definition is_normalized (a : hw) : bool :=
  forallb (fun kd => String.eqb (fst kd) (mount (snd kd))) (stor a).

Definition size_in (m : smap) (k : string) : Z :=
  match lookup k m with Some d => size d | None => 0 end.
(* self.satisfies(other): self = capacity, other = requirement *)
Definition satisfies (s o : hw) : res bool :=
  if (cores o <=? cores s) && (mem o <=? mem s) then
    no <- normalize_storage o ;; ns <- normalize_storage s ;;
    if existsb (fun k => negb (mem_str k (keys ns))) (keys no) then Err MissingMount
    else Ok (forallb (fun d => size d <=? size_in ns (mount d)) (values no))
  else Ok false.

(* ---- specification vocabulary (used by the theorems) ---- *)
(* total size under mount point m, absent = 0 *)
Fixpoint total (l : list storage) (m : string) : Z :=
  match l with
  | [] => 0
  | d :: l' => (if String.eqb (mount d) m then size d else 0) + total l' m
  end.
Definition size_at (a : hw) (m : string) : Z := total (values (stor a)) m.
Definition mounts (a : hw) : list string := map mount (values (stor a)).
Definition nonneg (l : list storage) : Prop := forall d, In d l -> 0 <= size d.
(* what every Python Hardware object satisfies: non-empty map, Storage sizes >= 0 *)
Definition wf (a : hw) : Prop := stor a <> [] /\ nonneg (values (stor a)).
Definition wfb (a : hw) : bool :=
  negb (match stor a with [] => true | _ => false end) && forallb (fun d => 0 <=? size d) (values (stor a)).
