(* Hardware/Corr.v — correspondence cases for Hardware/Model.v (C14 check).  Each case carries the
   operands and what the Python operators returned; [check_case] runs the model and compares:
   cores, memory, and the storage map in dict order (key, mount point, size, bind) with paths as sets. *)
From Coq Require Import List Bool ZArith.
From SF Require Import Base.Str Base.Corr.
From SF Require Export Hardware.Model.
Import ListNotations.
Local Open Scope string_scope. Local Open Scope list_scope. Local Open Scope Z_scope.

Definition herr_eqb (a b : herr) : bool :=
  match a, b with
  | NegativeSize, NegativeSize | MountMismatch, MountMismatch | MissingMount, MissingMount => true
  | _, _ => false
  end.

Definition subset (a b : list string) : bool := forallb (fun x => mem_str x b) a.
Definition set_eqb (a b : list string) : bool := subset a b && subset b a.

Definition storage_eqb (a b : storage) : bool :=
  String.eqb (mount a) (mount b) && Z.eqb (size a) (size b) && set_eqb (paths a) (paths b)
  && opt_eqb String.eqb (bind a) (bind b).
Definition hw_eqb (a b : hw) : bool :=
  Z.eqb (cores a) (cores b) && Z.eqb (mem a) (mem b)
  && list_eqb (pair_eqb String.eqb storage_eqb) (stor a) (stor b).

Definition res_eqb {A} (eqb : A -> A -> bool) (a b : res A) : bool :=
  match a, b with
  | Ok x, Ok y => eqb x y
  | Err e, Err f => herr_eqb e f
  | _, _ => false
  end.

Inductive ccase :=
| CAdd (a b : hw) (r : res hw)
| CSub (a b : hw) (r : res hw)
| COr (a b : hw) (r : res hw)
| CNorm (a : hw) (r : res hw) (isn : bool) (r2 : res hw)   (* a.normalized(), a.is_normalized(), a.normalized().normalized() *)
| CSat (c r : hw) (b : res bool)                    (* c.satisfies(r) *)
| CAddSub (a b : hw) (s : res hw) (r : res hw)      (* s = a + b ; r = s - b *)
| CSubAdd (a b : hw) (d : res hw) (r : res hw)      (* d = a - b ; r = d + b *)
| CNew (c m : Z) (s : smap) (r : hw).               (* Hardware(c, m, s) *)

Definition check_case (c : ccase) : bool :=
  match c with
  | CAdd a b r => res_eqb hw_eqb (hw_add a b) r
  | CSub a b r => res_eqb hw_eqb (hw_sub a b) r
  | COr a b r => res_eqb hw_eqb (hw_or a b) r
  | CNorm a r isn r2 =>
      res_eqb hw_eqb (normalized a) r && Bool.eqb (is_normalized a) isn
      && res_eqb hw_eqb (n <- normalized a ;; normalized n) r2
  | CSat c r b => res_eqb Bool.eqb (satisfies c r) b
  | CAddSub a b s r =>
      res_eqb hw_eqb (hw_add a b) s && res_eqb hw_eqb (s' <- hw_add a b ;; hw_sub s' b) r
  | CSubAdd a b d r =>
      res_eqb hw_eqb (hw_sub a b) d && res_eqb hw_eqb (d' <- hw_sub a b ;; hw_add d' b) r
  | CNew c m s r => hw_eqb (new_hw c m s) r
  end.
