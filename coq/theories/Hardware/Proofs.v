(* Hardware/Proofs.v — lemmas about Hardware/Model.v (C14; reused by the scheduler proofs). *)
From Coq Require Import List Bool ZArith Lia.
From SF Require Import Base.Str Hardware.Model.
Import ListNotations.
Local Open Scope string_scope. Local Open Scope list_scope. Local Open Scope Z_scope.

Definition keyed (m : smap) : Prop := forall k d, In (k, d) m -> k = mount d.
Definition tot (m : smap) (x : string) : Z := total (values m) x.
Definition good (m : smap) : Prop := keyed m /\ nonneg (values m) /\ NoDup (keys m).

(* ------------------------------------------------------------------ basic list / dict facts *)
Lemma mem_str_in s l : mem_str s l = true <-> In s l.
Proof.
  unfold mem_str. rewrite existsb_exists. split.
  - intros [x [Hi He]]. apply String.eqb_eq in He. subst. exact Hi.
  - intros H. exists s. split; [exact H|apply String.eqb_refl].
Qed.

Lemma total_app l1 l2 x : total (l1 ++ l2) x = total l1 x + total l2 x.
Proof. induction l1 as [|d l1 IH]; simpl; [reflexivity|]. rewrite IH. lia. Qed.

Lemma total_nonneg l x : nonneg l -> 0 <= total l x.
Proof.
  induction l as [|d l IH]; simpl; intros H; [lia|].
  assert (0 <= size d) by (apply H; left; reflexivity).
  assert (0 <= total l x) by (apply IH; intros d' Hd; apply H; right; exact Hd).
  destruct (String.eqb (mount d) x); lia.
Qed.

Lemma total_notin l x : ~ In x (map mount l) -> total l x = 0.
Proof.
  induction l as [|d l IH]; simpl; intros H; [reflexivity|].
  destruct (String.eqb_spec (mount d) x) as [E|E].
  - exfalso. apply H. left. exact E.
  - rewrite IH; [lia|]. intros Hi. apply H. right. exact Hi.
Qed.

Lemma values_app {K V} (a b : list (K * V)) : values (a ++ b) = values a ++ values b.
Proof. unfold values. apply map_app. Qed.
Lemma keys_app {K V} (a b : list (K * V)) : keys (a ++ b) = keys a ++ keys b.
Proof. unfold keys. apply map_app. Qed.

Lemma lookup_some_in {V} k (m : list (string * V)) v : lookup k m = Some v -> In (k, v) m.
Proof.
  induction m as [|[k' v'] m IH]; simpl; [discriminate|].
  destruct (String.eqb_spec k k') as [E|E]; intros H.
  - inversion H. subst. left. reflexivity.
  - right. apply IH. exact H.
Qed.

Lemma lookup_none_notin {V} k (m : list (string * V)) : lookup k m = None -> ~ In k (keys m).
Proof.
  induction m as [|[k' v'] m IH]; simpl; intros H Hi; [exact Hi|].
  destruct (String.eqb_spec k k') as [E|E]; [discriminate|].
  destruct Hi as [Hi|Hi]; [congruence|]. exact (IH H Hi).
Qed.

Lemma lookup_in_some {V} k (m : list (string * V)) : In k (keys m) -> exists v, lookup k m = Some v.
Proof.
  destruct (lookup k m) eqn:E; [eexists; reflexivity|].
  intros H. exfalso. exact (lookup_none_notin _ _ E H).
Qed.

Lemma keyed_mounts m : keyed m -> map mount (values m) = keys m.
Proof.
  induction m as [|[k d] m IH]; simpl; intros H; [reflexivity|].
  rewrite IH.
  - f_equal. symmetry. apply H. left. reflexivity.
  - intros k' d' Hi. apply H. right. exact Hi.
Qed.

Lemma keyed_cons k d m : keyed ((k, d) :: m) <-> k = mount d /\ keyed m.
Proof.
  split.
  - intros H. split; [apply H; left; reflexivity|]. intros k' d' Hi. apply H. right. exact Hi.
  - intros [E H] k' d' [Hi|Hi]; [inversion Hi; subst; reflexivity|]. apply H. exact Hi.
Qed.

Lemma keyed_app a b : keyed a -> keyed b -> keyed (a ++ b).
Proof. intros Ha Hb k d Hi. apply in_app_or in Hi. destruct Hi; [apply Ha|apply Hb]; assumption. Qed.

Lemma keyed_rebuild m : keyed m -> map (fun d => (mount d, d)) (values m) = m.
Proof.
  induction m as [|[k d] m IH]; simpl; intros H; [reflexivity|].
  apply keyed_cons in H. destruct H as [E H]. rewrite IH by exact H. subst. reflexivity.
Qed.

Lemma tot_notin m x : keyed m -> ~ In x (keys m) -> tot m x = 0.
Proof. intros Hk Hn. unfold tot. apply total_notin. rewrite keyed_mounts by exact Hk. exact Hn. Qed.

Lemma size_in_tot m k : keyed m -> NoDup (keys m) -> size_in m k = tot m k.
Proof.
  unfold size_in, tot. induction m as [|[k' v] m IH]; simpl; intros Hk Hn; [reflexivity|].
  apply keyed_cons in Hk. destruct Hk as [E Hk]. inversion Hn as [|? ? Hni Hn']. subst.
  destruct (String.eqb_spec k (mount v)) as [E|E].
  - subst. rewrite String.eqb_refl.
    fold (tot m (mount v)). rewrite (tot_notin m (mount v) Hk Hni). lia.
  - destruct (String.eqb_spec (mount v) k) as [E'|E']; [congruence|].
    rewrite IH by assumption. lia.
Qed.

Lemma in_values_size m d : keyed m -> NoDup (keys m) -> In d (values m) -> size d = tot m (mount d).
Proof.
  unfold tot. induction m as [|[k v] m IH]; simpl; intros Hk Hn Hi; [contradiction|].
  apply keyed_cons in Hk. destruct Hk as [E Hk]. inversion Hn as [|? ? Hni Hn']. subst.
  destruct Hi as [Hi|Hi].
  - subst. rewrite String.eqb_refl. fold (tot m (mount d)). rewrite (tot_notin m _ Hk Hni). lia.
  - destruct (String.eqb_spec (mount v) (mount d)) as [E|E].
    + exfalso. apply Hni. rewrite E. rewrite <- keyed_mounts by exact Hk. apply in_map. exact Hi.
    + rewrite <- IH by assumption. lia.
Qed.

(* ------------------------------------------------------------------ replace *)
Lemma keys_replace {V} k (v : V) m : keys (replace k v m) = keys m.
Proof.
  induction m as [|[k' v'] m IH]; simpl; [reflexivity|].
  destruct (String.eqb k k'); simpl; [reflexivity|]. rewrite IH. reflexivity.
Qed.

Lemma keyed_replace k v m : keyed m -> k = mount v -> keyed (replace k v m).
Proof.
  induction m as [|[k' v'] m IH]; simpl; intros Hk E; [exact Hk|].
  apply keyed_cons in Hk. destruct Hk as [E' Hk].
  destruct (String.eqb_spec k k') as [Ek|Ek]; apply keyed_cons; split; auto. congruence.
Qed.

Lemma nonneg_replace k v (m : smap) :
  nonneg (values m) -> 0 <= size v -> nonneg (values (replace k v m)).
Proof.
  induction m as [|[k' v'] m IH]; simpl; intros Hn Hv; [exact Hn|].
  destruct (String.eqb k k'); simpl; intros d [Hd|Hd].
  - subst. exact Hv.
  - apply Hn. right. exact Hd.
  - apply Hn. left. exact Hd.
  - apply IH; auto. intros d' Hd'. apply Hn. right. exact Hd'.
Qed.

Lemma tot_replace k v m cur x :
  lookup k m = Some cur ->
  tot (replace k v m) x =
  tot m x - (if String.eqb (mount cur) x then size cur else 0) + (if String.eqb (mount v) x then size v else 0).
Proof.
  unfold tot. induction m as [|[k' v'] m IH]; simpl; [discriminate|].
  destruct (String.eqb k k'); intros H.
  - inversion H. subst. simpl. lia.
  - simpl. rewrite IH by exact H. lia.
Qed.

Lemma new_storage_id d : 0 <= size d -> new_storage (mount d) (size d) (paths d) (bind d) = Ok d.
Proof.
  intros H. unfold new_storage. destruct (Z.ltb_spec (size d) 0); [lia|]. destruct d; reflexivity.
Qed.

Lemma NoDup_snoc {A} (l : list A) x : NoDup l -> ~ In x l -> NoDup (l ++ [x]).
Proof.
  induction l as [|a l IH]; simpl; intros Hn Hx.
  - constructor; [intros []|constructor].
  - inversion Hn as [|? ? Ha Hn']. subst. constructor.
    + rewrite in_app_iff. simpl. intros [H|[H|[]]]; [exact (Ha H)|]. apply Hx. left. symmetry. exact H.
    + apply IH; [exact Hn'|]. intros H. apply Hx. right. exact H.
Qed.

Lemma good_nil : good [].
Proof. repeat split; [intros k d []|intros d []|constructor]. Qed.

(* ------------------------------------------------------------------ one step of _reduce_storages *)
Lemma step_add acc d :
  good acc -> 0 <= size d ->
  exists acc', reduce_step st_add acc d = Ok acc' /\ good acc' /\
    (forall x, tot acc' x = tot acc x + (if String.eqb (mount d) x then size d else 0)) /\
    (forall x, In x (keys acc') <-> In x (keys acc) \/ x = mount d).
Proof.
  intros (Hk & Hn & Hd) Hs. unfold reduce_step.
  destruct (lookup (mount d) acc) as [cur|] eqn:El.
  - pose proof (lookup_some_in _ _ _ El) as Hin.
    assert (Em : mount d = mount cur) by (apply Hk in Hin; exact Hin).
    assert (Hc : 0 <= size cur) by (apply Hn; unfold values; change cur with (snd (mount d, cur)); apply in_map; exact Hin).
    unfold st_add. rewrite <- Em. rewrite String.eqb_refl. simpl.
    unfold new_storage. destruct (Z.ltb_spec (size cur + size d) 0); [lia|]. simpl.
    eexists. split; [reflexivity|]. split; [|split].
    + repeat split.
      * apply keyed_replace; [exact Hk|reflexivity].
      * apply nonneg_replace; [exact Hn|simpl; lia].
      * rewrite keys_replace. exact Hd.
    + intros x. rewrite (tot_replace _ _ _ cur) by exact El. simpl. rewrite <- Em.
      destruct (String.eqb (mount d) x); lia.
    + intros x. rewrite keys_replace. split; [auto|]. intros [Hx|Hx]; [exact Hx|].
      subst. unfold keys. change (mount d) with (fst (mount d, cur)). apply in_map. exact Hin.
  - rewrite new_storage_id by exact Hs. simpl. eexists. split; [reflexivity|]. split; [|split].
    + repeat split.
      * apply keyed_app; [exact Hk|]. intros k d' [Hi|[]]. inversion Hi. reflexivity.
      * rewrite values_app. intros d' Hi. apply in_app_or in Hi. destruct Hi as [Hi|[Hi|[]]]; [apply Hn; exact Hi|subst; exact Hs].
      * rewrite keys_app. simpl.
        apply NoDup_snoc; [exact Hd|]. apply lookup_none_notin. exact El.
    + intros x. unfold tot. rewrite values_app, total_app. simpl. lia.
    + intros x. rewrite keys_app, in_app_iff. simpl. intuition.
Qed.

Lemma step_sub acc d :
  good acc -> 0 <= size d -> In (mount d) (keys acc) -> size d <= tot acc (mount d) ->
  exists acc', reduce_step st_sub acc d = Ok acc' /\ good acc' /\
    (forall x, tot acc' x = tot acc x - (if String.eqb (mount d) x then size d else 0)) /\
    keys acc' = keys acc.
Proof.
  intros (Hk & Hn & Hd) Hs Hi Hle. unfold reduce_step.
  destruct (lookup_in_some _ _ Hi) as [cur El]. rewrite El.
  pose proof (lookup_some_in _ _ _ El) as Hin.
  assert (Em : mount d = mount cur) by (apply Hk in Hin; exact Hin).
  assert (Hc : size cur = tot acc (mount d)).
  { rewrite Em. apply in_values_size; [exact Hk|exact Hd|].
    unfold values. change cur with (snd (mount d, cur)). apply in_map. exact Hin. }
  unfold st_sub. rewrite <- Em. rewrite String.eqb_refl. simpl.
  unfold new_storage. destruct (Z.ltb_spec (size cur - size d) 0); [lia|]. simpl.
  eexists. split; [reflexivity|]. split; [|split].
  - repeat split.
    + apply keyed_replace; [exact Hk|reflexivity].
    + apply nonneg_replace; [exact Hn|simpl; lia].
    + rewrite keys_replace. exact Hd.
  - intros x. rewrite (tot_replace _ _ _ cur) by exact El. simpl. rewrite <- Em.
    destruct (String.eqb (mount d) x); lia.
  - apply keys_replace.
Qed.

(* ------------------------------------------------------------------ whole reductions *)
Lemma reduce_from_app op acc l1 l2 :
  reduce_from op acc (l1 ++ l2) = (acc' <- reduce_from op acc l1 ;; reduce_from op acc' l2).
Proof.
  revert acc. induction l1 as [|d l1 IH]; simpl; intros acc; [reflexivity|].
  destruct (reduce_step op acc d); simpl; [apply IH|reflexivity].
Qed.

Lemma nonneg_cons d l : nonneg (d :: l) <-> 0 <= size d /\ nonneg l.
Proof.
  split.
  - intros H. split; [apply H; left; reflexivity|]. intros d' Hd. apply H. right. exact Hd.
  - intros [H1 H2] d' [Hd|Hd]; [subst; exact H1|apply H2; exact Hd].
Qed.

Lemma nonneg_app a b : nonneg a -> nonneg b -> nonneg (a ++ b).
Proof. intros Ha Hb d Hi. apply in_app_or in Hi. destruct Hi; [apply Ha|apply Hb]; assumption. Qed.

Lemma reduce_add_spec l : forall acc,
  good acc -> nonneg l ->
  exists r, reduce_from st_add acc l = Ok r /\ good r /\
    (forall x, tot r x = tot acc x + total l x) /\
    (forall x, In x (keys r) <-> In x (keys acc) \/ In x (map mount l)).
Proof.
  induction l as [|d l IH]; intros acc Hg Hn.
  - exists acc. simpl. split; [reflexivity|]. split; [exact Hg|]. split; [intros; lia|]. intuition.
  - apply nonneg_cons in Hn. destruct Hn as [Hs Hn].
    destruct (step_add acc d Hg Hs) as (acc' & E & Hg' & Ht & Hk).
    destruct (IH acc' Hg' Hn) as (r & Er & Hgr & Htr & Hkr).
    exists r. simpl. rewrite E. simpl. split; [exact Er|]. split; [exact Hgr|]. split.
    + intros x. rewrite Htr, Ht. lia.
    + intros x. rewrite Hkr, Hk. simpl. intuition.
Qed.

Lemma reduce_sub_spec l : forall acc,
  good acc -> nonneg l ->
  (forall x, In x (map mount l) -> In x (keys acc)) ->
  (forall x, total l x <= tot acc x) ->
  exists r, reduce_from st_sub acc l = Ok r /\ good r /\
    (forall x, tot r x = tot acc x - total l x) /\ keys r = keys acc.
Proof.
  induction l as [|d l IH]; intros acc Hg Hn Hin Hle.
  - exists acc. simpl. split; [reflexivity|]. split; [exact Hg|]. split; [intros; lia|reflexivity].
  - apply nonneg_cons in Hn. destruct Hn as [Hs Hn].
    assert (Hd : size d <= tot acc (mount d)).
    { specialize (Hle (mount d)). simpl in Hle. rewrite String.eqb_refl in Hle.
      pose proof (total_nonneg l (mount d) Hn). lia. }
    destruct (step_sub acc d Hg Hs (Hin _ (or_introl eq_refl)) Hd) as (acc' & E & Hg' & Ht & Hk).
    destruct (IH acc' Hg' Hn) as (r & Er & Hgr & Htr & Hkr).
    { intros x Hx. rewrite Hk. apply Hin. right. exact Hx. }
    { intros x. rewrite Ht. specialize (Hle x). simpl in Hle. lia. }
    exists r. simpl. rewrite E. simpl. split; [exact Er|]. split; [exact Hgr|]. split.
    + intros x. rewrite Htr, Ht. lia.
    + congruence.
Qed.

(* reducing storages whose mount points are pairwise distinct and new only copies them, whatever the operator *)
Lemma reduce_fresh op l : forall acc,
  nonneg l -> NoDup (map mount l) -> (forall x, In x (map mount l) -> ~ In x (keys acc)) ->
  reduce_from op acc l = Ok (acc ++ map (fun d => (mount d, d)) l).
Proof.
  induction l as [|d l IH]; intros acc Hn Hd Hf; simpl.
  - rewrite app_nil_r. reflexivity.
  - apply nonneg_cons in Hn. destruct Hn as [Hs Hn]. inversion Hd as [|? ? Hni Hd']. subst.
    unfold reduce_step.
    destruct (lookup (mount d) acc) eqn:El.
    + exfalso. apply (Hf (mount d)); [left; reflexivity|].
      apply lookup_some_in in El. unfold keys. change (mount d) with (fst (mount d, s)). apply in_map. exact El.
    + rewrite new_storage_id by exact Hs. simpl. rewrite IH; [|exact Hn|exact Hd'|].
      * rewrite <- app_assoc. reflexivity.
      * intros x Hx. rewrite keys_app, in_app_iff. simpl. intros [H|[H|[]]].
        -- exact (Hf x (or_intror Hx) H).
        -- subst. exact (Hni Hx).
Qed.

(* ------------------------------------------------------------------ Hardware level *)
Lemma normalize_spec a :
  nonneg (values (stor a)) ->
  exists n, normalize_storage a = Ok n /\ good n /\
    (forall x, tot n x = size_at a x) /\ (forall x, In x (keys n) <-> In x (mounts a)).
Proof.
  intros Hn. destruct (reduce_add_spec (values (stor a)) [] good_nil Hn) as (n & E & Hg & Ht & Hk).
  exists n. split; [exact E|]. split; [exact Hg|]. split.
  - intros x. rewrite Ht. unfold tot, size_at. simpl. lia.
  - intros x. rewrite Hk. simpl. unfold mounts. intuition.
Qed.

Lemma good_self_reduce op n : good n -> reduce_from op [] (values n) = Ok n.
Proof.
  intros (Hk & Hn & Hd). rewrite reduce_fresh.
  - simpl. rewrite keyed_rebuild by exact Hk. reflexivity.
  - exact Hn.
  - rewrite keyed_mounts by exact Hk. exact Hd.
  - intros x _ [].
Qed.

Lemma new_hw_nonempty c m s : s <> [] -> new_hw c m s = mkhw c m s.
Proof. unfold new_hw. destruct s; [congruence|reflexivity]. Qed.

Lemma keys_nonempty {K V} (m : list (K * V)) : m <> [] <-> keys m <> [].
Proof. destruct m; simpl; split; congruence. Qed.

Lemma nonempty_in {A} (l : list A) : l <> [] <-> exists x, In x l.
Proof.
  destruct l as [|a l]; split.
  - congruence.
  - intros [x []].
  - intros _. exists a. left. reflexivity.
  - intros _. discriminate.
Qed.

Lemma good_is_normalized c m n : good n -> is_normalized (mkhw c m n) = true.
Proof.
  intros (Hk & _ & _). unfold is_normalized. simpl. apply forallb_forall. intros [k d] Hi. simpl.
  apply Hk in Hi. subst. apply String.eqb_refl.
Qed.

Lemma good_mounts c m n : good n -> mounts (mkhw c m n) = keys n.
Proof. intros (Hk & _ & _). unfold mounts. simpl. apply keyed_mounts. exact Hk. Qed.

Lemma mounts_nonempty a : stor a <> [] -> exists x, In x (mounts a).
Proof.
  unfold mounts, values. destruct (stor a) as [|[k d] s]; [congruence|]. intros _. exists (mount d). left. reflexivity.
Qed.

(* a + b : always defined on Python-constructible values; per-mount totals add up *)
Lemma hw_add_spec a b :
  wf a -> wf b ->
  exists r, hw_add a b = Ok r /\ wf r /\ is_normalized r = true /\ NoDup (mounts r) /\
    cores r = cores a + cores b /\ mem r = mem a + mem b /\
    (forall x, size_at r x = size_at a x + size_at b x) /\
    (forall x, In x (mounts r) <-> In x (mounts a) \/ In x (mounts b)).
Proof.
  intros [Hea Hna] [Heb Hnb].
  destruct (normalize_spec a Hna) as (na & Ea & Hga & Hta & Hka).
  destruct (normalize_spec b Hnb) as (nb & Eb & Hgb & Htb & Hkb).
  unfold hw_add. rewrite Ea, Eb. simpl.
  destruct (reduce_add_spec (values na ++ values nb) [] good_nil) as (r & E & Hg & Ht & Hk).
  { apply nonneg_app; [apply Hga|apply Hgb]. }
  unfold reduce_storages. rewrite E. simpl.
  assert (Hkr : forall x, In x (keys r) <-> In x (mounts a) \/ In x (mounts b)).
  { intros x. rewrite Hk. rewrite map_app, in_app_iff.
    rewrite (keyed_mounts na) by apply Hga. rewrite (keyed_mounts nb) by apply Hgb.
    rewrite Hka, Hkb. simpl. intuition. }
  assert (Hne : r <> []).
  { apply keys_nonempty. apply nonempty_in. destruct (mounts_nonempty a Hea) as [x Hx].
    exists x. apply Hkr. left. exact Hx. }
  rewrite new_hw_nonempty by exact Hne.
  eexists. split; [reflexivity|]. split; [split; [exact Hne|apply Hg]|].
  split; [apply good_is_normalized; exact Hg|]. rewrite good_mounts by exact Hg.
  split; [apply Hg|]. split; [reflexivity|]. split; [reflexivity|]. split; [|exact Hkr].
  intros x. unfold size_at at 1. simpl. fold (tot r x). rewrite Ht, total_app.
  fold (tot na x). fold (tot nb x). rewrite Hta, Htb. unfold tot. simpl. lia.
Qed.

(* x - b when every mount of b is in x and b fits: defined, per-mount totals subtract *)
Lemma hw_sub_spec x b :
  wf x -> wf b ->
  (forall m, In m (mounts b) -> In m (mounts x)) ->
  (forall m, size_at b m <= size_at x m) ->
  exists r, hw_sub x b = Ok r /\ wf r /\ is_normalized r = true /\ NoDup (mounts r) /\
    cores r = cores x - cores b /\ mem r = mem x - mem b /\
    (forall m, size_at r m = size_at x m - size_at b m) /\
    (forall m, In m (mounts r) <-> In m (mounts x)).
Proof.
  intros [Hex Hnx] [Heb Hnb] Hsub Hle.
  destruct (normalize_spec x Hnx) as (nx & Ex & Hgx & Htx & Hkx).
  destruct (normalize_spec b Hnb) as (nb & Eb & Hgb & Htb & Hkb).
  unfold hw_sub. rewrite Ex, Eb. simpl.
  unfold reduce_storages. rewrite reduce_from_app. rewrite (good_self_reduce _ nx Hgx). simpl.
  destruct (reduce_sub_spec (values nb) nx Hgx) as (r & E & Hg & Ht & Hk).
  { apply Hgb. }
  { intros m. rewrite (keyed_mounts nb) by apply Hgb. rewrite Hkb, Hkx. apply Hsub. }
  { intros m. fold (tot nb m). rewrite Htb, Htx. apply Hle. }
  rewrite E. simpl.
  assert (Hne : r <> []).
  { apply keys_nonempty. rewrite Hk. apply nonempty_in. destruct (mounts_nonempty x Hex) as [m Hm].
    exists m. apply Hkx. exact Hm. }
  rewrite new_hw_nonempty by exact Hne.
  eexists. split; [reflexivity|]. split; [split; [exact Hne|apply Hg]|].
  split; [apply good_is_normalized; exact Hg|]. rewrite good_mounts by exact Hg.
  split; [apply Hg|]. split; [reflexivity|]. split; [reflexivity|]. split.
  - intros m. unfold size_at at 1. simpl. fold (tot r m). rewrite Ht. fold (tot nb m). rewrite Htx, Htb. reflexivity.
  - intros m. rewrite Hk. apply Hkx.
Qed.

(* ------------------------------------------------------------------ C14 *)
Theorem add_sub a b :
  wf a -> wf b ->
  exists s r, hw_add a b = Ok s /\ hw_sub s b = Ok r /\
    cores r = cores a /\ mem r = mem a /\ forall m, size_at r m = size_at a m.
Proof.
  intros Ha Hb.
  destruct (hw_add_spec a b Ha Hb) as (s & Es & Hws & _ & _ & Hc & Hm & Hsz & Hmt).
  destruct (hw_sub_spec s b Hws Hb) as (r & Er & _ & _ & _ & Hc' & Hm' & Hsz' & _).
  { intros m Hi. apply Hmt. right. exact Hi. }
  { intros m. rewrite Hsz. destruct Ha as [_ Ha]. pose proof (total_nonneg _ m Ha). unfold size_at. lia. }
  exists s, r. split; [exact Es|]. split; [exact Er|]. split; [lia|]. split; [lia|].
  intros m. rewrite Hsz', Hsz. lia.
Qed.

Theorem norm_spec a :
  wf a ->
  exists n, normalized a = Ok n /\ wf n /\ is_normalized n = true /\ NoDup (mounts n) /\
    normalized n = Ok n /\
    cores n = cores a /\ mem n = mem a /\
    (forall m, size_at n m = size_at a m) /\ (forall m, In m (mounts n) <-> In m (mounts a)).
Proof.
  intros [He Hn]. destruct (normalize_spec a Hn) as (n & E & Hg & Ht & Hk).
  unfold normalized. rewrite E. simpl.
  assert (Hne : n <> []).
  { apply keys_nonempty. apply nonempty_in. destruct (mounts_nonempty a He) as [m Hm]. exists m. apply Hk. exact Hm. }
  rewrite new_hw_nonempty by exact Hne.
  eexists. split; [reflexivity|]. split; [split; [exact Hne|apply Hg]|].
  split; [apply good_is_normalized; exact Hg|]. rewrite good_mounts by exact Hg.
  split; [apply Hg|]. split.
  - unfold normalize_storage, reduce_storages. simpl. rewrite (good_self_reduce _ n Hg). simpl.
    rewrite new_hw_nonempty by exact Hne. reflexivity.
  - split; [reflexivity|]. split; [reflexivity|]. split; [|exact Hk].
    intros m. unfold size_at at 1. simpl. apply Ht.
Qed.

Lemma existsb_false_forall {A} (f : A -> bool) l : existsb f l = false <-> forall x, In x l -> f x = false.
Proof.
  induction l as [|a l IH]; simpl.
  - split; [intros _ x []|reflexivity].
  - rewrite orb_false_iff, IH. split.
    + intros [H1 H2] x [Hx|Hx]; [subst; exact H1|apply H2; exact Hx].
    + intros H. split; [apply H; left; reflexivity|]. intros x Hx. apply H. right. exact Hx.
Qed.

Theorem satisfies_spec c r :
  wf c -> wf r ->
  ((forall m, In m (mounts r) -> In m (mounts c)) ->
     exists b, satisfies c r = Ok b /\
       (b = true <-> cores r <= cores c /\ mem r <= mem c /\ forall m, In m (mounts r) -> size_at r m <= size_at c m))
  /\
  ((exists m, In m (mounts r) /\ ~ In m (mounts c)) ->
     satisfies c r = if (cores r <=? cores c) && (mem r <=? mem c) then Err MissingMount else Ok false).
Proof.
  intros [_ Hnc] [_ Hnr].
  destruct (normalize_spec c Hnc) as (nc & Ec & Hgc & Htc & Hkc).
  destruct (normalize_spec r Hnr) as (nr & Er & Hgr & Htr & Hkr).
  unfold satisfies. rewrite Ec, Er. simpl. split.
  - intros Hsub.
    destruct ((cores r <=? cores c) && (mem r <=? mem c)) eqn:Ecm.
    + assert (Hex : existsb (fun k => negb (mem_str k (keys nc))) (keys nr) = false).
      { apply existsb_false_forall. intros k Hk. apply negb_false_iff. apply mem_str_in.
        apply Hkc. apply Hsub. apply Hkr. exact Hk. }
      rewrite Hex. eexists. split; [reflexivity|].
      apply andb_true_iff in Ecm. destruct Ecm as [E1 E2]. apply Z.leb_le in E1. apply Z.leb_le in E2.
      rewrite forallb_forall. split.
      * intros H. split; [exact E1|]. split; [exact E2|]. intros m Hm.
        apply Hkr in Hm. rewrite <- (keyed_mounts nr) in Hm by apply Hgr.
        apply in_map_iff in Hm. destruct Hm as (d & Emd & Hd). specialize (H d Hd).
        apply Z.leb_le in H. rewrite size_in_tot in H by apply Hgc.
        rewrite (in_values_size nr d) in H by (try apply Hgr; exact Hd).
        rewrite Emd, Htr, Htc in H. exact H.
      * intros (_ & _ & H) d Hd. apply Z.leb_le. rewrite size_in_tot by apply Hgc.
        rewrite (in_values_size nr d) by (try apply Hgr; exact Hd). rewrite Htr, Htc. apply H.
        apply Hkr. rewrite <- (keyed_mounts nr) by apply Hgr. apply in_map. exact Hd.
    + exists false. split; [reflexivity|]. split; [discriminate|]. intros (H1 & H2 & _).
      apply andb_false_iff in Ecm. destruct Ecm as [E|E]; apply Z.leb_gt in E; lia.
  - intros (m & Hm & Hnm).
    destruct ((cores r <=? cores c) && (mem r <=? mem c)); [|reflexivity].
    assert (Hex : existsb (fun k => negb (mem_str k (keys nc))) (keys nr) = true).
    { apply existsb_exists. exists m. split; [apply Hkr; exact Hm|].
      apply negb_true_iff. destruct (mem_str m (keys nc)) eqn:E; [|reflexivity].
      exfalso. apply Hnm. apply Hkc. apply mem_str_in. exact E. }
    rewrite Hex. reflexivity.
Qed.

Theorem norm_idem a : wf a ->
  exists n, normalized a = Ok n /\ normalized n = Ok n /\ is_normalized n = true.
Proof.
  intros H. destruct (norm_spec a H) as (n & E & _ & Hi & _ & Hn & _). exists n. auto.
Qed.
