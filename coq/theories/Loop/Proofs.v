(* Loop/Proofs.v — lemmas about Loop/Model.v (statements of the property are in Props/C06.v). *)
From Coq Require Import List Ascii Bool Arith NArith ZArith Lia Permutation Sorting.Sorted.
From SF Require Import Base.Str Base.Dec Tags.Model Tags.Proofs Gather.Model Gather.Util Gather.Proofs Loop.Model.
Import ListNotations.
Local Open Scope string_scope. Local Open Scope list_scope.

(* ------------------------------------------------------------------ tags *)
Lemma last_num_render t i : t <> [] -> last_num (render (t ++ [i])) = i.
Proof.
  intros Ht. unfold last_num. rewrite split_render by (destruct t; discriminate).
  rewrite map_app. simpl. rewrite last_last. rewrite undec_dec. reflexivity.
Qed.

Lemma render_nonempty t : t <> [] -> render t <> "".
Proof.
  intros Ht E. assert (H : split_on "." (render t) = map dec t) by (apply split_render; exact Ht).
  rewrite E in H. simpl in H. destruct t as [|x [|y t]]; simpl in H; try congruence.
  injection H as H. symmetry in H. exact (dec_nonempty x H).
Qed.

(* ------------------------------------------------------------------ sorting by last component *)
Definition lle (x y : tok) : Prop := (last_num (tag_of x) <= last_num (tag_of y))%N.

Lemma insert_last_perm x l : Permutation (insert_last x l) (x :: l).
Proof.
  induction l as [|y l IH]; simpl; auto.
  destruct (last_num (tag_of x) <=? last_num (tag_of y))%N; auto.
  rewrite IH. apply perm_swap.
Qed.
Lemma sort_last_perm l : Permutation (sort_last l) l.
Proof. induction l as [|x l IH]; simpl; auto. rewrite insert_last_perm. auto. Qed.

Lemma insert_last_sorted x l : Sorted lle l -> Sorted lle (insert_last x l).
Proof.
  induction l as [|y l IH]; simpl; intros Hs.
  - constructor; constructor.
  - destruct (N.leb_spec (last_num (tag_of x)) (last_num (tag_of y))) as [L|L].
    + constructor; auto.
    + inversion Hs as [|? ? Hs' Hhd]; subst.
      constructor; auto.
      destruct l as [|z l]; simpl.
      * constructor. unfold lle. lia.
      * destruct (last_num (tag_of x) <=? last_num (tag_of z))%N; constructor; unfold lle; try lia.
        inversion Hhd; subst. assumption.
Qed.
Lemma sort_last_sorted l : Sorted lle (sort_last l).
Proof. induction l as [|x l IH]; simpl; [constructor|apply insert_last_sorted; exact IH]. Qed.

Lemma tags_from_last_nums t k es :
  t <> [] -> tags_from t k es -> map (fun x => last_num (tag_of x)) es = map N.of_nat (seq k (length es)).
Proof.
  intros Ht H. unfold tags_from in H.
  rewrite <- (map_map tag_of last_num), H, map_map.
  apply map_ext. intros i. apply last_num_render. exact Ht.
Qed.

Lemma tags_from_lsorted t k es : t <> [] -> tags_from t k es -> Sorted lle es.
Proof.
  intros Ht. revert k. induction es as [|e es IH]; intros k H; [constructor|].
  pose proof (tags_from_last_nums t k (e :: es) Ht H) as L. simpl in L. injection L as L1 L2.
  assert (H' : tags_from t (S k) es).
  { unfold tags_from in *. simpl in H. injection H as _ H. exact H. }
  constructor; [eapply IH; exact H'|].
  destruct es as [|e' es]; constructor. simpl in L2. injection L2 as L2 _.
  unfold lle. rewrite L1, L2. lia.
Qed.

Lemma sort_last_canonical t es p :
  t <> [] -> elems_ok t es -> Permutation p es -> sort_last p = es.
Proof.
  intros Ht Hok Hp.
  apply (sorted_perm_unique lle).
  - unfold lle. intros x y z; lia.
  - intros x y Hx Hy L1 L2. unfold lle in *.
    assert (Hin : forall z, In z (sort_last p) -> In z es).
    { intros z Hz. eapply Permutation_in; [|exact Hz]. rewrite sort_last_perm. exact Hp. }
    apply (NoDup_map_inj_in (fun x => last_num (tag_of x)) es x y); auto; [|lia].
    rewrite (tags_from_last_nums t 0 es Ht Hok).
    apply FinFun.Injective_map_NoDup; [|apply seq_NoDup].
    intros a b E. apply Nat2N.inj in E. exact E.
  - rewrite sort_last_perm. exact Hp.
  - apply sort_last_sorted.
  - eapply tags_from_lsorted; eauto.
Qed.

(* ------------------------------------------------------------------ projection on one loop instance *)
Definition odef {A} (d : A) (o : option A) : A := match o with Some x => x | None => d end.
Definition pout (pol : policy) (p : string) (o : option (list tok)) : tok :=
  match pol with
  | OutAll => ListTok p (sort_last (odef [] o))
  | OutLast => retag (last (sort_last (odef [null_tok] o)) null_tok) p
  end.
Lemma process_output_pout pol tm p : process_output pol tm p = pout pol p (aget p tm).
Proof. unfold process_output, pout, aget_def, odef. destruct pol; reflexivity. Qed.
Lemma tag_of_pout pol p o : tag_of (pout pol p o) = p.
Proof. destruct pol; simpl; [reflexivity|apply tag_of_retag]. Qed.

Record lview := { wsize : option N; wtoks : option (list tok); wout : list tok }.
Definition lview_of (p : string) (s : lstate) : lview :=
  {| wsize := aget p (lsize_map s); wtoks := aget p (ltoken_map s); wout := filter (has_tag p) (lout s) |}.
Definition lprefix (a : larr) : option string :=
  match a with
  | LTok x => Some (drop_last_s 1 (tag_of x))
  | LIter tg => Some (drop_last_s 1 tg)
  | LTerm _ => None
  end.
Definition has_prefix (p : string) (a : larr) : bool :=
  match lprefix a with Some p' => String.eqb p' p | None => false end.
Definition wcomplete (w : lview) : bool :=
  match wsize w with Some n => (N.of_nat (length (odef [] (wtoks w))) =? n)%N | None => false end.
Definition wemit (pol : policy) (p : string) (w : lview) : lview :=
  if wcomplete w then {| wsize := wsize w; wtoks := wtoks w; wout := wout w ++ [pout pol p (wtoks w)] |} else w.
Definition wstep (pol : policy) (p : string) (w : lview) (a : larr) : lview :=
  match a with
  | LIter tg => wemit pol p {| wsize := Some (last_num tg); wtoks := wtoks w; wout := wout w |}
  | LTok x => wemit pol p {| wsize := wsize w; wtoks := Some (odef [] (wtoks w) ++ [x]); wout := wout w |}
  | LTerm _ => w
  end.

(* states before the first termination token *)
Definition running (s : lstate) : Prop := lterm_map s = [] /\ lfinal s = None /\ lstatus s = Skipped.

Lemma emit_and_exit_running pol p s :
  lterm_map s = [] -> lfinal s = None ->
  emit_and_exit pol p s =
  if complete (ltoken_map s) (lsize_map s) p
  then {| ltoken_map := ltoken_map s; lsize_map := lsize_map s; lterm_map := []; lstatus := lstatus s;
          lout := lout s ++ [process_output pol (ltoken_map s) p]; lfinal := None |}
  else s.
Proof.
  intros Ht Hf. unfold emit_and_exit.
  destruct (complete (ltoken_map s) (lsize_map s) p); simpl; rewrite Ht; reflexivity.
Qed.

Lemma running_step pol s a : running s -> lprefix a <> None -> running (loop_step pol s a).
Proof.
  intros (Ht & Hf & Hs) Ha. unfold loop_step. rewrite Hf.
  destruct a as [x|tg|st]; [| |exfalso; apply Ha; reflexivity]; rewrite emit_and_exit_running by (simpl; auto); simpl;
    match goal with |- context [if ?c then _ else _] => destruct c end; repeat split; simpl; assumption.
Qed.

Lemma complete_view p s : complete (ltoken_map s) (lsize_map s) p = wcomplete (lview_of p s).
Proof. reflexivity. Qed.

Lemma view_step_same pol p s a :
  running s -> lprefix a = Some p -> lview_of p (loop_step pol s a) = wstep pol p (lview_of p s) a.
Proof.
  intros (Ht & Hf & Hs) Ha. unfold loop_step. rewrite Hf.
  destruct a as [x|tg|st]; simpl in Ha; [| |discriminate]; injection Ha as Ha;
    rewrite Ha; rewrite emit_and_exit_running by (simpl; auto); simpl.
  - unfold wemit, wcomplete, complete. simpl.
    assert (E1 : aget_def [] p (aset p (aget_def [] p (ltoken_map s) ++ [x]) (ltoken_map s))
                 = odef [] (aget p (ltoken_map s)) ++ [x]).
    { unfold aget_def at 1. rewrite aget_aset_same. reflexivity. }
    rewrite E1.
    change (aget_def [] p (ltoken_map s)) with (odef [] (aget p (ltoken_map s))).
    destruct (aget p (lsize_map s)) as [n|] eqn:Es.
    + destruct (N.of_nat (length (odef [] (aget p (ltoken_map s)) ++ [x])) =? n)%N.
      * unfold lview_of; simpl. rewrite Es, aget_aset_same, filter_app. simpl.
        rewrite process_output_pout, aget_aset_same. unfold has_tag at 2. rewrite tag_of_pout, String.eqb_refl.
        reflexivity.
      * unfold lview_of; simpl. rewrite Es, aget_aset_same. reflexivity.
    + unfold lview_of; simpl. rewrite Es, aget_aset_same. reflexivity.
  - unfold wemit, wcomplete, complete. simpl. rewrite aget_aset_same.
    change (aget_def [] p (ltoken_map s)) with (odef [] (aget p (ltoken_map s))).
    destruct (N.of_nat (length (odef [] (aget p (ltoken_map s)))) =? last_num tg)%N.
    + unfold lview_of; simpl. rewrite aget_aset_same, filter_app. simpl.
      rewrite process_output_pout. unfold has_tag at 2. rewrite tag_of_pout, String.eqb_refl. reflexivity.
    + unfold lview_of; simpl. rewrite aget_aset_same. reflexivity.
Qed.

Lemma lview_emit_other pol p q s' :
  p <> q ->
  lview_of p {| ltoken_map := ltoken_map s'; lsize_map := lsize_map s'; lterm_map := []; lstatus := lstatus s';
                lout := lout s' ++ [process_output pol (ltoken_map s') q]; lfinal := None |} = lview_of p s'.
Proof.
  intros Hne. unfold lview_of; simpl. f_equal. rewrite filter_app. simpl.
  rewrite process_output_pout. unfold has_tag at 2. rewrite tag_of_pout.
  destruct (String.eqb_spec q p); [congruence|]. apply app_nil_r.
Qed.

Lemma view_step_other pol p s a :
  running s -> lprefix a <> Some p -> lprefix a <> None -> lview_of p (loop_step pol s a) = lview_of p s.
Proof.
  intros (Ht & Hf & Hs) Ha Hn. unfold loop_step. rewrite Hf.
  destruct a as [x|tg|st]; simpl in Ha; [| |exfalso; apply Hn; reflexivity];
    rewrite emit_and_exit_running by (simpl; auto).
  - set (q := drop_last_s 1 (tag_of x)) in *. assert (Hne : p <> q) by congruence.
    set (s' := {| ltoken_map := aset q (aget_def [] q (ltoken_map s) ++ [x]) (ltoken_map s);
                  lsize_map := lsize_map s; lterm_map := lterm_map s; lstatus := lstatus s;
                  lout := lout s; lfinal := None |}).
    assert (Hv : lview_of p s' = lview_of p s).
    { unfold lview_of; simpl. rewrite aget_aset_other by assumption. reflexivity. }
    destruct (complete (ltoken_map s') (lsize_map s') q); [|exact Hv].
    rewrite <- Hv. apply (lview_emit_other pol p q s' Hne).
  - set (q := drop_last_s 1 tg) in *. assert (Hne : p <> q) by congruence.
    set (s' := {| ltoken_map := ltoken_map s; lsize_map := aset q (last_num tg) (lsize_map s);
                  lterm_map := lterm_map s; lstatus := lstatus s; lout := lout s; lfinal := None |}).
    assert (Hv : lview_of p s' = lview_of p s).
    { unfold lview_of; simpl. rewrite aget_aset_other by assumption. reflexivity. }
    destruct (complete (ltoken_map s') (lsize_map s') q); [|exact Hv].
    rewrite <- Hv. apply (lview_emit_other pol p q s' Hne).
Qed.

Definition no_term (l : list larr) : Prop := forall a, In a l -> lprefix a <> None.

Lemma running_fold pol l : forall s, running s -> no_term l -> running (fold_left (loop_step pol) l s).
Proof.
  induction l as [|a l IH]; intros s Hr Hn; simpl; [exact Hr|].
  apply IH; [apply running_step; [exact Hr|apply Hn; left; reflexivity]|].
  intros b Hb. apply Hn. right. exact Hb.
Qed.

Lemma view_fold pol p l : forall s, running s -> no_term l ->
  lview_of p (fold_left (loop_step pol) l s) = fold_left (wstep pol p) (filter (has_prefix p) l) (lview_of p s).
Proof.
  induction l as [|a l IH]; intros s Hr Hn; simpl; [reflexivity|].
  assert (Ha : lprefix a <> None) by (apply Hn; left; reflexivity).
  assert (Hn' : no_term l) by (intros b Hb; apply Hn; right; exact Hb).
  rewrite IH by (auto using running_step). unfold has_prefix at 2.
  destruct (lprefix a) as [p'|] eqn:E; [|congruence].
  destruct (String.eqb_spec p' p).
  - subst p'. simpl. rewrite (view_step_same pol p s a Hr E). reflexivity.
  - rewrite view_step_other; auto; rewrite E; congruence.
Qed.

(* every output comes from the prefix of some arrival *)
Lemma lout_step pol s a x :
  running s -> lprefix a <> None ->
  In x (lout (loop_step pol s a)) -> In x (lout s) \/ lprefix a = Some (tag_of x).
Proof.
  intros (Ht & Hf & Hs) Hn. unfold loop_step. rewrite Hf.
  destruct a as [y|tg|st]; [| |exfalso; apply Hn; reflexivity];
    rewrite emit_and_exit_running by (simpl; auto); simpl;
    match goal with |- context [if ?c then _ else _] => destruct c end; simpl; auto;
    rewrite in_app_iff; simpl; intros [H|[H|[]]]; auto; subst x;
    rewrite process_output_pout, tag_of_pout; auto.
Qed.
Lemma lout_fold pol l : forall s x, running s -> no_term l ->
  In x (lout (fold_left (loop_step pol) l s)) ->
  In x (lout s) \/ exists a, In a l /\ lprefix a = Some (tag_of x).
Proof.
  induction l as [|a l IH]; intros s x Hr Hn; simpl; auto.
  assert (Ha : lprefix a <> None) by (apply Hn; left; reflexivity).
  assert (Hn' : no_term l) by (intros b Hb; apply Hn; right; exact Hb).
  intros H. destruct (IH _ _ (running_step pol s a Hr Ha) Hn' H) as [H1|(b & Hb & Kb)].
  - destruct (lout_step _ _ _ _ Hr Ha H1); eauto.
  - eauto.
Qed.

(* ------------------------------------------------------------------ one instance: closed form *)
Definition is_iter (a : larr) : bool := match a with LIter _ => true | _ => false end.
Fixpoint lelems (l : list larr) : list tok :=
  match l with [] => [] | LTok x :: l' => x :: lelems l' | _ :: l' => lelems l' end.
Definition has_iter (l : list larr) : bool := existsb is_iter l.
Fixpoint niters (l : list larr) : nat :=
  match l with [] => 0 | a :: l' => (if is_iter a then 1 else 0) + niters l' end.
Definition otoks_of (l : list tok) : option (list tok) := match l with [] => None | _ => Some l end.
Definition winit : lview := {| wsize := None; wtoks := None; wout := [] |}.
Definition wrun (pol : policy) (p : string) (l : list larr) : lview := fold_left (wstep pol p) l winit.

Lemma lelems_app l1 l2 : lelems (l1 ++ l2) = lelems l1 ++ lelems l2.
Proof. induction l1 as [|[x|tg|st] l1 IH]; simpl; auto. f_equal; auto. Qed.
Lemma lelems_map l : lelems (map LTok l) = l.
Proof. induction l as [|x l IH]; simpl; auto. f_equal; auto. Qed.
Lemma lelems_perm l1 l2 : Permutation l1 l2 -> Permutation (lelems l1) (lelems l2).
Proof.
  induction 1; simpl; auto.
  - destruct x; auto.
  - destruct x, y; auto. apply perm_swap.
  - etransitivity; eauto.
Qed.
Lemma niters_perm l1 l2 : Permutation l1 l2 -> niters l1 = niters l2.
Proof. induction 1; simpl; lia. Qed.
Lemma niters_app l1 l2 : niters (l1 ++ l2) = niters l1 + niters l2.
Proof. induction l1; simpl; lia. Qed.
Lemma niters_map l : niters (map LTok l) = 0.
Proof. induction l; simpl; auto. Qed.
Lemma niters_zero l : niters l = 0 -> has_iter l = false.
Proof. unfold has_iter. induction l as [|a l IH]; simpl; auto. destruct (is_iter a); simpl; [lia | auto]. Qed.
Lemma niters_pos l : has_iter l = false -> niters l = 0.
Proof.
  unfold has_iter. induction l as [|a l IH]; simpl; auto.
  intros H. apply orb_false_iff in H. destruct H as [H1 H2]. rewrite H1. simpl. auto.
Qed.
Lemma odef_otoks l : odef [] (otoks_of l) = l.
Proof. destruct l; reflexivity. Qed.
Lemma otoks_snoc l x : Some (l ++ [x]) = otoks_of (l ++ [x]).
Proof. destruct l; reflexivity. Qed.

Section OneInstance.
Variable pol : policy.
Variable p : string.
Variable n : nat.
Definition iters_ok (l : list larr) := forall tg, In (LIter tg) l -> last_num tg = N.of_nat n.
Definition lincomplete (l : list larr) := has_iter l = false \/ length (lelems l) < n.

Lemma wrun_app l a : wrun pol p (l ++ [a]) = wstep pol p (wrun pol p l) a.
Proof. unfold wrun. rewrite fold_left_app. reflexivity. Qed.

Lemma lincomplete_prefix l a : lincomplete (l ++ [a]) -> lincomplete l.
Proof.
  unfold lincomplete, has_iter. rewrite existsb_app, lelems_app, app_length. simpl.
  intros [H|H]; [left | right; lia].
  apply orb_false_iff in H. tauto.
Qed.

Lemma wrun_incomplete l :
  iters_ok l -> (forall st, ~ In (LTerm st) l) -> lincomplete l ->
  wrun pol p l = {| wsize := if has_iter l then Some (N.of_nat n) else None; wtoks := otoks_of (lelems l); wout := [] |}.
Proof.
  induction l as [|a l IH] using rev_ind; intros Hok Hnt Hinc.
  - reflexivity.
  - assert (Hok' : iters_ok l) by (intros tg Hm; eapply Hok; apply in_or_app; left; exact Hm).
    assert (Hnt' : forall st, ~ In (LTerm st) l) by (intros st Hm; eapply Hnt; apply in_or_app; left; exact Hm).
    rewrite wrun_app, (IH Hok' Hnt' (lincomplete_prefix _ _ Hinc)).
    unfold lincomplete in Hinc. unfold has_iter in *. rewrite existsb_app, lelems_app. simpl.
    destruct a as [x|tg|st]; simpl.
    + rewrite !orb_false_r. unfold wemit, wcomplete. simpl. rewrite odef_otoks, <- otoks_snoc.
      destruct (existsb is_iter l) eqn:E; simpl; auto.
      destruct Hinc as [Hinc|Hinc].
      * rewrite existsb_app in Hinc. simpl in Hinc. rewrite E in Hinc. discriminate.
      * rewrite lelems_app in Hinc. simpl in Hinc.
        rewrite neqb_of_nat by lia. reflexivity.
    + assert (Hm : last_num tg = N.of_nat n) by (eapply Hok; apply in_or_app; right; left; reflexivity).
      rewrite orb_true_r, app_nil_r. unfold wemit, wcomplete. simpl. rewrite Hm, odef_otoks.
      destruct Hinc as [Hinc|Hinc].
      * rewrite existsb_app in Hinc. simpl in Hinc. rewrite orb_true_r in Hinc. discriminate.
      * rewrite lelems_app, app_length in Hinc. simpl in Hinc.
        rewrite neqb_of_nat by lia. reflexivity.
    + exfalso. eapply Hnt. apply in_or_app. right. left. reflexivity.
Qed.
End OneInstance.

(* the tokens of one loop instance with prefix t and iterations es = t.0 ... t.(k-1): they, and IterTerm t.k *)
Definition linst_arrivals (t : tag) (es : list tok) : list larr :=
  LIter (render (t ++ [N.of_nat (length es)])) :: map LTok es.

Lemma wrun_complete pol t es l :
  t <> [] -> elems_ok t es ->
  Permutation l (linst_arrivals t es) ->
  wout (wrun pol (render t) l) = [pout pol (render t) (otoks_of es)].
Proof.
  intros Ht Hes Hp. set (n := length es). set (p := render t).
  assert (Hel : Permutation (lelems l) es).
  { rewrite (lelems_perm _ _ Hp). unfold linst_arrivals. simpl. rewrite lelems_map. reflexivity. }
  assert (Hlen : length (lelems l) = n) by (apply Permutation_length; exact Hel).
  assert (Hns : niters l = 1).
  { rewrite (niters_perm _ _ Hp). unfold linst_arrivals. simpl. rewrite niters_map. reflexivity. }
  assert (Hok : iters_ok n l).
  { intros tg Hm. eapply Permutation_in in Hm; [|exact Hp]. destruct Hm as [Hm|Hm].
    - injection Hm as <-. apply last_num_render. exact Ht.
    - apply in_map_iff in Hm. destruct Hm as [q [Hm _]]. discriminate. }
  assert (Hnt : forall st, ~ In (LTerm st) l).
  { intros st Hm. eapply Permutation_in in Hm; [|exact Hp]. destruct Hm as [Hm|Hm]; [discriminate|].
    apply in_map_iff in Hm. destruct Hm as [q [Hm _]]. discriminate. }
  assert (Hsort : forall q, Permutation q es -> sort_last q = es)
    by (intros q Hq; eapply sort_last_canonical; eauto).
  assert (Hpout : forall q, Permutation q es -> pout pol p (otoks_of q) = pout pol p (otoks_of es)).
  { intros q Hq. destruct pol; simpl.
    - rewrite !odef_otoks. rewrite (Hsort q Hq), (Hsort es (Permutation_refl _)). reflexivity.
    - destruct q as [|q0 q]; [apply Permutation_nil in Hq; subst; reflexivity|].
      destruct es as [|e0 es']; [apply Permutation_sym, Permutation_nil in Hq; discriminate|].
      simpl odef. rewrite (Hsort _ Hq), (Hsort _ (Permutation_refl _)). reflexivity. }
  destruct l as [|a0 l0] using rev_ind. { simpl in Hns; lia. }
  clear IHl0. rename l0 into l. rename a0 into a.
  rewrite niters_app in Hns. simpl in Hns.
  rewrite lelems_app, app_length in Hlen.
  assert (Hok' : iters_ok n l) by (intros tg Hm; eapply Hok; apply in_or_app; left; exact Hm).
  assert (Hnt' : forall st, ~ In (LTerm st) l) by (intros st Hm; eapply Hnt; apply in_or_app; left; exact Hm).
  rewrite wrun_app.
  destruct a as [x|tg|st]; simpl in *.
  - assert (Hinc : lincomplete n l) by (right; lia).
    rewrite (wrun_incomplete pol p n l Hok' Hnt' Hinc). simpl.
    assert (Hhs : has_iter l = true).
    { destruct (has_iter l) eqn:E; auto. apply niters_pos in E. lia. }
    rewrite Hhs. unfold wemit, wcomplete. simpl. rewrite odef_otoks, app_length. simpl.
    rewrite Hlen, N.eqb_refl. simpl. f_equal. rewrite otoks_snoc. apply Hpout.
    rewrite lelems_app in Hel. simpl in Hel. exact Hel.
  - assert (Hm : last_num tg = N.of_nat n) by (eapply Hok; apply in_or_app; right; left; reflexivity).
    assert (Hinc : lincomplete n l) by (left; apply niters_zero; lia).
    rewrite (wrun_incomplete pol p n l Hok' Hnt' Hinc). simpl.
    unfold wemit, wcomplete. simpl. rewrite odef_otoks, Hm.
    rewrite Nat.add_0_r in Hlen. rewrite Hlen, N.eqb_refl. simpl. f_equal. apply Hpout.
    rewrite lelems_app in Hel. simpl in Hel. rewrite app_nil_r in Hel. exact Hel.
  - exfalso. eapply Hnt. apply in_or_app. right. left. reflexivity.
Qed.

(* ------------------------------------------------------------------ several loop instances *)
Definition liarr (i : inst) : list larr := linst_arrivals (fst i) (snd i).
Definition all_larr (insts : list inst) : list larr := concat (map liarr insts).
Definition lexpected (pol : policy) (i : inst) : tok :=
  match pol with
  | OutAll => ListTok (ikey i) (snd i)
  | OutLast => retag (last (snd i) null_tok) (ikey i)
  end.

Lemma tag_of_lexpected pol i : tag_of (lexpected pol i) = ikey i.
Proof. destruct pol; simpl; [reflexivity|apply tag_of_retag]. Qed.

Lemma pout_expected pol i : inst_ok i -> pout pol (ikey i) (otoks_of (snd i)) = lexpected pol i.
Proof.
  intros [Ht Hok]. destruct i as [t es]. simpl in *. unfold lexpected, ikey; simpl.
  assert (Hs : sort_last es = es) by (eapply sort_last_canonical; eauto).
  destruct pol; simpl.
  - rewrite odef_otoks, Hs. reflexivity.
  - destruct es as [|e es']; [reflexivity|]. simpl odef. rewrite Hs. reflexivity.
Qed.

Lemma lprefix_liarr i a : inst_ok i -> In a (liarr i) -> lprefix a = Some (ikey i).
Proof.
  intros [Ht Hok] [Ha|Ha].
  - subst a. simpl. unfold ikey. rewrite drop_last_render by assumption. reflexivity.
  - apply in_map_iff in Ha. destruct Ha as (e & <- & He). simpl.
    assert (Hin : In (tag_of e) (map tag_of (snd i))) by (apply in_map; exact He).
    unfold elems_ok, tags_from in Hok. rewrite Hok in Hin.
    apply in_map_iff in Hin. destruct Hin as (j & Ej & _). rewrite <- Ej.
    unfold ikey. rewrite drop_last_render by assumption. reflexivity.
Qed.

Lemma filter_liarr_same i : inst_ok i -> filter (has_prefix (ikey i)) (liarr i) = liarr i.
Proof.
  intros H. apply filter_all. intros a Ha. unfold has_prefix.
  rewrite (lprefix_liarr i a H Ha). apply String.eqb_refl.
Qed.
Lemma filter_liarr_other i k : inst_ok i -> ikey i <> k -> filter (has_prefix k) (liarr i) = [].
Proof.
  intros H Hne. apply filter_none. intros a Ha. unfold has_prefix.
  rewrite (lprefix_liarr i a H Ha). destruct (String.eqb_spec (ikey i) k); [contradiction|reflexivity].
Qed.
Lemma all_larr_cons h t : all_larr (h :: t) = liarr h ++ all_larr t.
Proof. reflexivity. Qed.
Lemma filter_all_larr_none insts k :
  Forall inst_ok insts -> ~ In k (map ikey insts) -> filter (has_prefix k) (all_larr insts) = [].
Proof.
  induction insts as [|h t IH]; intros Hok Hnin; [reflexivity|].
  inversion Hok; subst. rewrite all_larr_cons, filter_app.
  rewrite (filter_liarr_other h k H1).
  - apply IH; auto. intros H. apply Hnin. right. exact H.
  - intros E. apply Hnin. left. exact E.
Qed.
Lemma filter_all_larr insts i :
  Forall inst_ok insts -> NoDup (map ikey insts) -> In i insts ->
  filter (has_prefix (ikey i)) (all_larr insts) = liarr i.
Proof.
  induction insts as [|h t IH]; intros Hok Hnd Hin; [contradiction|].
  inversion Hok; subst. inversion Hnd as [|? ? Hnin Hnd']; subst.
  rewrite all_larr_cons, filter_app. destruct Hin as [->|Hin].
  - rewrite filter_liarr_same by assumption.
    rewrite filter_all_larr_none by assumption. apply app_nil_r.
  - rewrite (filter_liarr_other h (ikey i) H1).
    + apply IH; auto.
    + intros E. apply Hnin. rewrite E. apply in_map. exact Hin.
Qed.
Lemma in_all_larr insts a : In a (all_larr insts) -> exists i, In i insts /\ In a (liarr i).
Proof.
  unfold all_larr. intros H. apply in_concat in H. destruct H as (l & Hl & Ha).
  apply in_map_iff in Hl. destruct Hl as (i & <- & Hi). eauto.
Qed.

Lemma running_linit : running linit.
Proof. repeat split. Qed.

Lemma perm_by_keys_gen (out_of : inst -> tok) insts :
  (forall i, tag_of (out_of i) = ikey i) -> forall g,
  NoDup (map ikey insts) ->
  (forall i, In i insts -> filter (has_tag (ikey i)) g = [out_of i]) ->
  (forall x, In x g -> exists i, In i insts /\ tag_of x = ikey i) ->
  Permutation g (map out_of insts).
Proof.
  intros Htag. induction insts as [|h t IH]; intros g Hnd H1 H2.
  - destruct g as [|x g]; [constructor|]. destruct (H2 x (or_introl eq_refl)) as (i & [] & _).
  - inversion Hnd as [|? ? Hnin Hnd']; subst.
    rewrite (filter_split_perm (has_tag (ikey h)) g).
    rewrite (H1 h (or_introl eq_refl)). simpl. constructor.
    apply IH; auto.
    + intros i Hi. rewrite filter_filter_sub; [apply H1; right; exact Hi|].
      intros x Hx. unfold has_tag in *. apply String.eqb_eq in Hx.
      destruct (String.eqb_spec (tag_of x) (ikey h)) as [E|E]; [|reflexivity].
      exfalso. apply Hnin. rewrite <- E, Hx. apply in_map. exact Hi.
    + intros x Hx. apply filter_In in Hx. destruct Hx as [Hx Hneg].
      destruct (H2 x Hx) as (i & [Hi|Hi] & Ei).
      * subst i. unfold has_tag in Hneg. rewrite Ei, String.eqb_refl in Hneg. discriminate.
      * exists i. split; assumption.
Qed.

Lemma loop_many pol insts arr :
  Forall inst_ok insts -> NoDup (map ikey insts) -> Permutation arr (all_larr insts) ->
  let s := loop_run pol arr in
  running s
  /\ Permutation (lout s) (map (lexpected pol) insts)
  /\ aget "" (lsize_map s) = None /\ aget "" (ltoken_map s) = None.
Proof.
  intros Hok Hnd Hp s.
  assert (Hpre : forall a, In a arr -> exists i, In i insts /\ lprefix a = Some (ikey i)).
  { intros a Ha. eapply Permutation_in in Ha; [|exact Hp].
    destruct (in_all_larr _ _ Ha) as (i & Hi & Hai). exists i. split; auto.
    apply lprefix_liarr; auto. rewrite Forall_forall in Hok. apply Hok. exact Hi. }
  assert (Hnt : no_term arr).
  { intros a Ha. destruct (Hpre a Ha) as (i & _ & E). rewrite E. discriminate. }
  assert (Hr : running s) by (apply running_fold; [apply running_linit|exact Hnt]).
  split; [exact Hr|].
  assert (H1 : forall i, In i insts -> filter (has_tag (ikey i)) (lout s) = [lexpected pol i]).
  { intros i Hi.
    assert (Hi_ok : inst_ok i) by (rewrite Forall_forall in Hok; apply Hok; exact Hi).
    pose proof (view_fold pol (ikey i) arr linit running_linit Hnt) as V. fold (loop_run pol arr) in V. fold s in V.
    assert (Hpi : Permutation (filter (has_prefix (ikey i)) arr) (liarr i)).
    { rewrite <- (filter_all_larr insts i Hok Hnd Hi). apply filter_perm. exact Hp. }
    pose proof (wrun_complete pol (fst i) (snd i) _ (proj1 Hi_ok) (proj2 Hi_ok) Hpi) as W.
    unfold wrun in W. change (lview_of (ikey i) linit) with winit in V. unfold ikey in V at 2. rewrite <- V in W.
    simpl in W. rewrite W. f_equal. apply pout_expected. exact Hi_ok. }
  split.
  - apply (perm_by_keys_gen (lexpected pol)); auto using tag_of_lexpected.
    intros x Hx. destruct (lout_fold pol arr linit x running_linit Hnt Hx) as [[]|(a & Ha & Ka)].
    destruct (Hpre a Ha) as (i & Hi & Ki). exists i. split; auto. congruence.
  - assert (Hempty : filter (has_prefix "") arr = []).
    { apply filter_none. intros a Ha. destruct (Hpre a Ha) as (i & Hi & Ki). unfold has_prefix. rewrite Ki.
      destruct (String.eqb_spec (ikey i) ""); [|reflexivity].
      exfalso. assert (Hi_ok : inst_ok i) by (rewrite Forall_forall in Hok; apply Hok; exact Hi).
      eapply render_nonempty; [exact (proj1 Hi_ok)|exact e]. }
    pose proof (view_fold pol "" arr linit running_linit Hnt) as V. rewrite Hempty in V. simpl in V.
    fold (loop_run pol arr) in V. fold s in V. unfold lview_of in V. injection V as V1 V2 _. split; assumption.
Qed.

Lemma aget_none_keys {V} k (m : list (string * V)) : aget k m = None -> forall kv, In kv m -> fst kv <> k.
Proof.
  induction m as [|[k' v] m IH]; simpl; intros H kv Hin; [contradiction|].
  destruct (String.eqb_spec k k'); [discriminate|].
  destruct Hin as [<-|Hin]; [simpl; congruence|apply IH; assumption].
Qed.

Lemma emit_and_exit_exit pol s :
  complete (ltoken_map s) (lsize_map s) "" = false -> lterm_map s <> [] ->
  forallb (fun kv : string * bool => negb (String.eqb (fst kv) "")) (lterm_map s) = true ->
  emit_and_exit pol "" s = lterminate s.
Proof.
  intros Hc Hne Hall. unfold emit_and_exit. rewrite Hc.
  destruct (lterm_map s) as [|x l] eqn:E; [congruence|]. rewrite Hall. reflexivity.
Qed.

(* the literal exit test: at a termination token the step leaves whenever token_map is non-empty and has no
   empty key (all(self.termination_map) looks at the keys), complete or not *)
Lemma term_exits pol s st :
  lfinal s = None -> aget "" (ltoken_map s) = None -> aget "" (lsize_map s) = None ->
  let s' := loop_step pol s (LTerm st) in
  lout s' = lout s /\
  lfinal s' = Some (get_status (reduce_statuses [lstatus s; st]) (match lout s with [] => true | _ => false end)).
Proof.
  intros Hf Ht Hs. unfold loop_step. rewrite Hf.
  destruct (ltoken_map s) as [|kv tm] eqn:Etm.
  - split; reflexivity.
  - change (drop_last_s 1 "0") with "".
    rewrite emit_and_exit_exit.
    + split; reflexivity.
    + unfold complete. simpl lsize_map. rewrite Hs. reflexivity.
    + simpl. discriminate.
    + cbn [lterm_map]. apply forallb_forall. intros x Hx. apply in_map_iff in Hx. destruct Hx as (y & <- & Hy).
      cbn [fst]. destruct (String.eqb_spec (fst y) ""); [|reflexivity].
      exfalso. exact (aget_none_keys "" (kv :: tm) Ht y Hy e).
Qed.

Lemma loop_step_thm pol insts arr :
  Forall inst_ok insts -> NoDup (map ikey insts) -> Permutation arr (all_larr insts) ->
  let s0 := loop_run pol arr in
  let s := loop_run pol (arr ++ [LTerm Completed]) in
  lfinal s0 = None /\ lout s = lout s0
  /\ Permutation (lout s) (map (lexpected pol) insts)
  /\ lfinal s = Some (match insts with [] => Skipped | _ => Completed end).
Proof.
  intros Hok Hnd Hp s0 s.
  destruct (loop_many pol insts arr Hok Hnd Hp) as ((Hr1 & Hr2 & Hr3) & HP & Hs & Ht). fold s0 in Hr1, Hr2, Hr3, HP, Hs, Ht.
  assert (E : s = loop_step pol s0 (LTerm Completed)).
  { subst s s0. unfold loop_run. rewrite fold_left_app. reflexivity. }
  destruct (term_exits pol s0 Completed Hr2 Ht Hs) as [T1 T2]. rewrite <- E in T1, T2.
  split; [exact Hr2|]. split; [exact T1|]. split; [rewrite T1; exact HP|].
  rewrite T2, Hr3. destruct insts as [|i insts'].
  - simpl in HP. apply Permutation_sym, Permutation_nil in HP. rewrite HP. reflexivity.
  - destruct (lout s0); [apply Permutation_nil in HP; discriminate|reflexivity].
Qed.

(* the same with the termination token carrying any status (SKIPPED is what a loop whose instances all iterate zero
   times delivers): same outputs; the final status follows the status *)
Lemma loop_step_thm_st pol insts arr st :
  Forall inst_ok insts -> NoDup (map ikey insts) -> Permutation arr (all_larr insts) ->
  let s0 := loop_run pol arr in
  let s := loop_run pol (arr ++ [LTerm st]) in
  lfinal s0 = None /\ lout s = lout s0
  /\ Permutation (lout s) (map (lexpected pol) insts)
  /\ lfinal s = Some (get_status (reduce_statuses [Skipped; st]) (match insts with [] => true | _ => false end)).
Proof.
  intros Hok Hnd Hp s0 s.
  destruct (loop_many pol insts arr Hok Hnd Hp) as ((Hr1 & Hr2 & Hr3) & HP & Hs & Ht). fold s0 in Hr1, Hr2, Hr3, HP, Hs, Ht.
  assert (E : s = loop_step pol s0 (LTerm st)).
  { subst s s0. unfold loop_run. rewrite fold_left_app. reflexivity. }
  destruct (term_exits pol s0 st Hr2 Ht Hs) as [T1 T2]. rewrite <- E in T1, T2.
  split; [exact Hr2|]. split; [exact T1|]. split; [rewrite T1; exact HP|].
  rewrite T2, Hr3. f_equal. f_equal. destruct insts as [|i insts'].
  - simpl in HP. apply Permutation_sym, Permutation_nil in HP. rewrite HP. reflexivity.
  - destruct (lout s0); [apply Permutation_nil in HP; discriminate|reflexivity].
Qed.

(* ------------------------------------------------------------------ iteration counters of the loop combinator *)
Lemma loop_retag_first im t :
  t <> [] -> aget (drop_last_s 1 (render t)) im = None ->
  loop_retag im (render t) = (aset (render t) 0%N im, render (t ++ [0%N])).
Proof.
  intros Ht H. unfold loop_retag. rewrite H. rewrite (render_snoc t 0%N Ht). reflexivity.
Qed.
Lemma loop_retag_next im t c :
  t <> [] -> aget (render t) im = Some c ->
  loop_retag im (render (t ++ [c])) = (aset (render t) (N.succ c) im, render (t ++ [N.succ c])).
Proof.
  intros Ht H. unfold loop_retag. rewrite drop_last_render by assumption. rewrite H.
  rewrite (render_snoc t (N.succ c) Ht). reflexivity.
Qed.

(* [loop_step_thm] read per policy *)
Lemma loop_step_all insts arr :
  Forall inst_ok insts -> NoDup (map ikey insts) -> Permutation arr (all_larr insts) ->
  Permutation (lout (loop_run OutAll (arr ++ [LTerm Completed])))
              (map (fun i => ListTok (render (fst i)) (snd i)) insts).
Proof. intros H1 H2 H3. exact (proj1 (proj2 (proj2 (loop_step_thm OutAll insts arr H1 H2 H3)))). Qed.
Lemma loop_step_last insts arr :
  Forall inst_ok insts -> NoDup (map ikey insts) -> Permutation arr (all_larr insts) ->
  Permutation (lout (loop_run OutLast (arr ++ [LTerm Completed])))
              (map (fun i => retag (last (snd i) (Tok "0" "null")) (render (fst i))) insts).
Proof. intros H1 H2 H3. exact (proj1 (proj2 (proj2 (loop_step_thm OutLast insts arr H1 H2 H3)))). Qed.
Lemma loop_no_early_exit_under_order pol insts arr :
  Forall inst_ok insts -> NoDup (map ikey insts) -> Permutation arr (all_larr insts) ->
  lfinal (loop_run pol arr) = None /\
  Permutation (lout (loop_run pol arr)) (map (lexpected pol) insts).
Proof.
  intros H1 H2 H3. destruct (loop_step_thm pol insts arr H1 H2 H3) as (A & B & C & _).
  split; [exact A|]. rewrite <- B. exact C.
Qed.

(* LoopOutputStep.run does not leave its loop before it has read a termination token *)
Lemma loop_run_no_term pol l : no_term l -> lfinal (loop_run pol l) = None.
Proof.
  intros H. destruct (running_fold pol l linit running_linit H) as (_ & F & _). exact F.
Qed.
