(* Loop/NetK.v — the loop sub-network for a loop with k input variables and m outputs (definitions only).
   ANCHORS: as Loop/Net.v and Loop/CombK.v, plus streamflow.workflow.step.ConditionalStep.run (one token from EACH
            input port per turn: the k variables travel in lock step from the combinator on),
            streamflow.workflow.step.CombinatorStep.run with LoopTerminationCombinator (join over the m outputs).
   Wiring: k input forwarders F_in_i -> A_i; LoopCombinatorStep C reads the k ports A_i (per-port checklist and
   `terminated`, dot-product join by tag: Loop/CombK.v) and puts every combination on all its k output ports at once;
   the loop-when step W takes one token from each of them per turn, so the k variables are ONE stream from C on ([nqB]);
   W true: the tuple goes to the body, whose m outputs go each to its output forwarder (-> E_j -> loop output step L_j
   -> O_j) and, for the looped-back variables, to the k back-propagation forwarders (-> A_i; a variable that is not
   looped back is re-fed from W's output: same tags); W false: IterationTerminationToken on the m skip ports E_j;
   the loop-terminator T reads the m ports O_j and, when all of them have delivered p, puts
   IterationTerminationToken(p) on all k ports A_i; it terminates when all m have terminated.
   Every step may move whenever its input queue is non-empty ([kstep]). *)
From Coq Require Import List Bool Arith NArith.
From SF Require Import Tags.Model Loop.Net Loop.CombK.
Import ListNotations.

Definition upd {A} (f : nat -> A) (i : nat) (v : A) : nat -> A := fun j => if Nat.eqb j i then v else f j.
Definition app_all (f : nat -> list atok) (x : list atok) : nat -> list atok := fun j => f j ++ x.

Section NetK.
Variable LS : Type.
Variable lstep : nat -> LS -> atok -> LS * list tag * bool.     (* loop output step of output j *)
Variable linit0 : nat -> LS.
Variable cont : tag -> bool.
Variable insts : list tag.
Variable k m : nat.

Record knet := {
  nqin : nat -> list atok;
  nqA : nat -> list atok;
  nchk : list (nat * tag);
  nseen : list nat;
  npend : list (nat * tag);
  nimap : list (tag * N);
  ncdone : bool;
  nqB : list atok;
  nwterm : bool;
  nqFb : nat -> list atok;
  nqFo : nat -> list atok;
  nqE : nat -> list atok;
  nqO : nat -> list atok;
  nls : nat -> LS;
  nemitted : nat -> list tag;
  nlgot : nat -> bool;
  ntpend : list (nat * tag);
  ntseen : list nat;
  ntdone : bool;
  nstarted : nat -> list tag
}.

Definition kinit : knet :=
  {| nqin := fun _ => map AT insts ++ [ATermIn]; nqA := fun _ => []; nchk := []; nseen := []; 
    npend := []; nimap := []; ncdone := false; nqB := []; nwterm := false; nqFb := fun _ => []; 
    nqFo := fun _ => []; nqE := fun _ => []; nqO := fun _ => []; nls := linit0; 
    nemitted := fun _ => []; nlgot := fun _ => false; ntpend := []; ntseen := []; ntdone := false; 
    nstarted := fun _ => [] |}.

Definition karmed (chk : list (nat * tag)) (seen : list nat) (i : nat) : bool :=
  negb (nmem i seen && negb (existsb (fun x => Nat.eqb (fst x) i) chk)).

(* ---- LoopCombinatorStep on a token of port i (cf. CombK.ck_token / ck_step) ---- *)
Definition kc_chk (s : knet) (i : nat) (a : atok) : list (nat * tag) :=
  match a with AT t => chk_add i t (nchk s) | AI t => remove pt_dec (i, t) (nchk s) | _ => nchk s end.
Definition kc_seen (s : knet) (i : nat) (a : atok) : list nat :=
  match a with ATermIn | ATerm => if nmem i (nseen s) then nseen s else nseen s ++ [i] | _ => nseen s end.
Definition kc_join (s : knet) (i : nat) (a : atok) : bool :=
  match a with AT t => joined k t (pend_add i t (npend s)) | _ => false end.
Definition kc_pend (s : knet) (i : nat) (a : atok) : list (nat * tag) :=
  match a with
  | AT t => if kc_join s i a then rm_tag t (pend_add i t (npend s)) else pend_add i t (npend s)
  | _ => npend s
  end.
Definition kc_imap (s : knet) (i : nat) (a : atok) : list (tag * N) :=
  match a with AT t => if kc_join s i a then fst (retag_l (nimap s) t) else nimap s | _ => nimap s end.
Definition kc_out (s : knet) (i : nat) (a : atok) : list atok :=
  match a with AT t => if kc_join s i a then [AT (snd (retag_l (nimap s) t))] else [] | _ => [] end.
Definition kc_done (s : knet) (i : nat) (a : atok) : bool :=
  forallb (fun j => negb (karmed (kc_chk s i a) (kc_seen s i a) j)) (seq 0 k).

(* ---- loop-terminator on a token of output j ---- *)
Definition kt_join (s : knet) (j : nat) (a : atok) : bool :=
  match a with AT t => joined m t (pend_add j t (ntpend s)) | _ => false end.
Definition kt_pend (s : knet) (j : nat) (a : atok) : list (nat * tag) :=
  match a with
  | AT t => if kt_join s j a then rm_tag t (pend_add j t (ntpend s)) else pend_add j t (ntpend s)
  | _ => ntpend s
  end.
Definition kt_seen (s : knet) (j : nat) (a : atok) : list nat :=
  match a with ATerm => if nmem j (ntseen s) then ntseen s else ntseen s ++ [j] | _ => ntseen s end.
Definition kt_done (s : knet) (j : nat) (a : atok) : bool :=
  negb (ntdone s) && forallb (fun x => nmem x (kt_seen s j a)) (seq 0 m).
Definition kt_out (s : knet) (j : nat) (a : atok) : list atok :=
  match a with AT t => if kt_join s j a then [AI t] else [] | _ => [] end
  ++ (if kt_done s j a then [ATerm] else []).

Inductive kstep : knet -> knet -> Prop :=
| K_Fin s i a r : i < k -> nqin s i = a :: r ->
    kstep s {| nqin := upd (nqin s) i r; nqA := upd (nqA s) i (nqA s i ++ [a]); nchk := nchk s; 
               nseen := nseen s; npend := npend s; nimap := nimap s; ncdone := ncdone s; nqB := nqB s; 
               nwterm := nwterm s; nqFb := nqFb s; nqFo := nqFo s; nqE := nqE s; nqO := nqO s; nls := nls s; 
               nemitted := nemitted s; nlgot := nlgot s; ntpend := ntpend s; ntseen := ntseen s; 
               ntdone := ntdone s; nstarted := nstarted s |}
| K_C s i a r : i < k -> ncdone s = false -> karmed (nchk s) (nseen s) i = true -> nqA s i = a :: r ->
    kstep s {| nqin := nqin s; nqA := upd (nqA s) i r; nchk := kc_chk s i a; nseen := kc_seen s i a; 
               npend := kc_pend s i a; nimap := kc_imap s i a; ncdone := kc_done s i a; 
               nqB := nqB s ++ kc_out s i a ++ (if kc_done s i a then [ATerm] else []); nwterm := nwterm s; 
               nqFb := nqFb s; nqFo := nqFo s; nqE := nqE s; nqO := nqO s; nls := nls s; 
               nemitted := nemitted s; nlgot := nlgot s; ntpend := ntpend s; ntseen := ntseen s; 
               ntdone := ntdone s; 
               nstarted := upd (nstarted s) i (match a with AT t => t :: nstarted s i | _ => nstarted s i end) |}
| K_W s a r : nwterm s = false -> nqB s = a :: r ->
    kstep s {| nqin := nqin s; nqA := nqA s; nchk := nchk s; nseen := nseen s; npend := npend s; 
               nimap := nimap s; ncdone := ncdone s; nqB := r; 
               nwterm := match a with ATerm => true | _ => nwterm s end; 
               nqFb := app_all (nqFb s) (match a with AT t => if cont t then [AT t] else [] | ATerm => [ATerm] | _ => [] end); 
               nqFo := app_all (nqFo s) (match a with AT t => if cont t then [AT t] else [] | ATerm => [ATerm] | _ => [] end); 
               nqE := app_all (nqE s) (match a with AT t => if cont t then [] else [AI t] | _ => [] end); 
               nqO := nqO s; nls := nls s; nemitted := nemitted s; nlgot := nlgot s; ntpend := ntpend s; 
               ntseen := ntseen s; ntdone := ntdone s; nstarted := nstarted s |}
| K_Fout s j a r : j < m -> nqFo s j = a :: r ->
    kstep s {| nqin := nqin s; nqA := nqA s; nchk := nchk s; nseen := nseen s; npend := npend s; 
               nimap := nimap s; ncdone := ncdone s; nqB := nqB s; nwterm := nwterm s; nqFb := nqFb s; 
               nqFo := upd (nqFo s) j r; nqE := upd (nqE s) j (nqE s j ++ [a]); nqO := nqO s; nls := nls s; 
               nemitted := nemitted s; nlgot := nlgot s; ntpend := ntpend s; ntseen := ntseen s; 
               ntdone := ntdone s; nstarted := nstarted s |}
| K_Fback s i a r : i < k -> nqFb s i = a :: r ->
    kstep s {| nqin := nqin s; nqA := upd (nqA s) i (nqA s i ++ [a]); nchk := nchk s; nseen := nseen s; 
               npend := npend s; nimap := nimap s; ncdone := ncdone s; nqB := nqB s; nwterm := nwterm s; 
               nqFb := upd (nqFb s) i r; nqFo := nqFo s; nqE := nqE s; nqO := nqO s; nls := nls s; 
               nemitted := nemitted s; nlgot := nlgot s; ntpend := ntpend s; ntseen := ntseen s; 
               ntdone := ntdone s; nstarted := nstarted s |}
| K_L s j a r : j < m -> nqE s j = a :: r ->
    kstep s {| nqin := nqin s; nqA := nqA s; nchk := nchk s; nseen := nseen s; npend := npend s; 
               nimap := nimap s; ncdone := ncdone s; nqB := nqB s; nwterm := nwterm s; nqFb := nqFb s; 
               nqFo := nqFo s; nqE := upd (nqE s) j r; 
               nqO := upd (nqO s) j (nqO s j ++ map AT (snd (fst (lstep j (nls s j) a))) ++ (if (match a with ATerm => true | _ => nlgot s j end) && snd (lstep j (nls s j) a) then [ATerm] else [])); 
               nls := upd (nls s) j (fst (fst (lstep j (nls s j) a))); 
               nemitted := upd (nemitted s) j (nemitted s j ++ snd (fst (lstep j (nls s j) a))); 
               nlgot := upd (nlgot s) j (match a with ATerm => true | _ => nlgot s j end); ntpend := ntpend s; 
               ntseen := ntseen s; ntdone := ntdone s; nstarted := nstarted s |}
| K_T s j a r : j < m -> nqO s j = a :: r ->
    kstep s {| nqin := nqin s; nqA := app_all (nqA s) (kt_out s j a); nchk := nchk s; nseen := nseen s; 
               npend := npend s; nimap := nimap s; ncdone := ncdone s; nqB := nqB s; nwterm := nwterm s; 
               nqFb := nqFb s; nqFo := nqFo s; nqE := nqE s; nqO := upd (nqO s) j r; nls := nls s; 
               nemitted := nemitted s; nlgot := nlgot s; ntpend := kt_pend s j a; ntseen := kt_seen s j a; 
               ntdone := ntdone s || kt_done s j a; nstarted := nstarted s |}.

Inductive kreach : knet -> Prop :=
| kreach_init : kreach kinit
| kreach_step s s' : kreach s -> kstep s s' -> kreach s'.
End NetK.

Arguments nqin {LS} _.
Arguments nqA {LS} _.
Arguments nchk {LS} _.
Arguments nseen {LS} _.
Arguments npend {LS} _.
Arguments nimap {LS} _.
Arguments ncdone {LS} _.
Arguments nqB {LS} _.
Arguments nwterm {LS} _.
Arguments nqFb {LS} _.
Arguments nqFo {LS} _.
Arguments nqE {LS} _.
Arguments nqO {LS} _.
Arguments nls {LS} _.
Arguments nemitted {LS} _.
Arguments nlgot {LS} _.
Arguments ntpend {LS} _.
Arguments ntseen {LS} _.
Arguments ntdone {LS} _.
Arguments nstarted {LS} _.
