(* Loop/CombK.v — LoopCombinatorStep with k input ports (k loop variables): per-port iteration_termination_checklist
   and `terminated`, the LoopCombinator (a DotProductCombinator with _propagate = False) joining the k ports by tag,
   one re-tagging per combination.  Definitions and the step-level lemmas; the loop NETWORK with k variables is not
   modelled (Loop/Net.v is the one-variable network).
   ANCHORS: streamflow.workflow.step.LoopCombinatorStep.run, streamflow.workflow.combinator.DotProductCombinator._product,
            streamflow.workflow.combinator.DotProductCombinator._add_to_port, streamflow.workflow.combinator.LoopCombinator._product
   Ports are numbered 0..k-1.  _token_values[tag][port] holds at most one token (all tokens filed under a tag carry
   that tag and _add_to_port drops a token whose tag is already there), so the join state is the list of the
   (port, tag) pairs waiting, in arrival order; a combination is emitted when every port has the tag, which empties
   all k deques of that tag. *)
From Coq Require Import List Bool Arith NArith Lia.
From SF Require Import Tags.Model Loop.Net.
Import ListNotations.

Record ck := {
  kchk : list (nat * tag);             (* (port, tag) in that port's checklist *)
  kterm : list nat;                    (* terminated *)
  kpend : list (nat * tag);            (* join state: (port, tag) waiting for the other ports *)
  kimap : list (tag * N);
  kout : list (nat * atok);            (* (output port, token) in the order they were put *)
  kdone : bool                         (* run() returned *)
}.
Definition ck_init : ck := {| kchk := []; kterm := []; kpend := []; kimap := []; kout := []; kdone := false |}.

Definition pt_dec : forall a b : nat * tag, {a = b} + {a <> b}.
Proof. decide equality; [apply tag_dec|apply Nat.eq_dec]. Defined.
Definition pmem (x : nat * tag) (l : list (nat * tag)) : bool := if in_dec pt_dec x l then true else false.
Definition nmem (i : nat) (l : list nat) : bool := existsb (Nat.eqb i) l.

(* join state after port i delivered tag t (a second token with the same tag on the same port is dropped) *)
Definition pend_add (i : nat) (t : tag) (pend : list (nat * tag)) : list (nat * tag) :=
  if pmem (i, t) pend then pend else pend ++ [(i, t)].
Definition joined (k : nat) (t : tag) (pend : list (nat * tag)) : bool :=
  forallb (fun j => pmem (j, t) pend) (seq 0 k).
Definition has_tagb (t : tag) (x : nat * tag) : bool := if tag_dec (snd x) t then true else false.
Definition rm_tag (t : tag) (pend : list (nat * tag)) : list (nat * tag) :=
  filter (fun x => negb (has_tagb t x)) pend.

(* the port is read again unless it is in [terminated] and its checklist is empty *)
Definition armed (s : ck) (i : nat) : bool :=
  negb (nmem i (kterm s) && negb (existsb (fun x => Nat.eqb (fst x) i) (kchk s))).

(* if prefix not in checklist[port]: checklist[port].add(tag) *)
Definition chk_add (i : nat) (t : tag) (chk : list (nat * tag)) : list (nat * tag) :=
  if pmem (i, pre t) chk then chk else if pmem (i, t) chk then chk else chk ++ [(i, t)].

Definition ck_token (k : nat) (s : ck) (i : nat) (a : atok) : ck :=
  match a with
  | AT t =>
      let chk' := chk_add i t (kchk s) in
      let pend1 := pend_add i t (kpend s) in
      if joined k t pend1
      then let r := retag_l (kimap s) t in
           {| kchk := chk'; kterm := kterm s; kpend := rm_tag t pend1; kimap := fst r;
              kout := kout s ++ map (fun x => (fst x, AT (snd r))) (filter (has_tagb t) pend1); kdone := false |}
      else {| kchk := chk'; kterm := kterm s; kpend := pend1; kimap := kimap s;
              kout := kout s; kdone := false |}
  | AI t => {| kchk := remove pt_dec (i, t) (kchk s); kterm := kterm s; kpend := kpend s; kimap := kimap s;
               kout := kout s; kdone := false |}
  | _ => {| kchk := kchk s; kterm := if nmem i (kterm s) then kterm s else kterm s ++ [i]; kpend := kpend s;
            kimap := kimap s; kout := kout s; kdone := false |}
  end.

Definition ck_step (k : nat) (s : ck) (x : nat * atok) : ck :=
  if kdone s || negb (armed s (fst x)) then s
  else let s1 := ck_token k s (fst x) (snd x) in
       if forallb (fun j => negb (armed s1 j)) (seq 0 k)
       then {| kchk := kchk s1; kterm := kterm s1; kpend := kpend s1; kimap := kimap s1;
               kout := kout s1 ++ map (fun j => (j, ATerm)) (seq 0 k); kdone := true |}
       else s1.
Definition ck_run (k : nat) (arr : list (nat * atok)) : ck := fold_left (ck_step k) arr ck_init.

(* ---- termination tokens whose status is neither COMPLETED nor SKIPPED (FAILED, CANCELLED, RECOVERED -- the latter is what
   InterWorkflowPort puts on the ports of a recovery workflow): the port's checklist is cleared, hence the port is
   not read again.  Step level only: the network models (Net.v, NetG.v, NetK.v) and their theorems are about
   COMPLETED / SKIPPED termination tokens ([ATerm], [ATermIn]), which keep the checklist. ---- *)
Inductive xtok := XA (a : atok) | XClear.
Definition ck_clear (s : ck) (i : nat) : ck :=
  {| kchk := filter (fun x => negb (Nat.eqb (fst x) i)) (kchk s);
     kterm := if nmem i (kterm s) then kterm s else kterm s ++ [i];
     kpend := kpend s; kimap := kimap s; kout := kout s; kdone := false |}.
Definition ckx_step (k : nat) (s : ck) (x : nat * xtok) : ck :=
  match snd x with
  | XA a => ck_step k s (fst x, a)
  | XClear =>
      if kdone s || negb (armed s (fst x)) then s
      else let s1 := ck_clear s (fst x) in
           if forallb (fun j => negb (armed s1 j)) (seq 0 k)
           then {| kchk := kchk s1; kterm := kterm s1; kpend := kpend s1; kimap := kimap s1;
                   kout := kout s1 ++ map (fun j => (j, ATerm)) (seq 0 k); kdone := true |}
           else s1
  end.
Definition ckx_run (k : nat) (arr : list (nat * xtok)) : ck := fold_left (ckx_step k) arr ck_init.
(* without such tokens it is ck_run *)
Lemma ckx_run_plain k arr : ckx_run k (map (fun x => (fst x, XA (snd x))) arr) = ck_run k arr.
Proof.
  unfold ckx_run, ck_run. generalize ck_init. induction arr as [|[i a] arr IH]; intros s; simpl; [reflexivity|].
  apply IH.
Qed.
(* after a clearing termination token the port has no checklist entry left and is not read any more *)
Lemma ck_clear_disarms s i : armed (ck_clear s i) i = false.
Proof.
  unfold armed, ck_clear. simpl.
  assert (A : nmem i (if nmem i (kterm s) then kterm s else kterm s ++ [i]) = true).
  { destruct (nmem i (kterm s)) eqn:E; [exact E|]. unfold nmem. rewrite existsb_app. simpl. rewrite Nat.eqb_refl. apply orb_true_r. }
  rewrite A. simpl.
  assert (B : existsb (fun x : nat * tag => fst x =? i) (filter (fun x => negb (fst x =? i)) (kchk s)) = false).
  { induction (kchk s) as [|[j t] l IH]; [reflexivity|]. simpl. destruct (j =? i) eqn:E; simpl; [exact IH|]. rewrite E. exact IH. }
  rewrite B. reflexivity.
Qed.

(* ------------------------------------------------------------------ step-level facts *)
Definition done_ok (k : nat) (s : ck) : Prop :=
  kdone s = true -> forall i, i < k -> In i (kterm s) /\ (forall t, ~ In (i, t) (kchk s)).

Lemma ck_token_not_done k s i a : kdone (ck_token k s i a) = false.
Proof. unfold ck_token. destruct a; try reflexivity. destruct (joined k _ _); reflexivity. Qed.

Lemma done_ok_step k s x : done_ok k s -> done_ok k (ck_step k s x).
Proof.
  intros IH. unfold ck_step. destruct (kdone s) eqn:D; simpl; [exact IH|].
  destruct (negb (armed s (fst x))); [exact IH|].
  destruct (forallb _ (seq 0 k)) eqn:A.
  - intros _ i Hi. simpl. rewrite forallb_forall in A.
    assert (Hin : In i (seq 0 k)) by (apply in_seq; lia).
    specialize (A i Hin). unfold armed in A. rewrite negb_involutive in A. apply andb_true_iff in A.
    destruct A as [A1 A2]. split.
    + unfold nmem in A1. apply existsb_exists in A1. destruct A1 as (j & Hj & E). apply Nat.eqb_eq in E. subst. exact Hj.
    + intros t Ht. apply negb_true_iff in A2.
      assert (X : existsb (fun x0 : nat * tag => fst x0 =? i) (kchk (ck_token k s (fst x) (snd x))) = true).
      { apply existsb_exists. exists (i, t). split; [exact Ht|apply Nat.eqb_refl]. }
      rewrite X in A2. discriminate.
  - intros D'. rewrite ck_token_not_done in D'. discriminate.
Qed.

(* run() returns only when EVERY port is in [terminated] and EVERY port's checklist is empty *)
Lemma ck_done_inv k arr : done_ok k (ck_run k arr).
Proof.
  unfold ck_run. assert (H0 : done_ok k ck_init) by (intros D; discriminate).
  revert H0. generalize ck_init. induction arr as [|x arr IH]; intros s0 H0; simpl; [exact H0|].
  apply IH. apply done_ok_step. exact H0.
Qed.

Lemma chk_add_in i t chk : ~ In (i, pre t) chk -> In (i, t) (chk_add i t chk).
Proof.
  intros Hn. unfold chk_add, pmem. destruct (in_dec pt_dec (i, pre t) chk); [contradiction|].
  destruct (in_dec pt_dec (i, t) chk); [assumption|]. apply in_or_app. right. left. reflexivity.
Qed.
Lemma chk_add_mono i t chk x : In x chk -> In x (chk_add i t chk).
Proof.
  intros H. unfold chk_add. destruct (pmem (i, pre t) chk); [exact H|]. destruct (pmem (i, t) chk); [exact H|].
  apply in_or_app. left. exact H.
Qed.
Lemma kchk_token_at k s i t : kchk (ck_token k s i (AT t)) = chk_add i t (kchk s).
Proof. unfold ck_token. destruct (joined k _ _); reflexivity. Qed.

(* a token read on port i whose prefix is not on that port's checklist puts its tag there ... *)
Lemma ck_adds k s i t :
  kdone s = false -> armed s i = true -> ~ In (i, pre t) (kchk s) -> In (i, t) (kchk (ck_step k s (i, AT t))).
Proof.
  intros D A Hn. unfold ck_step. simpl. rewrite D, A. simpl.
  assert (X : In (i, t) (kchk (ck_token k s i (AT t)))).
  { rewrite kchk_token_at. apply chk_add_in. exact Hn. }
  destruct (forallb _ (seq 0 k)); exact X.
Qed.

(* ... and only an IterationTerminationToken with that tag read on the same port takes it off *)
Lemma ck_keeps k s x i t :
  In (i, t) (kchk s) -> x <> (i, AI t) -> In (i, t) (kchk (ck_step k s x)).
Proof.
  intros H Hne. unfold ck_step. destruct (kdone s || negb (armed s (fst x))); [exact H|].
  assert (X : In (i, t) (kchk (ck_token k s (fst x) (snd x)))).
  { destruct x as [j a]. simpl. unfold ck_token. destruct a as [t'|t'| |]; simpl; auto.
    - change (In (i, t) (kchk (ck_token k s j (AT t')))). rewrite kchk_token_at. apply chk_add_mono. exact H.
    - apply in_in_remove; [congruence|exact H]. }
  destruct (forallb _ (seq 0 k)); exact X.
Qed.
