(* Loop/NetProofs.v — safety of the loop sub-network of Loop/Net.v: a termination token reaches the loop output
   step only after that step has emitted an output for every loop instance. *)
From Coq Require Import List Bool Arith NArith Lia.
From SF Require Import Tags.Model Loop.Net.
Import ListNotations.

Lemma removelast_len {A} (l : list A) : length (removelast l) = length l - 1.
Proof.
  induction l as [|a l IH]; simpl; [reflexivity|].
  destruct l as [|b l]; [reflexivity|]. simpl in *. rewrite IH. lia.
Qed.

Lemma tmem_true x l : tmem x l = true <-> In x l.
Proof. unfold tmem. destruct (in_dec tag_dec x l); split; intros; auto; discriminate. Qed.
Lemma tmem_false x l : tmem x l = false <-> ~ In x l.
Proof. unfold tmem. destruct (in_dec tag_dec x l); split; intros; auto; try discriminate; contradiction. Qed.

Lemma retag_len im t : length t <= length (snd (retag_l im t)).
Proof.
  unfold retag_l. destruct (tget (pre t) im); simpl; rewrite app_length; simpl; [|lia].
  unfold pre. rewrite removelast_len. lia.
Qed.

(* the part of a queue in front of the external termination token *)
Definition not_in_term (a : atok) : bool := match a with ATermIn => false | _ => true end.
Fixpoint front (q : list atok) : list atok :=
  match q with [] => [] | a :: r => if not_in_term a then a :: front r else [] end.

Lemma front_app x q l : In x (front q) -> In x (front (q ++ l)).
Proof.
  induction q as [|a q IH]; simpl; [intros []|].
  destruct (not_in_term a); simpl; [|intros []]. intros [H|H]; auto.
Qed.
Lemma front_snoc x q : ~ In ATermIn q -> not_in_term x = true -> In x (front (q ++ [x])).
Proof.
  induction q as [|a q IH]; simpl; intros Hn Hx.
  - rewrite Hx. left. reflexivity.
  - destruct a; simpl; try (right; apply IH; auto). exfalso. apply Hn. left. reflexivity.
Qed.

Section Safety.
Variable LS : Type.
Variable lstep : LS -> atok -> LS * list tag * bool.
Variable linit0 : LS.
Variable cont : tag -> bool.
Variable insts : list tag.
Variable d : nat.
Hypothesis Hd : 1 <= d.
Hypothesis Hinsts : forall p, In p insts -> length p = d.   (* the instances of one loop have the same depth *)

Notation net := (net LS).
Notation nstep := (nstep LS lstep cont).
Notation ninit := (ninit LS linit0 insts).

Record Inv (s : net) : Prop := {
  i_qin : qin s = [] \/ exists l, qin s = l ++ [ATermIn] /\ ~ In ATermIn l;
  i_qin_elems : forall a, In a (qin s) -> a = ATermIn \/ exists p, a = AT p /\ In p insts;
  i_len : forall t, In (AT t) (qin s ++ qA s ++ qB s ++ qFo s ++ qFb s) -> d <= length t;
  i_len_chk : forall t, In t (chk s) -> d <= length t;
  i_termE : lgot s = true \/ In ATerm (qE s) \/ In ATerm (qFo s) \/ In ATerm (qFb s) -> wterm s = true;
  i_termB : wterm s = true \/ In ATerm (qB s) -> cterm s = true;
  i_frozen : cterm s = true -> seen s = true /\ chk s = [];
  i_termA : In ATerm (qA s) \/ In ATerm (qO s) -> cterm s = true;
  i_seen : seen s = true \/ In ATermIn (qA s) -> qin s = [];
  i_unstarted : forall p, In p insts -> In p (started s) \/ In (AT p) (qin s) \/ In (AT p) (front (qA s));
  i_seen_started : seen s = true -> forall p, In p insts -> In p (started s);
  i_progress : forall p, In p (started s) -> In p insts -> In p (chk s) \/ In p (emitted s);
  i_ai : (forall t, In (AI t) (qA s) -> In t (emitted s)) /\ (forall t, In (AT t) (qO s) -> In t (emitted s));
  i_no_ai : forall t, ~ In (AI t) (qFb s);
  i_no_termin : ~ In ATermIn (qB s) /\ ~ In ATermIn (qFo s) /\ ~ In ATermIn (qFb s) /\ ~ In ATermIn (qE s) /\ ~ In ATermIn (qO s)
}.

Lemma inv_init : Inv ninit.
Proof.
  constructor; simpl; intros; try tauto; try (intuition discriminate).
  - right. exists (map AT insts). split; [reflexivity|]. intros H. apply in_map_iff in H. destruct H as (x & E & _). discriminate.
  - apply in_app_iff in H. destruct H as [H|[H|[]]]; [|left; auto].
    apply in_map_iff in H. destruct H as (x & E & Hx). right. exists x. split; auto.
  - rewrite app_nil_r in H. apply in_app_iff in H. destruct H as [H|[H|[]]]; [|discriminate].
    apply in_map_iff in H. destruct H as (x & E & Hx). injection E as <-. rewrite (Hinsts _ Hx). lia.
  - right. left. apply in_or_app. left. apply in_map. exact H.
Qed.

Ltac inapp := repeat (rewrite in_app_iff in * ).

Lemma inv_Fin s a r : Inv s -> qin s = a :: r -> Inv
  {| qin := r; qA := qA s ++ [a]; qB := qB s; qFo := qFo s; qFb := qFb s; qE := qE s; qO := qO s;
     chk := chk s; imap := imap s; seen := seen s; cterm := cterm s; wterm := wterm s;
     ls := ls s; emitted := emitted s; lgot := lgot s; started := started s |}.
Proof.
  intros I E.
  assert (HnoA : ~ In ATermIn (qA s)).
  { intros H. rewrite (i_seen s I) in E; auto. discriminate. }
  assert (Hseen : seen s = false).
  { destruct (seen s) eqn:S; auto. rewrite (i_seen s I) in E; auto. discriminate. }
  assert (Ha : a = ATermIn \/ exists p, a = AT p /\ In p insts).
  { apply (i_qin_elems s I). rewrite E. left. reflexivity. }
  assert (Hshape : (a = ATermIn /\ r = []) \/ (a <> ATermIn /\ exists l, r = l ++ [ATermIn] /\ ~ In ATermIn l)).
  { destruct (i_qin s I) as [H|(l & H & Hl)]; [rewrite H in E; discriminate|].
    rewrite E in H. destruct l as [|b l]; simpl in H; injection H as -> ->.
    - left. auto.
    - right. split; [intros ->; apply Hl; left; reflexivity|]. exists l. split; auto. intros X. apply Hl. right. exact X. }
  constructor; simpl.
  - destruct Hshape as [[_ ->]|[_ H]]; auto.
  - intros b H. apply (i_qin_elems s I). rewrite E. right. exact H.
  - intros t H. apply (i_len s I). rewrite E. inapp. simpl in *. intuition (subst; auto).
  - apply (i_len_chk s I).
  - apply (i_termE s I).
  - apply (i_termB s I).
  - apply (i_frozen s I).
  - intros [H|H]; apply (i_termA s I); auto. inapp. destruct H as [H|[H|[]]]; auto.
    subst a. destruct Ha as [X|(p & X & _)]; discriminate.
  - intros [H|H]; [rewrite Hseen in H; discriminate|].
    inapp. destruct H as [H|[H|[]]]; [contradiction|]. destruct Hshape as [[_ ->]|[X _]]; [reflexivity|contradiction].
  - intros p Hp. destruct (i_unstarted s I p Hp) as [H|[H|H]]; auto.
    + rewrite E in H. destruct H as [H|H]; auto. subst a. right. right. apply front_snoc; auto.
    + right. right. apply front_app. exact H.
  - intros H. rewrite Hseen in H. discriminate.
  - apply (i_progress s I).
  - destruct (i_ai s I) as [A1 A2]. split; auto. intros t H. inapp. destruct H as [H|[H|[]]]; auto.
    subst a. destruct Ha as [X|(p & X & _)]; discriminate.
  - apply (i_no_ai s I).
  - apply (i_no_termin s I).
Qed.

Ltac t0 := simpl in *; inapp; simpl in *; inapp.
Ltac old I :=
  solve [ exact (i_qin _ I) | exact (i_qin_elems _ I) | exact (i_len _ I) | exact (i_len_chk _ I)
        | exact (i_termE _ I) | exact (i_termB _ I) | exact (i_frozen _ I) | exact (i_termA _ I)
        | exact (i_seen _ I) | exact (i_unstarted _ I) | exact (i_seen_started _ I) | exact (i_progress _ I)
        | exact (i_ai _ I) | exact (i_no_ai _ I) | exact (i_no_termin _ I) ].

Lemma inv_Fout s a r : Inv s -> qFo s = a :: r -> Inv
  {| qin := qin s; qA := qA s; qB := qB s; qFo := r; qFb := qFb s; qE := qE s ++ [a]; qO := qO s;
     chk := chk s; imap := imap s; seen := seen s; cterm := cterm s; wterm := wterm s;
     ls := ls s; emitted := emitted s; lgot := lgot s; started := started s |}.
Proof.
  intros I E. destruct (i_no_termin s I) as (T1 & T2 & T3 & T4 & T5).
  constructor; simpl; try (old I).
  - intros t H. apply (i_len s I). rewrite E. t0. tauto.
  - intros H. apply (i_termE s I). rewrite E. t0. intuition (subst; auto).
  - rewrite E in T2. t0. intuition (subst; auto).
Qed.

Lemma inv_Fback s a r : Inv s -> qFb s = a :: r -> Inv
  {| qin := qin s; qA := qA s ++ [a]; qB := qB s; qFo := qFo s; qFb := r; qE := qE s; qO := qO s;
     chk := chk s; imap := imap s; seen := seen s; cterm := cterm s; wterm := wterm s;
     ls := ls s; emitted := emitted s; lgot := lgot s; started := started s |}.
Proof.
  intros I E. destruct (i_no_termin s I) as (T1 & T2 & T3 & T4 & T5).
  constructor; simpl; try (old I).
  - intros t H. apply (i_len s I). rewrite E. t0. tauto.
  - intros H. apply (i_termE s I). rewrite E. t0. tauto.
  - intros [H|H]; [|apply (i_termA s I); auto]. t0. destruct H as [H|[H|[]]]; [apply (i_termA s I); auto|].
    subst a. apply (i_termB s I). left. apply (i_termE s I). rewrite E. simpl. auto.
  - intros [H|H]; [apply (i_seen s I); auto|]. t0. destruct H as [H|[H|[]]]; [apply (i_seen s I); auto|].
    subst a. exfalso. apply T3. rewrite E. left. reflexivity.
  - intros p Hp. destruct (i_unstarted s I p Hp) as [H|[H|H]]; auto. right. right. apply front_app. exact H.
  - destruct (i_ai s I) as [A1 A2]. split; auto. intros t H. t0. destruct H as [H|[H|[]]]; auto.
    subst a. exfalso. apply (i_no_ai s I t). rewrite E. left. reflexivity.
  - intros t H. apply (i_no_ai s I t). rewrite E. right. exact H.
  - rewrite E in T3. t0. tauto.
Qed.

Lemma inv_T s a r : Inv s -> qO s = a :: r -> Inv
  {| qin := qin s;
     qA := qA s ++ match a with AT t => [AI t] | ATerm => [ATerm] | _ => [] end;
     qB := qB s; qFo := qFo s; qFb := qFb s; qE := qE s; qO := r;
     chk := chk s; imap := imap s; seen := seen s; cterm := cterm s; wterm := wterm s;
     ls := ls s; emitted := emitted s; lgot := lgot s; started := started s |}.
Proof.
  intros I E. destruct (i_no_termin s I) as (T1 & T2 & T3 & T4 & T5). destruct (i_ai s I) as [A1 A2].
  constructor; simpl; try (old I).
  - intros t H. apply (i_len s I). t0. destruct a; t0; intuition (try discriminate; auto).
  - intros H. apply (i_termA s I). rewrite E. t0. destruct a; t0; intuition (try discriminate; auto).
  - intros [H|H]; [apply (i_seen s I); auto|]. t0. destruct H as [H|H]; [apply (i_seen s I); auto|].
    destruct a; simpl in H; intuition discriminate.
  - intros p Hp. destruct (i_unstarted s I p Hp) as [H|[H|H]]; auto. right. right. apply front_app. exact H.
  - split.
    + intros t H. t0. destruct H as [H|H]; auto. destruct a; simpl in H; try tauto; destruct H as [H|[]]; try discriminate.
      injection H as <-. apply A2. rewrite E. left. reflexivity.
    + intros t H. apply A2. rewrite E. right. exact H.
  - rewrite E in T5. t0. tauto.
Qed.

Lemma inv_W s a r : Inv s -> wterm s = false -> qB s = a :: r -> Inv
  {| qin := qin s; qA := qA s; qB := r;
     qFo := qFo s ++ match a with AT t => if cont t then [AT t] else [] | ATerm => [ATerm] | _ => [] end;
     qFb := qFb s ++ match a with AT t => if cont t then [AT t] else [] | ATerm => [ATerm] | _ => [] end;
     qE := qE s ++ match a with AT t => if cont t then [] else [AI t] | _ => [] end;
     qO := qO s; chk := chk s; imap := imap s; seen := seen s; cterm := cterm s;
     wterm := match a with ATerm => true | _ => wterm s end;
     ls := ls s; emitted := emitted s; lgot := lgot s; started := started s |}.
Proof.
  intros I G E. destruct (i_no_termin s I) as (T1 & T2 & T3 & T4 & T5).
  assert (HB : forall x, In x r -> In x (qB s)) by (intros x Hx; rewrite E; right; exact Hx).
  assert (Ha : In a (qB s)) by (rewrite E; left; reflexivity).
  constructor; simpl; try (old I).
  - intros t H. apply (i_len s I). t0.
    destruct a as [t'| | |]; try destruct (cont t'); t0; intuition (try discriminate; auto);
      match goal with X : AT _ = AT _ |- _ => injection X as <-; auto end.
  - intros H. destruct a as [t'| | |]; auto; apply (i_termE s I);
      try destruct (cont t'); t0; intuition (try discriminate; auto).
  - intros [H|H].
    + destruct a; apply (i_termB s I); auto.
    + apply (i_termB s I). right. apply HB. exact H.
  - intros t H. apply (i_no_ai s I t). t0. destruct a as [t'| | |]; try destruct (cont t'); t0; intuition discriminate.
  - repeat split; intros H; t0.
    + apply T1. apply HB. exact H.
    + destruct a as [t'| | |]; try destruct (cont t'); t0; intuition discriminate.
    + destruct a as [t'| | |]; try destruct (cont t'); t0; intuition discriminate.
    + destruct a as [t'| | |]; try destruct (cont t'); t0; intuition discriminate.
    + auto.
Qed.

Lemma inv_L s a r : Inv s -> qE s = a :: r -> Inv
  {| qin := qin s; qA := qA s; qB := qB s; qFo := qFo s; qFb := qFb s; qE := r;
     qO := qO s ++ map AT (snd (fst (lstep (ls s) a)))
                ++ (if (match a with ATerm => true | _ => lgot s end) && snd (lstep (ls s) a) then [ATerm] else []);
     chk := chk s; imap := imap s; seen := seen s; cterm := cterm s; wterm := wterm s;
     ls := fst (fst (lstep (ls s) a)); emitted := emitted s ++ snd (fst (lstep (ls s) a));
     lgot := match a with ATerm => true | _ => lgot s end; started := started s |}.
Proof.
  intros I E. destruct (i_no_termin s I) as (T1 & T2 & T3 & T4 & T5). destruct (i_ai s I) as [A1 A2].
  assert (HE : forall x, In x r -> In x (qE s)) by (intros x Hx; rewrite E; right; exact Hx).
  assert (Ha : In a (qE s)) by (rewrite E; left; reflexivity).
  set (outs := snd (fst (lstep (ls s) a))).
  constructor; simpl; try (old I).
  - intros H. apply (i_termE s I). destruct H as [H|[H|H]].
    + destruct a; auto.
    + right. left. apply HE. exact H.
    + right. right. exact H.
  - intros [H|H]; [apply (i_termA s I); auto|]. t0. destruct H as [H|[H|H]].
    + apply (i_termA s I); auto.
    + apply in_map_iff in H. destruct H as (x & X & _). discriminate.
    + destruct ((match a with ATerm => true | _ => lgot s end) && snd (lstep (ls s) a)) eqn:B; simpl in H; [|tauto].
      apply andb_true_iff in B. destruct B as [B _].
      apply (i_termB s I). left. apply (i_termE s I). destruct a; auto.
  - intros p Hp Hi. destruct (i_progress s I p Hp Hi); auto. right. apply in_or_app. auto.
  - split.
    + intros t H. apply in_or_app. left. apply A1. exact H.
    + intros t H. t0. destruct H as [H|[H|H]].
      * left. apply A2. exact H.
      * apply in_map_iff in H. destruct H as (x & X & Hx). injection X as ->. right. exact Hx.
      * destruct ((match a with ATerm => true | _ => lgot s end) && snd (lstep (ls s) a)); simpl in H; intuition discriminate.
  - split; [exact T1|]. split; [exact T2|]. split; [exact T3|]. split.
    + intros H. apply T4. apply HE. exact H.
    + intros H. t0. destruct H as [H|[H|H]]; auto.
      * apply in_map_iff in H. destruct H as (x & X & _). discriminate.
      * destruct ((match a with ATerm => true | _ => lgot s end) && snd (lstep (ls s) a)); simpl in H; intuition discriminate.
Qed.

Lemma chk_mono (s : net) t x : In x (chk s) -> In x (c_chk s (AT t)).
Proof.
  intros H. unfold c_chk. destruct (tmem (pre t) (chk s)); auto. destruct (tmem t (chk s)); auto.
  apply in_or_app. left. exact H.
Qed.

Lemma inv_C s a r : Inv s -> cterm s = false -> qA s = a :: r -> Inv
  {| qin := qin s; qA := r;
     qB := qB s ++ c_out s a ++ (if c_stop s a then [ATerm] else []);
     qFo := qFo s; qFb := qFb s; qE := qE s; qO := qO s;
     chk := c_chk s a; imap := c_imap s a; seen := c_seen s a; cterm := c_stop s a; wterm := wterm s;
     ls := ls s; emitted := emitted s; lgot := lgot s;
     started := match a with AT t => t :: started s | _ => started s end |}.
Proof.
  intros I G E. destruct (i_no_termin s I) as (T1 & T2 & T3 & T4 & T5). destruct (i_ai s I) as [A1 A2].
  assert (HA : forall x, In x r -> In x (qA s)) by (intros x Hx; rewrite E; right; exact Hx).
  assert (Ha : In a (qA s)) by (rewrite E; left; reflexivity).
  assert (HnT : a <> ATerm).
  { intros ->. rewrite (i_termA s I) in G; [discriminate|left; exact Ha]. }
  assert (Hst : forall x, In x (started s) -> In x (match a with AT t => t :: started s | _ => started s end)).
  { intros x Hx. destruct a; simpl; auto. }
  constructor; simpl; try (old I).
  - (* lengths of tags in the queues *)
    intros t H. t0. destruct H as [H|[H|[[H|[H|H]]|H]]].
    + apply (i_len s I). t0. auto.
    + apply (i_len s I). t0. right. left. apply HA. exact H.
    + apply (i_len s I). t0. auto.
    + destruct a as [t'| | |]; simpl in H; try tauto. destruct H as [H|[]]. injection H as <-.
      etransitivity; [|apply retag_len]. apply (i_len s I). t0. right. left. exact Ha.
    + destruct (c_stop s a); simpl in H; intuition discriminate.
    + apply (i_len s I). t0. tauto.
  - (* lengths of tags in the checklist *)
    intros t H. destruct a as [t'| | |]; simpl in H; try (apply (i_len_chk s I); exact H).
    + destruct (tmem (pre t') (chk s)); [apply (i_len_chk s I); exact H|].
      destruct (tmem t' (chk s)); [apply (i_len_chk s I); exact H|].
      apply in_app_iff in H. destruct H as [H|[H|[]]]; [apply (i_len_chk s I); exact H|]. subst t'.
      apply (i_len s I). t0. right. left. exact Ha.
    + apply in_remove in H. apply (i_len_chk s I). tauto.
  - (* a termination token on B, or W terminated: C has terminated *)
    intros [H|H].
    + rewrite (i_termB s I) in G; [discriminate|left; exact H].
    + t0. destruct H as [H|[H|H]].
      * rewrite (i_termB s I) in G; [discriminate|right; exact H].
      * destruct a; simpl in H; intuition discriminate.
      * destruct (c_stop s a); [reflexivity|simpl in H; tauto].
  - (* terminated => the port terminated and the checklist is empty *)
    unfold c_stop. intros H. apply andb_true_iff in H. destruct H as [H1 H2]. split; [exact H1|].
    destruct (c_chk s a); [reflexivity|discriminate].
  - intros [H|H]; exfalso.
    + rewrite (i_termA s I) in G; [discriminate|left; apply HA; exact H].
    + rewrite (i_termA s I) in G; [discriminate|right; exact H].
  - intros [H|H].
    + destruct a; simpl in H; try (apply (i_seen s I); left; exact H).
      * apply (i_seen s I). right. exact Ha.
      * congruence.
    + apply (i_seen s I). right. apply HA. exact H.
  - (* instances not yet read by C are still in front of the external termination token *)
    intros p Hp. destruct (i_unstarted s I p Hp) as [H|[H|H]].
    + left. apply Hst. exact H.
    + right. left. exact H.
    + rewrite E in H. simpl in H. destruct a as [t'| | |]; simpl in H; try tauto.
      * destruct H as [H|H]; [injection H as ->; left; left; reflexivity|right; right; exact H].
      * destruct H as [H|H]; [discriminate|right; right; exact H].
  - (* once the port terminated, every instance has been read *)
    intros H p Hp. destruct a as [t'| | |]; simpl in H.
    + right. apply (i_seen_started s I); assumption.
    + apply (i_seen_started s I); assumption.
    + destruct (i_unstarted s I p Hp) as [X|[X|X]]; [exact X| |].
      * rewrite (i_seen s I) in X; [destruct X|right; exact Ha].
      * rewrite E in X. simpl in X. destruct X.
    + congruence.
  - (* a read instance is on the checklist until L has emitted its output *)
    intros p Hp Hi. destruct a as [t'| | |]; simpl in Hp |- *.
    + destruct Hp as [<-|Hp].
      * left. destruct (tmem (pre t') (chk s)) eqn:M1.
        { exfalso. apply tmem_true in M1. apply (i_len_chk s I) in M1.
          unfold pre in M1. rewrite removelast_len, (Hinsts _ Hi) in M1. lia. }
        destruct (tmem t' (chk s)) eqn:M2; [apply tmem_true; exact M2|].
        apply in_or_app. right. left. reflexivity.
      * destruct (i_progress s I p Hp Hi) as [X|X]; [left|right; exact X].
        apply (chk_mono s t' p X).
    + destruct (i_progress s I p Hp Hi) as [X|X]; [|right; exact X].
      destruct (tag_dec p t) as [->|Hne].
      * right. apply A1. exact Ha.
      * left. apply in_in_remove; auto.
    + apply (i_progress s I); assumption.
    + apply (i_progress s I); assumption.
  - split; [|exact A2]. intros t H. apply A1. apply HA. exact H.
  - split; [|tauto]. intros H. t0. destruct H as [H|[H|H]]; auto.
    + destruct a; simpl in H; intuition discriminate.
    + destruct (c_stop s a); simpl in H; intuition discriminate.
Qed.

Lemma inv_step s s' : Inv s -> nstep s s' -> Inv s'.
Proof.
  intros I H. destruct H.
  - apply inv_Fin; assumption.
  - apply inv_C; assumption.
  - apply inv_W; assumption.
  - apply inv_Fout; assumption.
  - apply inv_Fback; assumption.
  - apply inv_L; assumption.
  - apply inv_T; assumption.
Qed.

Lemma inv_reach s : reach LS lstep linit0 cont insts s -> Inv s.
Proof. induction 1; [apply inv_init|eapply inv_step; eauto]. Qed.

(* THE WIRING THEOREM: in every reachable state of the sub-network, if the loop output step has taken a
   termination token from its input port, then it has already emitted an output for every loop instance; and a
   termination token is on its way to that port only if the combinator step has left its loop with an empty
   checklist *)
Lemma no_early_exit s :
  reach LS lstep linit0 cont insts s ->
  (lgot s = true \/ In ATerm (qE s) \/ In ATerm (qFo s)) ->
  forall p, In p insts -> In p (emitted s).
Proof.
  intros R H p Hp. pose proof (inv_reach s R) as I.
  assert (W : wterm s = true) by (apply (i_termE s I); tauto).
  assert (C : cterm s = true) by (apply (i_termB s I); auto).
  destruct (i_frozen s I C) as [S K].
  destruct (i_progress s I p (i_seen_started s I S p Hp) Hp) as [X|X]; [|exact X].
  rewrite K in X. destruct X.
Qed.

End Safety.

(* ---- a concrete run (non-vacuity): one instance [0], loopWhen false at once, L emitting the prefix of every
   IterationTerminationToken it reads; 11 moves lead to a state where L has taken the termination token ---- *)
Definition ex_lstep (u : unit) (a : atok) : unit * list tag * bool :=
  match a with AI t => (tt, [pre t], false) | ATerm => (tt, [], true) | _ => (tt, [], false) end.
Definition ex_cont (t : tag) : bool := false.

Inductive steps {LS} lstep cont : net LS -> net LS -> Prop :=
| steps_nil s : steps lstep cont s s
| steps_cons s s' s'' : nstep LS lstep cont s s' -> steps lstep cont s' s'' -> steps lstep cont s s''.
Lemma reach_steps LS lstep linit0 cont insts s s' :
  reach LS lstep linit0 cont insts s -> steps lstep cont s s' -> reach LS lstep linit0 cont insts s'.
Proof. intros R H. induction H; auto. apply IHsteps. eapply reach_step; eauto. Qed.

Lemma ex_run :
  exists s, reach unit ex_lstep tt ex_cont [[0%N]] s /\ lgot s = true /\ emitted s = [[0%N]] /\ cterm s = true.
Proof.
  eexists. split.
  - eapply reach_steps; [apply reach_init|].
    eapply steps_cons; [eapply N_Fin; reflexivity|]. cbn.
    eapply steps_cons; [eapply N_Fin; reflexivity|]. cbn.
    eapply steps_cons; [eapply N_C; reflexivity|]. cbn.
    eapply steps_cons; [eapply N_C; reflexivity|]. cbn.
    eapply steps_cons; [eapply N_W; reflexivity|]. cbn.
    eapply steps_cons; [eapply N_L; reflexivity|]. cbn.
    eapply steps_cons; [eapply N_T; reflexivity|]. cbn.
    eapply steps_cons; [eapply N_C; reflexivity|]. cbn.
    eapply steps_cons; [eapply N_W; reflexivity|]. cbn.
    eapply steps_cons; [eapply N_Fout; reflexivity|]. cbn.
    eapply steps_cons; [eapply N_L; reflexivity|]. cbn.
    apply steps_nil.
  - cbn. repeat split; reflexivity.
Qed.
