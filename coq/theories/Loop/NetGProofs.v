(* Loop/NetGProofs.v — safety of the generalised projection network Loop/NetG.v (same invariant as Loop/NetProofs.v,
   with the join buffers). *)
From Coq Require Import List Bool Arith NArith Lia Permutation.
From SF Require Import Tags.Model Loop.Net Loop.NetProofs Loop.NetG.
Import ListNotations.

Section SafetyG.
Variable LS : Type.
Variable lstep : LS -> atok -> LS * list tag * bool.
Variable linit0 : LS.
Variable cont : tag -> bool.
Variable insts : list tag.
Variable d : nat.
Hypothesis Hd : 1 <= d.
Hypothesis Hinsts : forall p, In p insts -> length p = d.

Notation gnet := (gnet LS).
Notation gstep := (gstep LS lstep cont).
Notation ginit := (ginit LS linit0 insts).

Record InvG (s : gnet) : Prop := {
  j_qin : gqin s = [] \/ exists l, gqin s = l ++ [ATermIn] /\ ~ In ATermIn l;
  j_qin_elems : forall a, In a (gqin s) -> a = ATermIn \/ exists p, a = AT p /\ In p insts;
  j_len : forall t, In (AT t) (gqin s ++ gqA s ++ gqB s ++ gqFo s ++ gqFb s) -> d <= length t;
  j_len_chk : forall t, In t (gchk s) -> d <= length t;
  j_termE : glgot s = true \/ In ATerm (gqE s) \/ In ATerm (gqFo s) \/ In ATerm (gqFb s) -> gwterm s = true;
  j_termB : gwterm s = true \/ In ATerm (gqB s) -> gcterm s = true;
  j_frozen : gcterm s = true -> gseen s = true /\ gchk s = [];
  j_termA : In ATerm (gqA s) \/ In ATerm (gqO s) -> gcterm s = true;
  j_seen : gseen s = true \/ In ATermIn (gqA s) -> gqin s = [];
  j_unstarted : forall p, In p insts -> In p (gstarted s) \/ In (AT p) (gqin s) \/ In (AT p) (front (gqA s));
  j_seen_started : gseen s = true -> forall p, In p insts -> In p (gstarted s);
  j_progress : forall p, In p (gstarted s) -> In p insts -> In p (gchk s) \/ In p (gemitted s);
  j_ai : (forall t, In (AI t) (gqA s) -> In t (gemitted s)) /\ (forall t, In (AT t) (gqO s) -> In t (gemitted s));
  j_no_ai : forall t, ~ In (AI t) (gqFb s);
  j_no_termin : ~ In ATermIn (gqB s) /\ ~ In ATermIn (gqFo s) /\ ~ In ATermIn (gqFb s) /\ ~ In ATermIn (gqE s) /\ ~ In ATermIn (gqO s);
  j_len_buf : forall t, In t (gbuf s) -> d <= length t;
  j_tbuf : forall t, In t (gtbuf s) -> In t (gemitted s);
  j_tseen : gtseen s = true -> gcterm s = true
}.

Ltac inapp := repeat (rewrite in_app_iff in * ).
Ltac t0 := simpl in *; inapp; simpl in *; inapp.
Ltac oldg I :=
  solve [ exact (j_qin _ I) | exact (j_qin_elems _ I) | exact (j_len _ I) | exact (j_len_chk _ I)
        | exact (j_termE _ I) | exact (j_termB _ I) | exact (j_frozen _ I) | exact (j_termA _ I)
        | exact (j_seen _ I) | exact (j_unstarted _ I) | exact (j_seen_started _ I) | exact (j_progress _ I)
        | exact (j_ai _ I) | exact (j_no_ai _ I) | exact (j_no_termin _ I)
        | exact (j_len_buf _ I) | exact (j_tbuf _ I) | exact (j_tseen _ I) ].

Lemma invg_init : InvG ginit.
Proof.
  constructor; simpl; intros; try tauto; try (intuition discriminate).
  - right. exists (map AT insts). split; [reflexivity|]. intros H. apply in_map_iff in H. destruct H as (x & E & _). discriminate.
  - apply in_app_iff in H. destruct H as [H|[H|[]]]; [|left; auto].
    apply in_map_iff in H. destruct H as (x & E & Hx). right. exists x. split; auto.
  - rewrite app_nil_r in H. apply in_app_iff in H. destruct H as [H|[H|[]]]; [|discriminate].
    apply in_map_iff in H. destruct H as (x & E & Hx). injection E as <-. rewrite (Hinsts _ Hx). lia.
  - right. left. apply in_or_app. left. apply in_map. exact H.
Qed.

Lemma invg_Fin s a r : InvG s -> gqin s = a :: r -> InvG
  {| gqin := r; gqA := gqA s ++ [a]; gqB := gqB s; gqFo := gqFo s; gqFb := gqFb s; gqE := gqE s; 
               gqO := gqO s; gchk := gchk s; gbuf := gbuf s; gimap := gimap s; gseen := gseen s; 
               gcterm := gcterm s; gwterm := gwterm s; gls := gls s; gemitted := gemitted s; glgot := glgot s; 
               gstarted := gstarted s; gtbuf := gtbuf s; gtseen := gtseen s; gtdone := gtdone s |}.
Proof.
  intros I E.
  assert (HnoA : ~ In ATermIn (gqA s)).
  { intros H. rewrite (j_seen s I) in E; auto. discriminate. }
  assert (Hseen : gseen s = false).
  { destruct (gseen s) eqn:S; auto. rewrite (j_seen s I) in E; auto. discriminate. }
  assert (Ha : a = ATermIn \/ exists p, a = AT p /\ In p insts).
  { apply (j_qin_elems s I). rewrite E. left. reflexivity. }
  assert (Hshape : (a = ATermIn /\ r = []) \/ (a <> ATermIn /\ exists l, r = l ++ [ATermIn] /\ ~ In ATermIn l)).
  { destruct (j_qin s I) as [H|(l & H & Hl)]; [rewrite H in E; discriminate|].
    rewrite E in H. destruct l as [|b l]; simpl in H; injection H as -> ->.
    - left. auto.
    - right. split; [intros ->; apply Hl; left; reflexivity|]. exists l. split; auto. intros X. apply Hl. right. exact X. }
  constructor; simpl.
  - destruct Hshape as [[_ ->]|[_ H]]; auto.
  - intros b H. apply (j_qin_elems s I). rewrite E. right. exact H.
  - intros t H. apply (j_len s I). rewrite E. inapp. simpl in *. intuition (subst; auto).
  - apply (j_len_chk s I).
  - apply (j_termE s I).
  - apply (j_termB s I).
  - apply (j_frozen s I).
  - intros [H|H]; apply (j_termA s I); auto. inapp. destruct H as [H|[H|[]]]; auto.
    subst a. destruct Ha as [X|(p & X & _)]; discriminate.
  - intros [H|H]; [rewrite Hseen in H; discriminate|].
    inapp. destruct H as [H|[H|[]]]; [contradiction|]. destruct Hshape as [[_ ->]|[X _]]; [reflexivity|contradiction].
  - intros p Hp. destruct (j_unstarted s I p Hp) as [H|[H|H]]; auto.
    + rewrite E in H. destruct H as [H|H]; auto. subst a. right. right. apply front_snoc; auto.
    + right. right. apply front_app. exact H.
  - intros H. rewrite Hseen in H. discriminate.
  - apply (j_progress s I).
  - destruct (j_ai s I) as [A1 A2]. split; auto. intros t H. inapp. destruct H as [H|[H|[]]]; auto.
    subst a. destruct Ha as [X|(p & X & _)]; discriminate.
  - apply (j_no_ai s I).
  - apply (j_no_termin s I).
  - apply (j_len_buf s I).
  - apply (j_tbuf s I).
  - apply (j_tseen s I).
Qed.

Lemma invg_Fout s a r : InvG s -> gqFo s = a :: r -> InvG
  {| gqin := gqin s; gqA := gqA s; gqB := gqB s; gqFo := r; gqFb := gqFb s; gqE := gqE s ++ [a]; 
               gqO := gqO s; gchk := gchk s; gbuf := gbuf s; gimap := gimap s; gseen := gseen s; 
               gcterm := gcterm s; gwterm := gwterm s; gls := gls s; gemitted := gemitted s; glgot := glgot s; 
               gstarted := gstarted s; gtbuf := gtbuf s; gtseen := gtseen s; gtdone := gtdone s |}.
Proof.
  intros I E. destruct (j_no_termin s I) as (T1 & T2 & T3 & T4 & T5).
  constructor; simpl; try (oldg I).
  - intros t H. apply (j_len s I). rewrite E. t0. tauto.
  - intros H. apply (j_termE s I). rewrite E. t0. intuition (subst; auto).
  - rewrite E in T2. t0. intuition (subst; auto).
Qed.

Lemma invg_Fback s a r : InvG s -> gqFb s = a :: r -> InvG
  {| gqin := gqin s; gqA := gqA s ++ [a]; gqB := gqB s; gqFo := gqFo s; gqFb := r; gqE := gqE s; 
               gqO := gqO s; gchk := gchk s; gbuf := gbuf s; gimap := gimap s; gseen := gseen s; 
               gcterm := gcterm s; gwterm := gwterm s; gls := gls s; gemitted := gemitted s; glgot := glgot s; 
               gstarted := gstarted s; gtbuf := gtbuf s; gtseen := gtseen s; gtdone := gtdone s |}.
Proof.
  intros I E. destruct (j_no_termin s I) as (T1 & T2 & T3 & T4 & T5).
  constructor; simpl; try (oldg I).
  - intros t H. apply (j_len s I). rewrite E. t0. tauto.
  - intros H. apply (j_termE s I). rewrite E. t0. tauto.
  - intros [H|H]; [|apply (j_termA s I); auto]. t0. destruct H as [H|[H|[]]]; [apply (j_termA s I); auto|].
    subst a. apply (j_termB s I). left. apply (j_termE s I). rewrite E. simpl. auto.
  - intros [H|H]; [apply (j_seen s I); auto|]. t0. destruct H as [H|[H|[]]]; [apply (j_seen s I); auto|].
    subst a. exfalso. apply T3. rewrite E. left. reflexivity.
  - intros p Hp. destruct (j_unstarted s I p Hp) as [H|[H|H]]; auto. right. right. apply front_app. exact H.
  - destruct (j_ai s I) as [A1 A2]. split; auto. intros t H. t0. destruct H as [H|[H|[]]]; auto.
    subst a. exfalso. apply (j_no_ai s I t). rewrite E. left. reflexivity.
  - intros t H. apply (j_no_ai s I t). rewrite E. right. exact H.
  - rewrite E in T3. t0. tauto.
Qed.

Lemma invg_W s a r : InvG s -> gwterm s = false -> gqB s = a :: r -> InvG
  {| gqin := gqin s; gqA := gqA s; gqB := r; 
               gqFo := gqFo s ++ match a with AT t => if cont t then [AT t] else [] | ATerm => [ATerm] | _ => [] end; 
               gqFb := gqFb s ++ match a with AT t => if cont t then [AT t] else [] | ATerm => [ATerm] | _ => [] end; 
               gqE := gqE s ++ match a with AT t => if cont t then [] else [AI t] | _ => [] end; gqO := gqO s; 
               gchk := gchk s; gbuf := gbuf s; gimap := gimap s; gseen := gseen s; gcterm := gcterm s; 
               gwterm := match a with ATerm => true | _ => gwterm s end; gls := gls s; gemitted := gemitted s; 
               glgot := glgot s; gstarted := gstarted s; gtbuf := gtbuf s; gtseen := gtseen s; 
               gtdone := gtdone s |}.
Proof.
  intros I G E. destruct (j_no_termin s I) as (T1 & T2 & T3 & T4 & T5).
  assert (HB : forall x, In x r -> In x (gqB s)) by (intros x Hx; rewrite E; right; exact Hx).
  assert (Ha : In a (gqB s)) by (rewrite E; left; reflexivity).
  constructor; simpl; try (oldg I).
  - intros t H. apply (j_len s I). t0.
    destruct a as [t'| | |]; try destruct (cont t'); t0; intuition (try discriminate; auto);
      match goal with X : AT _ = AT _ |- _ => injection X as <-; auto end.
  - intros H. destruct a as [t'| | |]; auto; apply (j_termE s I);
      try destruct (cont t'); t0; intuition (try discriminate; auto).
  - intros [H|H].
    + destruct a; apply (j_termB s I); auto.
    + apply (j_termB s I). right. apply HB. exact H.
  - intros t H. apply (j_no_ai s I t). t0. destruct a as [t'| | |]; try destruct (cont t'); t0; intuition discriminate.
  - repeat split; intros H; t0.
    + apply T1. apply HB. exact H.
    + destruct a as [t'| | |]; try destruct (cont t'); t0; intuition discriminate.
    + destruct a as [t'| | |]; try destruct (cont t'); t0; intuition discriminate.
    + destruct a as [t'| | |]; try destruct (cont t'); t0; intuition discriminate.
    + auto.
Qed.

Lemma invg_L s a r : InvG s -> gqE s = a :: r -> InvG
  {| gqin := gqin s; gqA := gqA s; gqB := gqB s; gqFo := gqFo s; gqFb := gqFb s; gqE := r; 
               gqO := gqO s ++ map AT (snd (fst (lstep (gls s) a))) ++ (if (match a with ATerm => true | _ => glgot s end) && snd (lstep (gls s) a) then [ATerm] else []); 
               gchk := gchk s; gbuf := gbuf s; gimap := gimap s; gseen := gseen s; gcterm := gcterm s; 
               gwterm := gwterm s; gls := fst (fst (lstep (gls s) a)); 
               gemitted := gemitted s ++ snd (fst (lstep (gls s) a)); 
               glgot := match a with ATerm => true | _ => glgot s end; gstarted := gstarted s; 
               gtbuf := gtbuf s; gtseen := gtseen s; gtdone := gtdone s |}.
Proof.
  intros I E. destruct (j_no_termin s I) as (T1 & T2 & T3 & T4 & T5). destruct (j_ai s I) as [A1 A2].
  assert (HE : forall x, In x r -> In x (gqE s)) by (intros x Hx; rewrite E; right; exact Hx).
  assert (Ha : In a (gqE s)) by (rewrite E; left; reflexivity).
  set (outs := snd (fst (lstep (gls s) a))).
  constructor; simpl; try (oldg I).
  - intros H. apply (j_termE s I). destruct H as [H|[H|H]].
    + destruct a; auto.
    + right. left. apply HE. exact H.
    + right. right. exact H.
  - intros [H|H]; [apply (j_termA s I); auto|]. t0. destruct H as [H|[H|H]].
    + apply (j_termA s I); auto.
    + apply in_map_iff in H. destruct H as (x & X & _). discriminate.
    + destruct ((match a with ATerm => true | _ => glgot s end) && snd (lstep (gls s) a)) eqn:B; simpl in H; [|tauto].
      apply andb_true_iff in B. destruct B as [B _].
      apply (j_termB s I). left. apply (j_termE s I). destruct a; auto.
  - intros p Hp Hi. destruct (j_progress s I p Hp Hi); auto. right. apply in_or_app. auto.
  - split.
    + intros t H. apply in_or_app. left. apply A1. exact H.
    + intros t H. t0. destruct H as [H|[H|H]].
      * left. apply A2. exact H.
      * apply in_map_iff in H. destruct H as (x & X & Hx). injection X as ->. right. exact Hx.
      * destruct ((match a with ATerm => true | _ => glgot s end) && snd (lstep (gls s) a)); simpl in H; intuition discriminate.
  - split; [exact T1|]. split; [exact T2|]. split; [exact T3|]. split.
    + intros H. apply T4. apply HE. exact H.
    + intros H. t0. destruct H as [H|[H|H]]; auto.
      * apply in_map_iff in H. destruct H as (x & X & _). discriminate.
      * destruct ((match a with ATerm => true | _ => glgot s end) && snd (lstep (gls s) a)); simpl in H; intuition discriminate.
  - intros t H. apply in_or_app. left. apply (j_tbuf s I). exact H.
Qed.

Lemma gchk_mono (s : gnet) t x : In x (gchk s) -> In x (gc_chk s (AT t)).
Proof.
  intros H. unfold gc_chk. destruct (tmem (pre t) (gchk s)); auto. destruct (tmem t (gchk s)); auto.
  apply in_or_app. left. exact H.
Qed.

Lemma buf_add_in a old new x : buf_add a old new -> In x new -> In x old \/ a = AT x.
Proof.
  unfold buf_add. destruct a as [t| | |]; try (intros ->; auto).
  destruct (tmem t old); [intros ->; auto|]. intros P H. eapply Permutation_in in H; [|exact P].
  destruct H as [<-|H]; auto.
Qed.

Lemma invg_Cread s a r buf' : InvG s -> gcterm s = false -> gseen s && is_nil (gchk s) = false -> gqA s = a :: r ->
  buf_add a (gbuf s) buf' -> InvG
  {| gqin := gqin s; gqA := r; gqB := gqB s; gqFo := gqFo s; gqFb := gqFb s; gqE := gqE s; 
               gqO := gqO s; gchk := gc_chk s a; gbuf := buf'; gimap := gimap s; gseen := gc_seen s a; 
               gcterm := gcterm s; gwterm := gwterm s; gls := gls s; gemitted := gemitted s; glgot := glgot s; 
               gstarted := match a with AT t => t :: gstarted s | _ => gstarted s end; gtbuf := gtbuf s; 
               gtseen := gtseen s; gtdone := gtdone s |}.
Proof.
  intros I G Garm E BA. destruct (j_no_termin s I) as (T1 & T2 & T3 & T4 & T5). destruct (j_ai s I) as [A1 A2].
  assert (HA : forall x, In x r -> In x (gqA s)) by (intros x Hx; rewrite E; right; exact Hx).
  assert (Ha : In a (gqA s)) by (rewrite E; left; reflexivity).
  assert (HnT : a <> ATerm).
  { intros ->. rewrite (j_termA s I) in G; [discriminate|left; exact Ha]. }
  assert (Hst : forall x, In x (gstarted s) -> In x (match a with AT t => t :: gstarted s | _ => gstarted s end)).
  { intros x Hx. destruct a; simpl; auto. }
  constructor; simpl; try (oldg I).
  - intros t H. apply (j_len s I). t0. intuition.
  - intros t H. destruct a as [t'| | |]; simpl in H; try (apply (j_len_chk s I); exact H).
    + destruct (tmem (pre t') (gchk s)); [apply (j_len_chk s I); exact H|].
      destruct (tmem t' (gchk s)); [apply (j_len_chk s I); exact H|].
      apply in_app_iff in H. destruct H as [H|[H|[]]]; [apply (j_len_chk s I); exact H|]. subst t'.
      apply (j_len s I). t0. right. left. exact Ha.
    + apply in_remove in H. apply (j_len_chk s I). tauto.
  - intros H. rewrite G in H. discriminate.
  - intros [H|H]; exfalso.
    + rewrite (j_termA s I) in G; [discriminate|left; apply HA; exact H].
    + rewrite (j_termA s I) in G; [discriminate|right; exact H].
  - intros [H|H].
    + destruct a; simpl in H; try (apply (j_seen s I); left; exact H).
      * apply (j_seen s I). right. exact Ha.
      * congruence.
    + apply (j_seen s I). right. apply HA. exact H.
  - intros p Hp. destruct (j_unstarted s I p Hp) as [H|[H|H]].
    + left. apply Hst. exact H.
    + right. left. exact H.
    + rewrite E in H. simpl in H. destruct a as [t'| | |]; simpl in H; try tauto.
      * destruct H as [H|H]; [injection H as ->; left; left; reflexivity|right; right; exact H].
      * destruct H as [H|H]; [discriminate|right; right; exact H].
  - intros H p Hp. destruct a as [t'| | |]; simpl in H.
    + right. apply (j_seen_started s I); assumption.
    + apply (j_seen_started s I); assumption.
    + destruct (j_unstarted s I p Hp) as [X|[X|X]]; [exact X| |].
      * rewrite (j_seen s I) in X; [destruct X|right; exact Ha].
      * rewrite E in X. simpl in X. destruct X.
    + congruence.
  - intros p Hp Hi. destruct a as [t'| | |]; simpl in Hp |- *.
    + destruct Hp as [<-|Hp].
      * left. destruct (tmem (pre t') (gchk s)) eqn:M1.
        { exfalso. apply tmem_true in M1. apply (j_len_chk s I) in M1.
          unfold pre in M1. rewrite removelast_len, (Hinsts _ Hi) in M1. lia. }
        destruct (tmem t' (gchk s)) eqn:M2; [apply tmem_true; exact M2|].
        apply in_or_app. right. left. reflexivity.
      * destruct (j_progress s I p Hp Hi) as [X|X]; [left|right; exact X].
        apply (gchk_mono s t' p X).
    + destruct (j_progress s I p Hp Hi) as [X|X]; [|right; exact X].
      destruct (tag_dec p t) as [->|Hne].
      * right. apply A1. exact Ha.
      * left. apply in_in_remove; auto.
    + apply (j_progress s I); assumption.
    + apply (j_progress s I); assumption.
  - split; [|exact A2]. intros t H. apply A1. apply HA. exact H.
  - intros t H. destruct (buf_add_in a (gbuf s) buf' t BA H) as [X| ->]; [apply (j_len_buf s I); exact X|].
    apply (j_len s I). t0. right. left. exact Ha.
Qed.

Lemma invg_Cjoin s t buf' : InvG s -> gcterm s = false -> Permutation (gbuf s) (t :: buf') -> InvG
  {| gqin := gqin s; gqA := gqA s; gqB := gqB s ++ [AT (snd (retag_l (gimap s) t))]; gqFo := gqFo s; 
               gqFb := gqFb s; gqE := gqE s; gqO := gqO s; gchk := gchk s; gbuf := buf'; 
               gimap := fst (retag_l (gimap s) t); gseen := gseen s; gcterm := gcterm s; gwterm := gwterm s; 
               gls := gls s; gemitted := gemitted s; glgot := glgot s; gstarted := gstarted s; 
               gtbuf := gtbuf s; gtseen := gtseen s; gtdone := gtdone s |}.
Proof.
  intros I G P. destruct (j_no_termin s I) as (T1 & T2 & T3 & T4 & T5).
  assert (Ht : In t (gbuf s)) by (eapply Permutation_in; [apply Permutation_sym; exact P|left; reflexivity]).
  constructor; simpl; try (oldg I).
  - intros t' H. t0. destruct H as [H|[H|[[H|[H|[]]]|H]]]; try (apply (j_len s I); t0; tauto).
    injection H as <-. etransitivity; [|apply retag_len]. apply (j_len_buf s I). exact Ht.
  - intros [H|H]; [apply (j_termB s I); auto|]. t0. destruct H as [H|[H|[]]]; [apply (j_termB s I); auto|discriminate].
  - split; [|tauto]. intros H. t0. destruct H as [H|[H|[]]]; [auto|discriminate].
  - intros t' H. apply (j_len_buf s I). eapply Permutation_in; [apply Permutation_sym; exact P|right; exact H].
Qed.

Lemma invg_Cterm s : InvG s -> gcterm s = false -> gseen s = true -> gchk s = [] -> InvG
  {| gqin := gqin s; gqA := gqA s; gqB := gqB s ++ [ATerm]; gqFo := gqFo s; gqFb := gqFb s; 
               gqE := gqE s; gqO := gqO s; gchk := gchk s; gbuf := gbuf s; gimap := gimap s; gseen := gseen s; 
               gcterm := true; gwterm := gwterm s; gls := gls s; gemitted := gemitted s; glgot := glgot s; 
               gstarted := gstarted s; gtbuf := gtbuf s; gtseen := gtseen s; gtdone := gtdone s |}.
Proof.
  intros I G S K. destruct (j_no_termin s I) as (T1 & T2 & T3 & T4 & T5).
  constructor; simpl; try (oldg I); auto.
  - intros t H. apply (j_len s I). t0. destruct H as [H|[H|[[H|[H|[]]]|H]]]; try tauto. discriminate.
  - split; [|tauto]. intros H. t0. destruct H as [H|[H|[]]]; [auto|discriminate].
Qed.

Lemma invg_Tread s a r tbuf' : InvG s -> gqO s = a :: r -> buf_add a (gtbuf s) tbuf' -> InvG
  {| gqin := gqin s; gqA := gqA s; gqB := gqB s; gqFo := gqFo s; gqFb := gqFb s; gqE := gqE s; 
               gqO := r; gchk := gchk s; gbuf := gbuf s; gimap := gimap s; gseen := gseen s; 
               gcterm := gcterm s; gwterm := gwterm s; gls := gls s; gemitted := gemitted s; glgot := glgot s; 
               gstarted := gstarted s; gtbuf := tbuf'; 
               gtseen := match a with ATerm => true | _ => gtseen s end; gtdone := gtdone s |}.
Proof.
  intros I E BA. destruct (j_no_termin s I) as (T1 & T2 & T3 & T4 & T5). destruct (j_ai s I) as [A1 A2].
  assert (Ha : In a (gqO s)) by (rewrite E; left; reflexivity).
  constructor; simpl; try (oldg I).
  - intros [H|H]; apply (j_termA s I); auto. right. rewrite E. right. exact H.
  - split; [exact A1|]. intros t H. apply A2. rewrite E. right. exact H.
  - split; [exact T1|]. split; [exact T2|]. split; [exact T3|]. split; [exact T4|]. intros H. apply T5. rewrite E. right. exact H.
  - intros t H. destruct (buf_add_in a (gtbuf s) tbuf' t BA H) as [X| ->]; [apply (j_tbuf s I); exact X|].
    apply A2. exact Ha.
  - intros H. destruct a; try (apply (j_tseen s I); exact H). apply (j_termA s I). right. exact Ha.
Qed.

Lemma invg_Temit s t tbuf' : InvG s -> Permutation (gtbuf s) (t :: tbuf') -> InvG
  {| gqin := gqin s; gqA := gqA s ++ [AI t]; gqB := gqB s; gqFo := gqFo s; gqFb := gqFb s; 
               gqE := gqE s; gqO := gqO s; gchk := gchk s; gbuf := gbuf s; gimap := gimap s; gseen := gseen s; 
               gcterm := gcterm s; gwterm := gwterm s; gls := gls s; gemitted := gemitted s; glgot := glgot s; 
               gstarted := gstarted s; gtbuf := tbuf'; gtseen := gtseen s; gtdone := gtdone s |}.
Proof.
  intros I P. destruct (j_ai s I) as [A1 A2].
  assert (Ht : In t (gtbuf s)) by (eapply Permutation_in; [apply Permutation_sym; exact P|left; reflexivity]).
  constructor; simpl; try (oldg I).
  - intros t' H. apply (j_len s I). t0. destruct H as [H|[[H|[H|[]]]|H]]; try tauto. discriminate.
  - intros [H|H]; apply (j_termA s I); auto. t0. destruct H as [H|[H|[]]]; [auto|discriminate].
  - intros [H|H]; apply (j_seen s I); auto. t0. destruct H as [H|[H|[]]]; [auto|discriminate].
  - intros p Hp. destruct (j_unstarted s I p Hp) as [H|[H|H]]; auto. right. right. apply front_app. exact H.
  - split; [|exact A2]. intros t' H. t0. destruct H as [H|[H|[]]]; [auto|]. injection H as <-. apply (j_tbuf s I). exact Ht.
  - intros t' H. apply (j_tbuf s I). eapply Permutation_in; [apply Permutation_sym; exact P|right; exact H].
Qed.

Lemma invg_Tterm s : InvG s -> gtseen s = true -> gtdone s = false -> InvG
  {| gqin := gqin s; gqA := gqA s ++ [ATerm]; gqB := gqB s; gqFo := gqFo s; gqFb := gqFb s; 
               gqE := gqE s; gqO := gqO s; gchk := gchk s; gbuf := gbuf s; gimap := gimap s; gseen := gseen s; 
               gcterm := gcterm s; gwterm := gwterm s; gls := gls s; gemitted := gemitted s; glgot := glgot s; 
               gstarted := gstarted s; gtbuf := gtbuf s; gtseen := gtseen s; gtdone := true |}.
Proof.
  intros I S D0. destruct (j_ai s I) as [A1 A2].
  constructor; simpl; try (oldg I).
  - intros t' H. apply (j_len s I). t0. destruct H as [H|[[H|[H|[]]]|H]]; try tauto. discriminate.
  - intros _. apply (j_tseen s I). exact S.
  - intros [H|H]; apply (j_seen s I); auto. t0. destruct H as [H|[H|[]]]; [auto|discriminate].
  - intros p Hp. destruct (j_unstarted s I p Hp) as [H|[H|H]]; auto. right. right. apply front_app. exact H.
  - split; [|exact A2]. intros t' H. t0. destruct H as [H|[H|[]]]; [auto|discriminate].
Qed.

Lemma invg_step s s' : InvG s -> gstep s s' -> InvG s'.
Proof.
  intros I H. destruct H.
  - apply invg_Fin; assumption.
  - eapply invg_Cread; eassumption.
  - apply invg_Cjoin; assumption.
  - apply invg_Cterm; assumption.
  - apply invg_W; assumption.
  - apply invg_Fout; assumption.
  - apply invg_Fback; assumption.
  - apply invg_L; assumption.
  - eapply invg_Tread; eassumption.
  - apply invg_Temit; assumption.
  - apply invg_Tterm; assumption.
Qed.

Lemma invg_reach s : greach LS lstep linit0 cont insts s -> InvG s.
Proof. induction 1; [apply invg_init|eapply invg_step; eauto]. Qed.

Lemma no_early_exit_g s :
  greach LS lstep linit0 cont insts s ->
  (glgot s = true \/ In ATerm (gqE s) \/ In ATerm (gqFo s)) ->
  forall p, In p insts -> In p (gemitted s).
Proof.
  intros R H p Hp. pose proof (invg_reach s R) as I.
  assert (W : gwterm s = true) by (apply (j_termE s I); tauto).
  assert (C : gcterm s = true) by (apply (j_termB s I); auto).
  destruct (j_frozen s I C) as [S K].
  destruct (j_progress s I p (j_seen_started s I S p Hp) Hp) as [X|X]; [|exact X].
  rewrite K in X. destruct X.
Qed.
End SafetyG.
