(* Loop/Corr.v — correspondence cases for Loop/Model.v (used by the C06 check). *)
From Coq Require Import List Bool NArith ZArith.
From SF Require Import Base.Str Base.Dec Base.Corr Tags.Model Gather.Corr.
From SF Require Export Gather.Model Loop.Model Loop.Net Loop.CombK.
Import ListNotations.

Inductive ccase :=
(* CWLLoopOutput{All,Last}Step fed the tokens in this order: tokens seen on the output port and the final
   status (None = the step is still waiting for input after the last token) *)
| CLoop (pol : policy) (arr : list larr) (out : list tok) (fin : option status)
(* LoopCombinator (one item) fed tokens carrying these tags, in this order: tags of the emitted tokens *)
| CRetag (tags : list string) (out : list string)
(* LoopCombinatorStep (one port, LoopCombinator with one item) fed these tokens: what it put on its output port
   (re-tagged tokens, its termination token) and whether run() returned *)
| CCombStep (arr : list atok) (out : list atok) (fin : bool)
(* CWLLoopConditionalStep fed tokens for which the condition evaluated to these booleans, then a termination token:
   tokens on the output port and on the skip port *)
| CWhen (arr : list (tag * bool)) (outD outE : list atok)
(* CWLLoopConditionalStep with several input ports fed the SAME tag sequence on every port (interleaved at will),
   then termination tokens: it takes one token from each port per turn, so each output port and the skip port see what
   the one-stream model says *)
| CWhenK (arr : list (tag * bool)) (outDs : list (list atok)) (outE : list atok)
(* LoopCombinatorStep with k input ports fed (port, token) in this order: per output port the tokens put on it, and
   whether run() returned *)
| CCombK (k : nat) (arr : list (nat * atok)) (outs : list (list atok)) (fin : bool)
(* the same with termination tokens that clear the checklist (FAILED, CANCELLED, RECOVERED): [XClear] *)
| CCombKX (k : nat) (arr : list (nat * xtok)) (outs : list (list atok)) (fin : bool).

Definition tag_eqb (a b : tag) : bool := list_eqb N.eqb a b.
Definition atok_eqb (a b : atok) : bool :=
  match a, b with
  | AT x, AT y | AI x, AI y => tag_eqb x y
  | ATermIn, ATermIn | ATerm, ATerm => true
  | _, _ => false
  end.
Definition check_case (c : ccase) : bool :=
  match c with
  | CLoop pol arr out fin =>
      let s := loop_run pol arr in
      list_eqb tok_eqb (lout s) out && opt_eqb status_eqb (lfinal s) fin
  | CRetag tags out => list_eqb String.eqb (loop_retags [] tags) out
  | CCombStep arr out fin =>
      let s := c_run (ninit unit tt []) arr in
      list_eqb atok_eqb (qB s) out && Bool.eqb (cterm s) fin
  | CCombK k arr outs fin =>
      let s := ck_run k arr in
      list_eqb (list_eqb atok_eqb)
               (map (fun j => map snd (filter (fun x => Nat.eqb (fst x) j) (kout s))) (seq 0 k)) outs
      && Bool.eqb (kdone s) fin
  | CCombKX k arr outs fin =>
      let s := ckx_run k arr in
      list_eqb (list_eqb atok_eqb)
               (map (fun j => map snd (filter (fun x => Nat.eqb (fst x) j) (kout s))) (seq 0 k)) outs
      && Bool.eqb (kdone s) fin
  | CWhenK arr outDs outE =>
      let toks := map (fun p => AT (fst p)) arr ++ [ATerm] in
      let cont := fun t => existsb (fun p => tag_eqb (fst p) t && snd p) arr in
      forallb (fun outD => list_eqb atok_eqb (flat_map (fun a => fst (w_out cont a)) toks) outD) outDs &&
      list_eqb atok_eqb (flat_map (fun a => snd (w_out cont a)) toks) outE
  | CWhen arr outD outE =>
      let toks := map (fun p => AT (fst p)) arr ++ [ATerm] in
      let cont := fun t => existsb (fun p => tag_eqb (fst p) t && snd p) arr in
      list_eqb atok_eqb (flat_map (fun a => fst (w_out cont a)) toks) outD &&
      list_eqb atok_eqb (flat_map (fun a => snd (w_out cont a)) toks) outE
  end.
