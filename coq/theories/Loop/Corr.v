(* Loop/Corr.v — correspondence cases for Loop/Model.v (used by the C06 check). *)
From Coq Require Import List Bool NArith ZArith.
From SF Require Import Base.Str Base.Dec Base.Corr Tags.Model Gather.Corr.
From SF Require Export Gather.Model Loop.Model.
Import ListNotations.

Inductive ccase :=
(* CWLLoopOutput{All,Last}Step fed the tokens in this order: tokens seen on the output port and the final
   status (None = the step is still waiting for input after the last token) *)
| CLoop (pol : policy) (arr : list larr) (out : list tok) (fin : option status)
(* LoopCombinator (one item) fed tokens carrying these tags, in this order: tags of the emitted tokens *)
| CRetag (tags : list string) (out : list string).

Definition check_case (c : ccase) : bool :=
  match c with
  | CLoop pol arr out fin =>
      let s := loop_run pol arr in
      list_eqb tok_eqb (lout s) out && opt_eqb status_eqb (lfinal s) fin
  | CRetag tags out => list_eqb String.eqb (loop_retags [] tags) out
  end.
