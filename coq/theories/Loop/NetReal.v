(* Loop/NetReal.v — the loop sub-network of Loop/Net.v with the loop output step instantiated by the string-level
   model of LoopOutputStep.run (Loop/Model.v), and the end-to-end statement C06_loop_network. *)
From Coq Require Import List Ascii Bool Arith NArith ZArith Lia Permutation.
From SF Require Import Base.Str Base.Dec Tags.Model Tags.Proofs Gather.Model Gather.Util Gather.Proofs
                       Loop.Model Loop.Proofs Loop.Net Loop.NetProofs.
Import ListNotations.
Local Open Scope string_scope. Local Open Scope list_scope.

(* ------------------------------------------------------------------ facts about the real loop output step *)
Definition parse_tag (s : string) : tag :=
  map (fun c => match undec c with Some n => n | None => 0%N end) (split_on "." s).
Lemma parse_render t : t <> [] -> parse_tag (render t) = t.
Proof.
  intros Ht. unfold parse_tag. rewrite split_render by assumption. rewrite map_map.
  rewrite <- (map_id t) at 2. apply map_ext. intros n. rewrite undec_dec. reflexivity.
Qed.

Lemma lout_emit pol p s : exists l, lout (emit_and_exit pol p s) = lout s ++ l /\
  (forall x, In x l -> tag_of x = p /\ aget p (lsize_map s) <> None).
Proof.
  unfold emit_and_exit. destruct (complete (ltoken_map s) (lsize_map s) p) eqn:C.
  - exists [process_output pol (ltoken_map s) p]. split.
    + destruct (lterm_map _); [reflexivity|]. simpl.
      match goal with |- context [if ?c then _ else _] => destruct c end; reflexivity.
    + intros x [<-|[]]. split; [rewrite process_output_pout; apply tag_of_pout|].
      unfold complete in C. destruct (aget p (lsize_map s)); [discriminate|discriminate C].
  - exists []. split; [|intros x []]. rewrite app_nil_r.
    destruct (lterm_map s); [reflexivity|].
    match goal with |- context [if ?c then _ else _] => destruct c end; reflexivity.
Qed.

(* keys of size_map come from iteration-termination tokens; outputs are only emitted for keys of size_map *)
Definition sized (arr : list larr) (k : string) : Prop := exists tg, In (LIter tg) arr /\ drop_last_s 1 tg = k.

Lemma loop_step_sized pol s a arr :
  (forall k, aget k (lsize_map s) <> None -> sized arr k) ->
  (forall x, In x (lout s) -> sized arr (tag_of x)) ->
  (forall k, aget k (lsize_map (loop_step pol s a)) <> None -> sized (arr ++ [a]) k) /\
  (forall x, In x (lout (loop_step pol s a)) -> sized (arr ++ [a]) (tag_of x)) /\
  (exists l, lout (loop_step pol s a) = lout s ++ l).
Proof.
  intros H1 H2.
  assert (W : forall k, sized arr k -> sized (arr ++ [a]) k).
  { intros k (tg & Hi & E). exists tg. split; auto. apply in_or_app. auto. }
  unfold loop_step. destruct (lfinal s).
  { split; [intros; apply W; auto|]. split; [intros; apply W; auto|]. exists []. rewrite app_nil_r. reflexivity. }
  destruct a as [x|tg|st].
  - match goal with |- context [emit_and_exit pol ?p ?s0] => destruct (lout_emit pol p s0) as (l & E & Hl); set (s1 := emit_and_exit pol p s0) in * end.
    assert (SM : lsize_map s1 = lsize_map s).
    { unfold s1, emit_and_exit. simpl. repeat match goal with |- context [if ?c then _ else _] => destruct c; simpl end;
        try reflexivity; destruct (lterm_map s); simpl; try reflexivity;
        repeat match goal with |- context [if ?c then _ else _] => destruct c; simpl end; reflexivity. }
    split; [rewrite SM; intros; apply W; auto|]. split; [|exists l; exact E].
    intros y Hy. rewrite E in Hy. apply in_app_or in Hy. destruct Hy as [Hy|Hy]; [apply W; auto|].
    destruct (Hl y Hy) as [-> Hs]. apply W. apply H1. exact Hs.
  - set (p := drop_last_s 1 tg).
    match goal with |- context [emit_and_exit pol p ?s0] => destruct (lout_emit pol p s0) as (l & E & Hl); set (s1 := emit_and_exit pol p s0) in * end.
    assert (SM : lsize_map s1 = aset p (last_num tg) (lsize_map s)).
    { unfold s1, emit_and_exit. simpl. repeat match goal with |- context [if ?c then _ else _] => destruct c; simpl end;
        try reflexivity; destruct (lterm_map s); simpl; try reflexivity;
        repeat match goal with |- context [if ?c then _ else _] => destruct c; simpl end; reflexivity. }
    assert (Hp : sized (arr ++ [LIter tg]) p).
    { exists tg. split; [apply in_or_app; right; left; reflexivity|reflexivity]. }
    split; [|split; [|exists l; exact E]].
    + rewrite SM. intros k Hk. destruct (String.eqb_spec k p) as [->|Hne]; [exact Hp|].
      rewrite aget_aset_other in Hk by assumption. apply W. auto.
    + intros y Hy. rewrite E in Hy. apply in_app_or in Hy. destruct Hy as [Hy|Hy]; [apply W; auto|].
      destruct (Hl y Hy) as [-> _]. exact Hp.
  - destruct (ltoken_map s) as [|kv tm0] eqn:TM.
    + simpl. split; [intros; apply W; auto|]. split; [intros; apply W; auto|]. exists []. rewrite app_nil_r. reflexivity.
    + match goal with |- context [emit_and_exit pol ?p ?s0] => destruct (lout_emit pol p s0) as (l & E & Hl); set (s1 := emit_and_exit pol p s0) in * end.
      assert (SM : lsize_map s1 = lsize_map s).
      { unfold s1, emit_and_exit. simpl. repeat match goal with |- context [if ?c then _ else _] => destruct c; simpl end; reflexivity. }
      split; [rewrite SM; intros; apply W; auto|]. split; [|exists l; exact E].
      intros y Hy. rewrite E in Hy. apply in_app_or in Hy. destruct Hy as [Hy|Hy]; [apply W; auto|].
      destruct (Hl y Hy) as [-> Hs]. apply W. apply H1. exact Hs.
Qed.

Lemma loop_run_sized pol arr :
  (forall k, aget k (lsize_map (loop_run pol arr)) <> None -> sized arr k) /\
  (forall x, In x (lout (loop_run pol arr)) -> sized arr (tag_of x)).
Proof.
  induction arr as [|a arr IH] using rev_ind.
  - split; [intros k H; exfalso; apply H; reflexivity|intros x []].
  - destruct IH as [I1 I2]. unfold loop_run. rewrite fold_left_app. simpl.
    destruct (loop_step_sized pol (loop_run pol arr) a arr I1 I2) as (A & B & _). split; assumption.
Qed.

Lemma lout_prefix pol s a : exists l, lout (loop_step pol s a) = lout s ++ l.
Proof.
  unfold loop_step. destruct (lfinal s); [exists []; rewrite app_nil_r; reflexivity|].
  destruct a as [x|tg|st].
  - match goal with |- context [emit_and_exit pol ?p ?s0] => destruct (lout_emit pol p s0) as (l & E & _) end. exists l. exact E.
  - match goal with |- context [emit_and_exit pol ?p ?s0] => destruct (lout_emit pol p s0) as (l & E & _) end. exists l. exact E.
  - destruct (ltoken_map s) as [|kv tm0]; [exists []; rewrite app_nil_r; reflexivity|].
    match goal with |- context [emit_and_exit pol ?p ?s0] => destruct (lout_emit pol p s0) as (l & E & _) end. exists l. exact E.
Qed.
Lemma skipn_len_app {A} (a b : list A) : skipn (length a) (a ++ b) = b.
Proof. induction a; simpl; auto. Qed.

(* ------------------------------------------------------------------ the instantiated network *)
Section Real.
Variable pol : policy.
Variable val : tag -> string.          (* the value the (deterministic) body produces for the iteration tagged t *)
Variable tst : status.                 (* the status carried by the termination tokens that reach L (COMPLETED, or
                                          SKIPPED when no instance iterates: not decided by this model) *)
Variable cont : tag -> bool.
Variable insts : list tag.
Variable d : nat.
Hypothesis Hd : 1 <= d.
Hypothesis Hinsts : forall p, In p insts -> length p = d.

Definition conv (a : atok) : larr :=
  match a with
  | AT t => LTok (Tok (render t) (val t))
  | AI t => LIter (render t)
  | _ => LTerm tst
  end.
(* state of L: the state of LoopOutputStep.run and (ghost) the tokens it has read *)
Definition RS : Type := (lstate * list atok)%type.
Definition rstep (x : RS) (a : atok) : RS * list tag * bool :=
  let ls' := loop_step pol (fst x) (conv a) in
  ((ls', snd x ++ [a]),
   map (fun o => parse_tag (tag_of o)) (skipn (length (lout (fst x))) (lout ls')),
   match lfinal ls' with Some _ => true | None => false end).
Definition rinit : RS := (linit, []).
Notation rnet := (net RS).
Definition rreach : rnet -> Prop := reach RS rstep rinit cont insts.

Definition hist (s : rnet) : list atok := snd (ls s).
Definition eside (s : rnet) : list atok := hist s ++ qE s ++ qFo s.
Definition ownb (p : tag) (a : atok) : bool :=
  match a with
  | AT t => if tag_dec t p then true else if tag_dec (pre t) p then true else false
  | _ => false
  end.
Definition preb (p : tag) (a : atok) : bool :=
  match a with AT t | AI t => if tag_dec (pre t) p then true else false | _ => false end.
Definition F (p : tag) (q : list atok) := filter (ownb p) q.
Definition E (p : tag) (q : list atok) := filter (preb p) q.
Definition itag (p : tag) (j : nat) : tag := p ++ [N.of_nat j].
Definition iter_toks (p : tag) (c : nat) : list atok := map (fun j => AT (itag p j)) (seq 0 c).

(* where instance p stands: its single control token and what has gone towards L *)
Inductive phc (p : tag) (im : option N) (fa fb ff e : list atok) : Prop :=
| CU : im = None -> Permutation fa [AT p] -> fb = [] -> ff = [] -> Permutation e [] -> phc p im fa fb ff e
| CR1 c : im = Some (N.of_nat c) -> Permutation fa [] -> fb = [AT (itag p c)] -> ff = [] ->
          Permutation e (iter_toks p c) -> (forall j, j < c -> cont (itag p j) = true) -> phc p im fa fb ff e
| CR2b c : im = Some (N.of_nat c) -> Permutation fa [] -> fb = [] -> ff = [AT (itag p c)] ->
          Permutation e (iter_toks p (S c)) -> (forall j, j < S c -> cont (itag p j) = true) -> phc p im fa fb ff e
| CR2a c : im = Some (N.of_nat c) -> Permutation fa [AT (itag p c)] -> fb = [] -> ff = [] ->
          Permutation e (iter_toks p (S c)) -> (forall j, j < S c -> cont (itag p j) = true) -> phc p im fa fb ff e
| CD c : im = Some (N.of_nat c) -> Permutation fa [] -> fb = [] -> ff = [] ->
          Permutation e (iter_toks p c ++ [AI (itag p c)]) -> (forall j, j < c -> cont (itag p j) = true) ->
          cont (itag p c) = false -> phc p im fa fb ff e.

Definition ph (p : tag) (s : rnet) : Prop :=
  phc p (tget p (imap s)) (F p (qin s ++ qA s)) (F p (qB s)) (F p (qFb s)) (E p (eside s)).

Lemma phc_perm p im fa fa' fb ff e e' :
  Permutation fa fa' -> Permutation e e' -> phc p im fa fb ff e -> phc p im fa' fb ff e'.
Proof.
  intros P1 P2 H. destruct H.
  - apply CU; auto; [rewrite <- P1|rewrite <- P2]; assumption.
  - eapply CR1; eauto; [rewrite <- P1|rewrite <- P2]; assumption.
  - eapply CR2b; eauto; [rewrite <- P1|rewrite <- P2]; assumption.
  - eapply CR2a; eauto; [rewrite <- P1|rewrite <- P2]; assumption.
  - eapply CD; eauto; [rewrite <- P1|rewrite <- P2]; assumption.
Qed.

(* the structure of termination tokens on the way to L *)
Definition tphase (s : rnet) : Prop :=
  (wterm s = false /\ ~ In ATerm (qFo s) /\ ~ In ATerm (qE s) /\ ~ In ATerm (hist s))
  \/ (wterm s = true /\ (exists l, qFo s = l ++ [ATerm] /\ ~ In ATerm l) /\ ~ In ATerm (qE s) /\ ~ In ATerm (hist s))
  \/ (wterm s = true /\ qFo s = [] /\ (exists l, qE s = l ++ [ATerm] /\ ~ In ATerm l) /\ ~ In ATerm (hist s))
  \/ (wterm s = true /\ qFo s = [] /\ qE s = [] /\ lgot s = true /\ exists h, hist s = h ++ [ATerm] /\ ~ In ATerm h).

Record Inv3 (s : rnet) : Prop := {
  r_ph : forall p, In p insts -> ph p s;
  r_own : forall t, In (AT t) (qin s ++ qA s ++ qB s ++ qFb s) -> exists p, In p insts /\ ownb p (AT t) = true;
  r_imap : forall k, tget k (imap s) <> None -> In k insts;
  r_eside : forall a, In a (eside s) -> a = ATerm \/ exists p, In p insts /\ preb p a = true;
  r_t : tphase s;
  r_lgot : lgot s = true -> In ATerm (hist s);
  r_h0 : fst (ls s) = loop_run pol (map conv (hist s));
  r_em : emitted s = map (fun o => parse_tag (tag_of o)) (lout (fst (ls s)))
}.

(* ---- small facts ---- *)
Lemma pre_itag p j : pre (itag p j) = p.
Proof. unfold pre, itag. apply removelast_last. Qed.
Lemma len_itag p j : length (itag p j) = S (length p).
Proof. unfold itag. rewrite app_length. simpl. lia. Qed.
Lemma own_self p : ownb p (AT p) = true.
Proof. simpl. destruct (tag_dec p p); [reflexivity|contradiction]. Qed.
Lemma own_itag p j : ownb p (AT (itag p j)) = true.
Proof. simpl. destruct (tag_dec (itag p j) p); [reflexivity|]. rewrite pre_itag. destruct (tag_dec p p); [reflexivity|contradiction]. Qed.
Lemma preb_itag p j : preb p (AT (itag p j)) = true /\ preb p (AI (itag p j)) = true.
Proof. simpl. rewrite pre_itag. destruct (tag_dec p p); [split; reflexivity|contradiction]. Qed.
Lemma pre_len t : length (pre t) = length t - 1.
Proof. apply removelast_len. Qed.
Lemma own_other p p0 : In p insts -> In p0 insts -> p <> p0 ->
  ownb p (AT p0) = false /\ forall j, ownb p (AT (itag p0 j)) = false.
Proof.
  intros Hp Hp0 Hne. pose proof (Hinsts p Hp) as L. pose proof (Hinsts p0 Hp0) as L0. split.
  - simpl. destruct (tag_dec p0 p); [congruence|]. destruct (tag_dec (pre p0) p) as [E0|]; [|reflexivity].
    exfalso. assert (length (pre p0) = length p) by (rewrite E0; reflexivity). rewrite pre_len in H. lia.
  - intros j. simpl. destruct (tag_dec (itag p0 j) p) as [E0|].
    + exfalso. assert (length (itag p0 j) = length p) by (rewrite E0; reflexivity). rewrite len_itag in H. lia.
    + rewrite pre_itag. destruct (tag_dec p0 p); [congruence|reflexivity].
Qed.
Lemma own_pre p t : ownb p (AT t) = false -> preb p (AT t) = false /\ preb p (AI t) = false.
Proof. simpl. destruct (tag_dec t p); [discriminate|]. destruct (tag_dec (pre t) p); [discriminate|auto]. Qed.
Lemma F_app p a b : F p (a ++ b) = F p a ++ F p b.  Proof. apply filter_app. Qed.
Lemma E_app p a b : E p (a ++ b) = E p a ++ E p b.  Proof. apply filter_app. Qed.
Lemma perm_nil_eq {A} (l : list A) : Permutation l [] -> l = [].
Proof. intros H. apply Permutation_sym, Permutation_nil in H. exact H. Qed.
Lemma perm_single {A} (l : list A) x : Permutation l [x] -> l = [x].
Proof. intros H. apply Permutation_sym, Permutation_length_1_inv in H. exact H. Qed.
Lemma F_in_nonempty p q a : In a q -> ownb p a = true -> F p q <> [].
Proof. intros Hi Ho E0. assert (In a (F p q)) by (apply filter_In; auto). rewrite E0 in H. destruct H. Qed.
Lemma iter_S p c : iter_toks p (S c) = iter_toks p c ++ [AT (itag p c)].
Proof. unfold iter_toks. rewrite seq_S, map_app. reflexivity. Qed.
Ltac old3 I :=
  solve [ exact (r_ph _ I) | exact (r_own _ I) | exact (r_imap _ I) | exact (r_eside _ I) | exact (r_t _ I)
        | exact (r_lgot _ I) | exact (r_h0 _ I) | exact (r_em _ I) ].
Ltac inapp := repeat (rewrite in_app_iff in * ).

Lemma inv3_Fin (s : rnet) a r : Inv3 s -> qin s = a :: r -> Inv3
  {| qin := r; qA := qA s ++ [a]; qB := qB s; qFo := qFo s; qFb := qFb s; qE := qE s; qO := qO s;
     chk := chk s; imap := imap s; seen := seen s; cterm := cterm s; wterm := wterm s;
     ls := ls s; emitted := emitted s; lgot := lgot s; started := started s |}.
Proof.
  intros I E0. constructor; simpl; try (old3 I).
  - intros p Hp. unfold ph. simpl. eapply phc_perm; [| apply Permutation_refl | exact (r_ph s I p Hp)].
    apply filter_perm. rewrite E0. rewrite app_assoc. simpl. apply Permutation_cons_append.
  - intros t H. apply (r_own s I). rewrite E0. inapp. simpl in *. intuition (subst; auto).
Qed.

Lemma inv3_T (s : rnet) a r : Inv3 s -> qO s = a :: r -> Inv3
  {| qin := qin s;
     qA := qA s ++ match a with AT t => [AI t] | ATerm => [ATerm] | _ => [] end;
     qB := qB s; qFo := qFo s; qFb := qFb s; qE := qE s; qO := r;
     chk := chk s; imap := imap s; seen := seen s; cterm := cterm s; wterm := wterm s;
     ls := ls s; emitted := emitted s; lgot := lgot s; started := started s |}.
Proof.
  intros I E0. constructor; simpl; try (old3 I).
  - intros p Hp. unfold ph. simpl. pose proof (r_ph s I p Hp) as H. unfold ph in H.
    replace (F p (qin s ++ qA s ++ match a with AT t => [AI t] | ATerm => [ATerm] | _ => [] end))
      with (F p (qin s ++ qA s)); [exact H|].
    rewrite !F_app. destruct a; simpl; rewrite ?app_nil_r; reflexivity.
  - intros t H. apply (r_own s I). inapp. destruct a; simpl in *; inapp; simpl in *; intuition (try discriminate; auto).
Qed.

Lemma inv3_Fout (s : rnet) a r : Inv3 s -> qFo s = a :: r -> Inv3
  {| qin := qin s; qA := qA s; qB := qB s; qFo := r; qFb := qFb s; qE := qE s ++ [a]; qO := qO s;
     chk := chk s; imap := imap s; seen := seen s; cterm := cterm s; wterm := wterm s;
     ls := ls s; emitted := emitted s; lgot := lgot s; started := started s |}.
Proof.
  intros I E0.
  assert (EE : hist s ++ (qE s ++ [a]) ++ r = eside s).
  { unfold eside. rewrite E0, <- app_assoc. reflexivity. }
  constructor; simpl; try (old3 I).
  - intros p Hp. unfold ph, eside, hist. simpl. fold (hist s). rewrite EE. exact (r_ph s I p Hp).
  - intros b H. apply (r_eside s I). rewrite <- EE. exact H.
  - destruct (r_t s I) as [(W & A & B & C)|[(W & (l & A & A') & B & C)|[(W & A & _)|(W & A & _)]]];
      try (rewrite A in E0; discriminate).
    + left. unfold hist in *. simpl. repeat split; auto.
      * intros H. apply A. rewrite E0. right. exact H.
      * intros H. inapp. destruct H as [H|[H|[]]]; [auto|]. subst a. apply A. rewrite E0. left. reflexivity.
    + rewrite E0 in A. destruct l as [|b l]; simpl in A; injection A as -> ->.
      * right. right. left. unfold hist in *. simpl. repeat split; auto. exists (qE s). split; auto.
      * right. left. unfold hist in *. simpl. repeat split; auto.
        -- exists l. split; auto. intros H. apply A'. right. exact H.
        -- intros H. inapp. destruct H as [H|[H|[]]]; [auto|]. subst b. apply A'. left. reflexivity.
Qed.

Lemma inv3_Fback (s : rnet) a r : Inv3 s -> qFb s = a :: r -> Inv3
  {| qin := qin s; qA := qA s ++ [a]; qB := qB s; qFo := qFo s; qFb := r; qE := qE s; qO := qO s;
     chk := chk s; imap := imap s; seen := seen s; cterm := cterm s; wterm := wterm s;
     ls := ls s; emitted := emitted s; lgot := lgot s; started := started s |}.
Proof.
  intros I E0. constructor; simpl; try (old3 I).
  - intros p Hp. pose proof (r_ph s I p Hp) as H. unfold ph in *. simpl. fold (hist s).
    change (hist s ++ qE s ++ qFo s) with (eside s).
    rewrite E0 in H. rewrite app_assoc, F_app. simpl in *. unfold F in H at 3. simpl in H. fold (F p r) in H.
    destruct (ownb p a) eqn:O.
    + destruct H as [? ? ? X|c ? ? ? X|c A1 A2 A3 A4 A5 A6|c ? ? ? X|c ? ? ? X]; try discriminate X.
      injection A4 as -> A4. eapply CR2a; eauto. apply perm_nil_eq in A2. rewrite A2. apply Permutation_refl.
    + rewrite app_nil_r. exact H.
  - intros t H. apply (r_own s I). rewrite E0. inapp. simpl in *. intuition (subst; auto).
Qed.

Lemma inv3_L (s : rnet) a r : Inv3 s -> qE s = a :: r -> Inv3
  {| qin := qin s; qA := qA s; qB := qB s; qFo := qFo s; qFb := qFb s; qE := r;
     qO := qO s ++ map AT (snd (fst (rstep (ls s) a)))
                ++ (if (match a with ATerm => true | _ => lgot s end) && snd (rstep (ls s) a) then [ATerm] else []);
     chk := chk s; imap := imap s; seen := seen s; cterm := cterm s; wterm := wterm s;
     ls := fst (fst (rstep (ls s) a)); emitted := emitted s ++ snd (fst (rstep (ls s) a));
     lgot := match a with ATerm => true | _ => lgot s end; started := started s |}.
Proof.
  intros I E0.
  assert (EE : (hist s ++ [a]) ++ r ++ qFo s = eside s).
  { unfold eside. rewrite E0, <- app_assoc. reflexivity. }
  constructor; simpl; try (old3 I).
  - intros p Hp. unfold ph, eside, hist. simpl. fold (hist s). rewrite EE. exact (r_ph s I p Hp).
  - intros b H. apply (r_eside s I). rewrite <- EE. exact H.
  - unfold tphase, hist. simpl. fold (hist s).
    destruct (r_t s I) as [(W & A & B & C)|[(W & A & B & C)|[(W & A & (l & B & B') & C)|(W & A & B & _)]]];
      try (rewrite B in E0; discriminate).
    + left. repeat split; auto.
      * intros H. apply B. rewrite E0. right. exact H.
      * intros H. inapp. simpl in H. destruct H as [H|[H|[]]]; [auto|]. subst a. apply B. rewrite E0. left. reflexivity.
    + right. left. repeat split; auto.
      * intros H. apply B. rewrite E0. right. exact H.
      * intros H. inapp. simpl in H. destruct H as [H|[H|[]]]; [auto|]. subst a. apply B. rewrite E0. left. reflexivity.
    + rewrite E0 in B. destruct l as [|b l]; simpl in B; injection B as -> ->.
      * right. right. right. repeat split; auto. exists (hist s). split; auto.
      * right. right. left. repeat split; auto.
        -- exists l. split; auto. intros H. apply B'. right. exact H.
        -- intros H. inapp. simpl in H. destruct H as [H|[H|[]]]; [auto|]. subst b. apply B'. left. reflexivity.
  - unfold hist. simpl. fold (hist s). intros H. apply in_or_app.
    destruct a; try (left; apply (r_lgot s I); exact H). right. left. reflexivity.
  - unfold hist. simpl. fold (hist s). rewrite map_app. unfold loop_run. rewrite fold_left_app. simpl.
    fold (loop_run pol (map conv (hist s))). rewrite <- (r_h0 s I). reflexivity.
  - rewrite (r_em s I). destruct (lout_prefix pol (fst (ls s)) (conv a)) as (l & El).
    rewrite El, skipn_len_app, map_app. reflexivity.
Qed.

Lemma F_one p c : F p [AT (itag p c)] = [AT (itag p c)].
Proof. unfold F. cbn [filter]. rewrite own_itag. reflexivity. Qed.
Lemma E_one_at p c : E p [AT (itag p c)] = [AT (itag p c)].
Proof. unfold E. cbn [filter]. rewrite (proj1 (preb_itag p c)). reflexivity. Qed.
Lemma E_one_ai p c : E p [AI (itag p c)] = [AI (itag p c)].
Proof. unfold E. cbn [filter]. rewrite (proj2 (preb_itag p c)). reflexivity. Qed.

Lemma eside_perm (h qe xe qf xo : list atok) :
  Permutation (h ++ (qe ++ xe) ++ (qf ++ xo)) ((h ++ qe ++ qf) ++ xe ++ xo).
Proof.
  rewrite <- !app_assoc. apply Permutation_app_head. apply Permutation_app_head.
  rewrite !app_assoc. apply Permutation_app_tail. apply Permutation_app_comm.
Qed.

Lemma inv3_W (s : rnet) a r : Inv3 s -> wterm s = false -> qB s = a :: r -> Inv3
  {| qin := qin s; qA := qA s; qB := r;
     qFo := qFo s ++ match a with AT t => if cont t then [AT t] else [] | ATerm => [ATerm] | _ => [] end;
     qFb := qFb s ++ match a with AT t => if cont t then [AT t] else [] | ATerm => [ATerm] | _ => [] end;
     qE := qE s ++ match a with AT t => if cont t then [] else [AI t] | _ => [] end;
     qO := qO s; chk := chk s; imap := imap s; seen := seen s; cterm := cterm s;
     wterm := match a with ATerm => true | _ => wterm s end;
     ls := ls s; emitted := emitted s; lgot := lgot s; started := started s |}.
Proof.
  intros I G E0.
  set (xo := match a with AT t => if cont t then [AT t] else [] | ATerm => [ATerm] | _ => [] end).
  set (xe := match a with AT t => if cont t then [] else [AI t] | _ => [] end).
  assert (Ha : In a (qB s)) by (rewrite E0; left; reflexivity).
  (* what W does with an instance's control token *)
  assert (Hown : forall p, In p insts -> ownb p a = true ->
            exists c, a = AT (itag p c) /\ F p r = [] /\ tget p (imap s) = Some (N.of_nat c) /\
                      Permutation (F p (qin s ++ qA s)) [] /\ F p (qFb s) = [] /\
                      Permutation (E p (eside s)) (iter_toks p c) /\ (forall j, j < c -> cont (itag p j) = true)).
  { intros p Hp O. pose proof (r_ph s I p Hp) as H. unfold ph in H. rewrite E0 in H.
    unfold F in H at 2. simpl in H. rewrite O in H. fold (F p r) in H.
    destruct H as [? ? X|c A1 A2 A3 A4 A5 A6|c ? ? X|c ? ? X|c ? ? X]; try discriminate X.
    injection A3 as -> A3. exists c. repeat split; auto. }
  constructor; simpl; try (old3 I).
  - intros p Hp. pose proof (r_ph s I p Hp) as H. unfold ph in *. simpl.
    unfold eside, hist. simpl. fold (hist s). fold xo. fold xe.
    assert (PE : Permutation (E p (hist s ++ (qE s ++ xe) ++ qFo s ++ xo)) (E p (eside s) ++ E p xe ++ E p xo)).
    { rewrite <- !E_app. apply filter_perm. apply eside_perm. }
    rewrite (F_app p (qFb s) xo).
    destruct (ownb p a) eqn:O.
    + destruct (Hown p Hp O) as (c & -> & B1 & B2 & B3 & B4 & B5 & B6).
      rewrite B1, B4. subst xo xe. cbv beta iota in PE |- *. destruct (cont (itag p c)) eqn:Cc.
      * rewrite F_one. eapply CR2b; eauto.
        -- rewrite PE, E_one_at. change (E p []) with (@nil atok). rewrite iter_S.
           apply Permutation_app_tail. exact B5.
        -- intros j Hj. destruct (Nat.eq_dec j c) as [->|]; [exact Cc|apply B6; lia].
      * change (F p []) with (@nil atok). eapply CD; eauto. rewrite PE, E_one_ai. change (E p []) with (@nil atok).
        rewrite app_nil_r. apply Permutation_app_tail. exact B5.
    + rewrite E0 in H. unfold F in H at 2. simpl in H. rewrite O in H. fold (F p r) in H.
      assert (Z1 : F p xo = []).
      { subst xo. destruct a as [t| | |]; try reflexivity. destruct (cont t); [|reflexivity]. unfold F. cbn [filter]. rewrite O. reflexivity. }
      assert (Z2 : E p xe = [] /\ E p xo = []).
      { subst xo xe. destruct a as [t| | |]; try (split; reflexivity).
        destruct (own_pre p t O) as [Q1 Q2]. unfold E. destruct (cont t); cbn [filter]; rewrite ?Q1, ?Q2; split; reflexivity. }
      destruct Z2 as [Z2 Z3]. rewrite Z1, app_nil_r.
      eapply phc_perm; [apply Permutation_refl| |exact H]. rewrite PE, Z2, Z3, !app_nil_r. apply Permutation_refl.
  - fold xo. intros t H. inapp. destruct H as [H|[H|[H|[H|H]]]].
    + apply (r_own s I). inapp. auto.
    + apply (r_own s I). inapp. auto.
    + apply (r_own s I). rewrite E0. inapp. simpl. auto.
    + apply (r_own s I). inapp. auto.
    + apply (r_own s I). inapp. right. right. left.
      subst xo. destruct a as [t'| | |]; try destruct (cont t'); simpl in H; intuition (try discriminate).
      congruence.
  - fold xo. fold xe. unfold eside, hist. simpl. fold (hist s). intros b H.
    assert (H' : In b (eside s) \/ In b xe \/ In b xo).
    { unfold eside. inapp. tauto. }
    destruct H' as [H'|H']; [apply (r_eside s I); exact H'|].
    destruct a as [t| | |]; subst xo xe; simpl in H'; try tauto.
    + destruct (r_own s I t) as (p0 & Hp0 & O0); [inapp; right; right; left; exact Ha|].
      destruct (Hown p0 Hp0 O0) as (c & Et & _). injection Et as ->.
      right. exists p0. split; [exact Hp0|].
      destruct (preb_itag p0 c) as [P1 P2].
      destruct (cont (itag p0 c)); simpl in H'; intuition (subst; assumption).
    + left. intuition.
  - fold xo. fold xe. unfold tphase, hist. simpl. fold (hist s).
    destruct (r_t s I) as [(W & A & B & C)|[(W & _)|[(W & _)|(W & _)]]]; try congruence.
    destruct a as [t| | |]; subst xo xe.
    + left. repeat split; auto; intros H; inapp; destruct H as [H|H]; auto; destruct (cont t); simpl in H; intuition discriminate.
    + left. rewrite !app_nil_r. repeat split; auto.
    + left. rewrite !app_nil_r. repeat split; auto.
    + right. left. rewrite app_nil_r. repeat split; auto. exists (qFo s). split; auto.
Qed.

Lemma app_cons_single {A} (l1 l2 : list A) a x : l1 ++ a :: l2 = [x] -> l1 = [] /\ l2 = [] /\ a = x.
Proof.
  destruct l1 as [|b l1]; simpl; intros H.
  - injection H as -> ->. auto.
  - injection H as _ H. destruct l1; discriminate.
Qed.

(* what the combinator step does with an instance's control token *)
Lemma c_move_at (s : rnet) t r : Inv3 s -> qA s = AT t :: r ->
  exists p0 j, In p0 insts /\ ownb p0 (AT t) = true /\
    c_imap s (AT t) = (p0, N.of_nat j) :: imap s /\ c_out s (AT t) = [AT (itag p0 j)] /\
    phc p0 (Some (N.of_nat j)) (F p0 (qin s ++ r)) (F p0 (qB s) ++ [AT (itag p0 j)]) (F p0 (qFb s)) (E p0 (eside s)).
Proof.
  intros I E0.
  destruct (r_own s I t) as (p0 & Hp0 & O0); [rewrite E0; inapp; simpl; auto|].
  exists p0. pose proof (r_ph s I p0 Hp0) as H. unfold ph in H. rewrite E0 in H.
  rewrite F_app in H. unfold F in H at 2. cbn [filter] in H. rewrite O0 in H. fold (F p0 r) in H.
  unfold c_imap, c_out, retag_l.
  destruct H as [A1 A2 A3 A4 A5|c A1 A2|c A1 A2|c A1 A2 A3 A4 A5 A6|c A1 A2].
  - apply perm_single in A2. apply app_cons_single in A2. destruct A2 as (Z1 & Z2 & Z3). injection Z3 as ->.
    assert (N0 : tget (pre p0) (imap s) = None).
    { destruct (tget (pre p0) (imap s)) eqn:T0; [|reflexivity]. exfalso.
      assert (In (pre p0) insts) by (apply (r_imap s I); rewrite T0; discriminate).
      pose proof (Hinsts _ H) as L. pose proof (Hinsts _ Hp0) as L0. rewrite pre_len in L. lia. }
    rewrite N0. exists 0. split; [exact Hp0|]. split; [exact O0|]. split; [reflexivity|]. split; [reflexivity|].
    rewrite F_app, Z1, Z2, A3. simpl. eapply (CR1 p0 _ _ _ _ _ 0); auto.
    + intros j Hj. lia.
  - apply perm_nil_eq in A2. destruct (F p0 (qin s)); discriminate.
  - apply perm_nil_eq in A2. destruct (F p0 (qin s)); discriminate.
  - apply perm_single in A2. apply app_cons_single in A2. destruct A2 as (Z1 & Z2 & Z3). injection Z3 as ->.
    rewrite pre_itag, A1. exists (S c). rewrite Nat2N.inj_succ.
    split; [exact Hp0|]. split; [exact O0|]. split; [reflexivity|].
    split; [simpl; unfold itag; rewrite Nat2N.inj_succ; reflexivity|].
    rewrite F_app, Z1, Z2, A3. simpl. rewrite <- Nat2N.inj_succ. eapply (CR1 p0 _ _ _ _ _ (S c)); auto.
  - apply perm_nil_eq in A2. destruct (F p0 (qin s)); discriminate.
Qed.

Lemma inv3_C (s : rnet) a r : Inv3 s -> cterm s = false -> qA s = a :: r -> Inv3
  {| qin := qin s; qA := r;
     qB := qB s ++ c_out s a ++ (if c_stop s a then [ATerm] else []);
     qFo := qFo s; qFb := qFb s; qE := qE s; qO := qO s;
     chk := c_chk s a; imap := c_imap s a; seen := c_seen s a; cterm := c_stop s a; wterm := wterm s;
     ls := ls s; emitted := emitted s; lgot := lgot s;
     started := match a with AT t => t :: started s | _ => started s end |}.
Proof.
  intros I G E0.
  assert (Fstop : forall p, F p (if c_stop s a then [ATerm] else []) = []) by (intros p; destruct (c_stop s a); reflexivity).
  destruct a as [t| | |].
  - destruct (c_move_at s t r I E0) as (p0 & j & Hp0 & O0 & Ei & Eo & Hph).
    constructor; try (old3 I).
    + intros p Hp. unfold ph, eside, hist. cbn [imap qin qA qB qFb qE qFo ls]. fold (hist s).
      change (hist s ++ qE s ++ qFo s) with (eside s).
      rewrite Ei, Eo. rewrite !F_app, Fstop, app_nil_r.
      destruct (tag_dec p p0) as [->|Hne].
      * cbn [tget]. destruct (tag_dec p0 p0); [|contradiction]. rewrite F_one. rewrite F_app in Hph. exact Hph.
      * cbn [tget]. destruct (tag_dec p p0); [contradiction|].
        destruct (own_other p p0 Hp Hp0 Hne) as [X1 X2].
        assert (Oa : ownb p (AT t) = false).
        { simpl in O0. destruct (tag_dec t p0) as [->|]; [exact X1|].
          destruct (tag_dec (pre t) p0) as [Ep|]; [|discriminate].
          simpl. destruct (tag_dec t p) as [->|].
          - exfalso. pose proof (Hinsts _ Hp) as L. pose proof (Hinsts _ Hp0) as L0. rewrite <- Ep, pre_len in L0. lia.
          - rewrite Ep. destruct (tag_dec p0 p); [congruence|reflexivity]. }
        pose proof (r_ph s I p Hp) as H. unfold ph in H. rewrite E0, F_app in H. unfold F in H at 2. cbn [filter] in H.
        rewrite Oa in H. fold (F p r) in H. unfold F at 4. cbn [filter]. rewrite (X2 j). rewrite app_nil_r. exact H.
    + cbn [qin qA qB qFb]. rewrite Eo. intros t' H. inapp. destruct H as [H|[H|[[H|[H|H]]|H]]].
      * apply (r_own s I). inapp. auto.
      * apply (r_own s I). rewrite E0. inapp. simpl. auto.
      * apply (r_own s I). inapp. auto.
      * destruct H as [H|[]]. injection H as <-. exists p0. split; [exact Hp0|apply own_itag].
      * destruct (c_stop s (AT t)); simpl in H; intuition discriminate.
      * apply (r_own s I). inapp. auto.
    + cbn [imap]. rewrite Ei. intros k Hk. cbn [tget] in Hk. destruct (tag_dec k p0) as [->|]; [exact Hp0|apply (r_imap s I); exact Hk].
  - constructor; simpl; try (old3 I).
    + intros p Hp. pose proof (r_ph s I p Hp) as H. unfold ph in *. simpl. unfold eside, hist. simpl. fold (hist s).
      change (hist s ++ qE s ++ qFo s) with (eside s). rewrite E0 in H. rewrite !F_app in *. rewrite Fstop.
      unfold F in H at 2. cbn [filter ownb] in H. fold (F p r) in H. simpl. rewrite app_nil_r. exact H.
    + intros t' H. apply (r_own s I). rewrite E0. inapp. simpl in *.
      destruct (c_stop s (AI t)); simpl in H; inapp; simpl in H; intuition discriminate.
  - constructor; simpl; try (old3 I).
    + intros p Hp. pose proof (r_ph s I p Hp) as H. unfold ph in *. simpl. unfold eside, hist. simpl. fold (hist s).
      change (hist s ++ qE s ++ qFo s) with (eside s). rewrite E0 in H. rewrite !F_app in *. rewrite Fstop.
      unfold F in H at 2. cbn [filter ownb] in H. fold (F p r) in H. simpl. rewrite app_nil_r. exact H.
    + intros t' H. apply (r_own s I). rewrite E0. inapp. simpl in *.
      destruct (c_stop s ATermIn); simpl in H; inapp; simpl in H; intuition discriminate.
  - constructor; simpl; try (old3 I).
    + intros p Hp. pose proof (r_ph s I p Hp) as H. unfold ph in *. simpl. unfold eside, hist. simpl. fold (hist s).
      change (hist s ++ qE s ++ qFo s) with (eside s). rewrite E0 in H. rewrite !F_app in *. rewrite Fstop.
      unfold F in H at 2. cbn [filter ownb] in H. fold (F p r) in H. simpl. rewrite app_nil_r. exact H.
    + intros t' H. apply (r_own s I). rewrite E0. inapp. simpl in *.
      destruct (c_stop s ATerm); simpl in H; inapp; simpl in H; intuition discriminate.
Qed.

(* ------------------------------------------------------------------ initial state, reachability *)
Hypothesis Hnd : NoDup insts.

Lemma F_insts p l : NoDup l -> (forall x, In x l -> In x insts) -> In p insts ->
  F p (map AT l) = if in_dec tag_dec p l then [AT p] else [].
Proof.
  intros Hn Hl Hp. induction l as [|x l IH]; [reflexivity|].
  inversion Hn as [|? ? Hnin Hn']; subst. simpl map. unfold F. cbn [filter]. fold (F p (map AT l)).
  rewrite IH by (auto; intros y Hy; apply Hl; right; exact Hy).
  destruct (tag_dec x p) as [->|Hne].
  - rewrite own_self. destruct (in_dec tag_dec p (p :: l)) as [_|N]; [|exfalso; apply N; left; reflexivity].
    destruct (in_dec tag_dec p l); [contradiction|reflexivity].
  - destruct (own_other p x Hp (Hl x (or_introl eq_refl))) as [X _]; [congruence|]. rewrite X.
    destruct (in_dec tag_dec p l) as [i|n]; destruct (in_dec tag_dec p (x :: l)) as [i'|n']; try reflexivity.
    + exfalso. apply n'. right. exact i.
    + exfalso. destruct i' as [E0|i']; [congruence|contradiction].
Qed.

Lemma inv3_init : Inv3 (ninit RS rinit insts).
Proof.
  constructor; simpl.
  - intros p Hp. unfold ph, eside, hist. simpl. rewrite app_nil_r, F_app.
    rewrite (F_insts p insts Hnd (fun x H => H) Hp).
    destruct (in_dec tag_dec p insts); [|contradiction]. apply CU; auto.
  - intros t H. rewrite !app_nil_r in H. apply in_app_iff in H. destruct H as [H|[H|[]]]; [|discriminate].
    apply in_map_iff in H. destruct H as (x & E0 & Hx). injection E0 as ->. exists t. split; [exact Hx|apply own_self].
  - intros k H. exfalso. apply H. reflexivity.
  - intros a [].
  - left. unfold hist. simpl. repeat split; auto.
  - discriminate.
  - reflexivity.
  - reflexivity.
Qed.

Lemma inv3_step s s' : Inv3 s -> nstep RS rstep cont s s' -> Inv3 s'.
Proof.
  intros I H. destruct H.
  - apply inv3_Fin; assumption.
  - apply inv3_C; assumption.
  - apply inv3_W; assumption.
  - apply inv3_Fout; assumption.
  - apply inv3_Fback; assumption.
  - apply inv3_L; assumption.
  - apply inv3_T; assumption.
Qed.

Lemma inv3_reach s : rreach s -> Inv3 s.
Proof. induction 1; [apply inv3_init|eapply inv3_step; eauto]. Qed.

(* ------------------------------------------------------------------ assembling the end-to-end statement *)
Lemma preb_unique p p' a : preb p a = true -> preb p' a = true -> p = p'.
Proof.
  destruct a as [t|t| |]; simpl; try discriminate;
    destruct (tag_dec (pre t) p); destruct (tag_dec (pre t) p'); try discriminate; congruence.
Qed.

Lemma perm_partition (l : list tag) (X : tag -> list atok) : forall h,
  NoDup l -> (forall p, In p l -> Permutation (E p h) (X p)) ->
  (forall a, In a h -> exists p, In p l /\ preb p a = true) ->
  Permutation h (concat (map X l)).
Proof.
  induction l as [|p0 l IH]; intros h Hn H1 H2.
  - destruct h as [|a h]; [constructor|]. destruct (H2 a (or_introl eq_refl)) as (p & [] & _).
  - inversion Hn as [|? ? Hnin Hn']; subst. simpl.
    rewrite (filter_split_perm (preb p0) h). apply Permutation_app; [apply H1; left; reflexivity|].
    apply IH; auto.
    + intros p Hp. unfold E. rewrite filter_filter_sub; [apply H1; right; exact Hp|].
      intros x Hx. destruct (preb p0 x) eqn:B; [|reflexivity].
      exfalso. apply Hnin. rewrite (preb_unique p0 p x B Hx). exact Hp.
    + intros a Ha. apply filter_In in Ha. destruct Ha as [Ha Hneg].
      destruct (H2 a Ha) as (p & [<-|Hp] & B); [rewrite B in Hneg; discriminate|]. exists p. split; assumption.
Qed.

Lemma concat_perm {A B} (f g : A -> list B) l :
  (forall x, In x l -> Permutation (f x) (g x)) -> Permutation (concat (map f l)) (concat (map g l)).
Proof.
  induction l as [|x l IH]; intros H; simpl; [constructor|].
  apply Permutation_app; [apply H; left; reflexivity|apply IH; intros y Hy; apply H; right; exact Hy].
Qed.

(* the iterations of instance p, as the tokens the loop output step receives *)
Definition iters (p : tag) (k : nat) : list tok :=
  map (fun j => Tok (render (itag p j)) (val (itag p j))) (seq 0 k).

Lemma iters_ok p k : p <> [] -> inst_ok (p, iters p k).
Proof.
  intros Hp. split; [exact Hp|]. unfold elems_ok, tags_from, iters. simpl.
  rewrite map_map, map_length, seq_length. reflexivity.
Qed.

Lemma conv_X p k :
  Permutation (map conv (iter_toks p k ++ [AI (itag p k)])) (liarr (p, iters p k)).
Proof.
  unfold liarr, linst_arrivals, iters, iter_toks. simpl. rewrite map_app, !map_map, map_length, seq_length. simpl.
  apply Permutation_sym. apply Permutation_cons_append.
Qed.

Definition kof (s : rnet) (p : tag) : nat := match tget p (imap s) with Some n => N.to_nat n | None => 0 end.

Lemma ph_decided p s t :
  ph p s -> In (AI t) (E p (eside s)) ->
  t = itag p (kof s p) /\ Permutation (E p (eside s)) (iter_toks p (kof s p) ++ [AI (itag p (kof s p))]) /\
  (forall j, j < kof s p -> cont (itag p j) = true) /\ cont (itag p (kof s p)) = false.
Proof.
  intros H Hin. unfold ph in H.
  assert (NoAI : forall c, ~ In (AI t) (iter_toks p c)).
  { intros c X. unfold iter_toks in X. apply in_map_iff in X. destruct X as (j & X & _). discriminate. }
  destruct H as [A1 A2 A3 A4 A5|c A1 A2 A3 A4 A5 A6|c A1 A2 A3 A4 A5 A6|c A1 A2 A3 A4 A5 A6|c A1 A2 A3 A4 A5 A6 A7].
  - apply perm_nil_eq in A5. rewrite A5 in Hin. destruct Hin.
  - exfalso. apply (NoAI c). eapply Permutation_in; eauto.
  - exfalso. apply (NoAI (S c)). eapply Permutation_in; eauto.
  - exfalso. apply (NoAI (S c)). eapply Permutation_in; eauto.
  - assert (K : kof s p = c) by (unfold kof; rewrite A1; apply Nat2N.id). rewrite K.
    split; [|auto]. eapply Permutation_in in Hin; [|exact A5]. apply in_app_iff in Hin.
    destruct Hin as [Hin|[Hin|[]]]; [exfalso; apply (NoAI c); exact Hin|]. injection Hin as <-. reflexivity.
Qed.

Lemma nodup_render (l : list tag) : NoDup l -> (forall x, In x l -> x <> []) -> NoDup (map render l).
Proof.
  induction l as [|x l IH]; intros Hn Hne; simpl; constructor.
  - inversion Hn; subst. intros Hin. apply in_map_iff in Hin. destruct Hin as (y & E0 & Hy).
    apply render_inj in E0; [subst; contradiction|apply Hne; right; exact Hy|apply Hne; left; reflexivity].
  - inversion Hn; subst. apply IH; auto. intros y Hy. apply Hne. right. exact Hy.
Qed.

Theorem loop_network s :
  rreach s ->
  (* (a) until L has taken the termination token it has not terminated *)
  (lgot s = false -> lfinal (fst (ls s)) = None) /\
  (* (b) once it has: every instance ran its body while the condition held, and L has emitted exactly one output
         per instance -- the iteration values in iteration order / the last one -- and then terminated *)
  (lgot s = true ->
     let k := kof s in
     (forall p, In p insts -> (forall j, j < k p -> cont (itag p j) = true) /\ cont (itag p (k p)) = false) /\
     Permutation (lout (fst (ls s))) (map (fun p => lexpected pol (p, iters p (k p))) insts) /\
     lfinal (fst (ls s)) = Some (get_status (reduce_statuses [Skipped; tst]) (match insts with [] => true | _ => false end))).
Proof.
  intros R. pose proof (inv3_reach s R) as I3.
  assert (Hne : forall p, In p insts -> p <> []).
  { intros p Hp E0. pose proof (Hinsts p Hp) as L. rewrite E0 in L. simpl in L. lia. }
  split.
  - intros G. rewrite (r_h0 s I3). apply loop_run_no_term.
    intros a Ha. apply in_map_iff in Ha. destruct Ha as (b & <- & Hb).
    assert (Hb' : In b (eside s)) by (unfold eside; apply in_or_app; left; exact Hb).
    destruct (r_eside s I3 b Hb') as [->|(p & _ & B)].
    + exfalso. destruct (r_t s I3) as [(_ & _ & _ & C)|[(_ & _ & _ & C)|[(_ & _ & _ & C)|(W & A & B & LG & _)]]];
        try (apply C; exact Hb). congruence.
    + destruct b; simpl in B; try discriminate; simpl; discriminate.
  - intros G k.
    pose proof (inv_reach RS rstep rinit cont insts d Hd Hinsts s R) as I.
    assert (Em : forall p, In p insts -> In p (emitted s)).
    { apply (no_early_exit RS rstep rinit cont insts d Hd Hinsts s R). left. exact G. }
    pose proof (r_lgot s I3 G) as HT.
    destruct (r_t s I3) as [(_ & _ & _ & C)|[(_ & _ & _ & C)|[(_ & _ & _ & C)|(W & QF & QE & _ & (h & Eh & Hh))]]];
      try contradiction.
    assert (ES : eside s = h ++ [ATerm]) by (unfold eside; rewrite QF, QE, !app_nil_r; exact Eh).
    (* every instance is decided *)
    assert (Dec : forall p, In p insts ->
              Permutation (E p h) (iter_toks p (k p) ++ [AI (itag p (k p))]) /\
              (forall j, j < k p -> cont (itag p j) = true) /\ cont (itag p (k p)) = false).
    { intros p Hp. pose proof (Em p Hp) as He. rewrite (r_em s I3) in He.
      apply in_map_iff in He. destruct He as (o & Eo & Ho).
      rewrite (r_h0 s I3) in Ho. destruct (loop_run_sized pol (map conv (hist s))) as [_ S2].
      destruct (S2 o Ho) as (tg & Htg & Etg).
      apply in_map_iff in Htg. destruct Htg as (a & Ea & Ha).
      destruct a as [t0|t| |]; simpl in Ea; try discriminate. injection Ea as <-.
      assert (Ha' : In (AI t) (eside s)) by (unfold eside; apply in_or_app; left; exact Ha).
      destruct (r_eside s I3 _ Ha') as [X|(p' & Hp' & B)]; [discriminate|].
      assert (Hin : In (AI t) (E p' (eside s))) by (apply filter_In; split; assumption).
      destruct (ph_decided p' s t (r_ph s I3 p' Hp') Hin) as (Et & P1 & P2 & P3).
      assert (p' = p).
      { rewrite Et in Etg. unfold itag in Etg. rewrite drop_last_render in Etg by (apply Hne; exact Hp').
        rewrite <- Etg, parse_render in Eo by (apply Hne; exact Hp'). exact Eo. }
      subst p'. split; [|split; assumption].
      rewrite ES in P1. unfold E in P1. rewrite filter_app in P1. simpl in P1. rewrite app_nil_r in P1. exact P1. }
    split; [intros p Hp; destruct (Dec p Hp) as (_ & D2 & D3); split; assumption|].
    set (insts' := map (fun p => (p, iters p (k p))) insts).
    assert (Hok : Forall inst_ok insts').
    { apply Forall_forall. intros i Hi. apply in_map_iff in Hi. destruct Hi as (p & <- & Hp). apply iters_ok. apply Hne. exact Hp. }
    assert (Hnd' : NoDup (map ikey insts')).
    { unfold insts'. rewrite map_map. unfold ikey. simpl. apply nodup_render; assumption. }
    assert (Hperm : Permutation (map conv h) (all_larr insts')).
    { assert (P0 : Permutation h (concat (map (fun p => iter_toks p (k p) ++ [AI (itag p (k p))]) insts))).
      { apply perm_partition; auto.
        - intros p Hp. apply (Dec p Hp).
        - intros a Ha. assert (Ha' : In a (eside s)) by (rewrite ES; apply in_or_app; left; exact Ha).
          destruct (r_eside s I3 a Ha') as [->|X]; [contradiction|exact X]. }
      rewrite P0. unfold all_larr, insts'. rewrite map_map. rewrite concat_map, map_map.
      apply concat_perm. intros p _. apply conv_X. }
    destruct (loop_step_thm_st pol insts' (map conv h) tst Hok Hnd' Hperm) as (_ & _ & T3 & T4).
    assert (EL : fst (ls s) = loop_run pol (map conv h ++ [LTerm tst])).
    { rewrite (r_h0 s I3), Eh, map_app. reflexivity. }
    rewrite EL. split.
    + rewrite T3. unfold insts'. rewrite map_map. apply Permutation_refl.
    + rewrite T4. unfold insts'. destruct insts; reflexivity.
Qed.

End Real.

(* ---- a concrete run with the real loop output step (non-vacuity): one instance [0], one iteration; the
   iteration-termination token 0.1 overtakes the iteration token 0.0 on its way to L ---- *)
Definition ex_cont1 (t : tag) : bool := match t with [0%N; 0%N] => true | _ => false end.
Definition ex_val (t : tag) : string := render t.
Lemma ex_real_run :
  exists s, rreach OutAll ex_val Completed ex_cont1 [[0%N]] s /\ lgot s = true /\
            lout (fst (ls s)) = [ListTok "0" [Tok "0.0" "0.0"]] /\ kof s [0%N] = 1.
Proof.
  eexists. split.
  - eapply reach_steps; [apply reach_init|].
    eapply steps_cons; [eapply N_Fin; reflexivity|]. cbn.
    eapply steps_cons; [eapply N_Fin; reflexivity|]. cbn.
    eapply steps_cons; [eapply N_C; reflexivity|]. cbn.
    eapply steps_cons; [eapply N_W; reflexivity|]. cbn.
    eapply steps_cons; [eapply N_Fback; reflexivity|]. cbn.
    eapply steps_cons; [eapply N_C; reflexivity|]. cbn.
    eapply steps_cons; [eapply N_C; reflexivity|]. cbn.
    eapply steps_cons; [eapply N_W; reflexivity|]. cbn.
    eapply steps_cons; [eapply N_Fout; reflexivity|]. cbn.
    eapply steps_cons; [eapply N_L; reflexivity|]. cbn.
    eapply steps_cons; [eapply N_L; reflexivity|]. cbn.
    eapply steps_cons; [eapply N_T; reflexivity|]. cbn.
    eapply steps_cons; [eapply N_C; reflexivity|]. cbn.
    eapply steps_cons; [eapply N_W; reflexivity|]. cbn.
    eapply steps_cons; [eapply N_Fout; reflexivity|]. cbn.
    eapply steps_cons; [eapply N_L; reflexivity|]. cbn.
    apply steps_nil.
  - cbn. repeat split; reflexivity.
Qed.
