(* Loop/Net.v — the loop sub-network the CWL translator builds around a step with a cwltool:Loop requirement,
   as a labelled transition system (definitions only; one loop variable).
   ANCHORS: streamflow.workflow.step.LoopCombinatorStep.run, streamflow.workflow.combinator.LoopCombinator._product,
            streamflow.workflow.combinator.LoopTerminationCombinator._product,
            streamflow.cwl.step.CWLLoopConditionalStep._on_true, streamflow.cwl.step.CWLLoopConditionalStep._on_false,
            streamflow.workflow.step.ConditionalStep.run, streamflow.cwl.transformer.ForwardTransformer.transform,
            streamflow.workflow.step.BaseStep.terminate
   Wiring (cwl/translator.py, "_create_loop_condition" and "Process loop outputs"):

     qin --F_in--> A --C (LoopCombinatorStep)--> B --W (loop-when)--true--> D -body-> G --F_out--> E --L (loop output)--> O
                   ^                                    |false: IterationTermination(p.k) on the skip port E               |
                   |<------------- F_back <-------------+--- G (the body output, looped back)                               |
                   |<------------- T (loop-terminator: IterationTermination(p) for every token p on O) <--------------------+

   Ports are FIFO queues with several producers (A: F_in, F_back, T;  E: W's skip port, F_out).  The body and the three
   ForwardTransformers emit one token per token with the same tag, so D/G are merged into the two queues qFo, qFb.
   A step's terminate() puts a TerminationToken on each of its OUTPUT ports (skip ports are not output ports).
   Interleaving: any step whose input queue is non-empty may take its head ([nstep] is the union of the seven moves).
   Tags are lists of numbers here ([pre] = all but the last component); only termination tokens with status COMPLETED
   are modelled (LoopCombinatorStep clears its checklist on any other status: the failure path).
   The loop-output step L is a PARAMETER ([lstep]): the wiring theorem holds whatever L does with its tokens, provided
   it does not terminate before it has taken a termination token from E (true of LoopOutputStep.run:
   Loop/Proofs.v [running_fold]; in [N_L] L's own termination token is put on O only once [lgot] holds).  The loop
   condition is a parameter too ([cont]). *)
From Coq Require Import List Bool Arith NArith.
From SF Require Import Tags.Model.
Import ListNotations.

Inductive atok :=
| AT (t : tag)        (* an ordinary token *)
| AI (t : tag)        (* IterationTerminationToken(tag) *)
| ATermIn             (* the TerminationToken put by F_in when the loop's external input ends *)
| ATerm.              (* a TerminationToken put by any step of the sub-network when it terminates *)

Definition tag_dec : forall a b : tag, {a = b} + {a <> b} := list_eq_dec N.eq_dec.
Definition tmem (x : tag) (l : list tag) : bool := if in_dec tag_dec x l then true else false.
Definition pre (t : tag) : tag := removelast t.

Fixpoint tget (k : tag) (m : list (tag * N)) : option N :=
  match m with [] => None | (k', v) :: m' => if tag_dec k k' then Some v else tget k m' end.

(* LoopCombinator._product, list level (Loop/Model.v [loop_retag] is the string-level mirror) *)
Definition retag_l (im : list (tag * N)) (t : tag) : list (tag * N) * tag :=
  match tget (pre t) im with
  | None => ((t, 0%N) :: im, t ++ [0%N])
  | Some c => ((pre t, N.succ c) :: im, pre t ++ [N.succ c])
  end.

Section Net.
Variable LS : Type.
(* L reads one token: new state, tags of the tokens it emits, and whether it terminates now *)
Variable lstep : LS -> atok -> LS * list tag * bool.
Variable linit0 : LS.
Variable cont : tag -> bool.           (* loopWhen *)
Variable insts : list tag.             (* tags of the loop's input tokens = loop instances *)

Record net := {
  qin : list atok; qA : list atok; qB : list atok; qFo : list atok; qFb : list atok;
  qE : list atok; qO : list atok;
  chk : list tag;                      (* iteration_termination_checklist of the single port *)
  imap : list (tag * N);               (* LoopCombinator.iteration_map *)
  seen : bool;                         (* the port is in [terminated] *)
  cterm : bool;                        (* LoopCombinatorStep.run returned *)
  wterm : bool;                        (* the conditional step terminated *)
  ls : LS;
  emitted : list tag;                  (* tags of everything L has put on O *)
  lgot : bool;                         (* L has taken a termination token from E *)
  started : list tag                   (* ghost: tags of the ordinary tokens C has read *)
}.

Definition ninit : net :=
  {| qin := map AT insts ++ [ATermIn]; qA := []; qB := []; qFo := []; qFb := []; qE := []; qO := [];
     chk := []; imap := []; seen := false; cterm := false; wterm := false;
     ls := linit0; emitted := []; lgot := false; started := [] |}.

Definition is_nil {A} (l : list A) : bool := match l with [] => true | _ => false end.

(* ---- LoopCombinatorStep.run on one token taken from A ---- *)
(* checklist after the token *)
Definition c_chk (s : net) (a : atok) : list tag :=
  match a with
  | AT t => if tmem (pre t) (chk s) then chk s else if tmem t (chk s) then chk s else chk s ++ [t]
  | AI t => remove tag_dec t (chk s)                (* if token.tag in checklist: checklist.remove(token.tag) *)
  | _ => chk s
  end.
Definition c_seen (s : net) (a : atok) : bool :=
  match a with ATermIn | ATerm => true | _ => seen s end.
(* tokens put on B: the re-tagged combination, then the termination token if the step leaves its loop
   (the port is in [terminated] and the checklist is empty -- tested after every token) *)
Definition c_out (s : net) (a : atok) : list atok :=
  match a with AT t => [AT (snd (retag_l (imap s) t))] | _ => [] end.
Definition c_imap (s : net) (a : atok) : list (tag * N) :=
  match a with AT t => fst (retag_l (imap s) t) | _ => imap s end.
Definition c_stop (s : net) (a : atok) : bool := c_seen s a && is_nil (c_chk s a).

Inductive nstep : net -> net -> Prop :=
| N_Fin s a r : qin s = a :: r ->        (* input-forward-transformer *)
    nstep s {| qin := r; qA := qA s ++ [a]; qB := qB s; qFo := qFo s; qFb := qFb s; qE := qE s; qO := qO s;
               chk := chk s; imap := imap s; seen := seen s; cterm := cterm s; wterm := wterm s;
               ls := ls s; emitted := emitted s; lgot := lgot s; started := started s |}
| N_C s a r : cterm s = false -> qA s = a :: r ->      (* LoopCombinatorStep *)
    nstep s {| qin := qin s; qA := r;
               qB := qB s ++ c_out s a ++ (if c_stop s a then [ATerm] else []);
               qFo := qFo s; qFb := qFb s; qE := qE s; qO := qO s;
               chk := c_chk s a; imap := c_imap s a; seen := c_seen s a; cterm := c_stop s a; wterm := wterm s;
               ls := ls s; emitted := emitted s; lgot := lgot s;
               started := match a with AT t => t :: started s | _ => started s end |}
| N_W s a r : wterm s = false -> qB s = a :: r ->      (* CWLLoopConditionalStep, then body / forwarders' inputs *)
    nstep s {| qin := qin s; qA := qA s; qB := r;
               qFo := qFo s ++ match a with AT t => if cont t then [AT t] else [] | ATerm => [ATerm] | _ => [] end;
               qFb := qFb s ++ match a with AT t => if cont t then [AT t] else [] | ATerm => [ATerm] | _ => [] end;
               qE := qE s ++ match a with AT t => if cont t then [] else [AI t] | _ => [] end;
               qO := qO s; chk := chk s; imap := imap s; seen := seen s; cterm := cterm s;
               wterm := match a with ATerm => true | _ => wterm s end;
               ls := ls s; emitted := emitted s; lgot := lgot s; started := started s |}
| N_Fout s a r : qFo s = a :: r ->       (* body + output-forward-transformer *)
    nstep s {| qin := qin s; qA := qA s; qB := qB s; qFo := r; qFb := qFb s; qE := qE s ++ [a]; qO := qO s;
               chk := chk s; imap := imap s; seen := seen s; cterm := cterm s; wterm := wterm s;
               ls := ls s; emitted := emitted s; lgot := lgot s; started := started s |}
| N_Fback s a r : qFb s = a :: r ->      (* body + back-propagation-transformer *)
    nstep s {| qin := qin s; qA := qA s ++ [a]; qB := qB s; qFo := qFo s; qFb := r; qE := qE s; qO := qO s;
               chk := chk s; imap := imap s; seen := seen s; cterm := cterm s; wterm := wterm s;
               ls := ls s; emitted := emitted s; lgot := lgot s; started := started s |}
| N_L s a r : qE s = a :: r ->           (* loop output step *)
    nstep s {| qin := qin s; qA := qA s; qB := qB s; qFo := qFo s; qFb := qFb s; qE := r;
               qO := qO s ++ map AT (snd (fst (lstep (ls s) a)))
                          ++ (if (match a with ATerm => true | _ => lgot s end) && snd (lstep (ls s) a) then [ATerm] else []);
               chk := chk s; imap := imap s; seen := seen s; cterm := cterm s; wterm := wterm s;
               ls := fst (fst (lstep (ls s) a)); emitted := emitted s ++ snd (fst (lstep (ls s) a));
               lgot := match a with ATerm => true | _ => lgot s end; started := started s |}
| N_T s a r : qO s = a :: r ->           (* loop-terminator (LoopTerminationCombinator) *)
    nstep s {| qin := qin s;
               qA := qA s ++ match a with AT t => [AI t] | ATerm => [ATerm] | _ => [] end;
               qB := qB s; qFo := qFo s; qFb := qFb s; qE := qE s; qO := r;
               chk := chk s; imap := imap s; seen := seen s; cterm := cterm s; wterm := wterm s;
               ls := ls s; emitted := emitted s; lgot := lgot s; started := started s |}.

(* the LoopCombinatorStep move as a function (the state N_C leads to), used by the correspondence *)
Definition c_move (s : net) (a : atok) (r : list atok) : net :=
  {| qin := qin s; qA := r;
     qB := qB s ++ c_out s a ++ (if c_stop s a then [ATerm] else []);
     qFo := qFo s; qFb := qFb s; qE := qE s; qO := qO s;
     chk := c_chk s a; imap := c_imap s a; seen := c_seen s a; cterm := c_stop s a; wterm := wterm s;
     ls := ls s; emitted := emitted s; lgot := lgot s;
     started := match a with AT t => t :: started s | _ => started s end |}.
Lemma N_C_move s a r : cterm s = false -> qA s = a :: r -> nstep s (c_move s a r).
Proof. exact (N_C s a r). Qed.
(* LoopCombinatorStep alone, fed a token sequence: it reads until it has terminated *)
Fixpoint c_run (s : net) (arr : list atok) : net :=
  match arr with
  | [] => s
  | a :: r => if cterm s then s else c_run (c_move s a r) r
  end.
(* the conditional step alone: tokens put on the output port D and on the skip port E *)
Definition w_out (a : atok) : list atok * list atok :=
  match a with
  | AT t => if cont t then ([AT t], []) else ([], [AI t])
  | ATerm | ATermIn => ([ATerm], [])
  | _ => ([], [])
  end.

Inductive reach : net -> Prop :=
| reach_init : reach ninit
| reach_step s s' : reach s -> nstep s s' -> reach s'.
End Net.

Arguments qin {LS} _.  Arguments qA {LS} _.  Arguments qB {LS} _.  Arguments qFo {LS} _.  Arguments qFb {LS} _.
Arguments qE {LS} _.  Arguments qO {LS} _.  Arguments chk {LS} _.  Arguments imap {LS} _.  Arguments seen {LS} _.
Arguments cterm {LS} _.  Arguments wterm {LS} _.  Arguments ls {LS} _.  Arguments emitted {LS} _.
Arguments lgot {LS} _.  Arguments started {LS} _.
Arguments c_chk {LS} _ _.  Arguments c_seen {LS} _ _.  Arguments c_out {LS} _ _.  Arguments c_imap {LS} _ _.
Arguments c_stop {LS} _ _.
Arguments c_move {LS} _ _ _.  Arguments c_run {LS} _ _.
