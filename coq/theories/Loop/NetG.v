(* Loop/NetG.v — the loop sub-network of Loop/Net.v as ONE input variable and ONE output variable of a loop with k
   input variables and m outputs see it (definitions only).  Compared with Loop/Net.v:
   * LoopCombinatorStep: reading a token from the port (checklist, `terminated`) and emitting the re-tagged
     combination are separate moves, because the LoopCombinator (a dot product) emits only when every one of the k
     ports has delivered the tag -- the read tags wait in [gbuf]; the step stops reading the port once it is in
     `terminated` with an empty checklist, and run() returns later, when every port is in that state ([G_Cterm]);
   * loop-terminator: reading an output token and emitting IterationTerminationToken(p) are separate moves, because
     the LoopTerminationCombinator emits only when every one of the m output ports has delivered p ([gtbuf]); its own
     termination token likewise ([gtseen], [G_Tterm]).
   The order inside [gbuf]/[gtbuf] is immaterial (constraints are stated with Permutation).
   Loop/NetK.v defines the k x m network itself and proves that each of its (input, output) projections moves by the
   moves below; Loop/Net.v is the instance where every join is immediate. *)
From Coq Require Import List Bool Arith NArith Permutation.
From SF Require Import Tags.Model Loop.Net.
Import ListNotations.

Section NetG.
Variable LS : Type.
Variable lstep : LS -> atok -> LS * list tag * bool.
Variable linit0 : LS.
Variable cont : tag -> bool.
Variable insts : list tag.

Record gnet := {
  gqin : list atok;
  gqA : list atok;
  gqB : list atok;
  gqFo : list atok;
  gqFb : list atok;
  gqE : list atok;
  gqO : list atok;
  gchk : list tag;
  gbuf : list tag;
  gimap : list (tag * N);
  gseen : bool;
  gcterm : bool;
  gwterm : bool;
  gls : LS;
  gemitted : list tag;
  glgot : bool;
  gstarted : list tag;
  gtbuf : list tag;
  gtseen : bool;
  gtdone : bool
}.

Definition ginit : gnet :=
  {| gqin := map AT insts ++ [ATermIn]; gqA := []; gqB := []; gqFo := []; gqFb := []; gqE := []; gqO := []; gchk := []; gbuf := []; gimap := []; gseen := false; gcterm := false; gwterm := false; gls := linit0; gemitted := []; glgot := false; gstarted := []; gtbuf := []; gtseen := false; gtdone := false |}.

Definition gc_chk (s : gnet) (a : atok) : list tag :=
  match a with
  | AT t => if tmem (pre t) (gchk s) then gchk s else if tmem t (gchk s) then gchk s else gchk s ++ [t]
  | AI t => remove tag_dec t (gchk s)
  | _ => gchk s
  end.
Definition gc_seen (s : gnet) (a : atok) : bool := match a with ATermIn | ATerm => true | _ => gseen s end.
(* _add_to_port drops a token whose tag is already waiting on that port *)
Definition buf_add (a : atok) (old new : list tag) : Prop :=
  match a with
  | AT t => if tmem t old then new = old else Permutation new (t :: old)
  | _ => new = old
  end.

Inductive gstep : gnet -> gnet -> Prop :=
| G_Fin s a r : gqin s = a :: r ->
    gstep s {| gqin := r; gqA := gqA s ++ [a]; gqB := gqB s; gqFo := gqFo s; gqFb := gqFb s; gqE := gqE s; 
               gqO := gqO s; gchk := gchk s; gbuf := gbuf s; gimap := gimap s; gseen := gseen s; 
               gcterm := gcterm s; gwterm := gwterm s; gls := gls s; gemitted := gemitted s; glgot := glgot s; 
               gstarted := gstarted s; gtbuf := gtbuf s; gtseen := gtseen s; gtdone := gtdone s |}
| G_Cread s a r buf' : gcterm s = false -> gseen s && is_nil (gchk s) = false -> gqA s = a :: r ->
    buf_add a (gbuf s) buf' ->
    gstep s {| gqin := gqin s; gqA := r; gqB := gqB s; gqFo := gqFo s; gqFb := gqFb s; gqE := gqE s; 
               gqO := gqO s; gchk := gc_chk s a; gbuf := buf'; gimap := gimap s; gseen := gc_seen s a; 
               gcterm := gcterm s; gwterm := gwterm s; gls := gls s; gemitted := gemitted s; glgot := glgot s; 
               gstarted := match a with AT t => t :: gstarted s | _ => gstarted s end; gtbuf := gtbuf s; 
               gtseen := gtseen s; gtdone := gtdone s |}
| G_Cjoin s t buf' : gcterm s = false -> Permutation (gbuf s) (t :: buf') ->
    gstep s {| gqin := gqin s; gqA := gqA s; gqB := gqB s ++ [AT (snd (retag_l (gimap s) t))]; gqFo := gqFo s; 
               gqFb := gqFb s; gqE := gqE s; gqO := gqO s; gchk := gchk s; gbuf := buf'; 
               gimap := fst (retag_l (gimap s) t); gseen := gseen s; gcterm := gcterm s; gwterm := gwterm s; 
               gls := gls s; gemitted := gemitted s; glgot := glgot s; gstarted := gstarted s; 
               gtbuf := gtbuf s; gtseen := gtseen s; gtdone := gtdone s |}
| G_Cterm s : gcterm s = false -> gseen s = true -> gchk s = [] ->
    gstep s {| gqin := gqin s; gqA := gqA s; gqB := gqB s ++ [ATerm]; gqFo := gqFo s; gqFb := gqFb s; 
               gqE := gqE s; gqO := gqO s; gchk := gchk s; gbuf := gbuf s; gimap := gimap s; gseen := gseen s; 
               gcterm := true; gwterm := gwterm s; gls := gls s; gemitted := gemitted s; glgot := glgot s; 
               gstarted := gstarted s; gtbuf := gtbuf s; gtseen := gtseen s; gtdone := gtdone s |}
| G_W s a r : gwterm s = false -> gqB s = a :: r ->
    gstep s {| gqin := gqin s; gqA := gqA s; gqB := r; 
               gqFo := gqFo s ++ match a with AT t => if cont t then [AT t] else [] | ATerm => [ATerm] | _ => [] end; 
               gqFb := gqFb s ++ match a with AT t => if cont t then [AT t] else [] | ATerm => [ATerm] | _ => [] end; 
               gqE := gqE s ++ match a with AT t => if cont t then [] else [AI t] | _ => [] end; gqO := gqO s; 
               gchk := gchk s; gbuf := gbuf s; gimap := gimap s; gseen := gseen s; gcterm := gcterm s; 
               gwterm := match a with ATerm => true | _ => gwterm s end; gls := gls s; gemitted := gemitted s; 
               glgot := glgot s; gstarted := gstarted s; gtbuf := gtbuf s; gtseen := gtseen s; 
               gtdone := gtdone s |}
| G_Fout s a r : gqFo s = a :: r ->
    gstep s {| gqin := gqin s; gqA := gqA s; gqB := gqB s; gqFo := r; gqFb := gqFb s; gqE := gqE s ++ [a]; 
               gqO := gqO s; gchk := gchk s; gbuf := gbuf s; gimap := gimap s; gseen := gseen s; 
               gcterm := gcterm s; gwterm := gwterm s; gls := gls s; gemitted := gemitted s; glgot := glgot s; 
               gstarted := gstarted s; gtbuf := gtbuf s; gtseen := gtseen s; gtdone := gtdone s |}
| G_Fback s a r : gqFb s = a :: r ->
    gstep s {| gqin := gqin s; gqA := gqA s ++ [a]; gqB := gqB s; gqFo := gqFo s; gqFb := r; gqE := gqE s; 
               gqO := gqO s; gchk := gchk s; gbuf := gbuf s; gimap := gimap s; gseen := gseen s; 
               gcterm := gcterm s; gwterm := gwterm s; gls := gls s; gemitted := gemitted s; glgot := glgot s; 
               gstarted := gstarted s; gtbuf := gtbuf s; gtseen := gtseen s; gtdone := gtdone s |}
| G_L s a r : gqE s = a :: r ->
    gstep s {| gqin := gqin s; gqA := gqA s; gqB := gqB s; gqFo := gqFo s; gqFb := gqFb s; gqE := r; 
               gqO := gqO s ++ map AT (snd (fst (lstep (gls s) a))) ++ (if (match a with ATerm => true | _ => glgot s end) && snd (lstep (gls s) a) then [ATerm] else []); 
               gchk := gchk s; gbuf := gbuf s; gimap := gimap s; gseen := gseen s; gcterm := gcterm s; 
               gwterm := gwterm s; gls := fst (fst (lstep (gls s) a)); 
               gemitted := gemitted s ++ snd (fst (lstep (gls s) a)); 
               glgot := match a with ATerm => true | _ => glgot s end; gstarted := gstarted s; 
               gtbuf := gtbuf s; gtseen := gtseen s; gtdone := gtdone s |}
| G_Tread s a r tbuf' : gqO s = a :: r -> buf_add a (gtbuf s) tbuf' ->
    gstep s {| gqin := gqin s; gqA := gqA s; gqB := gqB s; gqFo := gqFo s; gqFb := gqFb s; gqE := gqE s; 
               gqO := r; gchk := gchk s; gbuf := gbuf s; gimap := gimap s; gseen := gseen s; 
               gcterm := gcterm s; gwterm := gwterm s; gls := gls s; gemitted := gemitted s; glgot := glgot s; 
               gstarted := gstarted s; gtbuf := tbuf'; 
               gtseen := match a with ATerm => true | _ => gtseen s end; gtdone := gtdone s |}
| G_Temit s t tbuf' : Permutation (gtbuf s) (t :: tbuf') ->
    gstep s {| gqin := gqin s; gqA := gqA s ++ [AI t]; gqB := gqB s; gqFo := gqFo s; gqFb := gqFb s; 
               gqE := gqE s; gqO := gqO s; gchk := gchk s; gbuf := gbuf s; gimap := gimap s; gseen := gseen s; 
               gcterm := gcterm s; gwterm := gwterm s; gls := gls s; gemitted := gemitted s; glgot := glgot s; 
               gstarted := gstarted s; gtbuf := tbuf'; gtseen := gtseen s; gtdone := gtdone s |}
| G_Tterm s : gtseen s = true -> gtdone s = false ->
    gstep s {| gqin := gqin s; gqA := gqA s ++ [ATerm]; gqB := gqB s; gqFo := gqFo s; gqFb := gqFb s; 
               gqE := gqE s; gqO := gqO s; gchk := gchk s; gbuf := gbuf s; gimap := gimap s; gseen := gseen s; 
               gcterm := gcterm s; gwterm := gwterm s; gls := gls s; gemitted := gemitted s; glgot := glgot s; 
               gstarted := gstarted s; gtbuf := gtbuf s; gtseen := gtseen s; gtdone := true |}.

Inductive greach : gnet -> Prop :=
| greach_init : greach ginit
| greach_step s s' : greach s -> gstep s s' -> greach s'.
Inductive gsteps : gnet -> gnet -> Prop :=
| gsteps_nil s : gsteps s s
| gsteps_cons s s' s'' : gstep s s' -> gsteps s' s'' -> gsteps s s''.
Lemma greach_steps s s' : greach s -> gsteps s s' -> greach s'.
Proof. intros R H. induction H; auto. apply IHgsteps. eapply greach_step; eauto. Qed.
End NetG.

Arguments gqin {LS} _.
Arguments gqA {LS} _.
Arguments gqB {LS} _.
Arguments gqFo {LS} _.
Arguments gqFb {LS} _.
Arguments gqE {LS} _.
Arguments gqO {LS} _.
Arguments gchk {LS} _.
Arguments gbuf {LS} _.
Arguments gimap {LS} _.
Arguments gseen {LS} _.
Arguments gcterm {LS} _.
Arguments gwterm {LS} _.
Arguments gls {LS} _.
Arguments gemitted {LS} _.
Arguments glgot {LS} _.
Arguments gstarted {LS} _.
Arguments gtbuf {LS} _.
Arguments gtseen {LS} _.
Arguments gtdone {LS} _.
Arguments gc_chk {LS} _ _.  Arguments gc_seen {LS} _ _.
