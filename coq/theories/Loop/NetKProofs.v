(* Loop/NetKProofs.v — every (input variable i0, output j0) projection of the k x m loop network Loop/NetK.v moves by
   the moves of Loop/NetG.v; hence the theorems about NetG hold for every projection of every reachable state. *)
From Coq Require Import List Bool Arith NArith Lia Permutation.
From SF Require Import Tags.Model Loop.Net Loop.NetProofs Loop.CombK Loop.NetG Loop.NetGProofs Loop.NetK.
Import ListNotations.

Opaque pt_dec tag_dec.

Definition projp (i0 : nat) (l : list (nat * tag)) : list tag := map snd (filter (fun x => Nat.eqb (fst x) i0) l).

Lemma projp_in i0 x l : In x (projp i0 l) <-> In (i0, x) l.
Proof.
  unfold projp. rewrite in_map_iff. split.
  - intros ([i t] & E & H). apply filter_In in H. destruct H as [H1 H2]. simpl in *. apply Nat.eqb_eq in H2. subst. exact H1.
  - intros H. exists (i0, x). split; [reflexivity|]. apply filter_In. split; [exact H|apply Nat.eqb_refl].
Qed.
Lemma pmem_proj i0 x l : pmem (i0, x) l = tmem x (projp i0 l).
Proof.
  unfold pmem, tmem. destruct (in_dec pt_dec (i0, x) l) as [H|H]; destruct (in_dec tag_dec x (projp i0 l)) as [H'|H']; auto.
  - exfalso. apply H'. apply projp_in. exact H.
  - exfalso. apply H. apply projp_in. exact H'.
Qed.
Lemma projp_app i0 l l' : projp i0 (l ++ l') = projp i0 l ++ projp i0 l'.
Proof. unfold projp. rewrite filter_app, map_app. reflexivity. Qed.
Lemma projp_one_same i0 t : projp i0 [(i0, t)] = [t].
Proof. unfold projp. simpl. rewrite Nat.eqb_refl. reflexivity. Qed.
Lemma projp_one_other i0 i t : i <> i0 -> projp i0 [(i, t)] = [].
Proof. intros H. unfold projp. simpl. destruct (Nat.eqb_spec i i0); [contradiction|reflexivity]. Qed.

Lemma proj_chk_add_same i0 t chk :
  projp i0 (chk_add i0 t chk) =
  (if tmem (pre t) (projp i0 chk) then projp i0 chk else if tmem t (projp i0 chk) then projp i0 chk else projp i0 chk ++ [t]).
Proof.
  unfold chk_add. rewrite !pmem_proj. destruct (tmem (pre t) (projp i0 chk)); [reflexivity|].
  destruct (tmem t (projp i0 chk)); [reflexivity|]. rewrite projp_app, projp_one_same. reflexivity.
Qed.
Lemma proj_chk_add_other i0 i t chk : i <> i0 -> projp i0 (chk_add i t chk) = projp i0 chk.
Proof.
  intros H. unfold chk_add. destruct (pmem (i, pre t) chk); [reflexivity|]. destruct (pmem (i, t) chk); [reflexivity|].
  rewrite projp_app, projp_one_other by assumption. apply app_nil_r.
Qed.
Lemma proj_remove_same i0 t chk : projp i0 (remove pt_dec (i0, t) chk) = remove tag_dec t (projp i0 chk).
Proof.
  induction chk as [|[i x] chk IH]; [reflexivity|]. simpl.
  destruct (pt_dec (i0, t) (i, x)) as [E|N].
  - injection E as <- <-. unfold projp at 2. simpl. rewrite Nat.eqb_refl. simpl.
    destruct (tag_dec t t); [|contradiction]. exact IH.
  - unfold projp. simpl. destruct (Nat.eqb_spec i i0) as [->|]; simpl.
    + destruct (tag_dec t x) as [->|]; [exfalso; apply N; reflexivity|]. f_equal. exact IH.
    + exact IH.
Qed.
Lemma proj_remove_other i0 i t chk : i <> i0 -> projp i0 (remove pt_dec (i, t) chk) = projp i0 chk.
Proof.
  intros H. induction chk as [|[j x] chk IH]; [reflexivity|]. simpl.
  destruct (pt_dec (i, t) (j, x)) as [E|N].
  - injection E as <- <-. unfold projp at 2. simpl. destruct (Nat.eqb_spec i i0); [contradiction|]. exact IH.
  - unfold projp. simpl. destruct (Nat.eqb j i0); simpl; [f_equal|]; exact IH.
Qed.
Lemma is_nil_projp i0 chk : is_nil (projp i0 chk) = negb (existsb (fun x => Nat.eqb (fst x) i0) chk).
Proof.
  induction chk as [|[i x] chk IH]; [reflexivity|]. unfold projp. simpl. destruct (Nat.eqb i i0); simpl; [reflexivity|exact IH].
Qed.
Lemma karmed_proj i0 chk seen : karmed chk seen i0 = negb (nmem i0 seen && is_nil (projp i0 chk)).
Proof. unfold karmed. rewrite is_nil_projp. reflexivity. Qed.

Lemma nmem_add_same i l : nmem i (if nmem i l then l else l ++ [i]) = true.
Proof. destruct (nmem i l) eqn:E; [exact E|]. unfold nmem. rewrite existsb_app. simpl. rewrite Nat.eqb_refl. apply orb_true_r. Qed.
Lemma nmem_add_other i0 i l : i <> i0 -> nmem i0 (if nmem i l then l else l ++ [i]) = nmem i0 l.
Proof.
  intros H. destruct (nmem i l); [reflexivity|]. unfold nmem. rewrite existsb_app. simpl.
  destruct (Nat.eqb_spec i0 i); [congruence|]. rewrite !orb_false_r. reflexivity.
Qed.

Lemma pend_add_same i0 t pend : buf_add (AT t) (projp i0 pend) (projp i0 (pend_add i0 t pend)).
Proof.
  unfold buf_add, pend_add. rewrite pmem_proj. destruct (tmem t (projp i0 pend)); [reflexivity|].
  rewrite projp_app, projp_one_same. apply Permutation_sym, Permutation_cons_append.
Qed.
Lemma pend_add_other i0 i t pend : i <> i0 -> projp i0 (pend_add i t pend) = projp i0 pend.
Proof.
  intros H. unfold pend_add. destruct (pmem (i, t) pend); [reflexivity|].
  rewrite projp_app, projp_one_other by assumption. apply app_nil_r.
Qed.
Lemma nodup_snoc {A} (l : list A) x : NoDup l -> ~ In x l -> NoDup (l ++ [x]).
Proof.
  induction l as [|a l IH]; simpl; intros H N; [constructor; [intros []|constructor]|].
  inversion H; subst. constructor.
  - intros X. apply in_app_or in X. destruct X as [X|[X|[]]]; [contradiction|]. subst. apply N. left. reflexivity.
  - apply IH; auto.
Qed.
Lemma pend_add_nodup i t pend : NoDup pend -> NoDup (pend_add i t pend).
Proof.
  intros H. unfold pend_add, pmem. destruct (in_dec pt_dec (i, t) pend) as [X|X]; [exact H|]. apply nodup_snoc; assumption.
Qed.
Lemma rm_tag_nodup t pend : NoDup pend -> NoDup (rm_tag t pend).
Proof. intros H. unfold rm_tag. apply NoDup_filter. exact H. Qed.

Lemma projp_cons_same i0 x l : projp i0 ((i0, x) :: l) = x :: projp i0 l.
Proof. unfold projp. simpl. rewrite Nat.eqb_refl. reflexivity. Qed.
Lemma projp_cons_other i0 i x l : i <> i0 -> projp i0 ((i, x) :: l) = projp i0 l.
Proof. intros H. unfold projp. simpl. destruct (Nat.eqb_spec i i0); [contradiction|reflexivity]. Qed.
Lemma rm_tag_cons t i x l : rm_tag t ((i, x) :: l) = if tag_dec x t then rm_tag t l else (i, x) :: rm_tag t l.
Proof. unfold rm_tag, has_tagb. simpl. destruct (tag_dec x t); reflexivity. Qed.

Lemma rm_tag_proj_notin i0 t l : ~ In (i0, t) l -> projp i0 (rm_tag t l) = projp i0 l.
Proof.
  induction l as [|[i x] l IH]; intros N; [reflexivity|]. rewrite rm_tag_cons.
  assert (N' : ~ In (i0, t) l) by (intros X; apply N; right; exact X).
  destruct (Nat.eq_dec i i0) as [->|Hi].
  - destruct (tag_dec x t) as [->|Hx]; [exfalso; apply N; left; reflexivity|].
    rewrite !projp_cons_same. f_equal. apply IH. exact N'.
  - destruct (tag_dec x t); rewrite ?projp_cons_other by assumption; apply IH; exact N'.
Qed.
Lemma rm_tag_proj_in i0 t l :
  NoDup l -> In (i0, t) l -> Permutation (projp i0 l) (t :: projp i0 (rm_tag t l)).
Proof.
  induction l as [|[i x] l IH]; intros Hn Hin; [destruct Hin|].
  inversion Hn as [|? ? Hnin Hn']; subst. rewrite rm_tag_cons.
  destruct Hin as [E|Hin].
  - injection E as -> ->. destruct (tag_dec t t); [|contradiction].
    rewrite projp_cons_same, rm_tag_proj_notin by assumption. apply Permutation_refl.
  - destruct (Nat.eq_dec i i0) as [->|Hi].
    + destruct (tag_dec x t) as [->|Hx]; [contradiction|].
      rewrite !projp_cons_same. rewrite (IH Hn' Hin). apply perm_swap.
    + destruct (tag_dec x t); rewrite ?projp_cons_other by assumption; apply IH; assumption.
Qed.

Lemma upd_same {A} (f : nat -> A) i v : upd f i v i = v.
Proof. unfold upd. rewrite Nat.eqb_refl. reflexivity. Qed.
Lemma upd_other {A} (f : nat -> A) i j v : j <> i -> upd f i v j = f j.
Proof. intros H. unfold upd. destruct (Nat.eqb_spec j i); [contradiction|reflexivity]. Qed.

Section Sim.
Variable LS : Type.
Variable lstep : nat -> LS -> atok -> LS * list tag * bool.
Variable linit0 : nat -> LS.
Variable cont : tag -> bool.
Variable insts : list tag.
Variable k m : nat.
Variable i0 j0 : nat.
Hypothesis Hi0 : i0 < k.
Hypothesis Hj0 : j0 < m.

Notation knet := (knet LS).
Notation gnet := (gnet LS).
Notation gstep := (gstep LS (lstep j0) cont).
Notation gsteps := (gsteps LS (lstep j0) cont).
Notation kstep := (kstep LS lstep cont k m).

(* what input variable i0 and output j0 see of the network *)
Definition pi (s : knet) : gnet :=
  {| gqin := nqin s i0; gqA := nqA s i0; gqB := nqB s; gqFo := nqFo s j0; gqFb := nqFb s i0; gqE := nqE s j0;
     gqO := nqO s j0; gchk := projp i0 (nchk s); gbuf := projp i0 (npend s); gimap := nimap s;
     gseen := nmem i0 (nseen s); gcterm := ncdone s; gwterm := nwterm s; gls := nls s j0;
     gemitted := nemitted s j0; glgot := nlgot s j0; gstarted := nstarted s i0;
     gtbuf := projp j0 (ntpend s); gtseen := nmem j0 (ntseen s); gtdone := ntdone s |}.

Definition kwf (s : knet) : Prop := NoDup (npend s) /\ NoDup (ntpend s).

Lemma gsteps_trans a b c : gsteps a b -> gsteps b c -> gsteps a c.
Proof. induction 1; auto. intros H'. eapply gsteps_cons; eauto. Qed.
Lemma gsteps_one a b : gstep a b -> gsteps a b.
Proof. intros H. eapply gsteps_cons; [exact H|apply gsteps_nil]. Qed.
Lemma gsteps_eq a b : a = b -> gsteps a b.
Proof. intros ->. apply gsteps_nil. Qed.

Lemma joined_in kk t pend i : i < kk -> joined kk t pend = true -> In (i, t) pend.
Proof.
  intros Hi H. unfold joined in H. rewrite forallb_forall in H.
  assert (X : pmem (i, t) pend = true) by (apply H; apply in_seq; lia).
  unfold pmem in X. destruct (in_dec pt_dec (i, t) pend); [assumption|discriminate].
Qed.

(* ---------------- the simple moves ---------------- *)
Lemma sim_Fin s i a r : nqin s i = a :: r ->
  gsteps (pi s) (pi {| nqin := upd (nqin s) i r; nqA := upd (nqA s) i (nqA s i ++ [a]); nchk := nchk s; nseen := nseen s; npend := npend s; nimap := nimap s;
               ncdone := ncdone s; nqB := nqB s; nwterm := nwterm s; nqFb := nqFb s; nqFo := nqFo s; nqE := nqE s; nqO := nqO s; nls := nls s;
               nemitted := nemitted s; nlgot := nlgot s; ntpend := ntpend s; ntseen := ntseen s; ntdone := ntdone s; nstarted := nstarted s |}).
Proof.
  intros E. destruct (Nat.eq_dec i i0) as [->|Hne].
  - apply gsteps_one. unfold pi at 2. cbn. rewrite !upd_same.
    exact (G_Fin LS (lstep j0) cont (pi s) a r E).
  - apply gsteps_eq. unfold pi. cbn. rewrite !(upd_other _ i i0) by congruence. reflexivity.
Qed.

Lemma sim_Fback s i a r : nqFb s i = a :: r ->
  gsteps (pi s) (pi {| nqin := nqin s; nqA := upd (nqA s) i (nqA s i ++ [a]); nchk := nchk s; nseen := nseen s; npend := npend s; nimap := nimap s;
               ncdone := ncdone s; nqB := nqB s; nwterm := nwterm s; nqFb := upd (nqFb s) i r; nqFo := nqFo s; nqE := nqE s; nqO := nqO s; nls := nls s;
               nemitted := nemitted s; nlgot := nlgot s; ntpend := ntpend s; ntseen := ntseen s; ntdone := ntdone s; nstarted := nstarted s |}).
Proof.
  intros E. destruct (Nat.eq_dec i i0) as [->|Hne].
  - apply gsteps_one. unfold pi at 2. cbn. rewrite !upd_same.
    exact (G_Fback LS (lstep j0) cont (pi s) a r E).
  - apply gsteps_eq. unfold pi. cbn. rewrite !(upd_other _ i i0) by congruence. reflexivity.
Qed.

Lemma sim_Fout s j a r : nqFo s j = a :: r ->
  gsteps (pi s) (pi {| nqin := nqin s; nqA := nqA s; nchk := nchk s; nseen := nseen s; npend := npend s; nimap := nimap s;
               ncdone := ncdone s; nqB := nqB s; nwterm := nwterm s; nqFb := nqFb s; nqFo := upd (nqFo s) j r; nqE := upd (nqE s) j (nqE s j ++ [a]); nqO := nqO s; nls := nls s;
               nemitted := nemitted s; nlgot := nlgot s; ntpend := ntpend s; ntseen := ntseen s; ntdone := ntdone s; nstarted := nstarted s |}).
Proof.
  intros E. destruct (Nat.eq_dec j j0) as [->|Hne].
  - apply gsteps_one. unfold pi at 2. cbn. rewrite !upd_same.
    exact (G_Fout LS (lstep j0) cont (pi s) a r E).
  - apply gsteps_eq. unfold pi. cbn. rewrite !(upd_other _ j j0) by congruence. reflexivity.
Qed.

Lemma sim_W s a r : nwterm s = false -> nqB s = a :: r ->
  gsteps (pi s) (pi {| nqin := nqin s; nqA := nqA s; nchk := nchk s; nseen := nseen s; npend := npend s; nimap := nimap s;
               ncdone := ncdone s; nqB := r; nwterm := match a with ATerm => true | _ => nwterm s end;
               nqFb := app_all (nqFb s) (match a with AT t => if cont t then [AT t] else [] | ATerm => [ATerm] | _ => [] end);
               nqFo := app_all (nqFo s) (match a with AT t => if cont t then [AT t] else [] | ATerm => [ATerm] | _ => [] end);
               nqE := app_all (nqE s) (match a with AT t => if cont t then [] else [AI t] | _ => [] end); nqO := nqO s; nls := nls s;
               nemitted := nemitted s; nlgot := nlgot s; ntpend := ntpend s; ntseen := ntseen s; ntdone := ntdone s; nstarted := nstarted s |}).
Proof.
  intros G E. apply gsteps_one. unfold pi at 2. cbn. unfold app_all.
  exact (G_W LS (lstep j0) cont (pi s) a r G E).
Qed.

Lemma sim_L s j a r : nqE s j = a :: r ->
  gsteps (pi s) (pi {| nqin := nqin s; nqA := nqA s; nchk := nchk s; nseen := nseen s; npend := npend s; nimap := nimap s;
               ncdone := ncdone s; nqB := nqB s; nwterm := nwterm s; nqFb := nqFb s; nqFo := nqFo s; nqE := upd (nqE s) j r;
               nqO := upd (nqO s) j (nqO s j ++ map AT (snd (fst (lstep j (nls s j) a))) ++ (if (match a with ATerm => true | _ => nlgot s j end) && snd (lstep j (nls s j) a) then [ATerm] else []));
               nls := upd (nls s) j (fst (fst (lstep j (nls s j) a))); nemitted := upd (nemitted s) j (nemitted s j ++ snd (fst (lstep j (nls s j) a)));
               nlgot := upd (nlgot s) j (match a with ATerm => true | _ => nlgot s j end);
               ntpend := ntpend s; ntseen := ntseen s; ntdone := ntdone s; nstarted := nstarted s |}).
Proof.
  intros E. destruct (Nat.eq_dec j j0) as [->|Hne].
  - apply gsteps_one. unfold pi at 2. cbn. rewrite !upd_same.
    exact (G_L LS (lstep j0) cont (pi s) a r E).
  - apply gsteps_eq. unfold pi. cbn. rewrite !(upd_other _ j j0) by congruence. reflexivity.
Qed.
(* ---------------- the combinator step: read, join, return ---------------- *)
Definition pend1 (s : knet) (i : nat) (a : atok) : list (nat * tag) :=
  match a with AT t => pend_add i t (npend s) | _ => npend s end.
Definition startedC (s : knet) (i : nat) (a : atok) : nat -> list tag :=
  upd (nstarted s) i (match a with AT t => t :: nstarted s i | _ => nstarted s i end).

Definition sR (s : knet) (i : nat) (a : atok) (r : list atok) : gnet :=
  {| gqin := nqin s i0; gqA := upd (nqA s) i r i0; gqB := nqB s; gqFo := nqFo s j0; gqFb := nqFb s i0; gqE := nqE s j0;
     gqO := nqO s j0; gchk := projp i0 (kc_chk LS s i a); gbuf := projp i0 (pend1 s i a); gimap := nimap s;
     gseen := nmem i0 (kc_seen LS s i a); gcterm := ncdone s; gwterm := nwterm s; gls := nls s j0;
     gemitted := nemitted s j0; glgot := nlgot s j0; gstarted := startedC s i a i0;
     gtbuf := projp j0 (ntpend s); gtseen := nmem j0 (ntseen s); gtdone := ntdone s |}.
Definition sJ (s : knet) (i : nat) (a : atok) (r : list atok) : gnet :=
  {| gqin := nqin s i0; gqA := upd (nqA s) i r i0; gqB := nqB s ++ kc_out LS k s i a; gqFo := nqFo s j0; gqFb := nqFb s i0;
     gqE := nqE s j0; gqO := nqO s j0; gchk := projp i0 (kc_chk LS s i a); gbuf := projp i0 (kc_pend LS k s i a);
     gimap := kc_imap LS k s i a; gseen := nmem i0 (kc_seen LS s i a); gcterm := ncdone s; gwterm := nwterm s;
     gls := nls s j0; gemitted := nemitted s j0; glgot := nlgot s j0; gstarted := startedC s i a i0;
     gtbuf := projp j0 (ntpend s); gtseen := nmem j0 (ntseen s); gtdone := ntdone s |}.

Lemma chk_proj_same s a : gc_chk (pi s) a = projp i0 (kc_chk LS s i0 a).
Proof.
  destruct a as [t|t| |]; simpl; try reflexivity.
  - symmetry. apply proj_chk_add_same.
  - symmetry. apply proj_remove_same.
Qed.
Lemma chk_proj_other s i a : i <> i0 -> projp i0 (kc_chk LS s i a) = projp i0 (nchk s).
Proof.
  intros H. destruct a as [t|t| |]; simpl; try reflexivity.
  - apply proj_chk_add_other. exact H.
  - apply proj_remove_other. exact H.
Qed.
Lemma seen_proj_same s a : gc_seen (pi s) a = nmem i0 (kc_seen LS s i0 a).
Proof. destruct a; simpl; try reflexivity; symmetry; apply nmem_add_same. Qed.
Lemma seen_proj_other s i a : i <> i0 -> nmem i0 (kc_seen LS s i a) = nmem i0 (nseen s).
Proof. intros H. destruct a; simpl; try reflexivity; apply nmem_add_other; exact H. Qed.

Lemma stageR s i a r :
  ncdone s = false -> karmed (nchk s) (nseen s) i = true -> nqA s i = a :: r -> gsteps (pi s) (sR s i a r).
Proof.
  intros G A E. destruct (Nat.eq_dec i i0) as [->|Hne].
  - eapply gsteps_cons; [|apply gsteps_eq].
    + apply (G_Cread LS (lstep j0) cont (pi s) a r (projp i0 (pend1 s i0 a))); simpl.
      * exact G.
      * rewrite karmed_proj in A. apply negb_true_iff in A. exact A.
      * exact E.
      * destruct a; simpl; try reflexivity. apply pend_add_same.
    + unfold sR, startedC. rewrite chk_proj_same, seen_proj_same, !upd_same. reflexivity.
  - apply gsteps_eq. unfold sR, startedC, pi.
    rewrite chk_proj_other, seen_proj_other, !(upd_other _ i i0) by congruence.
    replace (projp i0 (pend1 s i a)) with (projp i0 (npend s)); [reflexivity|].
    destruct a; simpl; try reflexivity. symmetry. apply pend_add_other. exact Hne.
Qed.

Lemma stageJ s i a r : kwf s -> ncdone s = false -> gsteps (sR s i a r) (sJ s i a r).
Proof.
  intros [W _] G. destruct (kc_join LS k s i a) eqn:Ej.
  - destruct a as [t| | |]; simpl in Ej; try discriminate.
    apply gsteps_one.
    assert (X : sJ s i (AT t) r =
                {| gqin := gqin (sR s i (AT t) r); gqA := gqA (sR s i (AT t) r);
                   gqB := gqB (sR s i (AT t) r) ++ [AT (snd (retag_l (gimap (sR s i (AT t) r)) t))];
                   gqFo := gqFo (sR s i (AT t) r); gqFb := gqFb (sR s i (AT t) r); gqE := gqE (sR s i (AT t) r);
                   gqO := gqO (sR s i (AT t) r); gchk := gchk (sR s i (AT t) r);
                   gbuf := projp i0 (rm_tag t (pend_add i t (npend s)));
                   gimap := fst (retag_l (gimap (sR s i (AT t) r)) t); gseen := gseen (sR s i (AT t) r);
                   gcterm := gcterm (sR s i (AT t) r); gwterm := gwterm (sR s i (AT t) r); gls := gls (sR s i (AT t) r);
                   gemitted := gemitted (sR s i (AT t) r); glgot := glgot (sR s i (AT t) r);
                   gstarted := gstarted (sR s i (AT t) r); gtbuf := gtbuf (sR s i (AT t) r);
                   gtseen := gtseen (sR s i (AT t) r); gtdone := gtdone (sR s i (AT t) r) |}).
    { unfold sJ, sR, kc_out, kc_pend, kc_imap. simpl. rewrite Ej. reflexivity. }
    rewrite X. apply G_Cjoin; simpl; [exact G|].
    apply rm_tag_proj_in; [apply pend_add_nodup; exact W|]. apply (joined_in k); assumption.
  - apply gsteps_eq. unfold sJ, sR, kc_out, kc_pend, kc_imap, pend1.
    destruct a; simpl in *; rewrite ?Ej, ?app_nil_r; reflexivity.
Qed.

Lemma stageD s i a r : ncdone s = false -> gsteps (sJ s i a r)
  (pi {| nqin := nqin s; nqA := upd (nqA s) i r; nchk := kc_chk LS s i a; nseen := kc_seen LS s i a; npend := kc_pend LS k s i a;
         nimap := kc_imap LS k s i a; ncdone := kc_done LS k s i a;
         nqB := nqB s ++ kc_out LS k s i a ++ (if kc_done LS k s i a then [ATerm] else []);
         nwterm := nwterm s; nqFb := nqFb s; nqFo := nqFo s; nqE := nqE s; nqO := nqO s; nls := nls s; nemitted := nemitted s;
         nlgot := nlgot s; ntpend := ntpend s; ntseen := ntseen s; ntdone := ntdone s; nstarted := startedC s i a |}).
Proof.
  intros G. destruct (kc_done LS k s i a) eqn:Ed.
  - apply gsteps_one.
    assert (Hd : nmem i0 (kc_seen LS s i a) = true /\ projp i0 (kc_chk LS s i a) = []).
    { unfold kc_done in Ed. rewrite forallb_forall in Ed.
      assert (X : negb (karmed (kc_chk LS s i a) (kc_seen LS s i a) i0) = true) by (apply Ed; apply in_seq; lia).
      rewrite karmed_proj, negb_involutive in X. apply andb_true_iff in X. destruct X as [X1 X2]. split; [exact X1|].
      destruct (projp i0 (kc_chk LS s i a)); [reflexivity|discriminate]. }
    destruct Hd as [H1 H2].
    pose proof (G_Cterm LS (lstep j0) cont (sJ s i a r)) as St. simpl in St. rewrite G in St. specialize (St eq_refl H1 H2).
    unfold pi. cbn. rewrite app_assoc. exact St.
  - apply gsteps_eq. unfold sJ, pi. cbn. rewrite app_nil_r, G. reflexivity.
Qed.

Lemma sim_C s i a r :
  kwf s -> ncdone s = false -> karmed (nchk s) (nseen s) i = true -> nqA s i = a :: r ->
  gsteps (pi s)
  (pi {| nqin := nqin s; nqA := upd (nqA s) i r; nchk := kc_chk LS s i a; nseen := kc_seen LS s i a; npend := kc_pend LS k s i a;
         nimap := kc_imap LS k s i a; ncdone := kc_done LS k s i a;
         nqB := nqB s ++ kc_out LS k s i a ++ (if kc_done LS k s i a then [ATerm] else []);
         nwterm := nwterm s; nqFb := nqFb s; nqFo := nqFo s; nqE := nqE s; nqO := nqO s; nls := nls s; nemitted := nemitted s;
         nlgot := nlgot s; ntpend := ntpend s; ntseen := ntseen s; ntdone := ntdone s; nstarted := startedC s i a |}).
Proof.
  intros W G A E. eapply gsteps_trans; [apply (stageR s i a r G A E)|].
  eapply gsteps_trans; [apply (stageJ s i a r W G)|]. apply stageD. exact G.
Qed.

(* ---------------- the loop-terminator: read, join, return ---------------- *)
Definition tpend1 (s : knet) (j : nat) (a : atok) : list (nat * tag) :=
  match a with AT t => pend_add j t (ntpend s) | _ => ntpend s end.
Definition tjoin_out (s : knet) (j : nat) (a : atok) : list atok :=
  match a with AT t => if kt_join LS m s j a then [AI t] else [] | _ => [] end.

Definition tR (s : knet) (j : nat) (a : atok) (r : list atok) : gnet :=
  {| gqin := nqin s i0; gqA := nqA s i0; gqB := nqB s; gqFo := nqFo s j0; gqFb := nqFb s i0; gqE := nqE s j0;
     gqO := upd (nqO s) j r j0; gchk := projp i0 (nchk s); gbuf := projp i0 (npend s); gimap := nimap s;
     gseen := nmem i0 (nseen s); gcterm := ncdone s; gwterm := nwterm s; gls := nls s j0;
     gemitted := nemitted s j0; glgot := nlgot s j0; gstarted := nstarted s i0;
     gtbuf := projp j0 (tpend1 s j a); gtseen := nmem j0 (kt_seen LS s j a); gtdone := ntdone s |}.
Definition tJ (s : knet) (j : nat) (a : atok) (r : list atok) : gnet :=
  {| gqin := nqin s i0; gqA := nqA s i0 ++ tjoin_out s j a; gqB := nqB s; gqFo := nqFo s j0; gqFb := nqFb s i0; gqE := nqE s j0;
     gqO := upd (nqO s) j r j0; gchk := projp i0 (nchk s); gbuf := projp i0 (npend s); gimap := nimap s;
     gseen := nmem i0 (nseen s); gcterm := ncdone s; gwterm := nwterm s; gls := nls s j0;
     gemitted := nemitted s j0; glgot := nlgot s j0; gstarted := nstarted s i0;
     gtbuf := projp j0 (kt_pend LS m s j a); gtseen := nmem j0 (kt_seen LS s j a); gtdone := ntdone s |}.

Lemma tstageR s j a r : nqO s j = a :: r -> gsteps (pi s) (tR s j a r).
Proof.
  intros E. destruct (Nat.eq_dec j j0) as [->|Hne].
  - eapply gsteps_cons; [|apply gsteps_eq].
    + apply (G_Tread LS (lstep j0) cont (pi s) a r (projp j0 (tpend1 s j0 a))); simpl; [exact E|].
      destruct a; simpl; try reflexivity. apply pend_add_same.
    + unfold tR. rewrite upd_same. cbn. f_equal.
      destruct a; simpl; try reflexivity. symmetry. apply nmem_add_same.
  - apply gsteps_eq. unfold tR, pi. rewrite (upd_other _ j j0) by congruence.
    replace (projp j0 (tpend1 s j a)) with (projp j0 (ntpend s)).
    2:{ destruct a; simpl; try reflexivity. symmetry. apply pend_add_other. exact Hne. }
    replace (nmem j0 (kt_seen LS s j a)) with (nmem j0 (ntseen s)); [reflexivity|].
    destruct a; simpl; try reflexivity. symmetry. apply nmem_add_other. exact Hne.
Qed.

Lemma tstageJ s j a r : kwf s -> gsteps (tR s j a r) (tJ s j a r).
Proof.
  intros [_ W]. destruct (kt_join LS m s j a) eqn:Ej.
  - destruct a as [t| | |]; simpl in Ej; try discriminate.
    apply gsteps_one.
    assert (X : tJ s j (AT t) r =
                {| gqin := gqin (tR s j (AT t) r); gqA := gqA (tR s j (AT t) r) ++ [AI t];
                   gqB := gqB (tR s j (AT t) r);
                   gqFo := gqFo (tR s j (AT t) r); gqFb := gqFb (tR s j (AT t) r); gqE := gqE (tR s j (AT t) r);
                   gqO := gqO (tR s j (AT t) r); gchk := gchk (tR s j (AT t) r);
                   gbuf := gbuf (tR s j (AT t) r);
                   gimap := gimap (tR s j (AT t) r); gseen := gseen (tR s j (AT t) r);
                   gcterm := gcterm (tR s j (AT t) r); gwterm := gwterm (tR s j (AT t) r); gls := gls (tR s j (AT t) r);
                   gemitted := gemitted (tR s j (AT t) r); glgot := glgot (tR s j (AT t) r);
                   gstarted := gstarted (tR s j (AT t) r); gtbuf := projp j0 (rm_tag t (pend_add j t (ntpend s)));
                   gtseen := gtseen (tR s j (AT t) r); gtdone := gtdone (tR s j (AT t) r) |}).
    { unfold tJ, tR, tjoin_out, kt_pend. simpl. rewrite Ej. reflexivity. }
    rewrite X. apply G_Temit; simpl.
    apply rm_tag_proj_in; [apply pend_add_nodup; exact W|]. apply (joined_in m); assumption.
  - apply gsteps_eq. unfold tJ, tR, tjoin_out, kt_pend, tpend1.
    destruct a; simpl in *; rewrite ?Ej, ?app_nil_r; reflexivity.
Qed.

Lemma tstageD s j a r : gsteps (tJ s j a r)
  (pi {| nqin := nqin s; nqA := app_all (nqA s) (kt_out LS m s j a); nchk := nchk s; nseen := nseen s; npend := npend s;
         nimap := nimap s; ncdone := ncdone s; nqB := nqB s; nwterm := nwterm s; nqFb := nqFb s; nqFo := nqFo s; nqE := nqE s;
         nqO := upd (nqO s) j r; nls := nls s; nemitted := nemitted s; nlgot := nlgot s;
         ntpend := kt_pend LS m s j a; ntseen := kt_seen LS s j a; ntdone := ntdone s || kt_done LS m s j a;
         nstarted := nstarted s |}).
Proof.
  destruct (kt_done LS m s j a) eqn:Ed.
  - apply gsteps_one.
    assert (Hd : nmem j0 (kt_seen LS s j a) = true /\ ntdone s = false).
    { unfold kt_done in Ed. apply andb_true_iff in Ed. destruct Ed as [E1 E2]. rewrite forallb_forall in E2. split.
      - apply E2. apply in_seq. lia.
      - apply negb_true_iff in E1. exact E1. }
    destruct Hd as [H1 H2].
    pose proof (G_Tterm LS (lstep j0) cont (tJ s j a r)) as St. simpl in St. specialize (St H1 H2).
    unfold pi. cbn. unfold app_all, kt_out. fold (tjoin_out s j a). rewrite Ed, app_assoc, orb_true_r. exact St.
  - apply gsteps_eq. unfold tJ, pi. cbn. unfold app_all, kt_out. fold (tjoin_out s j a).
    rewrite Ed, app_nil_r, orb_false_r. reflexivity.
Qed.

Lemma sim_T s j a r : kwf s -> nqO s j = a :: r -> gsteps (pi s)
  (pi {| nqin := nqin s; nqA := app_all (nqA s) (kt_out LS m s j a); nchk := nchk s; nseen := nseen s; npend := npend s;
         nimap := nimap s; ncdone := ncdone s; nqB := nqB s; nwterm := nwterm s; nqFb := nqFb s; nqFo := nqFo s; nqE := nqE s;
         nqO := upd (nqO s) j r; nls := nls s; nemitted := nemitted s; nlgot := nlgot s;
         ntpend := kt_pend LS m s j a; ntseen := kt_seen LS s j a; ntdone := ntdone s || kt_done LS m s j a;
         nstarted := nstarted s |}).
Proof.
  intros W E. eapply gsteps_trans; [apply (tstageR s j a r E)|].
  eapply gsteps_trans; [apply (tstageJ s j a r W)|]. apply tstageD.
Qed.

(* ---------------- every move of the k x m network is a sequence of moves of the projection ---------------- *)
Lemma kwf_step s s' : kwf s -> kstep s s' -> kwf s'.
Proof.
  intros [W1 W2] H. destruct H; split; simpl; auto.
  - unfold kc_pend. destruct a; auto. destruct (kc_join LS k s i (AT t)); [apply rm_tag_nodup|]; apply pend_add_nodup; exact W1.
  - unfold kt_pend. destruct a; auto. destruct (kt_join LS m s j (AT t)); [apply rm_tag_nodup|]; apply pend_add_nodup; exact W2.
Qed.

Lemma sim_step s s' : kwf s -> kstep s s' -> gsteps (pi s) (pi s').
Proof.
  intros W H. destruct H.
  - apply sim_Fin; assumption.
  - apply sim_C; assumption.
  - apply sim_W; assumption.
  - apply sim_Fout; assumption.
  - apply sim_Fback; assumption.
  - apply sim_L; assumption.
  - apply sim_T; assumption.
Qed.

Lemma pi_init : pi (kinit LS linit0 insts) = ginit LS (linit0 j0) insts.
Proof. reflexivity. Qed.

Lemma kwf_reach s : kreach LS lstep linit0 cont insts k m s -> kwf s.
Proof. induction 1; [split; constructor|eapply kwf_step; eauto]. Qed.

Lemma sim_reach s :
  kreach LS lstep linit0 cont insts k m s -> greach LS (lstep j0) (linit0 j0) cont insts (pi s).
Proof.
  induction 1 as [|s s' R IH St].
  - rewrite pi_init. apply greach_init.
  - eapply greach_steps; [exact IH|]. apply sim_step; [apply kwf_reach; exact R|exact St].
Qed.

End Sim.

(* the wiring theorem for k input variables and m outputs: in every reachable state of Loop/NetK.v, for every output
   j, a termination token has reached (or is on its way to) the loop output step of j only if that step has already
   emitted an output for every loop instance *)
Theorem no_early_exit_k :
  forall (LS : Type) (lstep : nat -> LS -> atok -> LS * list tag * bool) (linit0 : nat -> LS) (cont : tag -> bool)
         (insts : list tag) (k m d : nat),
  1 <= k -> 1 <= d -> (forall p, In p insts -> length p = d) ->
  forall s, kreach LS lstep linit0 cont insts k m s ->
  forall j, j < m ->
  (nlgot s j = true \/ In ATerm (nqE s j) \/ In ATerm (nqFo s j)) ->
  forall p, In p insts -> In p (nemitted s j).
Proof.
  intros LS lstep linit0 cont insts k m d Hk Hd Hi s R j Hj H p Hp.
  assert (H0 : 0 < k) by lia.
  pose proof (sim_reach LS lstep linit0 cont insts k m 0 j H0 Hj s R) as G.
  exact (no_early_exit_g LS (lstep j) (linit0 j) cont insts d Hd Hi _ G H p Hp).
Qed.
