(* Loop/Model.v — model of LoopOutputStep.run with the two CWL output policies, and of the iteration
   counters of LoopCombinator._product (definitions only).
   ANCHORS: streamflow.workflow.step.LoopOutputStep.run,
            streamflow.cwl.step.CWLLoopOutputAllStep._process_output,
            streamflow.cwl.step.CWLLoopOutputLastStep._process_output,
            streamflow.workflow.combinator.LoopCombinator._product
   Tokens, statuses and association lists are those of Gather/Model.v.  The step has ONE input port, so
   its behaviour is a function of the sequence of tokens it reads.
   Literal details kept: the prefix is computed for every token, termination tokens included (their tag
   is "0", prefix ""); the emission test runs after every token; [all(self.termination_map)] iterates
   the KEYS of the dict (true unless some key is the empty string).
   Domain restriction: int() of the last tag component raises on non-numeric text; here it yields 0 and
   the correspondence only feeds well-formed dotted tags.
   Not modelled: _persist_token / database writes, body execution, the `when` expression. *)
From Coq Require Import List Ascii Bool NArith ZArith.
From SF Require Import Base.Str Base.Dec Tags.Model Gather.Model.
Import ListNotations.
Local Open Scope string_scope. Local Open Scope list_scope.

Inductive larr :=
| LTok (x : tok)            (* an ordinary token (output of one iteration of the body) *)
| LIter (tg : string)       (* IterationTerminationToken(tag) *)
| LTerm (st : status).      (* TerminationToken(st); its tag is the default "0" *)

Inductive policy := OutAll | OutLast.

(* int(tag.split(".")[-1]) *)
Definition last_num (tg : string) : N :=
  match undec (last (split_on "." tg) "") with Some n => n | None => 0%N end.

(* sorted(l, key=lambda t: int(t.tag.split(".")[-1])): stable; modelled as stable insertion sort *)
Fixpoint insert_last (x : tok) (l : list tok) : list tok :=
  match l with
  | [] => [x]
  | y :: l' => if (last_num (tag_of x) <=? last_num (tag_of y))%N then x :: l else y :: insert_last x l'
  end.
Definition sort_last (l : list tok) : list tok := fold_right insert_last [] l.

Definition null_tok : tok := Tok "0" "null".      (* Token(value=None) *)

Definition process_output (pol : policy) (tm : list (string * list tok)) (p : string) : tok :=
  match pol with
  | OutAll => ListTok p (sort_last (aget_def [] p tm))
  | OutLast => retag (last (sort_last (aget_def [null_tok] p tm)) null_tok) p
  end.

Record lstate := {
  ltoken_map : list (string * list tok);
  lsize_map : list (string * N);
  lterm_map : list (string * bool);      (* termination_map *)
  lstatus : status;
  lout : list tok;                        (* tokens put on the output port, oldest first *)
  lfinal : option status                  (* Some st: the step left its loop and terminated with st *)
}.
Definition linit : lstate :=
  {| ltoken_map := []; lsize_map := []; lterm_map := []; lstatus := Skipped; lout := []; lfinal := None |}.

(* len(self.token_map.get(prefix, [])) == self.size_map.get(prefix, -1) *)
Definition complete (tm : list (string * list tok)) (sm : list (string * N)) (p : string) : bool :=
  match aget p sm with
  | Some n => (N.of_nat (length (aget_def [] p tm)) =? n)%N
  | None => false
  end.

Definition lterminate (s : lstate) : lstate :=
  {| ltoken_map := ltoken_map s; lsize_map := lsize_map s; lterm_map := lterm_map s; lstatus := lstatus s;
     lout := lout s;
     lfinal := Some (get_status (lstatus s) (match lout s with [] => true | _ => false end)) |}.

(* the tail of the loop body: emission test for [prefix], then the exit test *)
Definition emit_and_exit (pol : policy) (prefix : string) (s : lstate) : lstate :=
  let s1 := if complete (ltoken_map s) (lsize_map s) prefix
            then {| ltoken_map := ltoken_map s; lsize_map := lsize_map s; lterm_map := lterm_map s;
                    lstatus := lstatus s; lout := lout s ++ [process_output pol (ltoken_map s) prefix];
                    lfinal := None |}
            else s in
  (* if self.termination_map and all(self.termination_map): break     -- all() over the dict's KEYS *)
  match lterm_map s1 with
  | [] => s1
  | _ => if forallb (fun kv => negb (String.eqb (fst kv) "")) (lterm_map s1) then lterminate s1 else s1
  end.

Definition loop_step (pol : policy) (s : lstate) (a : larr) : lstate :=
  match lfinal s with
  | Some _ => s
  | None =>
      match a with
      | LTerm st =>
          let st' := reduce_statuses [lstatus s; st] in
          let s' := {| ltoken_map := ltoken_map s; lsize_map := lsize_map s; lterm_map := lterm_map s;
                       lstatus := st'; lout := lout s; lfinal := None |} in
          match ltoken_map s with
          | [] => lterminate s'                                  (* if not self.token_map: break *)
          | tm =>
              let tmap := map (fun kv => (fst kv, complete tm (lsize_map s) (fst kv))) tm in
              emit_and_exit pol (drop_last_s 1 "0")
                {| ltoken_map := tm; lsize_map := lsize_map s; lterm_map := tmap;
                   lstatus := st'; lout := lout s; lfinal := None |}
          end
      | LIter tg =>
          let prefix := drop_last_s 1 tg in
          emit_and_exit pol prefix
            {| ltoken_map := ltoken_map s; lsize_map := aset prefix (last_num tg) (lsize_map s);
               lterm_map := lterm_map s; lstatus := lstatus s; lout := lout s; lfinal := None |}
      | LTok x =>
          let prefix := drop_last_s 1 (tag_of x) in
          emit_and_exit pol prefix
            {| ltoken_map := aset prefix (aget_def [] prefix (ltoken_map s) ++ [x]) (ltoken_map s);
               lsize_map := lsize_map s; lterm_map := lterm_map s; lstatus := lstatus s;
               lout := lout s; lfinal := None |}
      end
  end.

Definition loop_run (pol : policy) (arr : list larr) : lstate := fold_left (loop_step pol) arr linit.

(* ---- LoopCombinator._product: the tag given to the next combination whose inputs carry [tg] ----
   prefix = tag minus last component; if prefix not in iteration_map: iteration_map[tag] = 0, tag.0
   else iteration_map[prefix] += 1, prefix.<counter> *)
Definition loop_retag (im : list (string * N)) (tg : string) : list (string * N) * string :=
  let prefix := drop_last_s 1 tg in
  match aget prefix im with
  | None => (aset tg 0%N im, String.append tg (String.append "." (dec 0)))
  | Some c => (aset prefix (N.succ c) im, String.append prefix (String.append "." (dec (N.succ c))))
  end.
Fixpoint loop_retags (im : list (string * N)) (tgs : list string) : list string :=
  match tgs with
  | [] => []
  | tg :: r => let (im', t') := loop_retag im tg in t' :: loop_retags im' r
  end.
