(* Loop/NetKReal.v — the k x m loop network with every loop output step instantiated by the model of
   CWLLoopOutput{All,Last}Step.run: the end-to-end statement for k input variables and m outputs, obtained from the
   projection lemma (Loop/NetKProofs.v) and the end-to-end theorem for a projection (Loop/NetGReal.v). *)
From Coq Require Import List Ascii Bool Arith NArith ZArith Lia Permutation.
From SF Require Import Base.Str Base.Dec Tags.Model Gather.Model Gather.Proofs Loop.Model Loop.Proofs Loop.Net Loop.NetG
                       Loop.NetGReal Loop.NetK Loop.NetKProofs.
Import ListNotations.
Local Open Scope string_scope. Local Open Scope list_scope.

Definition klstep (polf : nat -> policy) (valf : nat -> tag -> string) (tstf : nat -> status) (j : nat) :=
  G.rstep (polf j) (valf j) (tstf j).
Definition kreal (polf : nat -> policy) (valf : nat -> tag -> string) (tstf : nat -> status) (cont : tag -> bool)
  (insts : list tag) (k m : nat) :=
  kreach G.RS (klstep polf valf tstf) (fun _ => G.rinit) cont insts k m.
(* number of iterations of instance p, read off the combinator's counters *)
Definition kiter (s : knet G.RS) (p : tag) : nat := match tget p (nimap s) with Some n => N.to_nat n | None => 0 end.

Theorem loop_network_k :
  forall (polf : nat -> policy) (valf : nat -> tag -> string) (tstf : nat -> status) (cont : tag -> bool)
         (insts : list tag) (k m d : nat),
  1 <= k -> 1 <= d -> (forall p, In p insts -> length p = d) -> NoDup insts ->
  forall s, kreal polf valf tstf cont insts k m s ->
  forall j, j < m ->
  (nlgot s j = false -> lfinal (fst (nls s j)) = None) /\
  (nlgot s j = true ->
     (forall p, In p insts -> (forall i, i < kiter s p -> cont (G.itag p i) = true) /\ cont (G.itag p (kiter s p)) = false) /\
     Permutation (lout (fst (nls s j)))
                 (map (fun p => lexpected (polf j) (p, G.iters (valf j) p (kiter s p))) insts) /\
     lfinal (fst (nls s j)) = Some (get_status (reduce_statuses [Skipped; tstf j]) (match insts with [] => true | _ => false end))).
Proof.
  intros polf valf tstf cont insts k m d Hk Hd Hi Hnd s R j Hj.
  assert (H0 : 0 < k) by lia.
  pose proof (sim_reach G.RS (klstep polf valf tstf) (fun _ => G.rinit) cont insts k m 0 j H0 Hj s R) as GR.
  exact (G.loop_network (polf j) (valf j) (tstf j) cont insts d Hd Hi Hnd _ GR).
Qed.

(* ---- a concrete run (non-vacuity): two input variables, two outputs, one instance [0], zero iterations ---- *)
Inductive ksteps {LS} lstep cont k m : knet LS -> knet LS -> Prop :=
| ksteps_nil s : ksteps lstep cont k m s s
| ksteps_cons s s' s'' : kstep LS lstep cont k m s s' -> ksteps lstep cont k m s' s'' -> ksteps lstep cont k m s s''.
Lemma kreach_steps LS lstep linit0 cont insts k m s s' :
  kreach LS lstep linit0 cont insts k m s -> ksteps lstep cont k m s s' -> kreach LS lstep linit0 cont insts k m s'.
Proof. intros R H. induction H; auto. apply IHksteps. eapply kreach_step; eauto. Qed.

Definition ex_polf (j : nat) : policy := match j with 0 => OutAll | _ => OutLast end.
Definition ex_valf (j : nat) (t : tag) : string := render t.
Definition ex_cont0 (t : tag) : bool := false.
Definition ex_tstf (j : nat) : status := Skipped.       (* what a zero-iteration loop delivers on the real engine *)

Ltac fin := try reflexivity; try lia.
Ltac kI c n := eapply ksteps_cons; [eapply c with (i := n); fin|]; cbn.
Ltac kJ c n := eapply ksteps_cons; [eapply c with (j := n); fin|]; cbn.
Ltac kW := eapply ksteps_cons; [eapply K_W; fin|]; cbn.

Lemma ex_k_run :
  exists s, kreal ex_polf ex_valf ex_tstf ex_cont0 [[0%N]] 2 2 s /\ nlgot s 0 = true /\ nlgot s 1 = true /\
            lout (fst (nls s 0)) = [ListTok "0" []] /\ lout (fst (nls s 1)) = [Tok "0" "null"] /\
            lfinal (fst (nls s 0)) = Some Skipped.
Proof.
  eexists. split.
  - eapply kreach_steps; [apply kreach_init|].
    kI K_Fin 0.
    kI K_Fin 0.
    kI K_Fin 1.
    kI K_Fin 1.
    kI K_C 0.
    kI K_C 1.
    kI K_C 0.
    kI K_C 1.
    kW.
    kJ K_L 0.
    kJ K_L 1.
    kJ K_T 0.
    kJ K_T 1.
    kI K_C 0.
    kI K_C 1.
    kW.
    kJ K_Fout 0.
    kJ K_Fout 1.
    kJ K_L 0.
    kJ K_L 1.
    apply ksteps_nil.
  - cbn. repeat split; reflexivity.
Qed.
