(* Comb/NestedCor.v — corollary of the nested theorems: the emitted bag is exactly one (flattened) combination per
   complete key of the outer combinator, i.e. per combination of the inner combinator joined with the broadcast tokens. *)
From Coq Require Import List Ascii Bool NArith Arith Lia Permutation.
From SF Require Import Base.Str Tags.Model Comb.Model Comb.Proofs Comb.Flat Comb.Cart Comb.GBcast Comb.Nested.
From SF Require Comb.GB2.
Import ListNotations.
Local Open Scope string_scope. Local Open Scope list_scope.

Section NC.
Variable S : list string.
Variable cname : string.
Variable Q : list string.
Variable r : string.
Variable iemit : list arv -> arv -> list schema.

Lemma gems_gemsq : forall dl ao, gems cname Q r ao dl = GB2.gemsq (names cname Q) r ao dl.
Proof. induction dl as [|y dl IH]; intros ao; simpl; auto; try now rewrite IH. Qed.

Lemma gems_app : forall a b ao, gems cname Q r ao (a ++ b) = gems cname Q r ao a ++ gems cname Q r (ao ++ a) b.
Proof.
  induction a as [|y a IH]; intros b ao; simpl.
  - now rewrite app_nil_r.
  - rewrite IH, <- !app_assoc. simpl. reflexivity.
Qed.

Lemma concat_nouts : forall rest ai ao,
  concat (nouts S cname Q r iemit ai ao rest) = gems cname Q r ao (derive S cname iemit ai rest).
Proof.
  induction rest as [|x rest IH]; intros ai ao; simpl; auto.
  now rewrite IH, gems_app.
Qed.

(* what the nested specification emits, as a bag *)
Theorem nouts_bag (arr : list arv) :
  wfb (names cname Q) r cname (derive S cname iemit [] arr) ->
  Permutation (concat (nouts S cname Q r iemit [] [] arr))
              (GB2.gdone (names cname Q) r (derive S cname iemit [] arr)).
Proof.
  intros W. rewrite concat_nouts, gems_gemsq.
  apply (GB2.gemsq_done (names cname Q) r [cname]). now apply GB2.wfb_wfb2.
Qed.
End NC.

(* dot( dot(S), Q... ): no exception, and exactly one flattened combination per complete key of the outer combinator *)
Theorem nested_dot_bag S cname Q r (arr : list arv) :
  PH S cname Q r arr ->
  snd (run (tree S cname Q KDot) init_state arr) = None /\
  Permutation (concat (fst (run (tree S cname Q KDot) init_state arr)))
              (GB2.gdone (names cname Q) r (derive S cname (Flat.emission S) [] arr)).
Proof.
  intros H. rewrite (nested_dot_dot_primitive S cname Q r arr H). simpl. split; auto.
  apply nouts_bag. now apply derive_wfb.
Qed.

(* dot( cartesian_d(S), Q... ): the same, under the hypotheses of the nested cartesian theorem *)
Theorem nested_cart_bag S d (Hd0 : d <> 0) cname Q r (arr : list arv) :
  (forall x, In x arr -> is_scatter S x = false -> In (fst x) Q) ->
  wfc S d (scattered S arr) ->
  wfb (names cname Q) r cname (derive S cname (fun ai x => map mk_out (emitted S d ai x)) [] arr) ->
  snd (run (tree S cname Q (KCart d)) init_state arr) = None /\
  Permutation (concat (fst (run (tree S cname Q (KCart d)) init_state arr)))
              (GB2.gdone (names cname Q) r (derive S cname (fun ai x => map mk_out (emitted S d ai x)) [] arr)).
Proof.
  intros Hq Wi Wo. rewrite (nested_dot_cart S d Hd0 cname Q r arr Hq Wi Wo). simpl. split; auto.
  now apply nouts_bag.
Qed.
