(* Comb/Nested.v — the nesting the CWL translator builds for a scattered step with several scatter inputs and some
   non-scattered ones: a dot product whose first item is the scatter combinator (dot product or cartesian product
   over the scattered ports) and whose other items are the non-scattered ports (translator._create_residual_combinator).
   The inner combinator's combinations reach the outer one as elements of the item named after it; the outer one
   broadcasts the non-scattered (parent-tagged) tokens to each of them. *)
From Coq Require Import List Ascii Bool NArith Arith Lia Permutation.
From SF Require Import Base.Str Tags.Model Comb.Model Comb.Proofs Comb.Flat Comb.Cart Comb.GBcast.
Import ListNotations.
Local Open Scope string_scope. Local Open Scope list_scope.

Lemma filter_ports_nil (f : flatc -> bool) : forall l,
  filter (fun i => match i with IPort _ => false | IComb c => f c end) (map IPort l) = [].
Proof. induction l; simpl; auto. Qed.

Section Nested.
Variable S : list string.        (* the scattered ports (items of the inner combinator) *)
Variable cname : string.         (* the name of the inner combinator = its item name in the outer one *)
Variable Q : list string.        (* the non-scattered ports *)
Variable r : string.             (* the tag of the non-scattered tokens *)
Variable ik : ckind.             (* kind of the inner combinator *)

Definition names : list string := cname :: Q.
Definition tree : outerc := mkouter KDot (IComb (mkflat ik cname S) :: map IPort Q).

(* what the inner combinator does on an arrival: new inner state and emitted schemas (a specification function) *)
Variable istate : list arv -> tvals.
Variable iemit : list arv -> arv -> list schema.
Hypothesis istate_nil : istate [] = [].
Variable iwf : list arv -> Prop.
Hypothesis iwf_prefix : forall a b, iwf (a ++ b) -> iwf a.
Hypothesis istep : forall ai x, iwf (ai ++ [x]) ->
  combine1 ik S (fst x) (ETok (snd x)) (fst x) (snd x) (istate ai) = (istate (ai ++ [x]), iemit ai x, None).

Definition is_scatter (x : arv) : bool := existsb (String.eqb (fst x)) S.
Definition wrap (s : schema) : garv := (cname, ESch s).
(* the elements an arrival contributes to the outer combinator *)
Definition dstep (ai : list arv) (x : arv) : list garv :=
  if is_scatter x then map wrap (iemit ai x) else [(fst x, ETok (snd x))].
Fixpoint gems (ao : list garv) (dl : list garv) : list schema :=
  match dl with
  | [] => []
  | y :: rest => emission_b names r ao y ++ gems (ao ++ [y]) rest
  end.
(* specification of the whole run: inner arrivals so far, outer elements so far, remaining arrivals *)
Fixpoint nouts (ai : list arv) (ao : list garv) (rest : list arv) : list (list schema) :=
  match rest with
  | [] => []
  | x :: rest' =>
      let dl := dstep ai x in
      gems ao dl :: nouts (if is_scatter x then ai ++ [x] else ai) (ao ++ dl) rest'
  end.
Fixpoint derive (ai : list arv) (rest : list arv) : list garv :=
  match rest with
  | [] => []
  | x :: rest' => dstep ai x ++ derive (if is_scatter x then ai ++ [x] else ai) rest'
  end.
Definition scattered (l : list arv) : list arv := filter is_scatter l.

Definition istv (ai : list arv) : list (string * tvals) :=
  match ai with [] => [] | _ => [(cname, istate ai)] end.

Lemma lookup_istv ai : match lookup cname (istv ai) with Some tv => tv | None => [] end = istate ai.
Proof. destruct ai; simpl; [now rewrite istate_nil|]. now rewrite String.eqb_refl. Qed.
Lemma set_istv ai v x : assoc_set cname v (istv ai) = [(cname, v)] /\ istv (ai ++ [x]) = [(cname, istate (ai ++ [x]))].
Proof.
  split.
  - destruct ai; simpl; auto. now rewrite String.eqb_refl.
  - destruct ai; reflexivity.
Qed.

Lemma find_inner_scatter x : is_scatter x = true -> find_inner (fst x) (oitems tree) = Some (mkflat ik cname S).
Proof. intros H. unfold find_inner, tree. simpl. unfold is_scatter in H. now rewrite H. Qed.

Lemma find_inner_parent x : is_scatter x = false -> find_inner (fst x) (oitems tree) = None.
Proof.
  intros H. unfold find_inner, tree. simpl. unfold is_scatter in H. rewrite H.
  now rewrite (filter_ports_nil (fun c => existsb (String.eqb (fst x)) (fports c))).
Qed.

Lemma names_tree : map item_name (oitems tree) = names.
Proof. unfold tree, names. simpl. f_equal. rewrite map_map. simpl. apply map_id. Qed.

(* feeding the schemas of the inner combinator to the outer one *)
Lemma feed_outer_b p t : forall ss ao,
  wfb names r cname (ao ++ map wrap ss) ->
  feed_outer KDot names cname ss p t (tvb names r ao) =
  (tvb names r (ao ++ map wrap ss), gems ao (map wrap ss), None).
Proof.
  induction ss as [|s ss IH]; intros ao W; simpl.
  - now rewrite app_nil_r.
  - simpl in W. replace (ao ++ wrap s :: map wrap ss) with ((ao ++ [wrap s]) ++ map wrap ss) in * by now rewrite <- app_assoc.
    pose proof (combine1_b names r cname ao (wrap s) (wfb_prefix _ _ _ _ _ W) p t) as C.
    simpl in C. rewrite C. rewrite IH by exact W. reflexivity.
Qed.

Lemma combine_nested ai ao x :
  (is_scatter x = true -> iwf (ai ++ [x])) ->
  (is_scatter x = false -> In (fst x) Q) ->
  wfb names r cname (ao ++ dstep ai x) ->
  combine tree (mkst (tvb names r ao) (istv ai)) (fst x) (snd x) =
  (mkst (tvb names r (ao ++ dstep ai x)) (istv (if is_scatter x then ai ++ [x] else ai)),
   gems ao (dstep ai x), None).
Proof.
  intros Hi Hq W. unfold combine. rewrite names_tree. unfold dstep in *. destruct (is_scatter x) eqn:Sx.
  - rewrite (find_inner_scatter x Sx). simpl fname. simpl fkind. simpl fports. simpl otv. simpl itvs.
    rewrite lookup_istv, (istep ai x (Hi eq_refl)).
    change (okind tree) with KDot. rewrite feed_outer_b by exact W.
    destruct (set_istv ai (istate (ai ++ [x])) x) as [E1 E2]. rewrite E1, E2. reflexivity.
  - rewrite (find_inner_parent x Sx).
    assert (existsb (String.eqb (fst x)) names = true) as ->.
    { apply existsb_exists. exists (fst x). split; [right; apply Hq; reflexivity|apply String.eqb_refl]. }
    change (okind tree) with KDot. simpl otv. simpl itvs.
    pose proof (combine1_b names r cname ao (fst x, ETok (snd x)) W (fst x) (snd x)) as C. cbn [fst snd] in C.
    rewrite C. simpl. now rewrite app_nil_r.
Qed.

Lemma run_nested : forall rest ai ao,
  (forall x, In x rest -> is_scatter x = false -> In (fst x) Q) ->
  iwf (ai ++ scattered rest) ->
  wfb names r cname (ao ++ derive ai rest) ->
  run tree (mkst (tvb names r ao) (istv ai)) rest = (nouts ai ao rest, None).
Proof.
  induction rest as [|x rest IH]; intros ai ao Hq Wi Wo; simpl; auto.
  simpl in Wo. rewrite app_assoc in Wo.
  assert (C := combine_nested ai ao x).
  destruct x as [p t]. cbn [fst snd] in C. rewrite C; clear C.
  - rewrite IH; auto.
    + intros y Hy. apply Hq. simpl. auto.
    + simpl in Wi. destruct (is_scatter (p, t)); auto. simpl in Wi. now rewrite <- app_assoc.
  - intros Sx. simpl in Wi. rewrite Sx in Wi. simpl in Wi.
    apply (iwf_prefix _ (scattered rest)). now rewrite <- app_assoc.
  - intros Sx. apply (Hq (p, t)); simpl; auto.
  - eapply wfb_prefix. exact Wo.
Qed.
End Nested.

(* ---------- instances: the scatter combinators the translator builds ---------- *)
Lemma combine_flat_tree k items p t tv :
  In p items ->
  combine (mkouter k (map IPort items)) (mkst tv []) p t =
  (let '(a, b, c) := combine1 k items p (ETok t) p t tv in (mkst a [], b, c)).
Proof.
  intros Hp. unfold combine. simpl oitems. rewrite find_inner_ports, names_items.
  assert (existsb (String.eqb p) items = true) as ->.
  { apply existsb_exists. exists p. split; auto. apply String.eqb_refl. }
  reflexivity.
Qed.

Lemma combine1_flat items ai x :
  Flat.wf items (ai ++ [x]) ->
  combine1 KDot items (fst x) (ETok (snd x)) (fst x) (snd x) (Flat.tv_of items ai) =
  (Flat.tv_of items (ai ++ [x]), Flat.emission items ai x, None).
Proof.
  intros W. pose proof (combine_flat items ai x W) as C. unfold c1 in C.
  rewrite combine_flat_tree in C.
  - destruct (combine1 KDot items (fst x) (ETok (snd x)) (fst x) (snd x) (Flat.tv_of items ai)) as [[a b] c].
    inversion C; subst. reflexivity.
  - destruct W as (_ & Hp & _). apply Hp. rewrite in_app_iff. simpl. auto.
Qed.

Lemma combine1_cart items d (Hd : d <> 0) ai x :
  wfc items d (ai ++ [x]) ->
  combine1 (KCart d) items (fst x) (ETok (snd x)) (fst x) (snd x) (tvc d ai) =
  (tvc d (ai ++ [x]), map mk_out (emitted items d ai x), None).
Proof.
  intros W. pose proof (combine_cart items d Hd ai x W) as C. unfold cc in C.
  rewrite combine_flat_tree in C.
  - destruct (combine1 (KCart d) items (fst x) (ETok (snd x)) (fst x) (snd x) (tvc d ai)) as [[a b] c].
    inversion C; subst. reflexivity.
  - destruct W as (_ & Hp & _). apply Hp. rewrite in_app_iff. simpl. auto.
Qed.

(* dot product over [ dot(S) ; Q... ] : every arrival order of well-formed streams gives the specified run *)
Theorem nested_dot_dot S cname Q r (arr : list arv) :
  (forall x, In x arr -> is_scatter S x = false -> In (fst x) Q) ->
  Flat.wf S (scattered S arr) ->
  wfb (names cname Q) r cname (derive S cname (Flat.emission S) [] arr) ->
  run (tree S cname Q KDot) init_state arr = (nouts S cname Q r (Flat.emission S) [] [] arr, None).
Proof.
  intros Hq Wi Wo.
  apply (run_nested S cname Q r KDot (Flat.tv_of S) (Flat.emission S) eq_refl (Flat.wf S)
           (Flat.wf_prefix S) (combine1_flat S) arr [] []); auto.
Qed.

(* dot product over [ cartesian_d(S) ; Q... ] *)
Theorem nested_dot_cart S d (Hd0 : d <> 0) cname Q r (arr : list arv) :
  (forall x, In x arr -> is_scatter S x = false -> In (fst x) Q) ->
  wfc S d (scattered S arr) ->
  wfb (names cname Q) r cname (derive S cname (fun ai x => map mk_out (emitted S d ai x)) [] arr) ->
  run (tree S cname Q (KCart d)) init_state arr =
  (nouts S cname Q r (fun ai x => map mk_out (emitted S d ai x)) [] [] arr, None).
Proof.
  intros Hq Wi Wo.
  apply (run_nested S cname Q r (KCart d) (tvc d) (fun ai x => map mk_out (emitted S d ai x)) eq_refl (wfc S d)
           (wfc_prefix S d) (combine1_cart S d Hd0) arr [] []); auto.
Qed.
