(* Comb/Nested.v — the nesting the CWL translator builds for a scattered step with several scatter inputs and some
   non-scattered ones: a dot product whose first item is the scatter combinator (dot product or cartesian product
   over the scattered ports) and whose other items are the non-scattered ports (translator._create_residual_combinator).
   The inner combinator's combinations reach the outer one as elements of the item named after it; the outer one
   broadcasts the non-scattered (parent-tagged) tokens to each of them. *)
From Coq Require Import List Ascii Bool NArith Arith Lia Permutation.
From SF Require Import Base.Str Tags.Model Comb.Model Comb.Proofs Comb.Flat Comb.Cart Comb.GBcast.
Import ListNotations.
Local Open Scope string_scope. Local Open Scope list_scope.

Lemma filter_ports_nil (f : flatc -> bool) : forall l,
  filter (fun i => match i with IPort _ => false | IComb c => f c end) (map IPort l) = [].
Proof. induction l; simpl; auto. Qed.

Section Nested.
Variable S : list string.        (* the scattered ports (items of the inner combinator) *)
Variable cname : string.         (* the name of the inner combinator = its item name in the outer one *)
Variable Q : list string.        (* the non-scattered ports *)
Variable r : string.             (* the tag of the non-scattered tokens *)
Variable ik : ckind.             (* kind of the inner combinator *)

Definition names : list string := cname :: Q.
Definition tree : outerc := mkouter KDot (IComb (mkflat ik cname S) :: map IPort Q).

(* what the inner combinator does on an arrival: new inner state and emitted schemas (a specification function) *)
Variable istate : list arv -> tvals.
Variable iemit : list arv -> arv -> list schema.
Hypothesis istate_nil : istate [] = [].
Variable iwf : list arv -> Prop.
Hypothesis iwf_prefix : forall a b, iwf (a ++ b) -> iwf a.
Hypothesis istep : forall ai x, iwf (ai ++ [x]) ->
  combine1 ik S (fst x) (ETok (snd x)) (fst x) (snd x) (istate ai) = (istate (ai ++ [x]), iemit ai x, None).

Definition is_scatter (x : arv) : bool := existsb (String.eqb (fst x)) S.
Definition wrap (s : schema) : garv := (cname, ESch s).
(* the elements an arrival contributes to the outer combinator *)
Definition dstep (ai : list arv) (x : arv) : list garv :=
  if is_scatter x then map wrap (iemit ai x) else [(fst x, ETok (snd x))].
Fixpoint gems (ao : list garv) (dl : list garv) : list schema :=
  match dl with
  | [] => []
  | y :: rest => emission_b names r ao y ++ gems (ao ++ [y]) rest
  end.
(* specification of the whole run: inner arrivals so far, outer elements so far, remaining arrivals *)
Fixpoint nouts (ai : list arv) (ao : list garv) (rest : list arv) : list (list schema) :=
  match rest with
  | [] => []
  | x :: rest' =>
      let dl := dstep ai x in
      gems ao dl :: nouts (if is_scatter x then ai ++ [x] else ai) (ao ++ dl) rest'
  end.
Fixpoint derive (ai : list arv) (rest : list arv) : list garv :=
  match rest with
  | [] => []
  | x :: rest' => dstep ai x ++ derive (if is_scatter x then ai ++ [x] else ai) rest'
  end.
Definition scattered (l : list arv) : list arv := filter is_scatter l.

Definition istv (ai : list arv) : list (string * tvals) :=
  match ai with [] => [] | _ => [(cname, istate ai)] end.

Lemma lookup_istv ai : match lookup cname (istv ai) with Some tv => tv | None => [] end = istate ai.
Proof. destruct ai; simpl; [now rewrite istate_nil|]. now rewrite String.eqb_refl. Qed.
Lemma set_istv ai v x : assoc_set cname v (istv ai) = [(cname, v)] /\ istv (ai ++ [x]) = [(cname, istate (ai ++ [x]))].
Proof.
  split.
  - destruct ai; simpl; auto. now rewrite String.eqb_refl.
  - destruct ai; reflexivity.
Qed.

Lemma find_inner_scatter x : is_scatter x = true -> find_inner (fst x) (oitems tree) = Some (mkflat ik cname S).
Proof. intros H. unfold find_inner, tree. simpl. unfold is_scatter in H. now rewrite H. Qed.

Lemma find_inner_parent x : is_scatter x = false -> find_inner (fst x) (oitems tree) = None.
Proof.
  intros H. unfold find_inner, tree. simpl. unfold is_scatter in H. rewrite H.
  now rewrite (filter_ports_nil (fun c => existsb (String.eqb (fst x)) (fports c))).
Qed.

Lemma names_tree : map item_name (oitems tree) = names.
Proof. unfold tree, names. simpl. f_equal. rewrite map_map. simpl. apply map_id. Qed.

(* feeding the schemas of the inner combinator to the outer one *)
Lemma feed_outer_b p t : forall ss ao,
  wfb names r cname (ao ++ map wrap ss) ->
  feed_outer KDot names cname ss p t (tvb names r ao) =
  (tvb names r (ao ++ map wrap ss), gems ao (map wrap ss), None).
Proof.
  induction ss as [|s ss IH]; intros ao W; simpl.
  - now rewrite app_nil_r.
  - simpl in W. replace (ao ++ wrap s :: map wrap ss) with ((ao ++ [wrap s]) ++ map wrap ss) in * by now rewrite <- app_assoc.
    pose proof (combine1_b names r cname ao (wrap s) (wfb_prefix _ _ _ _ _ W) p t) as C.
    simpl in C. rewrite C. rewrite IH by exact W. reflexivity.
Qed.

Lemma combine_nested ai ao x :
  (is_scatter x = true -> iwf (ai ++ [x])) ->
  (is_scatter x = false -> In (fst x) Q) ->
  wfb names r cname (ao ++ dstep ai x) ->
  combine tree (mkst (tvb names r ao) (istv ai)) (fst x) (snd x) =
  (mkst (tvb names r (ao ++ dstep ai x)) (istv (if is_scatter x then ai ++ [x] else ai)),
   gems ao (dstep ai x), None).
Proof.
  intros Hi Hq W. unfold combine. rewrite names_tree. unfold dstep in *. destruct (is_scatter x) eqn:Sx.
  - rewrite (find_inner_scatter x Sx). simpl fname. simpl fkind. simpl fports. simpl otv. simpl itvs.
    rewrite lookup_istv, (istep ai x (Hi eq_refl)).
    change (okind tree) with KDot. rewrite feed_outer_b by exact W.
    destruct (set_istv ai (istate (ai ++ [x])) x) as [E1 E2]. rewrite E1, E2. reflexivity.
  - rewrite (find_inner_parent x Sx).
    assert (existsb (String.eqb (fst x)) names = true) as ->.
    { apply existsb_exists. exists (fst x). split; [right; apply Hq; reflexivity|apply String.eqb_refl]. }
    change (okind tree) with KDot. simpl otv. simpl itvs.
    pose proof (combine1_b names r cname ao (fst x, ETok (snd x)) W (fst x) (snd x)) as C. cbn [fst snd] in C.
    rewrite C. simpl. now rewrite app_nil_r.
Qed.

Lemma run_nested : forall rest ai ao,
  (forall x, In x rest -> is_scatter x = false -> In (fst x) Q) ->
  iwf (ai ++ scattered rest) ->
  wfb names r cname (ao ++ derive ai rest) ->
  run tree (mkst (tvb names r ao) (istv ai)) rest = (nouts ai ao rest, None).
Proof.
  induction rest as [|x rest IH]; intros ai ao Hq Wi Wo; simpl; auto.
  simpl in Wo. rewrite app_assoc in Wo.
  assert (C := combine_nested ai ao x).
  destruct x as [p t]. cbn [fst snd] in C. rewrite C; clear C.
  - rewrite IH; auto.
    + intros y Hy. apply Hq. simpl. auto.
    + simpl in Wi. destruct (is_scatter (p, t)); auto. simpl in Wi. now rewrite <- app_assoc.
  - intros Sx. simpl in Wi. rewrite Sx in Wi. simpl in Wi.
    apply (iwf_prefix _ (scattered rest)). now rewrite <- app_assoc.
  - intros Sx. apply (Hq (p, t)); simpl; auto.
  - eapply wfb_prefix. exact Wo.
Qed.
End Nested.

(* ---------- instances: the scatter combinators the translator builds ---------- *)
Lemma combine_flat_tree k items p t tv :
  In p items ->
  combine (mkouter k (map IPort items)) (mkst tv []) p t =
  (let '(a, b, c) := combine1 k items p (ETok t) p t tv in (mkst a [], b, c)).
Proof.
  intros Hp. unfold combine. simpl oitems. rewrite find_inner_ports, names_items.
  assert (existsb (String.eqb p) items = true) as ->.
  { apply existsb_exists. exists p. split; auto. apply String.eqb_refl. }
  reflexivity.
Qed.

Lemma combine1_flat items ai x :
  Flat.wf items (ai ++ [x]) ->
  combine1 KDot items (fst x) (ETok (snd x)) (fst x) (snd x) (Flat.tv_of items ai) =
  (Flat.tv_of items (ai ++ [x]), Flat.emission items ai x, None).
Proof.
  intros W. pose proof (combine_flat items ai x W) as C. unfold c1 in C.
  rewrite combine_flat_tree in C.
  - destruct (combine1 KDot items (fst x) (ETok (snd x)) (fst x) (snd x) (Flat.tv_of items ai)) as [[a b] c].
    inversion C; subst. reflexivity.
  - destruct W as (_ & Hp & _). apply Hp. rewrite in_app_iff. simpl. auto.
Qed.

Lemma combine1_cart items d (Hd : d <> 0) ai x :
  wfc items d (ai ++ [x]) ->
  combine1 (KCart d) items (fst x) (ETok (snd x)) (fst x) (snd x) (tvc d ai) =
  (tvc d (ai ++ [x]), map mk_out (emitted items d ai x), None).
Proof.
  intros W. pose proof (combine_cart items d Hd ai x W) as C. unfold cc in C.
  rewrite combine_flat_tree in C.
  - destruct (combine1 (KCart d) items (fst x) (ETok (snd x)) (fst x) (snd x) (tvc d ai)) as [[a b] c].
    inversion C; subst. reflexivity.
  - destruct W as (_ & Hp & _). apply Hp. rewrite in_app_iff. simpl. auto.
Qed.

(* dot product over [ dot(S) ; Q... ] : every arrival order of well-formed streams gives the specified run *)
Theorem nested_dot_dot S cname Q r (arr : list arv) :
  (forall x, In x arr -> is_scatter S x = false -> In (fst x) Q) ->
  Flat.wf S (scattered S arr) ->
  wfb (names cname Q) r cname (derive S cname (Flat.emission S) [] arr) ->
  run (tree S cname Q KDot) init_state arr = (nouts S cname Q r (Flat.emission S) [] [] arr, None).
Proof.
  intros Hq Wi Wo.
  apply (run_nested S cname Q r KDot (Flat.tv_of S) (Flat.emission S) eq_refl (Flat.wf S)
           (Flat.wf_prefix S) (combine1_flat S) arr [] []); auto.
Qed.

(* dot product over [ cartesian_d(S) ; Q... ] *)
Theorem nested_dot_cart S d (Hd0 : d <> 0) cname Q r (arr : list arv) :
  (forall x, In x arr -> is_scatter S x = false -> In (fst x) Q) ->
  wfc S d (scattered S arr) ->
  wfb (names cname Q) r cname (derive S cname (fun ai x => map mk_out (emitted S d ai x)) [] arr) ->
  run (tree S cname Q (KCart d)) init_state arr =
  (nouts S cname Q r (fun ai x => map mk_out (emitted S d ai x)) [] [] arr, None).
Proof.
  intros Hq Wi Wo.
  apply (run_nested S cname Q r (KCart d) (tvc d) (fun ai x => map mk_out (emitted S d ai x)) eq_refl (wfc S d)
           (wfc_prefix S d) (combine1_cart S d Hd0) arr [] []); auto.
Qed.

(* ---------- the derived list is well-formed under primitive conditions (inner dot product) ---------- *)
Lemma get_tag_same g : forall m, fold_left (fun out t => if Nat.ltb (String.length out) (String.length t) then t else out)
                                   (repeat g m) g = g.
Proof. induction m; simpl; auto. now rewrite Nat.ltb_irrefl. Qed.
Lemma get_tag_repeat g m : 1 < String.length g -> get_tag_s (repeat g (Datatypes.S m)) = g.
Proof.
  intros H. unfold get_tag_s. simpl.
  destruct (Nat.ltb_spec 1 (String.length g)); [apply get_tag_same|lia].
Qed.

Lemma map_const_repeat {A B} (f : A -> B) (b : B) : forall l, (forall y, In y l -> f y = b) -> map f l = repeat b (length l).
Proof. induction l; simpl; intros H; auto. rewrite H, IHl; auto. Qed.

Lemma gatag_combo cname g (l : list arv) :
  l <> [] -> (forall y, In y l -> atag y = g) -> 1 < String.length g ->
  gatag (cname, ESch (Flat.combo l)) = g.
Proof.
  intros Hne Hg Hlen. unfold gatag, Flat.combo, retag. simpl. rewrite !map_map. simpl.
  rewrite (map_const_repeat atag g l Hg).
  destruct l as [|y l]; [congruence|]. simpl length. rewrite (get_tag_repeat g _ Hlen).
  rewrite (map_const_repeat (fun _ : string * tok => g) g (y :: l)) by auto. simpl length. now apply get_tag_repeat.
Qed.

Section DeriveWf.
Variable S : list string.
Variable cname : string.
Variable Q : list string.
Variable r : string.
Let n := length S.

Definition parents (l : list arv) : list arv := filter (fun x => negb (is_scatter S x)) l.
Definition PH (arr : list arv) : Prop :=
  NoDup (cname :: Q) /\ S <> [] /\
  (forall x, In x arr -> is_scatter S x = false -> In (fst x) Q /\ atag x = r) /\
  NoDup (map fst (parents arr)) /\
  Flat.wf S (scattered S arr) /\
  (forall x, In x arr -> is_scatter S x = true -> deepc r (atag x) /\ 1 < String.length (atag x)).

Notation dv := (derive S cname (Flat.emission S)).

(* what the derived list contains *)
Lemma in_derive : forall rest ai e, In e (dv ai rest) ->
  (exists x, In x rest /\ is_scatter S x = false /\ e = (fst x, ETok (snd x))) \/
  (exists x l, In x rest /\ is_scatter S x = true /\ length l = n /\ (forall y, In y l -> atag y = atag x) /\
               e = (cname, ESch (Flat.combo l))).
Proof.
  induction rest as [|x rest IH]; intros ai e H; simpl in H; [tauto|].
  apply in_app_iff in H. destruct H as [H|H].
  - unfold dstep in H. destruct (is_scatter S x) eqn:Sx.
    + right. apply in_map_iff in H. destruct H as (s & <- & Hs). unfold Flat.emission in Hs.
      destruct (Nat.eqb_spec (length (sel (atag x) (ai ++ [x]))) (length S)) as [En|En]; [|destruct Hs].
      destruct Hs as [<-|[]]. exists x, (sel (atag x) (ai ++ [x])). repeat split; simpl; auto.
      intros y Hy. apply sel_in in Hy. tauto.
    + left. destruct H as [<-|[]]. exists x. simpl. auto.
  - destruct (IH _ _ H) as [(y & Hy & A)|(y & l & Hy & A)]; [left; exists y|right; exists y, l]; simpl; tauto.
Qed.

Lemma parents_app a b : parents (a ++ b) = parents a ++ parents b.
Proof. unfold parents. apply filter_app. Qed.

Lemma derive_keys_nodup : forall rest ai,
  NoDup (cname :: Q) -> S <> [] ->
  (forall x, In x rest -> is_scatter S x = false -> In (fst x) Q /\ atag x = r) ->
  NoDup (map fst (parents rest)) ->
  Flat.wf S (ai ++ scattered S rest) ->
  (forall x, In x rest -> is_scatter S x = true -> 1 < String.length (atag x)) ->
  NoDup (map gakey (dv ai rest)).
Proof.
  induction rest as [|x rest IH]; intros ai NDn Sne Hq NDp W Hlen; simpl; [constructor|].
  assert (Ncq : ~ In cname Q) by (inversion NDn; auto).
  assert (Hq' : forall y, In y rest -> is_scatter S y = false -> In (fst y) Q /\ atag y = r)
    by (intros; apply Hq; simpl; auto).
  assert (Hlen' : forall y, In y rest -> is_scatter S y = true -> 1 < String.length (atag y))
    by (intros; apply Hlen; simpl; auto).
  rewrite map_app. unfold dstep. destruct (is_scatter S x) eqn:Sx.
  - (* a scattered arrival: at most one combination, of a tag that cannot complete again *)
    assert (W' : Flat.wf S ((ai ++ [x]) ++ scattered S rest)).
    { unfold scattered in *. simpl in W. rewrite Sx in W. now rewrite <- app_assoc. }
    assert (NDp' : NoDup (map fst (parents rest))).
    { unfold parents in *. simpl in NDp. rewrite Sx in NDp. exact NDp. }
    specialize (IH (ai ++ [x]) NDn Sne Hq' NDp' W' Hlen').
    unfold Flat.emission. destruct (Nat.eqb_spec (length (sel (atag x) (ai ++ [x]))) (length S)) as [En|En]; [|exact IH].
    simpl. constructor; auto. intros Hin.
    assert (Eg : gatag (wrap cname (Flat.combo (sel (atag x) (ai ++ [x])))) = atag x).
    { apply gatag_combo.
      - intros E. rewrite E in En. simpl in En. destruct S; [congruence|discriminate].
      - intros y Hy. apply sel_in in Hy. tauto.
      - apply Hlen; simpl; auto. }
    unfold gakey at 1 in Hin. rewrite Eg in Hin. simpl in Hin.
    apply in_map_iff in Hin. destruct Hin as (e & Ee & He).
    destruct (in_derive _ _ _ He) as [(y & Hy & Sy & ->)|(y & l & Hy & Sy & Ll & Hl & ->)].
    + unfold gakey in Ee. simpl in Ee. inversion Ee as [[Ep Et]]. destruct (Hq' y Hy Sy) as [HyQ _].
      apply Ncq. rewrite <- Ep. exact HyQ.
    + assert (Ey : gatag (cname, ESch (Flat.combo l)) = atag y).
      { apply gatag_combo; auto. intros E. rewrite E in Ll. simpl in Ll. unfold n in Ll. destruct S; [congruence|discriminate]. }
      unfold gakey in Ee. rewrite Ey in Ee. simpl in Ee. inversion Ee as [Et].
      (* y is a later scattered token with the tag that has just completed: one token too many *)
      destruct W' as (NDi & Hports & NDk & _).
      pose proof (sel_ports_nodup (atag x) _ NDk) as NDs.
      assert (Incl : incl (map fst (sel (atag x) ((ai ++ [x]) ++ scattered S rest))) S).
      { intros q Hq0. apply in_map_iff in Hq0. destruct Hq0 as (z & <- & Hz). apply sel_in in Hz. apply Hports. tauto. }
      pose proof (NoDup_incl_length NDs Incl) as Le. rewrite map_length in Le.
      unfold sel in Le. rewrite filter_app, app_length in Le. fold (sel (atag x) (ai ++ [x])) in Le. rewrite En in Le.
      assert (In y (filter (fun z => String.eqb (atag z) (atag x)) (scattered S rest))).
      { apply filter_In. split; [unfold scattered; apply filter_In; auto|]. rewrite Et. apply String.eqb_refl. }
      destruct (filter (fun z => String.eqb (atag z) (atag x)) (scattered S rest)); [destruct H|]. simpl in Le. lia.
  - (* a parent arrival *)
    assert (W' : Flat.wf S (ai ++ scattered S rest)).
    { unfold scattered in *. simpl in W. rewrite Sx in W. exact W. }
    assert (NDp' : NoDup (map fst (parents rest)) /\ ~ In (fst x) (map fst (parents rest))).
    { unfold parents in *. simpl in NDp. rewrite Sx in NDp. simpl in NDp. inversion NDp; subst. auto. }
    destruct NDp' as [NDp' Nx]. specialize (IH ai NDn Sne Hq' NDp' W' Hlen').
    simpl. constructor; auto. intros Hin. apply in_map_iff in Hin. destruct Hin as (e & Ee & He).
    destruct (Hq x (or_introl eq_refl) Sx) as [HxQ Tx].
    destruct (in_derive _ _ _ He) as [(y & Hy & Sy & ->)|(y & l & Hy & Sy & Ll & Hl & ->)].
    + unfold gakey in Ee. simpl in Ee. inversion Ee as [[Ep Et]]. apply Nx. rewrite <- Ep.
      apply in_map. unfold parents. apply filter_In. split; auto. now rewrite Sy.
    + unfold gakey in Ee. simpl in Ee. inversion Ee as [[Ep Et]]. apply Ncq. rewrite Ep. exact HxQ.
Qed.

Theorem derive_wfb (arr : list arv) : PH arr -> wfb (names cname Q) r cname (dv [] arr).
Proof.
  intros (NDn & Sne & Hq & NDp & W & Hd).
  assert (Gat : forall e, In e (dv [] arr) ->
            (exists x, In x arr /\ is_scatter S x = false /\ e = (fst x, ETok (snd x)) /\ gatag e = r /\ In (fst e) Q) \/
            (exists x, In x arr /\ is_scatter S x = true /\ fst e = cname /\ gatag e = atag x)).
  { intros e He. destruct (in_derive _ _ _ He) as [(y & Hy & Sy & ->)|(y & l & Hy & Sy & Ll & Hl & ->)].
    - left. exists y. destruct (Hq y Hy Sy) as [A B]. repeat split; auto.
    - right. exists y. repeat split; auto. apply gatag_combo; auto.
      + intros E. rewrite E in Ll. simpl in Ll. unfold n in Ll. destruct S; [congruence|discriminate].
      + apply Hd; auto. }
  assert (Ncq : ~ In cname Q) by (inversion NDn; auto).
  split; [exact NDn|]. split; [simpl; auto|]. split; [|split; [|split]].
  - intros e He. destruct (Gat e He) as [(y & _ & _ & _ & _ & HQ)|(y & _ & _ & Ec & _)].
    + right. exact HQ.
    + left. now rewrite Ec.
  - apply derive_keys_nodup; auto. intros x Hx Sx. apply Hd; auto.
  - intros e He. destruct (Gat e He) as [(y & _ & _ & -> & Et & HQ)|(y & Hy & Sy & Ec & Et)].
    + simpl in *. destruct (String.eqb_spec (fst y) cname); [subst; tauto|exact Et].
    + rewrite Ec, String.eqb_refl, Et. apply Hd; auto.
  - intros e1 e2 H1 H2 P1 P2 Ne.
    destruct (Gat e1 H1) as [(y1 & _ & _ & _ & _ & HQ1)|(y1 & Hy1 & S1 & _ & Et1)]; [rewrite P1 in HQ1; tauto|].
    destruct (Gat e2 H2) as [(y2 & _ & _ & _ & _ & HQ2)|(y2 & Hy2 & S2 & _ & Et2)]; [rewrite P2 in HQ2; tauto|].
    rewrite Et1, Et2 in *. destruct W as (_ & _ & _ & Hflat).
    apply Hflat; auto; unfold scattered; apply filter_In; auto.
Qed.
End DeriveWf.

(* the nested theorem for the inner dot product, from primitive hypotheses *)
Theorem nested_dot_dot_primitive S cname Q r (arr : list arv) :
  PH S cname Q r arr ->
  run (tree S cname Q KDot) init_state arr = (nouts S cname Q r (Flat.emission S) [] [] arr, None).
Proof.
  intros H. pose proof H as (_ & _ & Hq & _ & W & _).
  apply nested_dot_dot; auto.
  - intros x Hx Sx. now apply Hq.
  - now apply derive_wfb.
Qed.
