(* Comb/Proofs.v — theorems about Comb/Model.v (C02). *)
From Coq Require Import List Ascii Bool NArith Arith Lia Permutation.
From SF Require Import Base.Str Tags.Model Comb.Model.
Import ListNotations.
Local Open Scope string_scope. Local Open Scope list_scope.

(* ---------- association lists ---------- *)
Lemma lookup_notin {A} k (l : list (string * A)) : ~ In k (map fst l) -> lookup k l = None.
Proof.
  induction l as [|[k' v] l IH]; simpl; auto. intros H.
  destruct (String.eqb_spec k k'); [exfalso; auto|]. apply IH. tauto.
Qed.
Lemma assoc_set_notin {A} k (v : A) l : ~ In k (map fst l) -> assoc_set k v l = l ++ [(k, v)].
Proof.
  induction l as [|[k' v'] l IH]; simpl; auto. intros H.
  destruct (String.eqb_spec k k'); [exfalso; auto|]. f_equal. apply IH. tauto.
Qed.

(* ---------- dot product, every token carrying the same tag ---------- *)
Section OneTag.
Variable g : string.                       (* the tag *)
Variable items : list string.              (* the ports of the combinator *)

Definition c1 : outerc := mkouter KDot (map IPort items).
(* arrivals are (port, payload id); the token is (id, g) *)
Definition arrival (x : string * N) : string * tok := (fst x, (snd x, g)).
Definition pv_of (arrived : list (string * N)) : pvals := map (fun x => (fst x, [ETok (snd x, g)])) arrived.
Definition tv_of (arrived : list (string * N)) : tvals :=
  match arrived with [] => [] | _ => [(g, pv_of arrived)] end.
Definition out_tag (arr : list (string * N)) : string := get_tag_s (map (fun _ => g) arr).
(* the one combination: every port's token, re-tagged *)
Definition combo (arr : list (string * N)) : schema := map (fun x => (fst x, (snd x, out_tag arr))) arr.

Lemma pv_of_keys l : map fst (pv_of l) = map fst l.
Proof. unfold pv_of. rewrite map_map. reflexivity. Qed.

Lemma names_items : map item_name (map IPort items) = items.
Proof. rewrite map_map. simpl. apply map_id. Qed.

Lemma find_inner_ports p : find_inner p (map IPort items) = None.
Proof.
  unfold find_inner. replace (filter _ (map IPort items)) with (@nil item); auto.
  induction items; simpl; auto.
Qed.

Lemma add_one arrived p id :
  ~ In p (map fst arrived) ->
  add_to_list dot_add 0 true (ETok (id, g)) p (tv_of arrived) = inl (tv_of (arrived ++ [(p, id)])).
Proof.
  intros Hp. unfold add_to_list. simpl elem_tag.
  assert (P : propagate dot_add (map fst (tv_of arrived)) g (ETok (id, g)) p (tv_of arrived) = inl (tv_of arrived)).
  { destruct arrived; simpl; auto. now rewrite String.eqb_refl. }
  rewrite P. unfold dot_add.
  destruct arrived as [|a r].
  - simpl. reflexivity.
  - remember (a :: r) as l. assert (L : tv_of l = [(g, pv_of l)]) by (subst; reflexivity).
    rewrite L. simpl. rewrite String.eqb_refl.
    rewrite lookup_notin by now rewrite pv_of_keys.
    rewrite assoc_set_notin by now rewrite pv_of_keys.
    assert (tv_of (l ++ [(p, id)]) = [(g, pv_of (l ++ [(p, id)]))]) as ->
      by (subst; reflexivity).
    unfold pv_of. now rewrite map_app.
Qed.

Lemma min_len_ones l : l <> [] -> min_len (pv_of l) = 1.
Proof.
  destruct l as [|a r]; [congruence|]. intros _. unfold min_len. simpl.
  induction r as [|b r IH]; simpl; auto.
Qed.

Lemma pop_all_ones l :
  pop_all (pv_of l) = Some (map (fun x => (fst x, [])) l, map (fun x => (fst x, ETok (snd x, g))) l).
Proof. induction l as [|a r IH]; simpl; auto. now rewrite IH. Qed.

Lemma merge_ones l : forall acc,
  NoDup (map fst acc ++ map fst l) ->
  fold_left merge_elem (map (fun x => (fst x, ETok (snd x, g))) l) acc =
  acc ++ map (fun x => (fst x, (snd x, g))) l.
Proof.
  induction l as [|a r IH]; intros acc ND; simpl.
  - now rewrite app_nil_r.
  - unfold merge_elem at 2. simpl.
    assert (~ In (fst a) (map fst acc)).
    { simpl in ND. apply NoDup_remove_2 in ND. rewrite in_app_iff in ND. tauto. }
    rewrite assoc_set_notin by auto. rewrite IH.
    + now rewrite <- app_assoc.
    + rewrite map_app. simpl. rewrite <- app_assoc. exact ND.
Qed.

Lemma product_complete l :
  l <> [] -> NoDup (map fst l) -> length l = length items ->
  exists tv', dot_product (length items) (tv_of l) = (tv', [combo l], None).
Proof.
  intros Hl ND Len. destruct l as [|a r] eqn:El; [congruence|]. rewrite <- El in *.
  assert (L : tv_of l = [(g, pv_of l)]) by (subst; reflexivity).
  unfold dot_product. rewrite L. simpl. rewrite String.eqb_refl.
  assert (length (pv_of l) = length items) as -> by (unfold pv_of; now rewrite map_length).
  rewrite Nat.eqb_refl, min_len_ones by (subst; discriminate).
  simpl. rewrite String.eqb_refl, pop_all_ones.
  rewrite (merge_ones l []) by exact ND. simpl.
  eexists. unfold combo, retag, out_tag. rewrite !map_map. simpl. reflexivity.
Qed.

Lemma product_incomplete l :
  length l < length items -> dot_product (length items) (tv_of l) = (tv_of l, [], None).
Proof.
  intros Len. destruct l as [|a r] eqn:El; [reflexivity|]. rewrite <- El in *.
  assert (L : tv_of l = [(g, pv_of l)]) by (subst; reflexivity).
  unfold dot_product. rewrite L. simpl. rewrite String.eqb_refl.
  assert (length (pv_of l) = length l) as -> by (unfold pv_of; now rewrite map_length).
  destruct (Nat.eqb_spec (length l) (length items)); [lia|reflexivity].
Qed.

Lemma combine_step arrived p id :
  In p items -> ~ In p (map fst arrived) ->
  combine c1 (mkst (tv_of arrived) []) p (id, g) =
  let l := arrived ++ [(p, id)] in
  let '(tv', out, err) := dot_product (length items) (tv_of l) in (mkst tv' [], out, err).
Proof.
  intros Hin Hp. unfold combine, c1. simpl oitems. rewrite find_inner_ports, names_items.
  assert (existsb (String.eqb p) items = true) as ->.
  { apply existsb_exists. exists p. split; auto. apply String.eqb_refl. }
  unfold combine1. simpl otv. rewrite add_one by exact Hp. simpl.
  destruct (dot_product (length items) (tv_of (arrived ++ [(p, id)]))) as [[tv' out] err]. reflexivity.
Qed.

Lemma run_one_tag : forall rest arrived,
  rest <> [] ->
  NoDup (map fst (arrived ++ rest)) -> length (arrived ++ rest) = length items ->
  (forall q, In q (map fst rest) -> In q items) ->
  run c1 (mkst (tv_of arrived) []) (map arrival rest) =
  (repeat [] (length rest - 1) ++ [[combo (arrived ++ rest)]], None).
Proof.
  induction rest as [|[p id] rest IH]; intros arrived Hne ND Len Hin; [congruence|].
  simpl map. simpl run. unfold arrival at 1. simpl fst. simpl snd.
  assert (Hp : ~ In p (map fst arrived)).
  { rewrite map_app in ND. simpl in ND. apply NoDup_remove_2 in ND. rewrite in_app_iff in ND. tauto. }
  rewrite combine_step; [|apply Hin; simpl; auto|exact Hp].
  cbv zeta. replace (arrived ++ (p, id) :: rest) with ((arrived ++ [(p, id)]) ++ rest) in *
    by now rewrite <- app_assoc.
  destruct rest as [|y rest'].
  - rewrite app_nil_r in *.
    destruct (product_complete (arrived ++ [(p, id)])) as [tv' E]; auto.
    { destruct arrived; discriminate. }
    rewrite E. simpl. reflexivity.
  - rewrite product_incomplete.
    2:{ rewrite app_length in Len. simpl in Len. lia. }
    rewrite IH; auto; try discriminate.
    + simpl length. replace (S (S (length rest')) - 1) with (S (S (length rest') - 1)) by lia. reflexivity.
    + intros q Hq. apply Hin. simpl. simpl in Hq. tauto.
Qed.

(* n ports, one token per port, all with tag g, ANY arrival order: nothing is emitted before the last
   arrival, which emits exactly one combination holding every port's token *)
Theorem dot_one_tag (arr : list (string * N)) :
  arr <> [] -> NoDup (map fst arr) -> length arr = length items ->
  (forall q, In q (map fst arr) -> In q items) ->
  run c1 init_state (map arrival arr) = (repeat [] (length arr - 1) ++ [[combo arr]], None).
Proof. intros. apply (run_one_tag arr []); auto. Qed.

End OneTag.

(* ---------- order independence for one tag ---------- *)
Lemma concat_repeat_nil {A} (x : list A) k : concat (repeat [] k ++ [x]) = x.
Proof. induction k; simpl; auto. now rewrite app_nil_r. Qed.

Lemma const_map_repeat {A B} (b : B) (l : list A) : map (fun _ => b) l = repeat b (length l).
Proof. induction l; simpl; congruence. Qed.

Lemma out_tag_perm g (a b : list (string * N)) : Permutation a b -> out_tag g a = out_tag g b.
Proof. intros P. unfold out_tag. now rewrite !const_map_repeat, (Permutation_length P). Qed.

Theorem dot_one_tag_order_independent g items (arr1 arr2 : list (string * N)) :
  Permutation arr1 arr2 ->
  arr1 <> [] -> NoDup (map fst arr1) -> length arr1 = length items ->
  (forall q, In q (map fst arr1) -> In q items) ->
  exists s1 s2,
    run (c1 items) init_state (map (arrival g) arr1) = (repeat [] (length arr1 - 1) ++ [[s1]], None) /\
    run (c1 items) init_state (map (arrival g) arr2) = (repeat [] (length arr2 - 1) ++ [[s2]], None) /\
    Permutation s1 s2.
Proof.
  intros P Hne ND Len Hin. exists (combo g arr1), (combo g arr2). split; [|split].
  - apply dot_one_tag; auto.
  - apply dot_one_tag.
    + intros ->. apply Permutation_sym, Permutation_nil in P. congruence.
    + eapply Permutation_NoDup; [|exact ND]. now apply Permutation_map.
    + now rewrite <- (Permutation_length P).
    + intros q Hq. apply Hin. eapply Permutation_in; [|exact Hq]. apply Permutation_map. now apply Permutation_sym.
  - unfold combo. rewrite (out_tag_perm g arr1 arr2 P). now apply Permutation_map.
Qed.

(* ---------- the faithful model does not satisfy the property text in three input classes ---------- *)
(* (1) a port carrying a tag and its ancestor: the result depends on the arrival order *)
Definition w_dot : outerc := mkouter KDot [IPort "a"; IPort "b"].
Definition w_arr1 : list (string * tok) := [("a", (0%N, "0.1.2")); ("b", (1%N, "0")); ("b", (2%N, "0.1"))].
Definition w_arr2 : list (string * tok) := [("a", (0%N, "0.1.2")); ("b", (2%N, "0.1")); ("b", (1%N, "0"))].
Lemma dot_ancestor_pair_witness :
  Permutation w_arr1 w_arr2 /\
  concat (fst (run w_dot init_state w_arr1)) = [[("a", (0%N, "0.1.2")); ("b", (1%N, "0.1.2"))]] /\
  concat (fst (run w_dot init_state w_arr2)) = [[("a", (0%N, "0.1.2")); ("b", (2%N, "0.1.2"))]].
Proof. split; [|split; vm_compute; reflexivity]. unfold w_arr1, w_arr2. apply perm_skip, perm_swap. Qed.

Theorem dot_ancestor_pair_refuted :
  exists c arr1 arr2, Permutation arr1 arr2 /\
    snd (run c init_state arr1) = None /\ snd (run c init_state arr2) = None /\
    ~ Permutation (concat (fst (run c init_state arr1))) (concat (fst (run c init_state arr2))).
Proof.
  exists w_dot, w_arr1, w_arr2. destruct dot_ancestor_pair_witness as (P & E1 & E2).
  split; [exact P|]. split; [vm_compute; reflexivity|]. split; [vm_compute; reflexivity|].
  rewrite E1, E2. intros H. apply Permutation_length_1 in H. discriminate H.
Qed.

(* (2) a cartesian combinator with an inner combinator raises AttributeError *)
Definition w_cart_nested : outerc :=
  mkouter (KCart 1) [IPort "a"; IComb (mkflat KDot "in1" ["b"; "c"])].
Theorem cart_nested_refuted :
  exists c arr, run c init_state arr = ([[]; []; []], Some AttributeError).
Proof.
  exists w_cart_nested, [("a", (0%N, "0.1")); ("b", (1%N, "0.1")); ("c", (2%N, "0.1"))].
  vm_compute. reflexivity.
Qed.

(* (3) a cartesian combinator over tokens of different depth: the number of combinations depends on the order *)
Definition w_cart : outerc := mkouter (KCart 1) [IPort "a"; IPort "b"].
Definition w_carr1 : list (string * tok) := [("a", (0%N, "0.10")); ("b", (1%N, "0.10")); ("b", (2%N, "0.0.1"))].
Definition w_carr2 : list (string * tok) := [("b", (1%N, "0.10")); ("b", (2%N, "0.0.1")); ("a", (0%N, "0.10"))].
Theorem cart_mixed_depth_refuted :
  exists c arr1 arr2, Permutation arr1 arr2 /\
    snd (run c init_state arr1) = None /\ snd (run c init_state arr2) = None /\
    length (concat (fst (run c init_state arr1))) <> length (concat (fst (run c init_state arr2))).
Proof.
  exists w_cart, w_carr1, w_carr2. split.
  - unfold w_carr1, w_carr2.
    apply Permutation_trans with [("b", (1%N, "0.10")); ("a", (0%N, "0.10")); ("b", (2%N, "0.0.1"))].
    + apply perm_swap.
    + apply perm_skip, perm_swap.
  - vm_compute. repeat split; congruence.
Qed.
