(* Comb/GB2.v — broadcast in a flat dot product with SEVERAL scattered ports: the ports DP deliver tokens tagged with
   strict descendants of r (pairwise unrelated tags, each port each tag at most once), every other port at most one
   token tagged r.  Unlike the single-scattered-port case the state has no closed form: every arrival of a deep
   token re-copies the parent tokens into its key, so parent deques hold an arrival-dependent number of copies of
   one token.  The invariant carries those counts existentially. *)
From Coq Require Import List Ascii Bool NArith Arith Lia Permutation.
From SF Require Import Base.Str Tags.Model Comb.Model Comb.Proofs Comb.Flat Comb.Bcast Comb.GBcast.
Import ListNotations.
Local Open Scope string_scope. Local Open Scope list_scope.

(* a port -> deque map in which the deque of the i-th element holds cs_i copies of it *)
Definition rep (l : list garv) (cs : list nat) : pvals :=
  map (fun yc => (fst (fst yc), repeat (snd (fst yc)) (snd yc))) (List.combine l cs).
(* one more copy for the elements whose port is in qs *)
Definition bump (qs : list string) (l : list garv) (cs : list nat) : list nat :=
  map (fun yc => if existsb (String.eqb (fst (fst yc))) qs then S (snd yc) else snd yc) (List.combine l cs).

Lemma rep_keys : forall l cs, length cs = length l -> map fst (rep l cs) = map fst l.
Proof.
  induction l as [|y l IH]; intros [|c cs] H; simpl in *; try discriminate; auto.
  f_equal. apply IH. lia.
Qed.
Lemma rep_length l cs : length cs = length l -> length (rep l cs) = length l.
Proof. intros H. unfold rep. rewrite map_length, combine_length. lia. Qed.
Lemma rep_snoc : forall l cs x c, length cs = length l ->
  rep (l ++ [x]) (cs ++ [c]) = rep l cs ++ [(fst x, repeat (snd x) c)].
Proof.
  induction l as [|y l IH]; intros [|c0 cs] x c H; simpl in *; try discriminate; auto.
  unfold rep in *. simpl. f_equal. apply IH. lia.
Qed.
Lemma rep_ones l : rep l (repeat 1 (length l)) = gones l.
Proof. induction l as [|y l IH]; simpl; auto. unfold rep in *. simpl. now rewrite IH. Qed.
Lemma bump_length qs l cs : length cs = length l -> length (bump qs l cs) = length l.
Proof. intros H. unfold bump. rewrite map_length, combine_length. lia. Qed.

Lemma addp_new l cs (x : garv) :
  ~ In (fst x) (map fst l) -> length cs = length l ->
  addp (snd x) (fst x) (rep l cs) = rep (l ++ [x]) (cs ++ [1]).
Proof.
  intros H Hl. unfold addp. rewrite lookup_notin, assoc_set_notin by now rewrite rep_keys.
  now rewrite rep_snoc.
Qed.

Lemma addp_bump : forall l cs (y : garv),
  NoDup (map fst l) -> In y l -> length cs = length l ->
  addp (snd y) (fst y) (rep l cs) = rep l (bump [fst y] l cs).
Proof.
  induction l as [|z l IH]; intros [|c cs] y ND Hy Hl; simpl in *; try discriminate; try tauto.
  inversion ND; subst. unfold addp. simpl. unfold rep, bump. simpl. rewrite orb_false_r.
  destruct Hy as [->|Hy].
  - rewrite !String.eqb_refl. simpl. f_equal.
    + f_equal. now rewrite repeat_cons.
    + f_equal. apply map_ext_in. intros [w cw] Hw. simpl. apply in_combine_l in Hw.
      destruct (String.eqb_spec (fst w) (fst y)); auto. exfalso. apply H1. rewrite <- e. now apply in_map.
  - assert (Hne : fst y <> fst z) by (intros E; apply H1; rewrite <- E; now apply in_map).
    destruct (String.eqb_spec (fst y) (fst z)); [congruence|].
    destruct (String.eqb_spec (fst z) (fst y)); [congruence|]. f_equal.
    assert (Hl' : length cs = length l) by lia.
    pose proof (IH cs y H2 Hy Hl') as E. unfold addp, rep, bump in E. simpl in E.
    assert (Eb : forall (w : garv * nat), (if existsb (String.eqb (fst (fst w))) [fst y] then S (snd w) else snd w) =
                  (if String.eqb (fst (fst w)) (fst y) || false then S (snd w) else snd w)) by reflexivity.
    exact E.
Qed.

Lemma bump_cons q qs l cs : ~ In q qs -> length cs = length l ->
  bump qs l (bump [q] l cs) = bump (q :: qs) l cs.
Proof.
  intros Hq. revert cs. induction l as [|z l IH]; intros [|c cs] Hl; simpl in *; try discriminate; auto.
  unfold bump in *. simpl. rewrite orb_false_r. f_equal.
  - destruct (String.eqb_spec (fst z) q); simpl; auto.
    subst q. destruct (existsb (String.eqb (fst z)) qs) eqn:E; auto. apply existsb_eqb_in in E. tauto.
  - assert (Hl' : length cs = length l) by lia. specialize (IH cs Hl'). simpl in IH.
    rewrite <- IH. f_equal. f_equal. apply map_ext. intros w. now rewrite orb_false_r.
Qed.

Lemma copy_bump : forall (ps : list garv) l cs,
  NoDup (map fst l) -> NoDup (map fst ps) -> (forall y, In y ps -> In y l) -> length cs = length l ->
  copy_ports dot_add (gones ps) (rep l cs) = inl (rep l (bump (map fst ps) l cs)).
Proof.
  induction ps as [|y ps IH]; intros l cs ND NDp Hin Hl; simpl.
  - f_equal. unfold bump, rep. f_equal. rewrite <- (map_id (List.combine l cs)) at 1.
    rewrite <- (combine_split l cs) at 1 by auto.
    clear. revert cs. induction l as [|z l IH]; intros [|c cs]; simpl; auto. f_equal. apply IH.
  - fold (addp (snd y) (fst y) (rep l cs)). inversion NDp; subst.
    rewrite addp_bump; auto; [|apply Hin; simpl; auto].
    rewrite IH; auto.
    + now rewrite bump_cons.
    + intros z Hz. apply Hin. simpl. auto.
    + now apply bump_length.
Qed.
