(* Comb/GB2.v — broadcast in a flat dot product with SEVERAL scattered ports: the ports DP deliver tokens tagged with
   strict descendants of r (pairwise unrelated tags, each port each tag at most once), every other port at most one
   token tagged r.  Unlike the single-scattered-port case the state has no closed form: every arrival of a deep
   token re-copies the parent tokens into its key, so parent deques hold an arrival-dependent number of copies of
   one token.  The invariant carries those counts existentially. *)
From Coq Require Import List Ascii Bool NArith Arith Lia Permutation.
From SF Require Import Base.Str Tags.Model Comb.Model Comb.Proofs Comb.Flat Comb.GBcast.
Import ListNotations.
Local Open Scope string_scope. Local Open Scope list_scope.

(* a port -> deque map in which the deque of the i-th element holds cs_i copies of it *)
Fixpoint rep (l : list garv) (cs : list nat) : pvals :=
  match l, cs with
  | y :: l', c :: cs' => (fst y, repeat (snd y) c) :: rep l' cs'
  | _, _ => []
  end.
(* one more copy for the elements whose port is in qs *)
Fixpoint bump (qs : list string) (l : list garv) (cs : list nat) : list nat :=
  match l, cs with
  | y :: l', c :: cs' => (if existsb (String.eqb (fst y)) qs then S c else c) :: bump qs l' cs'
  | _, _ => []
  end.

Lemma rep_keys : forall l cs, length cs = length l -> map fst (rep l cs) = map fst l.
Proof.
  induction l as [|y l IH]; intros [|c cs] H; simpl in *; try discriminate; auto; try (f_equal; apply IH; lia).
Qed.
Lemma rep_length : forall l cs, length cs = length l -> length (rep l cs) = length l.
Proof. induction l as [|y l IH]; intros [|c cs] H; simpl in *; try discriminate; auto; try (f_equal; apply IH; lia). Qed.
Lemma rep_snoc : forall l cs x c, length cs = length l ->
  rep (l ++ [x]) (cs ++ [c]) = rep l cs ++ [(fst x, repeat (snd x) c)].
Proof.
  induction l as [|y l IH]; intros [|c0 cs] x c H; simpl in *; try discriminate; auto; try (f_equal; apply IH; lia).
Qed.
Lemma rep_ones : forall l, rep l (repeat 1 (length l)) = gones l.
Proof. induction l as [|y l IH]; simpl; auto. now rewrite IH. Qed.
Lemma bump_length qs : forall l cs, length cs = length l -> length (bump qs l cs) = length l.
Proof. induction l as [|y l IH]; intros [|c cs] H; simpl in *; try discriminate; auto; try (f_equal; apply IH; lia). Qed.
Lemma bump_nil : forall l cs, length cs = length l -> bump [] l cs = cs.
Proof. induction l as [|y l IH]; intros [|c cs] H; simpl in *; try discriminate; auto; try (f_equal; apply IH; lia). Qed.

Lemma addp_new l cs (x : garv) :
  ~ In (fst x) (map fst l) -> length cs = length l ->
  addp (snd x) (fst x) (rep l cs) = rep (l ++ [x]) (cs ++ [1]).
Proof.
  intros H Hl. unfold addp. rewrite lookup_notin, assoc_set_notin by now rewrite rep_keys.
  now rewrite rep_snoc.
Qed.

(* bumping ports that do not occur changes nothing *)
Lemma bump_absent qs : forall l cs, (forall y, In y l -> ~ In (fst y) qs) -> length cs = length l -> bump qs l cs = cs.
Proof.
  induction l as [|y l IH]; intros [|c cs] H Hl; simpl in *; try discriminate; auto.
  assert (existsb (String.eqb (fst y)) qs = false) as ->.
  { destruct (existsb (String.eqb (fst y)) qs) eqn:E; auto. apply existsb_eqb_in in E. exfalso. eapply H; eauto. }
  f_equal. apply IH; auto; lia.
Qed.

Lemma addp_bump : forall l cs (y : garv),
  NoDup (map fst l) -> In y l -> length cs = length l ->
  addp (snd y) (fst y) (rep l cs) = rep l (bump [fst y] l cs).
Proof.
  induction l as [|z l IH]; intros [|c cs] y ND Hy Hl; simpl in *; try discriminate; try tauto.
  inversion ND; subst. unfold addp. simpl. rewrite orb_false_r.
  destruct Hy as [->|Hy].
  - rewrite !String.eqb_refl. simpl. rewrite <- repeat_cons.
    rewrite bump_absent; [reflexivity| |lia]. intros w Hw [E|[]]. apply H1. rewrite E. now apply in_map.
  - assert (Hne : fst y <> fst z) by (intros E; apply H1; rewrite <- E; now apply in_map).
    destruct (String.eqb_spec (fst y) (fst z)); [congruence|].
    destruct (String.eqb_spec (fst z) (fst y)); [congruence|]. f_equal.
    apply (IH cs y H2 Hy). lia.
Qed.

Lemma bump_cons q qs : ~ In q qs -> forall l cs, length cs = length l ->
  bump qs l (bump [q] l cs) = bump (q :: qs) l cs.
Proof.
  intros Hq. induction l as [|z l IH]; intros [|c cs] Hl; simpl in *; try discriminate; auto.
  rewrite orb_false_r. f_equal.
  - destruct (String.eqb_spec (fst z) q); simpl; auto.
    subst q. destruct (existsb (String.eqb (fst z)) qs) eqn:E; auto. apply existsb_eqb_in in E. tauto.
  - apply IH. lia.
Qed.

Lemma copy_bump : forall (ps : list garv) l cs,
  NoDup (map fst l) -> NoDup (map fst ps) -> (forall y, In y ps -> In y l) -> length cs = length l ->
  copy_ports dot_add (gones ps) (rep l cs) = inl (rep l (bump (map fst ps) l cs)).
Proof.
  induction ps as [|y ps IH]; intros l cs ND NDp Hin Hl; simpl.
  - now rewrite bump_nil.
  - fold (addp (snd y) (fst y) (rep l cs)). inversion NDp; subst.
    rewrite addp_bump; auto; [|apply Hin; simpl; auto].
    rewrite IH; auto.
    + now rewrite bump_cons.
    + intros z Hz. apply Hin. simpl. auto.
    + now apply bump_length.
Qed.

(* ---------- popping and minimum length of such maps ---------- *)
Lemma rev_repeat {A} (a : A) : forall m, rev (repeat a m) = repeat a m.
Proof. induction m; simpl; auto. rewrite IHm. symmetry. apply repeat_cons. Qed.

Lemma pop_all_rep : forall l cs,
  Forall (fun c => 1 <= c) cs -> length cs = length l ->
  pop_all (rep l cs) = Some (rep l (map pred cs), l).
Proof.
  induction l as [|[p e] l IH]; intros [|c cs] F Hl; simpl in *; try discriminate; auto.
  inversion F; subst. destruct c as [|c]; [lia|].
  rewrite rev_repeat. simpl. rewrite rev_repeat. rewrite IH; auto; lia.
Qed.

Definition minl (cs : list nat) : nat := match cs with [] => 0 | x :: r => fold_left Nat.min r x end.
Lemma min_len_rep : forall l cs, length cs = length l -> min_len (rep l cs) = minl cs.
Proof.
  intros l cs Hl. unfold min_len, minl.
  assert (E : map (fun pd : string * list elem => length (snd pd)) (rep l cs) = cs).
  { revert cs Hl. induction l as [|y l IH]; intros [|c cs] Hl; simpl in *; try discriminate; auto.
    rewrite repeat_length. f_equal. apply IH. lia. }
  now rewrite E.
Qed.
Lemma fold_min_le : forall r x, fold_left Nat.min r x <= x /\ forall c, In c r -> fold_left Nat.min r x <= c.
Proof.
  induction r as [|y r IH]; intros x; simpl; [split; [lia|tauto]|].
  destruct (IH (Nat.min x y)) as [A B]. split; [lia|]. intros c [<-|Hc]; [lia|auto].
Qed.
Lemma fold_min_ge m : forall r x, m <= x -> (forall c, In c r -> m <= c) -> m <= fold_left Nat.min r x.
Proof.
  induction r as [|y r IH]; intros x Hx H; simpl; auto. apply IH; [|intros; apply H; simpl; auto].
  specialize (H y (or_introl eq_refl)). lia.
Qed.
Lemma minl_zero cs : In 0 cs -> minl cs = 0.
Proof.
  destruct cs as [|x r]; simpl; [tauto|]. intros [->|H].
  - destruct (fold_min_le r 0). lia.
  - destruct (fold_min_le r x) as [_ B]. specialize (B 0 H). lia.
Qed.
Lemma minl_one cs : Forall (fun c => 1 <= c) cs -> In 1 cs -> minl cs = 1.
Proof.
  destruct cs as [|x r]; simpl; [tauto|]. intros F H. inversion F; subst.
  assert (1 <= fold_left Nat.min r x) by (apply fold_min_ge; auto; rewrite Forall_forall in H3; auto).
  destruct (fold_min_le r x) as [A B]. destruct H as [->|H]; [lia|]. specialize (B 1 H). lia.
Qed.

Definition haszero (cs : list nat) : bool := existsb (Nat.eqb 0) cs.
Lemma haszero_in cs : haszero cs = true <-> In 0 cs.
Proof.
  unfold haszero. rewrite existsb_exists. split.
  - intros (c & Hc & E). apply Nat.eqb_eq in E. now subst.
  - intros H. exists 0. split; auto.
Qed.

(* ---------- the scan ---------- *)
Section Scan2.
Variable n : nat.
Variable ts : list string.
Variable L : string -> list garv.
Hypothesis NDts : NoDup ts.

Definition stv (CS : string -> list nat) : tvals := mk (fun k => rep (L k) (CS k)) ts.
Definition fires2 (CS : string -> list nat) (k : string) : bool :=
  Nat.eqb (length (L k)) n && negb (haszero (CS k)).
Definition after (CS : string -> list nat) (ks : list string) : string -> list nat :=
  fun k => if existsb (String.eqb k) ks && fires2 CS k then map pred (CS k) else CS k.

Lemma scan2 : forall ks CS,
  NoDup ks -> incl ks ts ->
  (forall k, In k ks -> length (CS k) = length (L k) /\
                        (fires2 CS k = true -> Forall (fun c => 1 <= c) (CS k) /\ In 1 (CS k))) ->
  dot_scan n ks (stv CS) =
  (stv (after CS ks), flat_map (fun k => if fires2 CS k then [gcombo (L k)] else []) ks, None).
Proof.
  induction ks as [|k ks IH]; intros CS ND Hin Hok; simpl.
  - reflexivity.
  - inversion ND; subst. assert (Hk : In k ts) by (apply Hin; simpl; auto).
    assert (Hin' : incl ks ts) by (intros q Hq; apply Hin; simpl; auto).
    destruct (Hok k (or_introl eq_refl)) as [Lk Fk].
    unfold stv at 1. rewrite lookup_mk by exact Hk. rewrite rep_length by exact Lk.
    assert (Rest : forall CS', (forall q, In q ks -> CS' q = CS q) ->
              forall q, In q ks -> length (CS' q) = length (L q) /\
                (fires2 CS' q = true -> Forall (fun c => 1 <= c) (CS' q) /\ In 1 (CS' q))).
    { intros CS' E q Hq. unfold fires2. rewrite (E q Hq). apply (Hok q). simpl. auto. }
    unfold fires2 at 1. destruct (Nat.eqb_spec (length (L k)) n) as [En|En]; simpl.
    + rewrite min_len_rep by exact Lk. destruct (haszero (CS k)) eqn:Hz; simpl.
      * apply haszero_in in Hz. rewrite minl_zero by exact Hz. simpl.
        fold (stv CS). rewrite IH; auto; try (apply Rest; auto).
        f_equal. f_equal. unfold stv. apply mk_ext. intros q _. unfold after. simpl.
        destruct (String.eqb_spec q k); simpl; auto. subst q. unfold fires2.
        assert (Z : haszero (CS k) = true) by now apply haszero_in. rewrite Z. simpl. now rewrite !andb_false_r.
      * assert (F2 : fires2 CS k = true).
        { unfold fires2. rewrite Hz. destruct (Nat.eqb_spec (length (L k)) n); [reflexivity|congruence]. }
        destruct (Fk F2) as [Fa I1]. rewrite minl_one by auto. simpl.
        unfold stv at 1 2. rewrite lookup_mk by exact Hk. rewrite pop_all_rep by auto. simpl.
        rewrite assoc_set_mk by auto.
        set (CS2 := fun q => if String.eqb q k then map pred (CS k) else CS q).
        assert (E2 : mk (upd (fun k0 => rep (L k0) (CS k0)) k (rep (L k) (map pred (CS k)))) ts = stv CS2).
        { unfold stv. apply mk_ext. intros q _. unfold upd, CS2. destruct (String.eqb_spec q k); auto. now subst. }
        rewrite E2, IH; auto.
        -- f_equal. f_equal.
           ++ unfold stv. apply mk_ext. intros q _. unfold after, CS2. simpl.
              destruct (String.eqb_spec q k); simpl.
              ** subst q. rewrite F2.
                 assert (existsb (String.eqb k) ks = false) as ->.
                 { destruct (existsb (String.eqb k) ks) eqn:E; auto. apply existsb_eqb_in in E. tauto. }
                 reflexivity.
              ** unfold fires2. destruct (String.eqb_spec q k); [congruence|]. reflexivity.
           ++ apply f_equal2; [reflexivity|]. apply flat_map_ext_in'. intros q Hq. unfold fires2, CS2.
              destruct (String.eqb_spec q k); auto. subst. tauto.
        -- apply Rest. intros q Hq. unfold CS2. destruct (String.eqb_spec q k); auto. subst. tauto.
    + fold (stv CS). rewrite IH; auto; try (apply Rest; auto).
      f_equal. f_equal. unfold stv. apply mk_ext. intros q _. unfold after. simpl.
      destruct (String.eqb_spec q k); simpl; auto. subst q. unfold fires2.
      destruct (Nat.eqb_spec (length (L k)) n); [congruence|]. simpl. now rewrite andb_false_r.
Qed.
End Scan2.

(* ---------- several scattered ports ---------- *)
Section B2.
Variable items : list string.
Variable r : string.
Variable DP : list string.           (* the scattered ports *)
Let n := length items.

Definition isdeep (x : garv) : bool := existsb (String.eqb (fst x)) DP.
Definition wfb2 (l : list garv) : Prop :=
  NoDup items /\ DP <> [] /\ incl DP items /\ (forall x, In x l -> In (fst x) items) /\ NoDup (map gakey l) /\
  (forall x, In x l -> if isdeep x then deepc r (gatag x) else gatag x = r) /\
  (forall x y, In x l -> In y l -> isdeep x = true -> isdeep y = true -> gatag x <> gatag y ->
               is_parent_tag_s (gatag x) (gatag y) = false).

Lemma wfb2_prefix a b : wfb2 (a ++ b) -> wfb2 a.
Proof.
  intros (A & B & C & D & E & F & G). split; auto. split; auto. split; auto. split; [|split; [|split]].
  - intros x Hx. apply D. rewrite in_app_iff. auto.
  - rewrite map_app in E. now apply NoDup_app_l in E.
  - intros x Hx. apply F. rewrite in_app_iff. auto.
  - intros x y Hx Hy. apply G; rewrite in_app_iff; auto.
Qed.

Lemma sod l x : wfb2 l -> In x l -> (isdeep x = true /\ deepc r (gatag x)) \/ (isdeep x = false /\ gatag x = r).
Proof. intros (_ & _ & _ & _ & _ & F & _) Hx. specialize (F x Hx). destruct (isdeep x); auto. Qed.

Lemma isdeep_port x y : fst x = fst y -> isdeep x = isdeep y.
Proof. unfold isdeep. now intros ->. Qed.

Lemma ports_nodup k l : wfb2 l -> NoDup (map fst (bsel r k l)).
Proof.
  intros W. pose proof W as (_ & _ & _ & _ & NDk & _ & _).
  assert (NDl : NoDup (bsel r k l)) by (unfold bsel; apply NoDup_filter; eapply NoDup_map_inv; exact NDk).
  assert (Inj : forall a b, In a (bsel r k l) -> In b (bsel r k l) -> fst a = fst b -> a = b).
  { intros a b Ha Hb E. unfold bsel in Ha, Hb. apply filter_In in Ha. apply filter_In in Hb.
    destruct Ha as [Ha Ca]. destruct Hb as [Hb Cb].
    assert (K : gakey a = gakey b).
    { unfold gakey. rewrite E. f_equal. pose proof (isdeep_port a b E) as Ed.
      destruct (sod l a W Ha) as [[Pa (Na & _)]|[Pa Ta]];
      destruct (sod l b W Hb) as [[Pb (Nb & _)]|[Pb Tb]]; try congruence.
      unfold counts in Ca, Cb. apply orb_true_iff in Ca. apply orb_true_iff in Cb.
      destruct Ca as [Ca|Ca]; apply String.eqb_eq in Ca; [congruence|].
      destruct Cb as [Cb|Cb]; apply String.eqb_eq in Cb; congruence. }
    clear -NDk Ha Hb K. induction l as [|y l IH]; simpl in *; [tauto|]. inversion NDk; subst.
    destruct Ha as [<-|Ha]; destruct Hb as [<-|Hb]; auto.
    - exfalso. apply H1. rewrite K. now apply in_map.
    - exfalso. apply H1. rewrite <- K. now apply in_map. }
  clear -NDl Inj. induction (bsel r k l) as [|y m IH]; simpl; [constructor|]. inversion NDl; subst.
  constructor.
  - intros Hin. apply in_map_iff in Hin. destruct Hin as (z & Ez & Hz).
    assert (z = y) by (apply Inj; simpl; auto). subst. tauto.
  - apply IH; auto. intros a b Ha Hb. apply Inj; simpl; auto.
Qed.

Lemma ports_incl k l : wfb2 l -> incl (map fst (bsel r k l)) items.
Proof.
  intros (_ & _ & _ & C & _) q Hq. apply in_map_iff in Hq. destruct Hq as (y & <- & Hy).
  apply filter_In in Hy. apply C. tauto.
Qed.

Lemma lt_counts k l x : wfb2 (l ++ [x]) -> counts r k x = true -> length (bsel r k l) < n.
Proof.
  intros W Cx. pose proof (ports_nodup k _ W) as ND. pose proof (ports_incl k _ W) as I.
  rewrite bsel_snoc, Cx, map_app in *. simpl in *.
  pose proof (NoDup_incl_length ND I) as Le. rewrite app_length, map_length in Le. simpl in Le.
  unfold n. rewrite Nat.add_1_r in Le. exact Le.
Qed.

Lemma bsel_le k l : wfb2 l -> length (bsel r k l) <= n.
Proof.
  intros W. pose proof (NoDup_incl_length (ports_nodup k _ W) (ports_incl k _ W)) as Le.
  now rewrite map_length in Le.
Qed.

Lemma parent_not_deep l y : wfb2 l -> In y (bsel r r l) -> isdeep y = false.
Proof.
  intros W Hy. apply filter_In in Hy. destruct Hy as [Hy Cy].
  destruct (sod l y W Hy) as [[_ (Ny & _)]|[Py _]]; auto.
  unfold counts in Cy. rewrite orb_diag in Cy. apply String.eqb_eq in Cy. congruence.
Qed.

Lemma r_lt l : wfb2 l -> length (bsel r r l) < n.
Proof.
  intros W. pose proof (ports_nodup r _ W) as ND. pose proof (ports_incl r _ W) as I.
  pose proof W as (_ & Hne & Hdp & _). destruct DP as [|dp DP'] eqn:EDP; [congruence|].
  assert (Ndp : ~ In dp (map fst (bsel r r l))).
  { intros Hin. apply in_map_iff in Hin. destruct Hin as (y & Ey & Hy).
    pose proof (parent_not_deep l y W Hy) as Pd. unfold isdeep in Pd. rewrite EDP in Pd. simpl in Pd.
    rewrite Ey, String.eqb_refl in Pd. discriminate. }
  assert (ND2 : NoDup (dp :: map fst (bsel r r l))) by (constructor; auto).
  assert (I2 : incl (dp :: map fst (bsel r r l)) items) by (intros q [<-|Hq]; auto; apply Hdp; simpl; auto).
  pose proof (NoDup_incl_length ND2 I2) as Le. cbn [length] in Le. rewrite map_length in Le. exact Le.
Qed.

Lemma complete_has_deep k l : wfb2 l -> length (bsel r k l) = n -> exists y, In y (bsel r k l) /\ isdeep y = true.
Proof.
  intros W En. pose proof (ports_nodup k _ W) as ND. pose proof (ports_incl k _ W) as I.
  pose proof W as (_ & Hne & Hdp & _). destruct DP as [|dp DP'] eqn:EDP; [congruence|].
  assert (I2 : incl items (map fst (bsel r k l))).
  { apply NoDup_length_incl; [exact ND| |exact I]. rewrite map_length. apply Nat.eq_le_incl. symmetry. exact En. }
  assert (Hin : In dp (map fst (bsel r k l))) by (apply I2, Hdp; simpl; auto).
  apply in_map_iff in Hin. destruct Hin as (y & Ey & Hy). exists y. split; auto.
  unfold isdeep. rewrite EDP. simpl. now rewrite Ey, String.eqb_refl.
Qed.

(* ---------- counts of copies: deep elements exactly one copy ---------- *)
Fixpoint deep1 (l : list garv) (cs : list nat) : Prop :=
  match l, cs with
  | y :: l', c :: cs' => (isdeep y = true -> c = 1) /\ deep1 l' cs'
  | _, _ => True
  end.
Lemma deep1_snoc : forall l cs x c, length cs = length l ->
  deep1 l cs -> (isdeep x = true -> c = 1) -> deep1 (l ++ [x]) (cs ++ [c]).
Proof.
  induction l as [|y l IH]; intros [|c0 cs] x c Hl D Hx; simpl in *; try discriminate; auto.
  destruct D as [D1 D2]. split; auto.
Qed.
Lemma deep1_bump qs : forall l cs,
  (forall y, In y l -> In (fst y) qs -> isdeep y = false) -> deep1 l cs -> deep1 l (bump qs l cs).
Proof.
  induction l as [|y l IH]; intros [|c cs] H D; simpl in *; auto.
  destruct D as [D1 D2]. split; [|apply IH; auto].
  intros Hd. destruct (existsb (String.eqb (fst y)) qs) eqn:E; auto.
  apply existsb_eqb_in in E. rewrite (H y (or_introl eq_refl) E) in Hd. discriminate.
Qed.
Lemma deep1_ones : forall l, deep1 l (repeat 1 (length l)).
Proof. induction l; simpl; auto. Qed.
Lemma Forall_bump qs : forall l cs, Forall (fun c => 1 <= c) cs -> Forall (fun c => 1 <= c) (bump qs l cs).
Proof.
  induction l as [|y l IH]; intros [|c cs] F; simpl; auto. inversion F; subst. constructor; auto.
  destruct (existsb (String.eqb (fst y)) qs); lia.
Qed.
Lemma deep1_in1 : forall l cs y, length cs = length l -> deep1 l cs -> In y l -> isdeep y = true -> In 1 cs.
Proof.
  induction l as [|z l IH]; intros [|c cs] y Hl D Hy Hd; simpl in *; try discriminate; try tauto.
  destruct D as [D1 D2]. destruct Hy as [->|Hy]; [left; auto|right; eapply IH; eauto].
Qed.
Lemma Forall_ge1_no0 cs : Forall (fun c => 1 <= c) cs -> ~ In 0 cs.
Proof. intros F H. rewrite Forall_forall in F. specialize (F 0 H). lia. Qed.
Lemma in0_pred cs : In 1 cs -> In 0 (map pred cs).
Proof. intros H. apply in_map_iff. exists 1. auto. Qed.

(* ---------- state and invariant ---------- *)
Definition Lk (arrived : list garv) (k : string) : list garv := bsel r k arrived.
Definition stA (arrived : list garv) (CS : string -> list nat) : tvals :=
  mk (fun k => rep (Lk arrived k) (CS k)) (gtags arrived).
Definition Inv (arrived : list garv) (CS : string -> list nat) : Prop :=
  (forall k, ~ In k (gtags arrived) -> CS k = []) /\
  (forall k, In k (gtags arrived) -> length (CS k) = length (Lk arrived k)) /\
  (forall k, In k (gtags arrived) -> (In 0 (CS k) <-> length (Lk arrived k) = n)) /\
  (forall k, In k (gtags arrived) -> ~ In 0 (CS k) ->
             Forall (fun c => 1 <= c) (CS k) /\ deep1 (Lk arrived k) (CS k)) /\
  (In r (gtags arrived) -> CS r = repeat 1 (length (Lk arrived r))).

Lemma rep_nil_r l : rep l [] = [].
Proof. destruct l; reflexivity. Qed.

Lemma lookup_stA arrived CS k : Inv arrived CS ->
  match lookup k (stA arrived CS) with Some pv => pv | None => [] end = rep (Lk arrived k) (CS k).
Proof.
  intros (I0 & _). unfold stA. destruct (in_dec string_dec k (gtags arrived)) as [i|ni].
  - now rewrite lookup_mk.
  - rewrite lookup_notin by now rewrite mk_keys. now rewrite (I0 k ni), rep_nil_r.
Qed.

Section Step2.
Variables (arrived : list garv) (x : garv) (CS : string -> list nat).
Hypothesis W : wfb2 (arrived ++ [x]).
Hypothesis HI : Inv arrived CS.
Let L := Lk arrived.
Let L' := Lk (arrived ++ [x]).
Let ts := gtags arrived.
Let ts' := gtags (arrived ++ [x]).

Lemma W0' : wfb2 arrived.
Proof. eapply wfb2_prefix; exact W. Qed.

Lemma cnt_facts k : counts r k x = true ->
  length (L k) < n /\ ~ In (fst x) (map fst (L k)) /\ L' k = L k ++ [x].
Proof.
  intros C. split; [|split].
  - apply (lt_counts k _ _ W C).
  - pose proof (ports_nodup k _ W) as ND. rewrite bsel_snoc, C, map_app in ND. simpl in ND.
    apply NoDup_remove_2 in ND. now rewrite app_nil_r in ND.
  - unfold L', L, Lk. now rewrite bsel_snoc, C.
Qed.
Lemma nocnt k : counts r k x = false -> L' k = L k.
Proof. intros C. unfold L', L, Lk. now rewrite bsel_snoc, C, app_nil_r. Qed.

Lemma no0_counts k : In k ts -> counts r k x = true -> ~ In 0 (CS k).
Proof.
  intros Hk C H0. destruct HI as (_ & _ & I2 & _). apply (I2 k Hk) in H0.
  destruct (cnt_facts k C) as (Lt & _). fold (L k) in H0. rewrite H0 in Lt. exact (Nat.lt_irrefl _ Lt).
Qed.

(* the counts after the token has been added (before the scan) *)
Definition CS1 (k : string) : list nat :=
  if counts r k x then
    (if isdeep x
     then (if existsb (String.eqb k) ts then bump (map fst (L r)) (L k) (CS k) else repeat 1 (length (L r)))
     else CS k) ++ [1]
  else CS k.

Lemma mid_parent : isdeep x = false -> gatag x = r ->
  add_to_list dot_add 0 true (snd x) (fst x) (stA arrived CS) = inl (mk (fun k => rep (L' k) (CS1 k)) ts').
Proof.
  intros Dx Tx. set (p := fst x). set (e := snd x).
  destruct (gtags_spec arrived) as [NDt Mt]. fold ts in NDt, Mt.
  pose proof HI as (I0 & I1 & _).
  assert (Call : forall k, counts r k x = true) by (intros k; unfold counts; now rewrite Tx, String.eqb_refl).
  unfold add_to_list. change (elem_tag e) with (gatag x). rewrite Tx.
  unfold stA. fold L ts. rewrite mk_keys.
  set (G := fun k => rep (L k) (CS k)).
  rewrite (propagate_all e p r ts NDt ts G NDt (fun q Hq => Hq)).
  2:{ intros k Hk. apply Mt in Hk. apply in_map_iff in Hk. destruct Hk as (y & Ey & Hy).
      destruct (sod _ y W0' Hy) as [[_ (_ & Pk & _)]|[_ Ty]]; [right|left]; congruence. }
  set (G1 := fun k => if existsb (String.eqb k) ts && negb (String.eqb k r) then addp e p (G k) else G k).
  assert (Cur : match lookup r (mk G1 ts) with Some pv => pv | None => [] end = G r).
  { destruct (in_dec string_dec r ts) as [i|ni].
    - rewrite lookup_mk by exact i. unfold G1. rewrite String.eqb_refl. simpl. now rewrite andb_false_r.
    - rewrite lookup_notin by now rewrite mk_keys. unfold G. now rewrite (I0 r ni), rep_nil_r. }
  rewrite Cur. unfold dot_add. fold (addp e p (G r)).
  rewrite assoc_set_mk_any by exact NDt. unfold ts'. rewrite gtags_snoc, Tx. fold ts.
  f_equal. apply mk_ext. intros k Hk. unfold upd.
  destruct (cnt_facts k (Call k)) as (Lt & Pk & Lk').
  assert (A : addp e p (G k) = rep (L' k) (CS1 k)).
  { unfold G, CS1. rewrite (Call k), Dx, Lk'. unfold e, p.
    destruct (in_dec string_dec k ts) as [i|ni].
    - apply addp_new; auto.
    - rewrite (I0 k ni), rep_nil_r. simpl.
      assert (Ek : k = r /\ ~ In r ts).
      { unfold add_tag in Hk. destruct (existsb (String.eqb r) ts) eqn:Er; [tauto|].
        apply in_app_iff in Hk. destruct Hk as [?|[<-|[]]]; [tauto|]. split; auto. }
      destruct Ek as [-> Nr].
      assert (E : L r = []) by (unfold L, Lk; now apply bsel_absent).
      rewrite E. reflexivity. }
  destruct (String.eqb_spec k r); [subst k; exact A|].
  unfold G1. assert (In k ts) as Hkts.
  { unfold add_tag in Hk. destruct (existsb (String.eqb r) ts); auto. apply in_app_iff in Hk.
    destruct Hk as [?|[?|[]]]; auto. congruence. }
  apply existsb_eqb_in in Hkts. rewrite Hkts. destruct (String.eqb_spec k r); [congruence|]. exact A.
Qed.

Lemma mid_deep : isdeep x = true -> deepc r (gatag x) ->
  add_to_list dot_add 0 true (snd x) (fst x) (stA arrived CS) = inl (mk (fun k => rep (L' k) (CS1 k)) ts').
Proof.
  intros Dx (Gne & Gpar & Gnot). set (g := gatag x) in *. set (e := snd x).
  destruct (gtags_spec arrived) as [NDt Mt]. fold ts in NDt, Mt.
  pose proof HI as (I0 & I1 & I2 & I3 & I4).
  pose proof W as (_ & _ & _ & _ & NDk & _ & Hun).
  assert (Ix : In x (arrived ++ [x])) by (rewrite in_app_iff; simpl; auto).
  assert (Cg : counts r g x = true) by (unfold counts; fold g; rewrite String.eqb_refl; apply orb_true_r).
  destruct (cnt_facts g Cg) as (Ltg & Pg & Lg').
  (* keys other than r and g are unrelated to g *)
  assert (Skip : forall k, In k ts -> k <> r ->
            k = g \/ (is_parent_tag_s k g = false /\ is_parent_tag_s g k = false)).
  { intros k Hk0 Hkr. destruct (String.eqb_spec k g); auto. right.
    pose proof Hk0 as Hk. apply Mt in Hk. apply in_map_iff in Hk. destruct Hk as (y & Ey & Hy).
    destruct (sod _ y W0' Hy) as [[Py _]|[_ Ty]]; [|congruence].
    assert (Iy : In y (arrived ++ [x])) by (rewrite in_app_iff; auto).
    rewrite <- Ey. split; [apply (Hun y x)|apply (Hun x y)]; auto; fold g; congruence. }
  assert (Same : forall k, k <> g -> counts r k x = false).
  { intros k Hk. unfold counts. fold g. destruct (String.eqb_spec g r); [congruence|].
    destruct (String.eqb_spec g k); [congruence|]. reflexivity. }
  unfold add_to_list. change (elem_tag e) with g.
  unfold stA. fold L ts. rewrite mk_keys.
  set (G := fun k => rep (L k) (CS k)).
  (* the pv of key g after the copy of the parents *)
  set (csg := if existsb (String.eqb g) ts then bump (map fst (L r)) (L g) (CS g) else repeat 1 (length (L r))).
  assert (NDg : NoDup (map fst (L g))) by (apply (ports_nodup g _ W0')).
  assert (NDr : NoDup (map fst (L r))) by (apply (ports_nodup r _ W0')).
  assert (Sub : forall y, In y (L r) -> In y (L g)).
  { intros y Hy. unfold L, Lk, bsel in *. apply filter_In in Hy. destruct Hy as [Hy Cy]. apply filter_In. split; auto.
    unfold counts in *. rewrite orb_diag in Cy. now rewrite Cy. }
  (* when g is not yet a key, the tokens counting for g are the parents *)
  assert (Lg_new : ~ In g ts -> L g = L r).
  { intros Ng. unfold L, Lk, bsel. apply filter_ext_in. intros y Hy. unfold counts.
    destruct (String.eqb_spec (gatag y) g) as [E|E].
    - exfalso. apply Ng, Mt. rewrite <- E. now apply in_map.
    - now rewrite orb_false_r, orb_diag. }
  assert (Prop1 : propagate dot_add ts g e (fst x) (mk G ts) =
                  inl (if existsb (String.eqb r) ts
                       then mk (upd G g (rep (if existsb (String.eqb g) ts then L g else L r) csg)) (add_tag g ts)
                       else mk G ts)).
  { destruct (existsb (String.eqb r) ts) eqn:Er.
    - apply existsb_eqb_in in Er. destruct (in_split _ _ Er) as (pre & post & Ets).
      assert (Npre : ~ In r pre) by (rewrite Ets in NDt; apply NoDup_remove_2 in NDt; rewrite in_app_iff in NDt; tauto).
      assert (Npost : ~ In r post) by (rewrite Ets in NDt; apply NoDup_remove_2 in NDt; rewrite in_app_iff in NDt; tauto).
      rewrite Ets at 1. rewrite propagate_skip_prefix.
      2:{ intros k Hk. apply Skip; [rewrite Ets, in_app_iff; auto|intros ->; tauto]. }
      simpl. destruct (String.eqb_spec g r); [congruence|]. rewrite Gnot, Gpar.
      rewrite lookup_mk by exact Er.
      assert (Gr : G r = gones (L r)) by (unfold G; rewrite (I4 Er); apply rep_ones).
      rewrite Gr.
      assert (Lne : L r <> []) by (apply bsel_nonempty; exact Er).
      assert (forallb (fun pd : string * list elem => match snd pd with [] => true | _ :: _ => false end) (gones (L r)) = false) as ->.
      { destruct (L r) as [|y m]; [congruence|]. reflexivity. }
      assert (Cur : match lookup g (mk G ts) with Some pv => pv | None => [] end = rep (L g) (CS g)).
      { destruct (in_dec string_dec g ts) as [i|ni].
        - now rewrite lookup_mk.
        - rewrite lookup_notin by now rewrite mk_keys. now rewrite (I0 g ni), rep_nil_r. }
      rewrite Cur.
      assert (Copy : copy_ports dot_add (gones (L r)) (rep (L g) (CS g)) =
                     inl (rep (if existsb (String.eqb g) ts then L g else L r) csg)).
      { unfold csg. destruct (existsb (String.eqb g) ts) eqn:Eg.
        - apply existsb_eqb_in in Eg. apply copy_bump; auto.
        - assert (Ng : ~ In g ts) by (rewrite <- existsb_eqb_in; congruence).
          rewrite (I0 g Ng), rep_nil_r. change (@nil (string * list elem)) with (gones []).
          rewrite copy_ones by (simpl; exact NDr). simpl. now rewrite rep_ones. }
      rewrite Copy. rewrite assoc_set_mk_any by exact NDt.
      apply propagate_skip. intros k Hk. apply Skip; [rewrite Ets, in_app_iff; simpl; auto|intros ->; tauto].
    - apply propagate_skip. intros k Hk. apply Skip; auto. intros ->.
      apply existsb_eqb_in in Hk. congruence. }
  rewrite Prop1.
  assert (Ets' : ts' = add_tag g ts) by (unfold ts'; now rewrite gtags_snoc).
  assert (NDt' : NoDup (add_tag g ts)) by (rewrite <- Ets'; apply gtags_spec).
  assert (Hg' : In g (add_tag g ts)).
  { unfold add_tag. destruct (existsb (String.eqb g) ts) eqn:E; [now apply existsb_eqb_in|].
    rewrite in_app_iff. simpl. auto. }
  (* the state of key g just before the final _add_to_port, whether or not r is a key *)
  assert (Lsel : (if existsb (String.eqb g) ts then L g else L r) = L g).
  { destruct (existsb (String.eqb g) ts) eqn:E; auto. symmetry. apply Lg_new. rewrite <- existsb_eqb_in. congruence. }
  assert (Lcsg : length csg = length (L g)).
  { unfold csg. destruct (existsb (String.eqb g) ts) eqn:E.
    - apply bump_length. apply I1. now apply existsb_eqb_in.
    - rewrite repeat_length. f_equal. symmetry. apply Lg_new. rewrite <- existsb_eqb_in. congruence. }
  assert (Final : forall tv1 : tvals,
            (match lookup g tv1 with Some pv => pv | None => [] end = rep (L g) csg) ->
            (assoc_set g (rep (L' g) (csg ++ [1])) tv1 = mk (fun k => rep (L' k) (CS1 k)) ts') ->
            match dot_add e (fst x) (match lookup g tv1 with Some pv => pv | None => [] end) with
            | inl pv' => inl (assoc_set g pv' tv1) | inr er => inr er end =
            @inl tvals cerr (mk (fun k => rep (L' k) (CS1 k)) ts')).
  { intros tv1 E1 E2. rewrite E1. unfold dot_add. fold (addp e (fst x) (rep (L g) csg)). unfold e.
    rewrite addp_new by auto. rewrite <- E2, Lg'. reflexivity. }
  assert (CS1g : CS1 g = csg ++ [1]) by (unfold CS1; now rewrite Cg, Dx).
  assert (CS1o : forall k, k <> g -> rep (L' k) (CS1 k) = G k).
  { intros k Hk. unfold CS1, G. rewrite (Same k Hk). now rewrite (nocnt k (Same k Hk)). }
  destruct (existsb (String.eqb r) ts) eqn:Er.
  - apply Final.
    + rewrite lookup_mk by exact Hg'. unfold upd. now rewrite String.eqb_refl, Lsel.
    + rewrite assoc_set_mk by auto. rewrite Ets'. apply mk_ext. intros k Hk. unfold upd.
      destruct (String.eqb_spec k g); [subst k; now rewrite CS1g|]. now rewrite CS1o.
  - assert (Nr : ~ In r ts) by (rewrite <- existsb_eqb_in; congruence).
    assert (Lr : L r = []) by (unfold L, Lk; now apply bsel_absent).
    assert (Ecs : rep (L g) csg = rep (L g) (CS g)).
    { unfold csg. destruct (existsb (String.eqb g) ts) eqn:Eg.
      - rewrite Lr. simpl. rewrite bump_nil; auto. apply I1. now apply existsb_eqb_in.
      - rewrite Lr. simpl. assert (Ng : ~ In g ts) by (rewrite <- existsb_eqb_in; congruence).
        now rewrite (I0 g Ng), !rep_nil_r. }
    apply Final.
    + rewrite Ecs. destruct (in_dec string_dec g ts) as [i|ni].
      * now rewrite lookup_mk.
      * rewrite lookup_notin by now rewrite mk_keys. now rewrite (I0 g ni), rep_nil_r.
    + rewrite assoc_set_mk_any by exact NDt. rewrite Ets'. apply mk_ext. intros k Hk. unfold upd.
      destruct (String.eqb_spec k g); [subst k; now rewrite CS1g|]. now rewrite CS1o.
Qed.

(* ---------- facts about the counts after the add ---------- *)
Lemma key_new k : In k ts' -> ~ In k ts -> k = gatag x.
Proof.
  unfold ts'. rewrite gtags_snoc. fold ts. unfold add_tag. intros Hk Nk.
  destruct (existsb (String.eqb (gatag x)) ts); [tauto|]. apply in_app_iff in Hk. destruct Hk as [?|[<-|[]]]; tauto.
Qed.

Lemma mid_facts k : In k ts' ->
  length (CS1 k) = length (L' k) /\
  (~ In 0 (CS1 k) -> Forall (fun c => 1 <= c) (CS1 k) /\ deep1 (L' k) (CS1 k)) /\
  haszero (CS1 k) = Nat.eqb (length (L k)) n.
Proof.
  intros Hk. pose proof HI as (I0 & I1 & I2 & I3 & I4).
  assert (Ix : In x (arrived ++ [x])) by (rewrite in_app_iff; simpl; auto).
  destruct (gtags_spec arrived) as [NDt Mt]. fold ts in NDt, Mt.
  unfold CS1. destruct (counts r k x) eqn:C.
  - destruct (cnt_facts k C) as (Lt & Pk & Lk').
    assert (Z2 : Nat.eqb (length (L k)) n = false).
    { destruct (Nat.eqb_spec (length (L k)) n); auto. rewrite e in Lt. exfalso. exact (Nat.lt_irrefl _ Lt). }
    (* the list of counts before the final 1, with its properties *)
    assert (Core : exists cs0, (if isdeep x
               then (if existsb (String.eqb k) ts then bump (map fst (L r)) (L k) (CS k) else repeat 1 (length (L r)))
               else CS k) = cs0 /\ length cs0 = length (L k) /\ Forall (fun c => 1 <= c) cs0 /\ deep1 (L k) cs0).
    { destruct (in_dec string_dec k ts) as [i|ni].
      - pose proof (no0_counts k i C) as N0. destruct (I3 k i N0) as [Fa D1]. pose proof (I1 k i) as Len.
        apply existsb_eqb_in in i. rewrite i. destruct (isdeep x) eqn:Dx.
        + eexists. split; [reflexivity|]. split; [now apply bump_length|]. split; [now apply Forall_bump|].
          apply deep1_bump; auto. intros y Hy Hq. apply in_map_iff in Hq. destruct Hq as (z & Ez & Hz).
          rewrite (isdeep_port y z (eq_sym Ez)). apply (parent_not_deep arrived z W0' Hz).
        + eexists. split; [reflexivity|]. auto.
      - assert (Eb : existsb (String.eqb k) ts = false).
        { destruct (existsb (String.eqb k) ts) eqn:E; auto. apply existsb_eqb_in in E. tauto. }
        rewrite Eb. pose proof (key_new k Hk ni) as Ek. destruct (isdeep x) eqn:Dx.
        + (* new deep key: its relevant tokens so far are the parents *)
          assert (ELk : L k = L r).
          { unfold L, Lk, bsel. apply filter_ext_in. intros y Hy. unfold counts.
            destruct (String.eqb_spec (gatag y) k) as [E|E].
            - exfalso. apply ni, Mt. rewrite <- E. now apply in_map.
            - now rewrite orb_false_r, orb_diag. }
          eexists. split; [reflexivity|]. rewrite ELk, repeat_length. split; auto. split.
          * apply Forall_forall. intros c Hc. apply repeat_spec in Hc. lia.
          * apply deep1_ones.
        + (* new parent key: k = r and nothing has arrived for it *)
          destruct (sod _ x W Ix) as [[Dx' _]|[_ Tx]]; [congruence|].
          assert (Nr : ~ In r ts) by (rewrite <- Tx, <- Ek; exact ni).
          assert (E : L k = []) by (rewrite Ek, Tx; unfold L, Lk; now apply bsel_absent).
          exists []. rewrite (I0 k ni), E. simpl. auto. }
    destruct Core as (cs0 & -> & Len0 & Fa0 & D0).
    rewrite Lk'. split; [|split].
    + rewrite !app_length. simpl. lia.
    + intros _. split.
      * apply Forall_app. split; auto.
      * apply deep1_snoc; auto.
    + rewrite Z2. destruct (haszero (cs0 ++ [1])) eqn:Hz; auto. apply haszero_in in Hz.
      apply in_app_iff in Hz. destruct Hz as [Hz|[Hz|[]]]; [|discriminate].
      exfalso. apply (Forall_ge1_no0 _ Fa0 Hz).
  - assert (i : In k ts).
    { destruct (in_dec string_dec k ts) as [i|ni]; auto. exfalso. pose proof (key_new k Hk ni) as Ek.
      unfold counts in C. rewrite Ek, String.eqb_refl, orb_true_r in C. discriminate. }
    rewrite (nocnt k C). split; [apply I1; auto|]. split; [apply I3; auto|].
    destruct (Nat.eqb_spec (length (L k)) n) as [E|E].
    + apply haszero_in. apply I2; auto.
    + destruct (haszero (CS k)) eqn:Hz; auto. apply haszero_in in Hz. apply I2 in Hz; auto. contradiction.
Qed.

(* the counts after the whole step *)
Definition CS2 (k : string) : list nat :=
  if existsb (String.eqb k) ts' then after n L' CS1 ts' k else [].

Lemma step2 p t :
  combine1 KDot items (fst x) (snd x) p t (stA arrived CS) =
  (stA (arrived ++ [x]) CS2, emission_b items r arrived x, None) /\ Inv (arrived ++ [x]) CS2.
Proof.
  assert (Ix : In x (arrived ++ [x])) by (rewrite in_app_iff; simpl; auto).
  destruct (gtags_spec (arrived ++ [x])) as [NDt' Mt']. fold ts' in NDt', Mt'.
  assert (ScanH : forall k, In k ts' -> length (CS1 k) = length (L' k) /\
            (fires2 n L' CS1 k = true -> Forall (fun c => 1 <= c) (CS1 k) /\ In 1 (CS1 k))).
  { intros k Hk. destruct (mid_facts k Hk) as (M1 & M3 & M2). split; auto.
    unfold fires2. intros F. apply andb_true_iff in F. destruct F as [Fc Fz]. apply Nat.eqb_eq in Fc.
    assert (N0 : ~ In 0 (CS1 k)) by (intros H0; apply haszero_in in H0; rewrite H0 in Fz; discriminate).
    destruct (M3 N0) as [Fa D1]. split; auto.
    destruct (complete_has_deep k _ W Fc) as (y & Hy & Dy). eapply deep1_in1; eauto. }
  split.
  - unfold combine1.
    assert (Mid : add_to_list dot_add 0 true (snd x) (fst x) (stA arrived CS) = inl (stv ts' L' CS1)).
    { destruct (sod _ x W Ix) as [[Dx Gx]|[Dx Tx]]; [now apply mid_deep|now apply mid_parent]. }
    rewrite Mid. unfold dot_product. unfold stv at 1. rewrite mk_keys. fold (stv ts' L' CS1). fold n.
    rewrite (scan2 n ts' L' NDt' ts' CS1 NDt' (fun q Hq => Hq) ScanH).
    f_equal. f_equal.
    + unfold stv, stA. fold ts'. apply mk_ext. intros k Hk. unfold CS2. apply existsb_eqb_in in Hk. now rewrite Hk.
    + unfold emission_b. fold ts'. apply flat_map_ext_in'. intros k Hk.
      destruct (mid_facts k Hk) as (_ & _ & M2). unfold fires2, fires, fired_of. rewrite M2.
      fold n. unfold L', L, Lk. now rewrite andb_comm.
  - (* the invariant *)
    assert (CS2k : forall k, In k ts' -> CS2 k = if fires2 n L' CS1 k then map pred (CS1 k) else CS1 k).
    { intros k Hk. unfold CS2, after. apply existsb_eqb_in in Hk. now rewrite Hk. }
    split; [|split; [|split; [|split]]].
    + intros k Nk. unfold CS2. destruct (existsb (String.eqb k) ts') eqn:E; auto. apply existsb_eqb_in in E. tauto.
    + intros k Hk. rewrite (CS2k k Hk). destruct (ScanH k Hk) as [M1 _]. fold (L' k).
      destruct (fires2 n L' CS1 k); [now rewrite map_length|auto].
    + intros k Hk. rewrite (CS2k k Hk). fold (L' k). destruct (mid_facts k Hk) as (M1 & M3 & M2).
      destruct (fires2 n L' CS1 k) eqn:F.
      * destruct (ScanH k Hk) as [_ S2]. destruct (S2 F) as [_ I1']. unfold fires2 in F.
        apply andb_true_iff in F. destruct F as [Fc _]. apply Nat.eqb_eq in Fc. split; auto.
        intros _. now apply in0_pred.
      * split.
        -- intros H0. apply haszero_in in H0. rewrite M2 in H0. apply Nat.eqb_eq in H0.
           destruct (counts r k x) eqn:C.
           ++ destruct (cnt_facts k C) as (Lt & _). rewrite H0 in Lt. exfalso. exact (Nat.lt_irrefl _ Lt).
           ++ now rewrite (nocnt k C).
        -- intros Ec. unfold fires2 in F. rewrite Ec, Nat.eqb_refl in F. simpl in F.
           apply haszero_in. destruct (haszero (CS1 k)); auto.
    + intros k Hk N0. rewrite (CS2k k Hk) in *. fold (L' k). destruct (mid_facts k Hk) as (M1 & M3 & M2).
      destruct (fires2 n L' CS1 k) eqn:F; [|auto].
      exfalso. apply N0. destruct (ScanH k Hk) as [_ S2]. destruct (S2 F) as [_ I1']. now apply in0_pred.
    + intros Hr. rewrite (CS2k r Hr). fold (L' r).
      assert (Fr : fires2 n L' CS1 r = false).
      { unfold fires2. pose proof (r_lt _ W) as Lt.
        assert (Ne : length (L' r) <> n).
        { unfold L', Lk. intros E. apply (Nat.lt_irrefl n). rewrite <- E at 1. exact Lt. }
        apply Nat.eqb_neq in Ne. now rewrite Ne. }
      rewrite Fr. pose proof HI as (I0 & _ & _ & _ & I4). unfold CS1.
      destruct (counts r r x) eqn:C.
      * destruct (cnt_facts r C) as (_ & _ & Lk'). rewrite Lk', app_length. simpl.
        unfold counts in C. rewrite orb_diag in C. apply String.eqb_eq in C.
        destruct (sod _ x W Ix) as [[_ (Ne & _)]|[Dx _]]; [congruence|]. rewrite Dx.
        destruct (in_dec string_dec r ts) as [i|ni].
        -- rewrite (I4 i). fold (L r). rewrite Nat.add_1_r. simpl. now rewrite repeat_cons.
        -- rewrite (I0 r ni). assert (E : L r = []) by (unfold L, Lk; now apply bsel_absent). rewrite E. reflexivity.
      * rewrite (nocnt r C). apply I4. destruct (in_dec string_dec r ts) as [i|ni]; auto.
        exfalso. pose proof (key_new r Hr ni) as Ek. unfold counts in C. rewrite <- Ek, String.eqb_refl in C. discriminate.
Qed.
End Step2.

(* ---------- the run ---------- *)
Definition tokarr (a : arv) : garv := (fst a, ETok (snd a)).
Fixpoint outs_b2 (arrived : list garv) (rest : list arv) : list (list schema) :=
  match rest with
  | [] => []
  | a :: rest' => emission_b items r arrived (tokarr a) :: outs_b2 (arrived ++ [tokarr a]) rest'
  end.

Lemma combine_tree_unfold k p t tv :
  In p items ->
  combine (mkouter k (map IPort items)) (mkst tv []) p t =
  (let '(a, b, c) := combine1 k items p (ETok t) p t tv in (mkst a [], b, c)).
Proof.
  intros Hp. unfold combine. simpl oitems. rewrite find_inner_ports, names_items.
  assert (existsb (String.eqb p) items = true) as ->.
  { apply existsb_exists. exists p. split; auto. apply String.eqb_refl. }
  reflexivity.
Qed.

Lemma run_b2 : forall rest arrived CS,
  wfb2 (arrived ++ map tokarr rest) -> Inv arrived CS ->
  run (c1 items) (mkst (stA arrived CS) []) rest = (outs_b2 arrived rest, None).
Proof.
  induction rest as [|a rest IH]; intros arrived CS W HI; simpl; auto.
  simpl in W. replace (arrived ++ tokarr a :: map tokarr rest) with ((arrived ++ [tokarr a]) ++ map tokarr rest) in W
    by now rewrite <- app_assoc.
  pose proof (wfb2_prefix _ _ W) as W1.
  destruct (step2 arrived (tokarr a) CS W1 HI (fst a) (snd a)) as [C I'].
  destruct a as [p t]. unfold c1. rewrite combine_tree_unfold.
  - unfold tokarr in C. cbn [fst snd] in C. rewrite C. fold (c1 items). unfold tokarr in IH.
    pose proof (IH _ _ W I') as R. unfold tokarr in R. cbn [fst snd] in R. rewrite R. reflexivity.
  - destruct W1 as (_ & _ & _ & Hp & _). apply (Hp (tokarr (p, t))). rewrite in_app_iff. simpl. auto.
Qed.

Lemma Inv_nil : Inv [] (fun _ => []).
Proof. unfold Inv. simpl. repeat split; auto; tauto. Qed.

(* broadcast with several scattered ports: for every arrival order of well-formed streams the run never raises and
   emits, for every key, exactly one combination -- at the arrival that completes {tokens tagged k} U {tokens tagged
   r}, one per port -- made of exactly those tokens *)
Theorem dot_broadcast2 (arr : list arv) :
  wfb2 (map tokarr arr) -> run (c1 items) init_state arr = (outs_b2 [] arr, None).
Proof. intros W. apply (run_b2 arr [] (fun _ => [])); auto. apply Inv_nil. Qed.
End B2.

(* ---------- corollaries: exactly one combination per complete key; order independence ---------- *)
Lemma flat_map_filter {A B} (b : A -> bool) (f : A -> B) : forall l,
  flat_map (fun k => if b k then [f k] else []) l = map f (filter b l).
Proof. induction l as [|a l IH]; simpl; auto. destruct (b a); simpl; now rewrite IH. Qed.

Lemma filter_or_perm {A} (p q : A -> bool) : forall l,
  (forall k, In k l -> p k = true -> q k = false) ->
  Permutation (filter (fun k => p k || q k) l) (filter p l ++ filter q l).
Proof.
  induction l as [|a l IH]; intros H; simpl; auto.
  assert (IH' := IH (fun k Hk => H k (or_intror Hk))).
  destruct (p a) eqn:Pa; simpl.
  - rewrite (H a (or_introl eq_refl) Pa). now constructor.
  - destruct (q a); simpl; auto. apply Permutation_cons_app. exact IH'.
Qed.

Section B2Cor.
Variable items : list string.
Variable r : string.
Variable DP : list string.
Let n := length items.

Definition complete_b (l : list garv) (k : string) : bool := Nat.eqb (length (bsel r k l)) n.
(* one combination per complete key, made of the key's tokens, in order of first occurrence of the key *)
Definition gdone (l : list garv) : list schema :=
  map (fun k => gcombo (bsel r k l)) (filter (complete_b l) (gtags l)).

Lemma done_step_b (l : list garv) (x : garv) :
  wfb2 items r DP (l ++ [x]) -> Permutation (gdone (l ++ [x])) (gdone l ++ emission_b items r l x).
Proof.
  intros W. set (c := complete_b l). set (c' := complete_b (l ++ [x])).
  set (newly := fun k => negb (c k) && c' k).
  assert (Keep : forall k, c k = true -> bsel r k (l ++ [x]) = bsel r k l).
  { intros k Hk. rewrite bsel_snoc. destruct (counts r k x) eqn:C; [|now rewrite app_nil_r].
    exfalso. pose proof (lt_counts items r DP k l x W C) as Lt. unfold c, complete_b in Hk.
    apply Nat.eqb_eq in Hk. fold n in Lt. rewrite Hk in Lt. exact (Nat.lt_irrefl _ Lt). }
  assert (Mono : forall k, c k = true -> c' k = true).
  { intros k Hk. unfold c', complete_b. rewrite (Keep k Hk). exact Hk. }
  assert (E1 : filter c' (gtags (l ++ [x])) = filter (fun k => c k || newly k) (gtags (l ++ [x]))).
  { apply filter_ext. intros k. unfold newly. destruct (c k) eqn:Ck; simpl; auto. }
  unfold gdone. fold c c'. rewrite E1.
  eapply Permutation_trans; [apply Permutation_map, filter_or_perm|].
  { intros k _ Hk. unfold newly. now rewrite Hk. }
  rewrite map_app. apply Permutation_app.
  - (* the keys complete before: same keys, same tokens *)
    assert (E2 : filter c (gtags (l ++ [x])) = filter c (gtags l)).
    { rewrite gtags_snoc. unfold add_tag. destruct (existsb (String.eqb (gatag x)) (gtags l)) eqn:E; auto.
      rewrite filter_app. simpl.
      assert (c (gatag x) = false) as ->; [|now rewrite app_nil_r].
      destruct (c (gatag x)) eqn:Cg; auto. exfalso.
      assert (C : counts r (gatag x) x = true) by (unfold counts; rewrite String.eqb_refl; apply orb_true_r).
      pose proof (lt_counts items r DP _ l x W C) as Lt. unfold c, complete_b in Cg. apply Nat.eqb_eq in Cg.
      fold n in Lt. rewrite Cg in Lt. exact (Nat.lt_irrefl _ Lt). }
    rewrite E2. apply Permutation_refl'. apply map_ext_in. intros k Hk. apply filter_In in Hk.
    now rewrite (Keep k (proj2 Hk)).
  - unfold emission_b. rewrite flat_map_filter. apply Permutation_refl'. f_equal.
Qed.

Lemma outs_b2_snoc : forall rest arrived y,
  concat (outs_b2 items r arrived (rest ++ [y])) =
  concat (outs_b2 items r arrived rest) ++ emission_b items r (arrived ++ map tokarr rest) (tokarr y).
Proof.
  induction rest as [|a rest IH]; intros arrived y; simpl.
  - now rewrite !app_nil_r.
  - rewrite IH, <- !app_assoc. simpl. reflexivity.
Qed.

(* exactly one combination per complete key, nothing else *)
Theorem broadcast_exactly_one : forall arr,
  wfb2 items r DP (map tokarr arr) ->
  Permutation (concat (outs_b2 items r [] arr)) (gdone (map tokarr arr)).
Proof.
  induction arr as [|y l IH] using rev_ind; intros W.
  - simpl. constructor.
  - rewrite outs_b2_snoc. simpl app. rewrite map_app in *. simpl map in *.
    eapply Permutation_trans; [|apply Permutation_sym, done_step_b; exact W].
    apply Permutation_app_tail. apply IH. eapply wfb2_prefix; exact W.
Qed.
End B2Cor.

(* ---------- order independence ---------- *)
Lemma get_tag_two r k : 1 <= String.length r -> String.length r < String.length k ->
  forall l out, (forall g, In g l -> g = r \/ g = k) ->
  (out = k \/ (String.length out < String.length k /\ In k l)) ->
  fold_left (fun out t => if Nat.ltb (String.length out) (String.length t) then t else out) l out = k.
Proof.
  intros Hr Hk. induction l as [|g l IH]; intros out Hl Ho; simpl.
  - destruct Ho as [?|[_ []]]; auto.
  - apply IH; [intros; apply Hl; simpl; auto|].
    destruct (Hl g (or_introl eq_refl)) as [->| ->].
    + destruct Ho as [->|[Lo [E|Hin]]].
      * left. destruct (Nat.ltb_spec (String.length k) (String.length r)); auto. lia.
      * subst. lia.
      * right. split; auto. destruct (Nat.ltb_spec (String.length out) (String.length r)); lia.
    + destruct Ho as [->|[Lo _]].
      * left. now rewrite Nat.ltb_irrefl.
      * left. destruct (Nat.ltb_spec (String.length out) (String.length k)); auto. lia.
Qed.

Lemma filter_map_comm {A B} (f : A -> B) (P : B -> bool) : forall l, filter P (map f l) = map f (filter (fun x => P (f x)) l).
Proof. induction l as [|a l IH]; simpl; auto. destruct (P (f a)); simpl; now rewrite IH. Qed.

Lemma gcombo_tok (a : list arv) : NoDup (map fst a) -> gcombo (map tokarr a) = Flat.combo a.
Proof.
  intros ND. unfold gcombo, Flat.combo.
  change (map tokarr a) with (map (fun x : string * tok => (fst x, ETok (snd x))) a).
  rewrite (Flat.merge_ones a []) by exact ND. simpl.
  unfold atag. rewrite map_map. reflexivity.
Qed.

Section B2Ord.
Variable items : list string.
Variable r : string.
Variable DP : list string.
Let n := length items.

Lemma wfb2_perm a b : Permutation a b -> wfb2 items r DP a -> wfb2 items r DP b.
Proof.
  intros P (A & B & C & D & E & F & G). assert (P' := Permutation_sym P).
  split; auto. split; auto. split; auto. split; [|split; [|split]].
  - intros x Hx. apply D. eapply Permutation_in; eauto.
  - eapply Permutation_NoDup; [|exact E]. now apply Permutation_map.
  - intros x Hx. apply F. eapply Permutation_in; eauto.
  - intros x y Hx Hy. apply G; eapply Permutation_in; eauto.
Qed.

Theorem broadcast_order_independent (arr1 arr2 : list arv) :
  wfb2 items r DP (map tokarr arr1) -> Permutation arr1 arr2 ->
  1 <= String.length r ->
  (forall a, In a arr1 -> isdeep DP (tokarr a) = true -> String.length r < String.length (atag a)) ->
  snd (run (c1 items) init_state arr1) = None /\ snd (run (c1 items) init_state arr2) = None /\
  bag_eq (concat (fst (run (c1 items) init_state arr1))) (concat (fst (run (c1 items) init_state arr2))).
Proof.
  intros W1 P Hr Hlen.
  assert (PM : Permutation (map tokarr arr1) (map tokarr arr2)) by now apply Permutation_map.
  pose proof (wfb2_perm _ _ PM W1) as W2.
  rewrite (dot_broadcast2 items r DP arr1 W1), (dot_broadcast2 items r DP arr2 W2). simpl.
  split; auto. split; auto.
  set (l1 := map tokarr arr1) in *. set (l2 := map tokarr arr2) in *.
  set (T2 := filter (complete_b items r l2) (gtags l2)).
  exists (map (fun k => gcombo (bsel r k l1)) T2), (gdone items r l2). split; [|split].
  - eapply Permutation_trans; [apply (broadcast_exactly_one items r DP); exact W1|].
    unfold gdone. apply Permutation_map.
    assert (PT : Permutation (gtags l1) (gtags l2)).
    { destruct (gtags_spec l1) as [N1 M1]. destruct (gtags_spec l2) as [N2 M2].
      apply NoDup_Permutation; auto. intros g. rewrite M1, M2.
      split; apply Permutation_in; [|apply Permutation_sym]; now apply Permutation_map. }
    unfold T2. rewrite (filter_ext (complete_b items r l2) (complete_b items r l1)).
    + now apply Permutation_filter'.
    + intros g. unfold complete_b, bsel. f_equal. apply Permutation_length, Permutation_filter'. now apply Permutation_sym.
  - apply (broadcast_exactly_one items r DP). exact W2.
  - unfold gdone. fold T2. apply Forall2_map2'. intros k Hk. unfold T2 in Hk. apply filter_In in Hk.
    destruct Hk as [_ Ck]. unfold complete_b in Ck. apply Nat.eqb_eq in Ck.
    (* the tokens of key k under the two orders *)
    unfold l1, l2, bsel. rewrite !filter_map_comm.
    set (a1 := filter (fun x => counts r k (tokarr x)) arr1). set (a2 := filter (fun x => counts r k (tokarr x)) arr2).
    assert (PA : Permutation a1 a2) by (unfold a1, a2; now apply Permutation_filter').
    assert (E1 : map tokarr a1 = bsel r k l1) by (unfold a1, l1, bsel; now rewrite filter_map_comm).
    assert (E2 : map tokarr a2 = bsel r k l2) by (unfold a2, l2, bsel; now rewrite filter_map_comm).
    assert (ND1 : NoDup (map fst a1)).
    { pose proof (ports_nodup items r DP k _ W1) as ND. fold l1 in ND. rewrite <- E1, map_map in ND. exact ND. }
    assert (ND2 : NoDup (map fst a2)).
    { pose proof (ports_nodup items r DP k _ W2) as ND. fold l2 in ND. rewrite <- E2, map_map in ND. exact ND. }
    rewrite (gcombo_tok a1 ND1), (gcombo_tok a2 ND2). unfold Flat.combo.
    (* both tags are k: the key is complete, so it holds a scattered token, whose tag is k and longer than r *)
    destruct (complete_has_deep items r DP k l2 W2 Ck) as (y & Hy & Dy).
    rewrite <- E2 in Hy. apply in_map_iff in Hy. destruct Hy as (b & <- & Hb).
    assert (Hb1 : In b a1) by (eapply Permutation_in; [apply Permutation_sym; exact PA|exact Hb]).
    assert (Hb0 : In b arr1) by (unfold a1 in Hb1; apply filter_In in Hb1; tauto).
    assert (Tb : atag b = k).
    { unfold a2 in Hb. apply filter_In in Hb. destruct Hb as [Hb Cb]. unfold counts in Cb.
      apply orb_true_iff in Cb. destruct Cb as [Cb|Cb]; apply String.eqb_eq in Cb; auto.
      exfalso. assert (In (tokarr b) l2) by (unfold l2; now apply in_map).
      destruct (sod items r DP l2 (tokarr b) W2 H) as [[_ (Ne & _)]|[Nd _]]; [|congruence].
      apply Ne. exact Cb. }
    assert (Lk : String.length r < String.length k) by (rewrite <- Tb; apply Hlen; auto).
    assert (Tags : forall a, (forall y, In y a -> In y a1 \/ In y a2) -> In b a -> get_tag_s (map atag a) = k).
    { intros a Ha Hba. unfold get_tag_s. apply (get_tag_two r k Hr Lk).
      - intros g Hg. apply in_map_iff in Hg. destruct Hg as (z & <- & Hz).
        assert (Cz : counts r k (tokarr z) = true).
        { destruct (Ha z Hz) as [H|H]; [unfold a1 in H|unfold a2 in H]; apply filter_In in H; tauto. }
        unfold counts in Cz. apply orb_true_iff in Cz. destruct Cz as [Cz|Cz]; apply String.eqb_eq in Cz; auto.
      - right. split; [simpl; lia|]. rewrite <- Tb. now apply in_map. }
    rewrite (Tags a1), (Tags a2); auto.
    unfold retag. apply Permutation_map, Permutation_map. exact PA.
Qed.
End B2Ord.

(* ---------- the same corollary for arbitrary elements (used for nested combinators) ---------- *)
Section B2Gen.
Variable items : list string.
Variable r : string.
Variable DP : list string.

Fixpoint gemsq (arrived dl : list garv) : list schema :=
  match dl with
  | [] => []
  | y :: rest => emission_b items r arrived y ++ gemsq (arrived ++ [y]) rest
  end.
Lemma gemsq_snoc : forall dl arrived y,
  gemsq arrived (dl ++ [y]) = gemsq arrived dl ++ emission_b items r (arrived ++ dl) y.
Proof.
  induction dl as [|a dl IH]; intros arrived y; simpl.
  - now rewrite !app_nil_r.
  - rewrite IH, <- !app_assoc. simpl. reflexivity.
Qed.
Theorem gemsq_done : forall dl, wfb2 items r DP dl -> Permutation (gemsq [] dl) (gdone items r dl).
Proof.
  induction dl as [|y l IH] using rev_ind; intros W.
  - simpl. constructor.
  - rewrite gemsq_snoc. simpl app.
    eapply Permutation_trans; [|apply Permutation_sym, (done_step_b items r DP); exact W].
    apply Permutation_app_tail. apply IH. eapply wfb2_prefix; exact W.
Qed.

(* the single-scattered-port predicate of GBcast is the DP = [dp] instance *)
Lemma wfb_wfb2 dp l : wfb items r dp l -> wfb2 items r [dp] l.
Proof.
  intros (A & B & C & D & E & F).
  assert (Iso : forall x : garv, isdeep [dp] x = String.eqb (fst x) dp).
  { intros x. unfold isdeep. simpl. now rewrite orb_false_r. }
  split; auto. split; [discriminate|]. split; [intros q [<-|[]]; auto|]. split; auto. split; auto. split.
  - intros x Hx. rewrite Iso. apply E. exact Hx.
  - intros x y Hx Hy Dx Dy. rewrite Iso in Dx, Dy. apply String.eqb_eq in Dx. apply String.eqb_eq in Dy. now apply F.
Qed.
End B2Gen.

(* run-level statement of "exactly one combination per complete key" *)
Theorem broadcast_bag items r DP (arr : list arv) :
  wfb2 items r DP (map tokarr arr) ->
  snd (run (c1 items) init_state arr) = None /\
  Permutation (concat (fst (run (c1 items) init_state arr))) (gdone items r (map tokarr arr)).
Proof.
  intros W. rewrite (dot_broadcast2 items r DP arr W). simpl. split; auto.
  now apply (broadcast_exactly_one items r DP).
Qed.
