(* Comb/Cart.v — the cartesian product over streams whose tag groups are pairwise unrelated (e.g. all tokens of
   the same depth): every arrival order emits exactly the full cross product, each combination once. *)
From Coq Require Import List Ascii Bool NArith Arith Lia Permutation.
From SF Require Import Base.Str Tags.Model Comb.Model Comb.Proofs Comb.Flat.
Import ListNotations.
Local Open Scope string_scope. Local Open Scope list_scope.

(* ---------- generic association lists  gmk F ks = [(k, F k) | k <- ks] ---------- *)
Definition gmk {A} (F : string -> A) (ks : list string) : list (string * A) := map (fun k => (k, F k)) ks.
Definition gupd {A} (F : string -> A) (k : string) (v : A) : string -> A :=
  fun k' => if String.eqb k' k then v else F k'.
(* keys in order of first occurrence *)
Definition gkeys (kf : arv -> string) (l : list arv) : list string :=
  fold_left (fun ts x => add_tag (kf x) ts) l [].
Definition gsel (kf : arv -> string) (k : string) (l : list arv) : list arv :=
  filter (fun x => String.eqb (kf x) k) l.

Lemma gkeys_snoc kf l x : gkeys kf (l ++ [x]) = add_tag (kf x) (gkeys kf l).
Proof. unfold gkeys. now rewrite fold_left_app. Qed.

Lemma gkeys_spec kf l : NoDup (gkeys kf l) /\ forall g, In g (gkeys kf l) <-> In g (map kf l).
Proof.
  induction l as [|x l IH] using rev_ind.
  - simpl. split; [constructor|tauto].
  - destruct IH as [ND M]. rewrite gkeys_snoc, map_app. unfold add_tag.
    destruct (existsb (String.eqb (kf x)) (gkeys kf l)) eqn:E.
    + split; auto. intros g. rewrite in_app_iff, <- M. simpl. apply existsb_eqb_in in E.
      split; [tauto|]. intros [?|[<-|[]]]; auto.
    + assert (~ In (kf x) (gkeys kf l)) by (rewrite <- existsb_eqb_in; congruence).
      split.
      * apply NoDup_snoc; auto.
      * intros g. rewrite !in_app_iff, <- M. simpl. tauto.
Qed.

Lemma gsel_snoc kf k l x : gsel kf k (l ++ [x]) = gsel kf k l ++ (if String.eqb (kf x) k then [x] else []).
Proof. unfold gsel. rewrite filter_app. simpl. destruct (String.eqb (kf x) k); reflexivity. Qed.
Lemma gsel_in kf k l y : In y (gsel kf k l) <-> In y l /\ kf y = k.
Proof. unfold gsel. rewrite filter_In, String.eqb_eq. tauto. Qed.

Lemma lookup_gmk {A} (F : string -> A) ks k : In k ks -> lookup k (gmk F ks) = Some (F k).
Proof.
  induction ks as [|t ts IH]; simpl; [tauto|]. intros H.
  destruct (String.eqb_spec k t); [now subst|]. apply IH. destruct H; congruence.
Qed.
Lemma gmk_keys {A} (F : string -> A) ks : map fst (gmk F ks) = ks.
Proof. unfold gmk. rewrite map_map. simpl. apply map_id. Qed.
Lemma gmk_ext {A} (F G : string -> A) ks : (forall k, In k ks -> F k = G k) -> gmk F ks = gmk G ks.
Proof. intros H. apply map_ext_in. intros g Hg. now rewrite H. Qed.
Lemma assoc_set_gmk {A} (F : string -> A) ks k v :
  NoDup ks -> In k ks -> assoc_set k v (gmk F ks) = gmk (gupd F k v) ks.
Proof.
  induction ks as [|t ts IH]; simpl; [tauto|]. intros ND H. inversion ND; subst.
  unfold gupd at 1. destruct (String.eqb_spec k t).
  - subst t. rewrite String.eqb_refl. f_equal. apply gmk_ext. intros g' Hg'. unfold gupd.
    destruct (String.eqb_spec g' k); [subst; tauto|reflexivity].
  - destruct (String.eqb_spec t k); [congruence|]. f_equal. apply IH; auto. destruct H; congruence.
Qed.
Lemma assoc_set_gmk_new {A} (F : string -> A) ks k v :
  ~ In k ks -> assoc_set k v (gmk F ks) = gmk (gupd F k v) (ks ++ [k]).
Proof.
  intros H. rewrite assoc_set_notin by now rewrite gmk_keys.
  unfold gmk. rewrite map_app. simpl. unfold gupd at 2. rewrite String.eqb_refl. f_equal.
  apply map_ext_in. intros g' Hg'. unfold gupd. destruct (String.eqb_spec g' k); [subst; tauto|reflexivity].
Qed.
(* assoc_set on gmk, whether or not the key is present: the keys become add_tag k ks *)
Lemma assoc_set_gmk_any {A} (F : string -> A) ks k v :
  NoDup ks -> assoc_set k v (gmk F ks) = gmk (gupd F k v) (add_tag k ks).
Proof.
  intros ND. unfold add_tag. destruct (existsb (String.eqb k) ks) eqn:E.
  - apply existsb_eqb_in in E. now apply assoc_set_gmk.
  - apply assoc_set_gmk_new. rewrite <- existsb_eqb_in. congruence.
Qed.
Lemma lookup_gmk_any {A} (F : string -> A) ks k :
  lookup k (gmk F ks) = if existsb (String.eqb k) ks then Some (F k) else None.
Proof.
  destruct (existsb (String.eqb k) ks) eqn:E.
  - apply lookup_gmk. now apply existsb_eqb_in.
  - apply lookup_notin. rewrite gmk_keys, <- existsb_eqb_in. congruence.
Qed.

(* ---------- cartesian product of lists ---------- *)
Lemma in_cproduct {A} : forall (ls : list (list A)) c, In c (cproduct ls) <-> Forall2 (fun x l => In x l) c ls.
Proof.
  induction ls as [|l ls IH]; intros c; simpl.
  - split; [intros [<-|[]]; constructor|]. intros H. inversion H. auto.
  - rewrite in_flat_map. split.
    + intros (x & Hx & Hc). apply in_map_iff in Hc. destruct Hc as (c' & <- & Hc'). constructor; auto. now apply IH.
    + intros H. inversion H; subst. exists x. split; auto. apply in_map_iff. exists l0. split; auto. now apply IH.
Qed.

Lemma NoDup_cproduct {A} : forall (ls : list (list A)), Forall (@NoDup A) ls -> NoDup (cproduct ls).
Proof.
  induction ls as [|l ls IH]; intros H; simpl.
  - constructor; [tauto|constructor].
  - inversion H; subst. specialize (IH H3). clear H H3.
    induction l as [|x l IHl]; simpl; [constructor|]. inversion H2; subst.
    assert (forall (a b : list (list A)), NoDup a -> NoDup b -> (forall c, In c a -> ~ In c b) -> NoDup (a ++ b)) as App.
    { induction a as [|y a IHa]; simpl; intros b Na Nb Hd; auto. inversion Na; subst. constructor.
      - rewrite in_app_iff. intros [?|?]; [tauto|]. eapply Hd; eauto.
      - apply IHa; auto. }
    apply App.
    + clear -IH. induction IH; simpl; constructor; auto.
      intros Hin. apply in_map_iff in Hin. destruct Hin as (c & E & Hc). inversion E; subst. tauto.
    + now apply IHl.
    + intros c Hc Hc'. apply in_map_iff in Hc. destruct Hc as (c0 & <- & _).
      apply in_flat_map in Hc'. destruct Hc' as (y & Hy & Hc'). apply in_map_iff in Hc'.
      destruct Hc' as (c1 & E & _). inversion E; subst. tauto.
Qed.

Lemma cproduct_map {A B} (f : A -> B) : forall ls, cproduct (map (map f) ls) = map (map f) (cproduct ls).
Proof.
  induction ls as [|l ls IH]; simpl; auto. rewrite IH. clear IH.
  induction l as [|x l IHl]; simpl; auto. rewrite map_app, IHl. f_equal.
  rewrite !map_map. reflexivity.
Qed.

Lemma NoDup_map_on {A B} (f : A -> B) (g : B -> A) l :
  (forall x, In x l -> g (f x) = x) -> NoDup l -> NoDup (map f l).
Proof.
  induction l as [|x l IH]; simpl; intros H ND; [constructor|]. inversion ND; subst. constructor.
  - intros Hin. apply in_map_iff in Hin. destruct Hin as (y & E & Hy).
    assert (y = x) by (rewrite <- (H y), <- (H x), E; auto). subst. tauto.
  - apply IH; auto.
Qed.

(* ---------- the cartesian combinator ---------- *)
Definition conv (y : arv) : string * elem := (fst y, ETok (snd y)).
(* the member of a choice for port q *)
Definition getp (q : string) (c : list arv) : arv :=
  match find (fun y => String.eqb (fst y) q) c with Some y => y | None => (q, (0%N, "")) end.
(* the emitted combination for the members [toks], listed in item order (CartesianProductCombinator._product) *)
Definition mk_out (toks : list arv) : schema :=
  let suffix := map (fun kt : arv => last_comp (snd (snd kt))) toks in
  map (fun kt : arv => (fst kt, (fst (snd kt), join "." (removelast (split_on "." (snd (snd kt))) ++ suffix)))) toks.

Section Cart.
Variable items : list string.
Variable d : nat.
Let n := length items.

Definition cc : outerc := mkouter (KCart d) (map IPort items).
Definition gk (x : arv) : string := drop_last d (atag x).                 (* the group of a token *)
Definition Dq (l : list arv) (q : string) : list elem := map (fun y : arv => ETok (snd y)) (gsel fst q l).
Definition pv_of (l : list arv) : pvals := gmk (Dq l) (gkeys fst l).
Definition tvc (arrived : list arv) : tvals :=
  gmk (fun k => pv_of (gsel gk k arrived)) (gkeys gk arrived).
Definition reorder (c : list arv) : list arv := map (fun q => getp q c) items.

(* the choices (one member per item, in item order) completed by the arrival of x *)
Definition factor (l' : list arv) (x : arv) (q : string) : list arv :=
  if String.eqb q (fst x) then [x] else gsel fst q l'.
Definition emitted (arrived : list arv) (x : arv) : list (list arv) :=
  let l' := gsel gk (gk x) (arrived ++ [x]) in
  let ports' := gkeys fst l' in
  if Nat.eqb (length ports') n then map reorder (cproduct (map (factor l' x) ports')) else [].
Fixpoint ems (arrived rest : list arv) : list (list (list arv)) :=
  match rest with
  | [] => []
  | x :: r => emitted arrived x :: ems (arrived ++ [x]) r
  end.

Definition gflat (l : list arv) : Prop :=
  forall x y, In x l -> In y l -> gk x <> gk y -> is_parent_tag_s (gk x) (gk y) = false.
Definition wfc (l : list arv) : Prop :=
  NoDup items /\ (forall x, In x l -> In (fst x) items) /\ NoDup (map akey l) /\ gflat l.

Lemma wfc_prefix a b : wfc (a ++ b) -> wfc a.
Proof.
  intros (A & B & C & D). split; [auto|]. split; [|split].
  - intros x Hx. apply B. rewrite in_app_iff. auto.
  - rewrite map_app in C. now apply NoDup_app_l in C.
  - intros x y Hx Hy. apply D; rewrite in_app_iff; auto.
Qed.

Lemma propagate_any (add : adder) (e : elem) p g : forall ks tv,
  (forall k, In k ks -> k = g \/ (is_parent_tag_s k g = false /\ is_parent_tag_s g k = false)) ->
  propagate add ks g e p tv = inl tv.
Proof.
  induction ks as [|k ks IH]; intros tv H; simpl; auto.
  destruct (H k (or_introl eq_refl)) as [->|[A B]].
  - rewrite String.eqb_refl. apply IH. intros; apply H; simpl; auto.
  - destruct (String.eqb g k); [apply IH; intros; apply H; simpl; auto|].
    rewrite A, B. apply IH. intros; apply H; simpl; auto.
Qed.

Lemma cart_seen_fresh t : forall dq,
  (forall e', In e' dq -> exists t', e' = ETok t' /\ snd t' <> snd t) -> cart_seen (ETok t) dq = inl false.
Proof.
  induction dq as [|e' r IH]; simpl; auto. intros H.
  destruct (H e' (or_introl eq_refl)) as (t' & -> & Hne). simpl.
  destruct (String.eqb_spec (snd t') (snd t)); [congruence|]. apply IH. intros; apply H; auto.
Qed.

Lemma Dq_snoc l x q : Dq (l ++ [x]) q = if String.eqb q (fst x) then Dq l q ++ [ETok (snd x)] else Dq l q.
Proof.
  unfold Dq. rewrite gsel_snoc. rewrite String.eqb_sym.
  destruct (String.eqb q (fst x)); [now rewrite map_app|now rewrite app_nil_r].
Qed.

Lemma Dq_absent l q : ~ In q (gkeys fst l) -> Dq l q = [].
Proof.
  intros H. unfold Dq. destruct (gsel fst q l) as [|y r] eqn:E; auto. exfalso. apply H.
  apply (proj2 (gkeys_spec fst l)). assert (In y (gsel fst q l)) by (rewrite E; simpl; auto).
  apply gsel_in in H0. destruct H0 as [H0 <-]. now apply in_map.
Qed.

Lemma cart_add_step l x :
  NoDup (map akey (l ++ [x])) ->
  cart_add (ETok (snd x)) (fst x) (pv_of l) = inl (pv_of (l ++ [x])).
Proof.
  intros ND. unfold cart_add, pv_of. set (p := fst x).
  assert (Cur : match lookup p (gmk (Dq l) (gkeys fst l)) with Some dq => dq | None => [] end = Dq l p).
  { rewrite lookup_gmk_any. destruct (existsb (String.eqb p) (gkeys fst l)) eqn:E; auto.
    symmetry. apply Dq_absent. rewrite <- existsb_eqb_in. congruence. }
  rewrite Cur. rewrite cart_seen_fresh.
  - rewrite assoc_set_gmk_any by apply gkeys_spec. rewrite gkeys_snoc. fold p.
    f_equal. apply gmk_ext. intros q _. unfold gupd. rewrite Dq_snoc. fold p.
    destruct (String.eqb_spec q p); [now subst|reflexivity].
  - intros e' He'. unfold Dq in He'. apply in_map_iff in He'. destruct He' as (y & <- & Hy).
    apply gsel_in in Hy. destruct Hy as [Hy Ey]. exists (snd y). split; auto. intros Et.
    rewrite map_app in ND. simpl in ND. apply NoDup_remove_2 in ND. rewrite app_nil_r in ND.
    apply ND. apply in_map_iff. exists y. split; auto. unfold akey, atag. now rewrite Ey, Et.
Qed.

Lemma lookup_conv q : forall c,
  lookup q (map conv c) = option_map (fun y : arv => ETok (snd y)) (find (fun y => String.eqb (fst y) q) c).
Proof.
  induction c as [|y c IH]; simpl; auto. rewrite (String.eqb_sym q (fst y)).
  destruct (String.eqb (fst y) q); auto.
Qed.

Definition covers (c : list arv) : Prop :=
  forall q, In q items -> exists y, find (fun y => String.eqb (fst y) q) c = Some y.

Lemma cart_out_conv c : covers c -> cart_out items (map conv c) = inl (mk_out (reorder c)).
Proof.
  intros H. unfold cart_out, reorder.
  assert (A : forall its, (forall q, In q its -> In q items) ->
    forallb (fun kv : string * option elem => match snd kv with Some (ETok _) => true | _ => false end)
      (map (fun k => (k, lookup k (map conv c))) its) = true /\
    flat_map (fun kv : string * option elem => match snd kv with Some (ETok t) => [(fst kv, t)] | _ => [] end)
      (map (fun k => (k, lookup k (map conv c))) its) = map (fun q => getp q c) its).
  { induction its as [|q its IH]; intros Hs; simpl; auto.
    destruct (IH (fun q' Hq' => Hs q' (or_intror Hq'))) as [I1 I2].
    destruct (H q (Hs q (or_introl eq_refl))) as (y & Ey).
    rewrite lookup_conv, Ey. simpl. rewrite I1, I2. split; auto. f_equal.
    unfold getp. rewrite Ey. apply find_some in Ey. destruct Ey as [_ Ey]. apply String.eqb_eq in Ey.
    destruct y as [a b]. simpl in *. now subst. }
  destruct (A items (fun q Hq => Hq)) as [A1 A2]. rewrite A1, A2. reflexivity.
Qed.

Lemma cart_outs_conv : forall CS, (forall c, In c CS -> covers c) ->
  cart_outs items (map (map conv) CS) = (map mk_out (map reorder CS), None).
Proof.
  induction CS as [|c CS IH]; intros H; simpl; auto.
  rewrite cart_out_conv by (apply H; simpl; auto). rewrite IH by (intros; apply H; simpl; auto). reflexivity.
Qed.

(* members of a configuration drawn from the factors carry the factor's port *)
Lemma factor_port l' x q y : In y (factor l' x q) -> fst y = q.
Proof.
  unfold factor. destruct (String.eqb_spec q (fst x)).
  - intros [<-|[]]. auto.
  - intros Hy. apply gsel_in in Hy. tauto.
Qed.

Lemma cproduct_ports l' x : forall ps c, In c (cproduct (map (factor l' x) ps)) -> map fst c = ps.
Proof.
  intros ps c Hc. apply in_cproduct in Hc. revert c Hc.
  induction ps as [|q ps IH]; intros c Hc; inversion Hc; subst; simpl; auto.
  f_equal; [eapply factor_port; eauto|]. now apply IH.
Qed.

Lemma find_in_keys q : forall (c : list arv), In q (map fst c) -> exists y, find (fun y => String.eqb (fst y) q) c = Some y.
Proof.
  induction c as [|y c IH]; simpl; [tauto|]. intros H.
  destruct (String.eqb_spec (fst y) q); [eauto|]. apply IH. destruct H; congruence.
Qed.

Lemma combine_cart (arrived : list arv) (x : arv) :
  wfc (arrived ++ [x]) ->
  combine cc (mkst (tvc arrived) []) (fst x) (snd x) =
  (mkst (tvc (arrived ++ [x])) [], map mk_out (emitted arrived x), None).
Proof.
  intros (NDi & Hports & NDk & Hflat). set (p := fst x). set (k := gk x).
  assert (Hp : In p items) by (apply (Hports x); rewrite in_app_iff; simpl; auto).
  destruct (gkeys_spec gk arrived) as [NDt Mt].
  unfold combine, cc. simpl oitems. rewrite find_inner_ports, names_items.
  assert (existsb (String.eqb p) items = true) as ->.
  { apply existsb_exists. exists p. split; auto. apply String.eqb_refl. }
  unfold combine1. simpl okind. cbv iota. unfold add_to_list.
  change (elem_tag (ETok (snd x))) with (atag x). simpl otv.
  assert (Etag : match d with 0 => atag x | S _ => drop_last d (atag x) end = k).
  { unfold k, gk. destruct d; auto. unfold drop_last. rewrite Nat.sub_0_r, firstn_all.
    admit_drop0. }
  rewrite Etag.
