(* Comb/Cart.v — the cartesian product over streams whose tag groups are pairwise unrelated (e.g. all tokens of
   the same depth): every arrival order emits exactly the full cross product, each combination once. *)
From Coq Require Import List Ascii Bool NArith Arith Lia Permutation.
From SF Require Import Base.Str Tags.Model Comb.Model Comb.Proofs Comb.Flat.
Import ListNotations.
Local Open Scope string_scope. Local Open Scope list_scope.

(* ---------- generic association lists  gmk F ks = [(k, F k) | k <- ks] ---------- *)
Definition gmk {A} (F : string -> A) (ks : list string) : list (string * A) := map (fun k => (k, F k)) ks.
Definition gupd {A} (F : string -> A) (k : string) (v : A) : string -> A :=
  fun k' => if String.eqb k' k then v else F k'.
(* keys in order of first occurrence *)
Definition gkeys (kf : arv -> string) (l : list arv) : list string :=
  fold_left (fun ts x => add_tag (kf x) ts) l [].
Definition gsel (kf : arv -> string) (k : string) (l : list arv) : list arv :=
  filter (fun x => String.eqb (kf x) k) l.

Lemma gkeys_snoc kf l x : gkeys kf (l ++ [x]) = add_tag (kf x) (gkeys kf l).
Proof. unfold gkeys. now rewrite fold_left_app. Qed.

Lemma gkeys_spec kf l : NoDup (gkeys kf l) /\ forall g, In g (gkeys kf l) <-> In g (map kf l).
Proof.
  induction l as [|x l IH] using rev_ind.
  - simpl. split; [constructor|tauto].
  - destruct IH as [ND M]. rewrite gkeys_snoc, map_app. unfold add_tag.
    destruct (existsb (String.eqb (kf x)) (gkeys kf l)) eqn:E.
    + split; auto. intros g. rewrite in_app_iff, <- M. simpl. apply existsb_eqb_in in E.
      split; [tauto|]. intros [?|[<-|[]]]; auto.
    + assert (~ In (kf x) (gkeys kf l)) by (rewrite <- existsb_eqb_in; congruence).
      split.
      * apply NoDup_snoc; auto.
      * intros g. rewrite !in_app_iff, <- M. simpl. tauto.
Qed.

Lemma gsel_snoc kf k l x : gsel kf k (l ++ [x]) = gsel kf k l ++ (if String.eqb (kf x) k then [x] else []).
Proof. unfold gsel. rewrite filter_app. simpl. destruct (String.eqb (kf x) k); reflexivity. Qed.
Lemma gsel_in kf k l y : In y (gsel kf k l) <-> In y l /\ kf y = k.
Proof. unfold gsel. rewrite filter_In, String.eqb_eq. tauto. Qed.

Lemma lookup_gmk {A} (F : string -> A) ks k : In k ks -> lookup k (gmk F ks) = Some (F k).
Proof.
  induction ks as [|t ts IH]; simpl; [tauto|]. intros H.
  destruct (String.eqb_spec k t); [now subst|]. apply IH. destruct H; congruence.
Qed.
Lemma gmk_keys {A} (F : string -> A) ks : map fst (gmk F ks) = ks.
Proof. unfold gmk. rewrite map_map. simpl. apply map_id. Qed.
Lemma gmk_ext {A} (F G : string -> A) ks : (forall k, In k ks -> F k = G k) -> gmk F ks = gmk G ks.
Proof. intros H. apply map_ext_in. intros g Hg. now rewrite H. Qed.
Lemma assoc_set_gmk {A} (F : string -> A) ks k v :
  NoDup ks -> In k ks -> assoc_set k v (gmk F ks) = gmk (gupd F k v) ks.
Proof.
  induction ks as [|t ts IH]; simpl; [tauto|]. intros ND H. inversion ND; subst.
  unfold gupd at 1. destruct (String.eqb_spec k t).
  - subst t. rewrite String.eqb_refl. f_equal. apply gmk_ext. intros g' Hg'. unfold gupd.
    destruct (String.eqb_spec g' k); [subst; tauto|reflexivity].
  - destruct (String.eqb_spec t k); [congruence|]. f_equal. apply IH; auto. destruct H; congruence.
Qed.
Lemma assoc_set_gmk_new {A} (F : string -> A) ks k v :
  ~ In k ks -> assoc_set k v (gmk F ks) = gmk (gupd F k v) (ks ++ [k]).
Proof.
  intros H. rewrite assoc_set_notin by now rewrite gmk_keys.
  unfold gmk. rewrite map_app. simpl. unfold gupd at 2. rewrite String.eqb_refl. f_equal.
  apply map_ext_in. intros g' Hg'. unfold gupd. destruct (String.eqb_spec g' k); [subst; tauto|reflexivity].
Qed.
(* assoc_set on gmk, whether or not the key is present: the keys become add_tag k ks *)
Lemma assoc_set_gmk_any {A} (F : string -> A) ks k v :
  NoDup ks -> assoc_set k v (gmk F ks) = gmk (gupd F k v) (add_tag k ks).
Proof.
  intros ND. unfold add_tag. destruct (existsb (String.eqb k) ks) eqn:E.
  - apply existsb_eqb_in in E. now apply assoc_set_gmk.
  - apply assoc_set_gmk_new. rewrite <- existsb_eqb_in. congruence.
Qed.
Lemma lookup_gmk_any {A} (F : string -> A) ks k :
  lookup k (gmk F ks) = if existsb (String.eqb k) ks then Some (F k) else None.
Proof.
  destruct (existsb (String.eqb k) ks) eqn:E.
  - apply lookup_gmk. now apply existsb_eqb_in.
  - apply lookup_notin. rewrite gmk_keys, <- existsb_eqb_in. congruence.
Qed.

(* ---------- cartesian product of lists ---------- *)
Lemma in_cproduct {A} : forall (ls : list (list A)) c, In c (cproduct ls) <-> Forall2 (fun x l => In x l) c ls.
Proof.
  induction ls as [|l ls IH]; intros c; simpl.
  - split; [intros [<-|[]]; constructor|]. intros H. inversion H. auto.
  - rewrite in_flat_map. split.
    + intros (x & Hx & Hc). apply in_map_iff in Hc. destruct Hc as (c' & <- & Hc'). constructor; auto. now apply IH.
    + intros H. inversion H; subst. exists x. split; auto. apply in_map_iff. exists l0. split; auto. now apply IH.
Qed.

Lemma NoDup_cproduct {A} : forall (ls : list (list A)), Forall (@NoDup A) ls -> NoDup (cproduct ls).
Proof.
  induction ls as [|l ls IH]; intros H; simpl.
  - constructor; [tauto|constructor].
  - inversion H; subst. specialize (IH H3). clear H H3.
    induction l as [|x l IHl]; simpl; [constructor|]. inversion H2; subst.
    assert (forall (a b : list (list A)), NoDup a -> NoDup b -> (forall c, In c a -> ~ In c b) -> NoDup (a ++ b)) as App.
    { induction a as [|y a IHa]; simpl; intros b Na Nb Hd; auto. inversion Na; subst. constructor.
      - rewrite in_app_iff. intros [?|?]; [tauto|]. eapply Hd; eauto.
      - apply IHa; auto. }
    apply App.
    + clear -IH. induction IH; simpl; constructor; auto.
      intros Hin. apply in_map_iff in Hin. destruct Hin as (c & E & Hc). inversion E; subst. tauto.
    + now apply IHl.
    + intros c Hc Hc'. apply in_map_iff in Hc. destruct Hc as (c0 & <- & _).
      apply in_flat_map in Hc'. destruct Hc' as (y & Hy & Hc'). apply in_map_iff in Hc'.
      destruct Hc' as (c1 & E & _). inversion E; subst. tauto.
Qed.

Lemma cproduct_map {A B} (f : A -> B) : forall ls, cproduct (map (map f) ls) = map (map f) (cproduct ls).
Proof.
  induction ls as [|l ls IH]; simpl; auto. rewrite IH. clear IH.
  induction l as [|x l IHl]; simpl; auto. rewrite map_app, IHl. f_equal.
  rewrite !map_map. reflexivity.
Qed.

Lemma NoDup_map_on {A B} (f : A -> B) (g : B -> A) l :
  (forall x, In x l -> g (f x) = x) -> NoDup l -> NoDup (map f l).
Proof.
  induction l as [|x l IH]; simpl; intros H ND; [constructor|]. inversion ND; subst. constructor.
  - intros Hin. apply in_map_iff in Hin. destruct Hin as (y & E & Hy).
    assert (y = x) by (rewrite <- (H y), <- (H x), E; auto). subst. tauto.
  - apply IH; auto.
Qed.

(* ---------- the cartesian combinator ---------- *)
Definition conv (y : arv) : string * elem := (fst y, ETok (snd y)).
(* the member of a choice for port q *)
Definition getp (q : string) (c : list arv) : arv :=
  match find (fun y => String.eqb (fst y) q) c with Some y => y | None => (q, (0%N, "")) end.
(* the emitted combination for the members [toks], listed in item order (CartesianProductCombinator._product) *)
Definition mk_out (toks : list arv) : schema :=
  let suffix := map (fun kt : arv => last_comp (snd (snd kt))) toks in
  map (fun kt : arv => (fst kt, (fst (snd kt), join "." (removelast (split_on "." (snd (snd kt))) ++ suffix)))) toks.

Lemma NoDup_app_intro {A} : forall (a b : list A),
  NoDup a -> NoDup b -> (forall c, In c a -> ~ In c b) -> NoDup (a ++ b).
Proof.
  induction a as [|y a IHa]; simpl; intros b Na Nb Hd; auto. inversion Na; subst. constructor.
  - rewrite in_app_iff. intros [?|?]; [tauto|]. eapply Hd; eauto.
  - apply IHa; auto.
Qed.

Lemma getp_found q (c : list arv) : In q (map fst c) -> In (getp q c) c /\ fst (getp q c) = q.
Proof.
  intros H. unfold getp. induction c as [|y c IH]; simpl in *; [tauto|].
  destruct (String.eqb_spec (fst y) q); [auto|]. destruct H; [congruence|].
  destruct (IH H) as [A B]. auto.
Qed.

Lemma getp_cons_ne q y (c : list arv) : fst y <> q -> getp q (y :: c) = getp q c.
Proof. intros H. unfold getp. simpl. destruct (String.eqb_spec (fst y) q); [congruence|reflexivity]. Qed.
Lemma getp_cons_eq y (c : list arv) : getp (fst y) (y :: c) = y.
Proof. unfold getp. simpl. now rewrite String.eqb_refl. Qed.

Lemma reorder_self : forall (c : list arv), NoDup (map fst c) -> map (fun q => getp q c) (map fst c) = c.
Proof.
  induction c as [|y c IH]; simpl; intros ND; auto. inversion ND; subst.
  rewrite getp_cons_eq. f_equal. rewrite <- (IH H2) at 2. apply map_ext_in.
  intros q Hq. apply getp_cons_ne. intros E. subst. tauto.
Qed.

Lemma getp_map q (G : string -> arv) : forall ps,
  In q ps -> (forall q', In q' ps -> fst (G q') = q') -> getp q (map G ps) = G q.
Proof.
  induction ps as [|q0 ps IH]; simpl; [tauto|]. intros H HG.
  destruct (String.eqb_spec q0 q).
  - subst q0. rewrite <- (HG q (or_introl eq_refl)) at 1. apply getp_cons_eq.
  - rewrite getp_cons_ne by (rewrite HG; auto). apply IH; auto. destruct H; congruence.
Qed.

Lemma NoDup_fst_inj (c : list arv) a b : NoDup (map fst c) -> In a c -> In b c -> fst a = fst b -> a = b.
Proof.
  induction c as [|y c IH]; simpl; [tauto|]. intros ND Ha Hb E. inversion ND; subst.
  destruct Ha as [<-|Ha]; destruct Hb as [<-|Hb]; auto.
  - exfalso. apply H1. rewrite E. now apply in_map.
  - exfalso. apply H1. rewrite <- E. now apply in_map.
Qed.

Lemma Forall2_map2 {A B C} (g : A -> B) (f : A -> C) (R : B -> C -> Prop) : forall ps,
  (forall q, In q ps -> R (g q) (f q)) -> Forall2 R (map g ps) (map f ps).
Proof. induction ps; simpl; intros H; constructor; auto. Qed.

Lemma arv_eq_dec (a b : arv) : {a = b} + {a <> b}.
Proof. repeat decide equality. Qed.

Section Cart.
Variable items : list string.
Variable d : nat.
Hypothesis Hd : d <> 0.
Let n := length items.

Definition cc : outerc := mkouter (KCart d) (map IPort items).
Definition gk (x : arv) : string := drop_last d (atag x).                 (* the group of a token *)
Definition Dq (l : list arv) (q : string) : list elem := map (fun y : arv => ETok (snd y)) (gsel fst q l).
Definition pv_of (l : list arv) : pvals := gmk (Dq l) (gkeys fst l).
Definition tvc (arrived : list arv) : tvals :=
  gmk (fun k => pv_of (gsel gk k arrived)) (gkeys gk arrived).
Definition reorder (c : list arv) : list arv := map (fun q => getp q c) items.

(* the choices (one member per item, in item order) completed by the arrival of x *)
Definition factor (l' : list arv) (x : arv) (q : string) : list arv :=
  if String.eqb q (fst x) then [x] else gsel fst q l'.
Definition emitted (arrived : list arv) (x : arv) : list (list arv) :=
  let l' := gsel gk (gk x) (arrived ++ [x]) in
  let ports' := gkeys fst l' in
  if Nat.eqb (length ports') n then map reorder (cproduct (map (factor l' x) ports')) else [].
Fixpoint ems (arrived rest : list arv) : list (list (list arv)) :=
  match rest with
  | [] => []
  | x :: r => emitted arrived x :: ems (arrived ++ [x]) r
  end.

Definition gflat (l : list arv) : Prop :=
  forall x y, In x l -> In y l -> gk x <> gk y -> is_parent_tag_s (gk x) (gk y) = false.
Definition wfc (l : list arv) : Prop :=
  NoDup items /\ (forall x, In x l -> In (fst x) items) /\ NoDup (map akey l) /\ gflat l.

Lemma wfc_prefix a b : wfc (a ++ b) -> wfc a.
Proof.
  intros (A & B & C & D). split; [auto|]. split; [|split].
  - intros x Hx. apply B. rewrite in_app_iff. auto.
  - rewrite map_app in C. now apply NoDup_app_l in C.
  - intros x y Hx Hy. apply D; rewrite in_app_iff; auto.
Qed.

Lemma propagate_any (add : adder) (e : elem) p g : forall ks tv,
  (forall k, In k ks -> k = g \/ (is_parent_tag_s k g = false /\ is_parent_tag_s g k = false)) ->
  propagate add ks g e p tv = inl tv.
Proof.
  induction ks as [|k ks IH]; intros tv H; simpl; auto.
  destruct (H k (or_introl eq_refl)) as [->|[A B]].
  - rewrite String.eqb_refl. apply IH. intros; apply H; simpl; auto.
  - destruct (String.eqb g k); [apply IH; intros; apply H; simpl; auto|].
    rewrite A, B. apply IH. intros; apply H; simpl; auto.
Qed.

Lemma cart_seen_fresh t : forall dq,
  (forall e', In e' dq -> exists t', e' = ETok t' /\ snd t' <> snd t) -> cart_seen (ETok t) dq = inl false.
Proof.
  induction dq as [|e' r IH]; simpl; auto. intros H.
  destruct (H e' (or_introl eq_refl)) as (t' & -> & Hne). simpl.
  destruct (String.eqb_spec (snd t') (snd t)); [congruence|]. apply IH. intros; apply H; auto.
Qed.

Lemma Dq_snoc l x q : Dq (l ++ [x]) q = if String.eqb q (fst x) then Dq l q ++ [ETok (snd x)] else Dq l q.
Proof.
  unfold Dq. rewrite gsel_snoc. rewrite String.eqb_sym.
  destruct (String.eqb q (fst x)); [now rewrite map_app|now rewrite app_nil_r].
Qed.

Lemma Dq_absent l q : ~ In q (gkeys fst l) -> Dq l q = [].
Proof.
  intros H. unfold Dq. destruct (gsel fst q l) as [|y r] eqn:E; auto. exfalso. apply H.
  apply (proj2 (gkeys_spec fst l)). assert (In y (gsel fst q l)) by (rewrite E; simpl; auto).
  apply gsel_in in H0. destruct H0 as [H0 <-]. now apply in_map.
Qed.

Lemma cart_add_step l x :
  NoDup (map akey (l ++ [x])) ->
  cart_add (ETok (snd x)) (fst x) (pv_of l) = inl (pv_of (l ++ [x])).
Proof.
  intros ND. unfold cart_add, pv_of. set (p := fst x).
  assert (Cur : match lookup p (gmk (Dq l) (gkeys fst l)) with Some dq => dq | None => [] end = Dq l p).
  { rewrite lookup_gmk_any. destruct (existsb (String.eqb p) (gkeys fst l)) eqn:E; auto.
    symmetry. apply Dq_absent. rewrite <- existsb_eqb_in. congruence. }
  rewrite Cur. rewrite cart_seen_fresh.
  - rewrite assoc_set_gmk_any by apply gkeys_spec. rewrite gkeys_snoc. fold p.
    f_equal. apply gmk_ext. intros q _. unfold gupd. rewrite Dq_snoc. fold p.
    destruct (String.eqb_spec q p); [now subst|reflexivity].
  - intros e' He'. unfold Dq in He'. apply in_map_iff in He'. destruct He' as (y & <- & Hy).
    apply gsel_in in Hy. destruct Hy as [Hy Ey]. exists (snd y). split; auto. intros Et.
    rewrite map_app in ND. simpl in ND. apply NoDup_remove_2 in ND. rewrite app_nil_r in ND.
    apply ND. apply in_map_iff. exists y. split; auto. unfold akey, atag. now rewrite Ey, Et.
Qed.

Lemma lookup_conv q : forall c,
  lookup q (map conv c) = option_map (fun y : arv => ETok (snd y)) (find (fun y => String.eqb (fst y) q) c).
Proof.
  induction c as [|y c IH]; simpl; auto. rewrite (String.eqb_sym q (fst y)).
  destruct (String.eqb (fst y) q); auto.
Qed.

Definition covers (c : list arv) : Prop :=
  forall q, In q items -> exists y, find (fun y => String.eqb (fst y) q) c = Some y.

Lemma cart_out_conv c : covers c -> cart_out items (map conv c) = inl (mk_out (reorder c)).
Proof.
  intros H. unfold cart_out, reorder.
  assert (A : forall its, (forall q, In q its -> In q items) ->
    forallb (fun kv : string * option elem => match snd kv with Some (ETok _) => true | _ => false end)
      (map (fun k => (k, lookup k (map conv c))) its) = true /\
    flat_map (fun kv : string * option elem => match snd kv with Some (ETok t) => [(fst kv, t)] | _ => [] end)
      (map (fun k => (k, lookup k (map conv c))) its) = map (fun q => getp q c) its).
  { induction its as [|q its IH]; intros Hs; simpl; auto.
    destruct (IH (fun q' Hq' => Hs q' (or_intror Hq'))) as [I1 I2].
    destruct (H q (Hs q (or_introl eq_refl))) as (y & Ey).
    rewrite lookup_conv, Ey. simpl. rewrite I1, I2. split; auto. f_equal.
    unfold getp. rewrite Ey. apply find_some in Ey. destruct Ey as [_ Ey]. apply String.eqb_eq in Ey.
    destruct y as [a b]. simpl in *. now subst. }
  destruct (A items (fun q Hq => Hq)) as [A1 A2]. rewrite A1, A2. reflexivity.
Qed.

Lemma cart_outs_conv : forall CS, (forall c, In c CS -> covers c) ->
  cart_outs items (map (map conv) CS) = (map mk_out (map reorder CS), None).
Proof.
  induction CS as [|c CS IH]; intros H; simpl; auto.
  rewrite cart_out_conv by (apply H; simpl; auto). rewrite IH by (intros; apply H; simpl; auto). reflexivity.
Qed.

(* members of a configuration drawn from the factors carry the factor's port *)
Lemma factor_port l' x q y : In y (factor l' x q) -> fst y = q.
Proof.
  unfold factor. destruct (String.eqb_spec q (fst x)).
  - intros [<-|[]]. auto.
  - intros Hy. apply gsel_in in Hy. tauto.
Qed.

Lemma cproduct_ports l' x : forall ps c, In c (cproduct (map (factor l' x) ps)) -> map fst c = ps.
Proof.
  intros ps c Hc. apply in_cproduct in Hc. revert c Hc.
  induction ps as [|q ps IH]; intros c Hc; inversion Hc; subst; simpl; auto.
  f_equal; [eapply factor_port; eauto|]. now apply IH.
Qed.

Lemma find_in_keys q : forall (c : list arv), In q (map fst c) -> exists y, find (fun y => String.eqb (fst y) q) c = Some y.
Proof.
  induction c as [|y c IH]; simpl; [tauto|]. intros H.
  destruct (String.eqb_spec (fst y) q); [eauto|]. apply IH. destruct H; congruence.
Qed.

Lemma combine_cart (arrived : list arv) (x : arv) :
  wfc (arrived ++ [x]) ->
  combine cc (mkst (tvc arrived) []) (fst x) (snd x) =
  (mkst (tvc (arrived ++ [x])) [], map mk_out (emitted arrived x), None).
Proof.
  intros (NDi & Hports & NDk & Hflat). set (p := fst x). set (k := gk x).
  assert (Hp : In p items) by (apply (Hports x); rewrite in_app_iff; simpl; auto).
  destruct (gkeys_spec gk arrived) as [NDt Mt].
  unfold combine, cc. simpl oitems. rewrite find_inner_ports, names_items.
  assert (existsb (String.eqb p) items = true) as ->.
  { apply existsb_exists. exists p. split; auto. apply String.eqb_refl. }
  unfold combine1. simpl okind. cbv iota. unfold add_to_list.
  change (elem_tag (ETok (snd x))) with (atag x). simpl otv.
  assert (Etag : match d with 0 => atag x | S _ => drop_last d (atag x) end = k).
  { unfold k, gk. destruct d; [congruence|reflexivity]. }
  rewrite Etag.
  (* propagation does nothing: the other groups are unrelated *)
  rewrite propagate_any.
  2:{ intros k' Hk'. unfold tvc in Hk'. rewrite gmk_keys in Hk'. apply Mt in Hk'.
      apply in_map_iff in Hk'. destruct Hk' as (y & Ey & Hy).
      destruct (String.eqb_spec k' k); auto. right. subst k'. split.
      - apply (Hflat y x); [rewrite in_app_iff; auto|rewrite in_app_iff; simpl; auto|exact n0].
      - apply (Hflat x y); [rewrite in_app_iff; simpl; auto|rewrite in_app_iff; auto|]. intros E. apply n0. now symmetry. }
  set (l := gsel gk k arrived). set (l' := gsel gk k (arrived ++ [x])).
  assert (El' : l' = l ++ [x]).
  { unfold l', l. rewrite gsel_snoc. fold k. now rewrite String.eqb_refl. }
  assert (Cur : match lookup k (tvc arrived) with Some pv => pv | None => [] end = pv_of l).
  { unfold tvc. rewrite lookup_gmk_any. destruct (existsb (String.eqb k) (gkeys gk arrived)) eqn:E; auto.
    assert (l = []) as ->; [|reflexivity].
    destruct l as [|y r] eqn:El; auto. exfalso.
    assert (In y (gsel gk k arrived)) by (fold l; rewrite El; simpl; auto).
    apply gsel_in in H. destruct H as [H Hk].
    assert (In k (gkeys gk arrived)) by (apply Mt; rewrite <- Hk; now apply in_map).
    apply existsb_eqb_in in H0. congruence. }
  rewrite Cur. fold p. rewrite cart_add_step.
  2:{ rewrite <- El'. unfold l', gsel. clear -NDk. induction (arrived ++ [x]) as [|a r IH]; simpl; [constructor|].
      simpl in NDk. inversion NDk; subst. destruct (String.eqb (gk a) k); simpl; auto.
      constructor; auto. intros Hin. apply H1. apply in_map_iff in Hin. destruct Hin as (y & Ey & Hy).
      apply filter_In in Hy. apply in_map_iff. exists y. tauto. }
  rewrite <- El'.
  assert (Etv : assoc_set k (pv_of l') (tvc arrived) = tvc (arrived ++ [x])).
  { unfold tvc. rewrite assoc_set_gmk_any by exact NDt. rewrite gkeys_snoc. fold k. apply gmk_ext.
    intros k' _. unfold gupd. destruct (String.eqb_spec k' k); [now subst|].
    rewrite gsel_snoc. fold k. destruct (String.eqb_spec k k'); [congruence|]. now rewrite app_nil_r. }
  rewrite Etv.
  (* the product *)
  unfold cart_product. change (drop_last d (snd (snd x))) with k.
  destruct (gkeys_spec gk (arrived ++ [x])) as [NDt' Mt'].
  assert (Hk' : In k (gkeys gk (arrived ++ [x]))).
  { apply Mt'. rewrite map_app, in_app_iff. right. simpl. auto. }
  unfold tvc at 1. rewrite lookup_gmk by exact Hk'. fold l'.
  unfold emitted. fold k. fold l'. set (ports' := gkeys fst l').
  assert (length (pv_of l') = length ports') as -> by (unfold pv_of, gmk; now rewrite map_length).
  fold n. destruct (Nat.eqb_spec (length ports') n) as [En|En]; [|reflexivity].
  assert (Els : map (fun kd : string * list elem =>
                       if String.eqb (fst kd) p then [(fst kd, ETok (snd x))]
                       else map (fun e => (fst kd, e)) (snd kd)) (pv_of l') =
                map (map conv) (map (factor l' x) ports')).
  { unfold pv_of, gmk. rewrite !map_map. apply map_ext_in. intros q Hq. simpl. unfold factor. fold p.
    destruct (String.eqb_spec q p).
    - subst q. reflexivity.
    - unfold Dq. rewrite map_map. apply map_ext_in. intros y Hy. apply gsel_in in Hy.
      destruct Hy as [_ <-]. reflexivity. }
  rewrite Els, cproduct_map, cart_outs_conv; [reflexivity|].
  intros c Hc q Hq. apply find_in_keys. rewrite (cproduct_ports _ _ _ _ Hc).
  destruct (gkeys_spec fst l') as [NDp Mp]. fold ports' in NDp, Mp.
  assert (incl ports' items).
  { intros q' Hq'. apply Mp in Hq'. apply in_map_iff in Hq'. destruct Hq' as (y & <- & Hy).
    apply gsel_in in Hy. apply Hports. tauto. }
  assert (I2 : incl items ports').
  { apply NoDup_length_incl; auto. unfold n in En. rewrite En. apply le_n. }
  apply I2, Hq.
Qed.

Lemma run_cart : forall rest arrived,
  wfc (arrived ++ rest) ->
  run cc (mkst (tvc arrived) []) rest = (map (map mk_out) (ems arrived rest), None).
Proof.
  induction rest as [|x rest IH]; intros arrived W; simpl; auto.
  replace (arrived ++ x :: rest) with ((arrived ++ [x]) ++ rest) in W by now rewrite <- app_assoc.
  pose proof (combine_cart arrived x (wfc_prefix _ _ W)) as C.
  destruct x as [p t]. cbn [fst snd] in C. rewrite C.
  rewrite IH by exact W. reflexivity.
Qed.

(* ---------- what is emitted: exactly the choices, each once ---------- *)
Lemma ems_snoc : forall r a x, concat (ems a (r ++ [x])) = concat (ems a r) ++ emitted (a ++ r) x.
Proof.
  induction r as [|y r IH]; intros a x; simpl.
  - now rewrite !app_nil_r.
  - rewrite IH, <- !app_assoc. simpl. reflexivity.
Qed.

(* a choice: one member per item (in item order), all arrived, all of one group *)
Definition is_choice (l : list arv) (ch : list arv) : Prop :=
  map fst ch = items /\ (forall y, In y ch -> In y l) /\ (forall y z, In y ch -> In z ch -> gk y = gk z).
Definition new_choice (l : list arv) (x : arv) (ch : list arv) : Prop :=
  map fst ch = items /\ In x ch /\ (forall y, In y ch -> In y (l ++ [x]) /\ gk y = gk x).

Lemma choice_split l x ch : is_choice (l ++ [x]) ch <-> is_choice l ch \/ new_choice l x ch.
Proof.
  split.
  - intros (A & B & C). destruct (in_dec arv_eq_dec x ch) as [i|ni].
    + right. repeat split; auto.
    + left. split; auto. split; auto. intros y Hy. pose proof (B y Hy) as B'. rewrite in_app_iff in B'.
      destruct B' as [?|[<-|[]]]; auto. tauto.
  - intros [(A & B & C)|(A & B & C)].
    + split; auto. split; auto. intros y Hy. rewrite in_app_iff. auto.
    + split; auto. split; [intros y Hy; apply C; auto|]. intros y z Hy Hz.
      destruct (C y Hy) as [_ ->]. destruct (C z Hz) as [_ ->]. reflexivity.
Qed.

Lemma cproduct_members l' x : forall ps c, In c (cproduct (map (factor l' x) ps)) ->
  forall y, In y c -> In y (factor l' x (fst y)).
Proof.
  intros ps c Hc. apply in_cproduct in Hc. revert c Hc.
  induction ps as [|q ps IH]; intros c Hc; inversion Hc as [|a L c' Ls Ha Hrest]; subst; simpl; [tauto|].
  intros y [<-|Hy]; [|now apply (IH c')]. now rewrite (factor_port _ _ _ _ Ha).
Qed.

Section Emitted.
Variables (l : list arv) (x : arv).
Hypothesis W : wfc (l ++ [x]).
Let l' := gsel gk (gk x) (l ++ [x]).
Let ports' := gkeys fst l'.

Lemma P_l' y : In y l' <-> In y (l ++ [x]) /\ gk y = gk x.
Proof. apply gsel_in. Qed.
Lemma P_x : In x l'.
Proof. apply P_l'. rewrite in_app_iff. simpl. auto. Qed.
Lemma P_ports : NoDup ports' /\ (forall q, In q ports' <-> In q (map fst l')) /\ incl ports' items.
Proof.
  destruct (gkeys_spec fst l') as [A B]. split; auto. split; auto.
  intros q Hq. apply B in Hq. apply in_map_iff in Hq. destruct Hq as (y & <- & Hy).
  apply P_l' in Hy. destruct W as (_ & Hp & _). apply Hp. tauto.
Qed.
Lemma P_full : length ports' = n -> incl items ports'.
Proof.
  intros En. destruct P_ports as (A & _ & C). apply NoDup_length_incl; auto. unfold n in En. rewrite En. apply le_n.
Qed.
Lemma P_factor q y : In y (factor l' x q) -> In y l'.
Proof.
  unfold factor. destruct (String.eqb q (fst x)).
  - intros [<-|[]]. apply P_x.
  - intros Hy. apply gsel_in in Hy. tauto.
Qed.

Lemma emitted_spec ch : In ch (emitted l x) <-> new_choice l x ch.
Proof.
  destruct W as (NDi & Hports & NDk & _). destruct P_ports as (NDp & Mp & Ip).
  unfold emitted. fold l'. fold ports'. split.
  - destruct (Nat.eqb_spec (length ports') n) as [En|En]; [|intros []].
    intros Hch. apply in_map_iff in Hch. destruct Hch as (c & <- & Hc).
    pose proof (cproduct_ports _ _ _ _ Hc) as Kc. pose proof (cproduct_members _ _ _ _ Hc) as Mc.
    pose proof (P_full En) as Ifull.
    assert (G : forall q, In q items -> In (getp q c) c /\ fst (getp q c) = q).
    { intros q Hq. apply getp_found. rewrite Kc. now apply Ifull. }
    split; [|split].
    + unfold reorder. rewrite map_map. rewrite <- (map_id items) at 2. apply map_ext_in.
      intros q Hq. now apply G.
    + assert (Hp : In (fst x) items) by (apply Hports; rewrite in_app_iff; simpl; auto).
      destruct (G _ Hp) as [A B]. pose proof (Mc _ A) as Mx. rewrite B in Mx. unfold factor in Mx.
      rewrite String.eqb_refl in Mx. destruct Mx as [E|[]]. unfold reorder.
      apply in_map_iff. exists (fst x). split; [symmetry; exact E|exact Hp].
    + intros y Hy. unfold reorder in Hy. apply in_map_iff in Hy. destruct Hy as (q & <- & Hq).
      destruct (G q Hq) as [A _]. apply P_l'. eapply P_factor. apply Mc. exact A.
  - intros (A & B & C).
    assert (Hl' : forall y, In y ch -> In y l') by (intros y Hy; apply P_l'; auto).
    assert (Ifull : incl items ports').
    { intros q Hq. rewrite <- A in Hq. apply in_map_iff in Hq. destruct Hq as (y & <- & Hy).
      apply Mp. apply in_map. auto. }
    assert (En : length ports' = n).
    { unfold n. apply Nat.le_antisymm; apply NoDup_incl_length; auto. }
    destruct (Nat.eqb_spec (length ports') n) as [_|]; [|congruence].
    assert (NDch : NoDup (map fst ch)) by now rewrite A.
    assert (G : forall q, In q items -> In (getp q ch) ch /\ fst (getp q ch) = q).
    { intros q Hq. apply getp_found. now rewrite A. }
    apply in_map_iff. exists (map (fun q => getp q ch) ports'). split.
    + unfold reorder. transitivity (map (fun q => getp q ch) (map fst ch)); [|now apply reorder_self].
      rewrite A. apply map_ext_in.
      intros q Hq. apply getp_map; [now apply Ifull|]. intros q' Hq'. apply G. now apply Ip.
    + apply in_cproduct. apply Forall2_map2. intros q Hq0.
      assert (Hq : In q items) by now apply Ip. destruct (G q Hq) as [G1 G2].
      unfold factor. destruct (String.eqb_spec q (fst x)).
      * left. apply (NoDup_fst_inj ch); auto. congruence.
      * apply gsel_in. split; auto.
Qed.

Lemma emitted_nodup : NoDup (emitted l x).
Proof.
  destruct W as (NDi & Hports & NDk & _). destruct P_ports as (NDp & Mp & Ip).
  unfold emitted. fold l'. fold ports'.
  destruct (Nat.eqb_spec (length ports') n) as [En|En]; [|constructor].
  pose proof (P_full En) as Ifull.
  apply (NoDup_map_on reorder (fun ch => map (fun q => getp q ch) ports')).
  - intros c Hc. pose proof (cproduct_ports _ _ _ _ Hc) as Kc.
    assert (NDc : NoDup (map fst c)) by now rewrite Kc.
    transitivity (map (fun q => getp q c) (map fst c)); [|now apply reorder_self].
    rewrite Kc. apply map_ext_in. intros q Hq.
    unfold reorder. apply getp_map; [now apply Ip|].
    intros q' Hq'. apply getp_found. rewrite Kc. now apply Ifull.
  - apply NoDup_cproduct. apply Forall_forall. intros L HL. apply in_map_iff in HL. destruct HL as (q & <- & _).
    unfold factor. destruct (String.eqb q (fst x)).
    + constructor; [tauto|constructor].
    + unfold gsel. apply NoDup_filter. unfold l', gsel. apply NoDup_filter.
      eapply NoDup_map_inv. exact NDk.
Qed.
End Emitted.

Theorem cart_choices (arr : list arv) :
  items <> [] -> wfc arr ->
  NoDup (concat (ems [] arr)) /\ forall ch, In ch (concat (ems [] arr)) <-> is_choice arr ch.
Proof.
  intros Hne. induction arr as [|x l IH] using rev_ind; intros W.
  - simpl. split; [constructor|]. intros ch. split; [tauto|]. intros (A & B & _).
    destruct ch as [|y ch]; [simpl in A; congruence|]. apply (B y). simpl. auto.
  - destruct (IH (wfc_prefix _ _ W)) as [ND M]. rewrite ems_snoc. simpl app. split.
    + apply NoDup_app_intro; auto.
      * now apply emitted_nodup.
      * intros ch Hc Hc'. apply M in Hc. apply (emitted_spec l x W) in Hc'.
        destruct Hc as (_ & B & _). destruct Hc' as (_ & Hx & _). specialize (B x Hx).
        destruct W as (_ & _ & NDk & _). rewrite map_app in NDk. simpl in NDk.
        apply NoDup_remove_2 in NDk. rewrite app_nil_r in NDk. apply NDk. now apply in_map.
    + intros ch. rewrite in_app_iff, M, (emitted_spec l x W). symmetry. apply choice_split.
Qed.

(* the cartesian product over well-formed streams: every arrival order emits exactly the combinations of the
   choices, each choice once, and never raises *)
Theorem cart_full (arr : list arv) :
  items <> [] -> wfc arr ->
  run cc init_state arr = (map (map mk_out) (ems [] arr), None) /\
  NoDup (concat (ems [] arr)) /\ forall ch, In ch (concat (ems [] arr)) <-> is_choice arr ch.
Proof.
  intros Hne W. split; [apply (run_cart arr []); exact W|]. now apply cart_choices.
Qed.
Lemma wfc_perm a b : Permutation a b -> wfc a -> wfc b.
Proof.
  intros P (A & B & C & D). split; auto. split; [|split].
  - intros x Hx. apply B. eapply Permutation_in; [apply Permutation_sym; exact P|exact Hx].
  - eapply Permutation_NoDup; [|exact C]. now apply Permutation_map.
  - intros x y Hx Hy. apply D; eapply Permutation_in; try (apply Permutation_sym; exact P); auto.
Qed.

(* two arrival orders of the same tokens emit the same bag of combinations *)
Theorem cart_order_independent (arr1 arr2 : list arv) :
  items <> [] -> wfc arr1 -> Permutation arr1 arr2 ->
  snd (run cc init_state arr1) = None /\ snd (run cc init_state arr2) = None /\
  Permutation (concat (fst (run cc init_state arr1))) (concat (fst (run cc init_state arr2))).
Proof.
  intros Hne W1 P. pose proof (wfc_perm _ _ P W1) as W2.
  destruct (cart_full arr1 Hne W1) as (R1 & N1 & M1). destruct (cart_full arr2 Hne W2) as (R2 & N2 & M2).
  rewrite R1, R2. simpl. split; auto. split; auto.
  rewrite <- !concat_map. apply Permutation_map. apply NoDup_Permutation; auto.
  intros ch. rewrite M1, M2. unfold is_choice. split; intros (A & B & C); repeat split; auto; intros y Hy;
    eapply Permutation_in; try apply B; eauto. now apply Permutation_sym.
Qed.
End Cart.

(* ---------- tokens of one depth satisfy the hypothesis on groups ---------- *)
Lemma split_comps_nochar c : forall s, forallb (fun x => negb (has_char c x)) (split_on c s) = true.
Proof.
  induction s as [|a s IH]; simpl; auto.
  destruct (Ascii.eqb a c) eqn:E; simpl; auto.
  destruct (split_on c s) as [|w ws]; simpl in *.
  - now rewrite E.
  - rewrite E. simpl. exact IH.
Qed.
Lemma forallb_firstn {A} (f : A -> bool) : forall m l, forallb f l = true -> forallb f (firstn m l) = true.
Proof.
  induction m; intros [|x l]; simpl; auto. intros H. apply andb_true_iff in H. destruct H as [-> H]. simpl. auto.
Qed.
Lemma prefixb_same_length : forall p l, list_prefixb p l = true -> length p = length l -> p = l.
Proof.
  induction p as [|x p IH]; intros [|y l]; simpl; try discriminate; auto.
  intros H L. apply andb_true_iff in H. destruct H as [E H]. apply String.eqb_eq in E. subst. f_equal. apply IH; auto.
Qed.

(* all tokens have D components  =>  distinct groups are unrelated *)
Theorem uniform_depth_gflat d D (arr : list arv) :
  (forall x, In x arr -> length (split_on "." (atag x)) = D) -> gflat d arr.
Proof.
  intros H x y Hx Hy Hne. unfold gk, drop_last in *. rewrite (H x Hx), (H y Hy) in *.
  set (m := D - d) in *. set (la := firstn m (split_on "." (atag x))) in *.
  set (lb := firstn m (split_on "." (atag y))) in *.
  assert (La : length la = Nat.min m D) by (unfold la; now rewrite firstn_length, (H x Hx)).
  assert (Lb : length lb = Nat.min m D) by (unfold lb; now rewrite firstn_length, (H y Hy)).
  destruct la as [|a la'] eqn:Ea.
  - destruct lb; [congruence|]. simpl in *. lia.
  - destruct lb as [|b lb'] eqn:Eb; [simpl in *; lia|]. rewrite <- Ea, <- Eb in *.
    unfold is_parent_tag_s.
    change "."%string with (sep1 "."%char).
    rewrite !split_join; try (rewrite Ea; discriminate); try (rewrite Eb; discriminate);
      try (apply forallb_firstn, split_comps_nochar).
    destruct (list_prefixb lb la) eqn:P; auto. exfalso. apply Hne.
    apply prefixb_same_length in P; [|congruence]. now rewrite P.
Qed.
