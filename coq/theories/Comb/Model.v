(* Comb/Model.v — model of StreamFlow combinators (definitions only).
   ANCHORS: streamflow.workflow.step.Combinator._add_to_list, streamflow.workflow.step.Combinator._add_to_port,
            streamflow.workflow.combinator.DotProductCombinator._product,
            streamflow.workflow.combinator.DotProductCombinator.combine,
            streamflow.workflow.combinator.CartesianProductCombinator._product,
            streamflow.workflow.combinator.CartesianProductCombinator._add_to_port,
            streamflow.workflow.combinator.CartesianProductCombinator.combine,
            streamflow.core.utils.dict_product, streamflow.core.utils.get_tag
   Python dicts are association lists in insertion order; deques are lists (left to right, pop() takes the
   last).  Combinator trees have depth <= 2: an outer combinator whose items are ports or flat inner combinators. *)
From Coq Require Import List Ascii Bool NArith Arith.
From SF Require Import Base.Str Tags.Model.
Import ListNotations.
Local Open Scope string_scope. Local Open Scope list_scope.

Definition tok := (N * string)%type.                 (* payload id, tag *)
Definition schema := list (string * tok).            (* port -> token *)
Inductive elem := ETok (t : tok) | ESch (s : schema).
Definition pvals := list (string * list elem).       (* _token_values[tag] : port -> deque *)
Definition tvals := list (string * pvals).           (* _token_values : tag -> ... *)
Inductive cerr := AttributeError | IndexError | KeyError | NoItem.

(* tag of what _add_to_list receives: token.tag, or get_tag of the schema's tokens *)
Definition elem_tag (e : elem) : string :=
  match e with ETok t => snd t | ESch s => get_tag_s (map (fun kv => snd (snd kv)) s) end.

(* ".".join(tag.split(".")[:-d]) *)
Definition drop_last (d : nat) (s : string) : string :=
  let l := split_on "." s in join "." (firstn (length l - d) l).

Fixpoint lookup {A} (k : string) (l : list (string * A)) : option A :=
  match l with
  | [] => None
  | (k', v) :: r => if String.eqb k k' then Some v else lookup k r
  end.
(* d[k] = v : in place when present, appended otherwise *)
Fixpoint assoc_set {A} (k : string) (v : A) (l : list (string * A)) : list (string * A) :=
  match l with
  | [] => [(k, v)]
  | (k', v') :: r => if String.eqb k k' then (k', v) :: r else (k', v') :: assoc_set k v r
  end.

(* Combinator._add_to_port *)
Definition dot_add (e : elem) (p : string) (pv : pvals) : pvals + cerr :=
  inl (assoc_set p (match lookup p pv with Some d => d ++ [e] | None => [e] end) pv).

(* CartesianProductCombinator._add_to_port: skip when a token with the same .tag is already queued;
   .tag of a schema (a dict) raises AttributeError *)
Definition raw_tag (e : elem) : option string := match e with ETok t => Some (snd t) | ESch _ => None end.
Fixpoint cart_seen (e : elem) (d : list elem) : bool + cerr :=
  match d with
  | [] => inl false
  | t :: r =>
      match raw_tag t, raw_tag e with
      | Some a, Some b => if String.eqb a b then inl true else cart_seen e r
      | _, _ => inr AttributeError
      end
  end.
Definition cart_add (e : elem) (p : string) (pv : pvals) : pvals + cerr :=
  let d := match lookup p pv with Some d => d | None => [] end in
  match cart_seen e d with
  | inr x => inr x
  | inl true => inl (assoc_set p d pv)
  | inl false => inl (assoc_set p (d ++ [e]) pv)
  end.

Definition adder := elem -> string -> pvals -> pvals + cerr.

(* copy every token of every port of [src] into tv[tag] (created when missing) *)
Fixpoint copy_port (add : adder) (p : string) (d : list elem) (pv : pvals) : pvals + cerr :=
  match d with
  | [] => inl pv
  | t :: r => match add t p pv with inl pv' => copy_port add p r pv' | inr x => inr x end
  end.
Fixpoint copy_ports (add : adder) (src : pvals) (pv : pvals) : pvals + cerr :=
  match src with
  | [] => inl pv
  | (p, d) :: r =>
      (* setdefault happens per token: a port with an empty deque creates nothing *)
      match copy_port add p d pv with inl pv' => copy_ports add r pv' | inr x => inr x end
  end.

(* the propagation loop of Combinator._add_to_list over list(self._token_values.keys()) *)
Fixpoint propagate (add : adder) (keys : list string) (tag : string) (e : elem) (p : string) (tv : tvals)
  : tvals + cerr :=
  match keys with
  | [] => inl tv
  | key :: r =>
      if String.eqb tag key then propagate add r tag e p tv
      else if is_parent_tag_s key tag then
        match lookup key tv with
        | Some pv => match add e p pv with
                     | inl pv' => propagate add r tag e p (assoc_set key pv' tv)
                     | inr x => inr x
                     end
        | None => inr KeyError
        end
      else if is_parent_tag_s tag key then
        match lookup key tv with
        | Some src =>
            (* setdefault(tag, {}) is evaluated only inside the inner loops *)
            if forallb (fun pd => match snd pd with [] => true | _ => false end) src
            then propagate add r tag e p tv
            else
              let cur := match lookup tag tv with Some pv => pv | None => [] end in
              match copy_ports add src cur with
              | inl pv' => propagate add r tag e p (assoc_set tag pv' tv)
              | inr x => inr x
              end
        | None => inr KeyError
        end
      else propagate add r tag e p tv
  end.

Definition add_to_list (add : adder) (depth : nat) (prop : bool) (e : elem) (p : string) (tv : tvals)
  : tvals + cerr :=
  let tag0 := elem_tag e in
  let tag := match depth with O => tag0 | _ => drop_last depth tag0 end in
  match (if prop then propagate add (map fst tv) tag e p tv else inl tv) with
  | inr x => inr x
  | inl tv1 =>
      let cur := match lookup tag tv1 with Some pv => pv | None => [] end in
      match add e p cur with
      | inl pv' => inl (assoc_set tag pv' tv1)
      | inr x => inr x
      end
  end.

(* ---- DotProductCombinator._product ---- *)
(* for key, elements in ...items(): element = elements.pop() *)
Fixpoint pop_all (pv : pvals) : option (pvals * list (string * elem)) :=
  match pv with
  | [] => Some ([], [])
  | (p, d) :: r =>
      match rev d with
      | [] => None                                   (* IndexError: pop from an empty deque *)
      | x :: d' =>
          match pop_all r with
          | Some (r', got) => Some ((p, rev d') :: r', (p, x) :: got)
          | None => None
          end
      end
  end.
(* schema[key] = element / schema |= element *)
Definition merge_elem (s : schema) (ke : string * elem) : schema :=
  match snd ke with
  | ETok t => assoc_set (fst ke) t s
  | ESch s' => fold_left (fun acc kv => assoc_set (fst kv) (snd kv) acc) s' s
  end.
Definition retag (tag : string) (s : schema) : schema := map (fun kv => (fst kv, (fst (snd kv), tag))) s.

(* the inner "for _ in range(num_items)" loop; [tag] is re-bound to the emitted tag after each round *)
Fixpoint dot_emit (fuel : nat) (tag : string) (tv : tvals) : tvals * list schema * option cerr :=
  match fuel with
  | O => (tv, [], None)
  | S f =>
      match lookup tag tv with
      | None => (tv, [], Some KeyError)
      | Some pv =>
          match pop_all pv with
          | None => (tv, [], Some IndexError)
          | Some (pv', got) =>
              let s := fold_left merge_elem got [] in
              let tag' := get_tag_s (map (fun kv => snd (snd kv)) s) in
              let '(tv', out, err) := dot_emit f tag' (assoc_set tag pv' tv) in
              (tv', retag tag' s :: out, err)
          end
      end
  end.
Definition min_len (pv : pvals) : nat :=
  match map (fun pd => length (snd pd)) pv with
  | [] => 0
  | x :: r => fold_left Nat.min r x
  end.
Fixpoint dot_scan (nitems : nat) (keys : list string) (tv : tvals) : tvals * list schema * option cerr :=
  match keys with
  | [] => (tv, [], None)
  | key :: r =>
      match lookup key tv with
      | None => (tv, [], Some KeyError)
      | Some pv =>
          if Nat.eqb (length pv) nitems then
            let '(tv1, out1, err1) := dot_emit (min_len pv) key tv in
            match err1 with
            | Some x => (tv1, out1, Some x)
            | None => let '(tv2, out2, err2) := dot_scan nitems r tv1 in (tv2, out1 ++ out2, err2)
            end
          else dot_scan nitems r tv
      end
  end.
Definition dot_product (nitems : nat) (tv : tvals) := dot_scan nitems (map fst tv) tv.

(* ---- CartesianProductCombinator._product ---- *)
(* itertools.product: the last list varies fastest *)
Fixpoint cproduct {A} (ls : list (list A)) : list (list A) :=
  match ls with
  | [] => [[]]
  | l :: r => flat_map (fun x => map (cons x) (cproduct r)) l
  end.
Definition last_comp (tag : string) : string := last (split_on "." tag) "".
Definition cart_out (items : list string) (config : list (string * elem)) : schema + cerr :=
  (* schema[key] = config[key] for key in items; a schema element breaks t.tag below *)
  let sch := map (fun k => (k, lookup k config)) items in
  if forallb (fun kv => match snd kv with Some (ETok _) => true | _ => false end) sch then
    let toks := flat_map (fun kv => match snd kv with Some (ETok t) => [(fst kv, t)] | _ => [] end) sch in
    let suffix := map (fun kt => last_comp (snd (snd kt))) toks in
    inl (map (fun kt => (fst kt, (fst (snd kt),
                 join "." (removelast (split_on "." (snd (snd kt))) ++ suffix)))) toks)
  else if existsb (fun kv => match snd kv with None => true | _ => false end) sch then inr KeyError
  else inr AttributeError.
Fixpoint cart_outs (items : list string) (configs : list (list (string * elem))) : list schema * option cerr :=
  match configs with
  | [] => ([], None)
  | c :: r =>
      match cart_out items c with
      | inr x => ([], Some x)
      | inl s => let '(out, err) := cart_outs items r in (s :: out, err)
      end
  end.
Definition cart_product (depth : nat) (items : list string) (p : string) (t : tok) (tv : tvals)
  : list schema * option cerr :=
  let tag := drop_last depth (snd t) in
  match lookup tag tv with
  | None => ([], Some KeyError)
  | Some pv =>
      if Nat.eqb (length pv) (length items) then
        let ls := map (fun kd => if String.eqb (fst kd) p then [(fst kd, ETok t)]
                                 else map (fun e => (fst kd, e)) (snd kd)) pv in
        cart_outs items (cproduct ls)
      else ([], None)
  end.

(* ---- combinator trees of depth <= 2 ---- *)
Inductive ckind := KDot | KCart (depth : nat).
Record flatc := mkflat { fkind : ckind; fname : string; fports : list string }.
Inductive item := IPort (p : string) | IComb (c : flatc).
Record outerc := mkouter { okind : ckind; oitems : list item }.
Definition item_name (i : item) : string := match i with IPort p => p | IComb c => fname c end.

(* combine() of a combinator whose items are [items], on an element arriving for item [key]
   ([p], [t] are the raw port and token, which the cartesian _product looks at) *)
Definition combine1 (k : ckind) (items : list string) (key : string) (e : elem) (p : string) (t : tok) (tv : tvals)
  : tvals * list schema * option cerr :=
  match k with
  | KDot =>
      match add_to_list dot_add 0 true e key tv with
      | inr x => (tv, [], Some x)
      | inl tv1 => dot_product (length items) tv1
      end
  | KCart depth =>
      match add_to_list cart_add depth true e key tv with
      | inr x => (tv, [], Some x)
      | inl tv1 => let '(out, err) := cart_product depth items p t tv1 in (tv1, out, err)
      end
  end.

(* state: the outer _token_values and one per inner combinator *)
Record cstate := mkst { otv : tvals; itvs : list (string * tvals) }.
Definition init_state : cstate := mkst [] [].

Definition find_inner (p : string) (items : list item) : option flatc :=
  match filter (fun i => match i with IComb c => existsb (String.eqb p) (fports c) | _ => false end) items with
  | IComb c :: _ => Some c
  | _ => None
  end.

(* the loop "async for schema in c.combine(...): self._add_to_list(schema, c.name); async for product in self._product()" *)
Fixpoint feed_outer (k : ckind) (names : list string) (cname : string) (schemas : list schema) (p : string)
  (t : tok) (tv : tvals) : tvals * list schema * option cerr :=
  match schemas with
  | [] => (tv, [], None)
  | s :: r =>
      let '(tv1, out1, err1) := combine1 k names cname (ESch s) p t tv in
      match err1 with
      | Some x => (tv1, out1, Some x)
      | None => let '(tv2, out2, err2) := feed_outer k names cname r p t tv1 in (tv2, out1 ++ out2, err2)
      end
  end.

Definition combine (c : outerc) (st : cstate) (p : string) (t : tok) : cstate * list schema * option cerr :=
  let names := map item_name (oitems c) in
  match find_inner p (oitems c) with
  | Some ic =>
      let itv := match lookup (fname ic) (itvs st) with Some tv => tv | None => [] end in
      let '(itv', schemas, ierr) := combine1 (fkind ic) (fports ic) p (ETok t) p t itv in
      let '(otv', out, oerr) := feed_outer (okind c) names (fname ic) schemas p t (otv st) in
      (mkst otv' (assoc_set (fname ic) itv' (itvs st)), out,
       match oerr with Some x => Some x | None => ierr end)
  | None =>
      if existsb (String.eqb p) names then
        let '(otv', out, err) := combine1 (okind c) names p (ETok t) p t (otv st) in
        (mkst otv' (itvs st), out, err)
      else (st, [], Some NoItem)
  end.

(* CombinatorStep.run: tokens are combined in arrival order; an exception ends the step *)
Fixpoint run (c : outerc) (st : cstate) (arr : list (string * tok)) : list (list schema) * option cerr :=
  match arr with
  | [] => ([], None)
  | (p, t) :: r =>
      let '(st1, out, err) := combine c st p t in
      match err with
      | Some x => ([out], Some x)
      | None => let '(outs, err') := run c st1 r in (out :: outs, err')
      end
  end.
