(* Comb/Corr.v — correspondence cases for Comb/Model.v (C02). *)
From Coq Require Import List Bool NArith Arith.
From SF Require Import Base.Str Base.Corr.
From SF Require Export Comb.Model.
Import ListNotations.
Local Open Scope string_scope. Local Open Scope list_scope.

(* one run: arrival list, emitted combinations in order (each a port -> token map), exception if any *)
Definition crun := (list (string * tok) * list schema * option cerr)%type.
Inductive ccase := CCase (c : outerc) (runs : list crun).

Definition tok_eqb (a b : tok) : bool := N.eqb (fst a) (fst b) && String.eqb (snd a) (snd b).
Definition schema_eqb (a b : schema) : bool :=
  Nat.eqb (length a) (length b) &&
  forallb (fun kv => match lookup (fst kv) b with Some t => tok_eqb (snd kv) t | None => false end) a.
Definition cerr_eqb (a b : cerr) : bool :=
  match a, b with
  | AttributeError, AttributeError | IndexError, IndexError | KeyError, KeyError | NoItem, NoItem => true
  | _, _ => false
  end.

Definition check_run (c : outerc) (r : crun) : bool :=
  let '(arr, outs, err) := r in
  let '(mo, me) := run c init_state arr in
  list_eqb schema_eqb (concat mo) outs && opt_eqb cerr_eqb me err.

Definition check_case (c : ccase) : bool :=
  match c with CCase cb runs => forallb (check_run cb) runs end.
