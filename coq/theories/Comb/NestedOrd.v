(* Comb/NestedOrd.v — order independence of the nested run dot( dot(S), Q... ): two arrival orders of the same tokens
   emit equal bags of combinations.  The lists of elements reaching the outer combinator under the two orders are
   not permutations of each other (an inner combination lists its entries in arrival order); they are related by
   "permutation, then element-wise equality up to the order of the entries", and the bag [gdone] of the outer
   combinator is invariant under that relation. *)
From Coq Require Import List Ascii Bool NArith Arith Lia Permutation.
From SF Require Import Base.Str Tags.Model Comb.Model Comb.Proofs Comb.Flat Comb.Cart Comb.GBcast Comb.Nested Comb.NestedCor.
From SF Require Import Comb.GB2.
Import ListNotations.
Local Open Scope string_scope. Local Open Scope list_scope.

(* ---------- combinations as flattened lists ---------- *)
Definition eflat (e : garv) : schema := match snd e with ETok t => [(fst e, t)] | ESch s => s end.
Definition flatten (l : list garv) : schema := flat_map eflat l.

Lemma fold_assoc_app : forall (s acc : schema),
  NoDup (map fst acc ++ map fst s) ->
  fold_left (fun a kv => assoc_set (fst kv) (snd kv) a) s acc = acc ++ s.
Proof.
  induction s as [|[k v] s IH]; intros acc ND; simpl.
  - now rewrite app_nil_r.
  - assert (~ In k (map fst acc)).
    { simpl in ND. apply NoDup_remove_2 in ND. rewrite in_app_iff in ND. tauto. }
    rewrite assoc_set_notin by auto. rewrite IH.
    + now rewrite <- app_assoc.
    + rewrite map_app. simpl. rewrite <- app_assoc. exact ND.
Qed.

Lemma merge_flatten : forall (l : list garv) (acc : schema),
  NoDup (map fst acc ++ map fst (flatten l)) -> fold_left merge_elem l acc = acc ++ flatten l.
Proof.
  induction l as [|[p e] l IH]; intros acc ND; simpl.
  - now rewrite app_nil_r.
  - unfold flatten in ND. simpl in ND. rewrite map_app, app_assoc in ND.
    assert (ND1 : NoDup (map fst acc ++ map fst (eflat (p, e)))) by (eapply NoDup_app_l; exact ND).
    assert (M : merge_elem acc (p, e) = acc ++ eflat (p, e)).
    { unfold merge_elem, eflat in *. simpl in *. destruct e as [t|s].
      - simpl in ND1. rewrite assoc_set_notin; auto.
        apply NoDup_remove_2 in ND1. rewrite app_nil_r in ND1. exact ND1.
      - now apply fold_assoc_app. }
    rewrite M, IH.
    + unfold flatten. simpl. now rewrite <- app_assoc.
    + rewrite map_app. exact ND.
Qed.

Lemma gcombo_flatten l : NoDup (map fst (flatten l)) ->
  gcombo l = retag (get_tag_s (map (fun kv => snd (snd kv)) (flatten l))) (flatten l).
Proof. intros ND. unfold gcombo. now rewrite (merge_flatten l []) by exact ND. Qed.

(* one-sided bag relation and its composition *)
Lemma Forall2_perm_r {A B} (R : A -> B -> Prop) : forall b b', Permutation b b' ->
  forall a, Forall2 R a b -> exists a', Permutation a a' /\ Forall2 R a' b'.
Proof.
  induction 1; intros a F.
  - inversion F; subst. exists []. auto.
  - inversion F as [|a1 b1 la lb R1 F1]; subst. destruct (IHPermutation _ F1) as (a' & P & F'). exists (a1 :: a'). split; auto.
  - inversion F as [|a1 b1 la lb R1 F1]; subst. inversion F1 as [|a2 b2 la2 lb2 R2 F2]; subst.
    exists (a2 :: a1 :: la2). split; [apply perm_swap|auto].
  - destruct (IHPermutation1 _ F) as (a1 & P1 & F1). destruct (IHPermutation2 _ F1) as (a2 & P2 & F2).
    exists a2. split; auto. eapply Permutation_trans; eauto.
Qed.

Definition beq (a b : list schema) : Prop :=
  exists a', Permutation a a' /\ Forall2 (@Permutation (string * tok)) a' b.
Lemma beq_bag a b : beq a b -> bag_eq a b.
Proof. intros (a' & P & F). exists a', b. auto. Qed.
Lemma Forall2_perm_trans : forall (a b c : list schema),
  Forall2 (@Permutation _) a b -> Forall2 (@Permutation _) b c -> Forall2 (@Permutation _) a c.
Proof.
  induction a; intros b c F1 F2; inversion F1; subst; inversion F2; subst; constructor.
  - eapply Permutation_trans; eauto.
  - eapply IHa; eauto.
Qed.
Lemma beq_trans a b c : beq a b -> beq b c -> beq a c.
Proof.
  intros (a' & P1 & F1) (b' & P2 & F2).
  destruct (Forall2_perm_r _ _ _ P2 _ F1) as (a'' & P3 & F3).
  exists a''. split; [eapply Permutation_trans; eauto|]. eapply Forall2_perm_trans; eauto.
Qed.
Lemma beq_perm a b : Permutation a b -> beq a b.
Proof.
  intros P. exists b. split; auto. clear. induction b; constructor; auto.
Qed.
Lemma beq_perm_r a b c : beq a b -> Permutation b c -> beq a c.
Proof. intros H P. eapply beq_trans; [exact H|now apply beq_perm]. Qed.

(* ---------- the bag of the outer combinator is invariant under permutation and entry-order changes ---------- *)
Definition Erel (e e' : garv) : Prop :=
  fst e = fst e' /\ gatag e = gatag e' /\ Permutation (eflat e) (eflat e').
Definition unif (e : garv) : Prop := eflat e <> [] /\ forall kv, In kv (eflat e) -> snd (snd kv) = gatag e.

Lemma gtags_map l : gtags l = fold_left (fun ts g => add_tag g ts) (map gatag l) [].
Proof. unfold gtags. generalize (@nil string). induction l; intros ts; simpl; auto. Qed.

Section Inv.
Variable items : list string.
Variable r : string.
Variable DP : list string.
Let n := length items.

Definition Good (dl : list garv) : Prop :=
  wfb2 items r DP dl /\ (forall e, In e dl -> unif e) /\
  (forall k, NoDup (map fst (flatten (bsel r k dl)))) /\
  1 <= String.length r /\ (forall e, In e dl -> isdeep DP e = true -> String.length r < String.length (gatag e)).

Definition kcombo (dl : list garv) (k : string) : schema := retag k (flatten (bsel r k dl)).

Lemma gcombo_key dl k : Good dl -> complete_b items r dl k = true -> gcombo (bsel r k dl) = kcombo dl k.
Proof.
  intros (W & U & ND & Hr & Hl) C. unfold kcombo. rewrite gcombo_flatten by apply ND. f_equal.
  unfold complete_b in C. apply Nat.eqb_eq in C.
  destruct (complete_has_deep items r DP k dl W C) as (e0 & He0 & De0).
  assert (Hin0 : In e0 dl) by (unfold bsel in He0; apply filter_In in He0; tauto).
  assert (Cnt : forall e, In e (bsel r k dl) -> gatag e = r \/ gatag e = k).
  { intros e He. unfold bsel in He. apply filter_In in He. destruct He as [_ Ce]. unfold counts in Ce.
    apply orb_true_iff in Ce. destruct Ce as [Ce|Ce]; apply String.eqb_eq in Ce; auto. }
  assert (T0 : gatag e0 = k).
  { destruct (Cnt e0 He0) as [E|E]; auto. exfalso.
    destruct (sod items r DP dl e0 W Hin0) as [[_ (Ne & _)]|[Nd _]]; congruence. }
  assert (Lk : String.length r < String.length k) by (rewrite <- T0; apply Hl; auto).
  unfold get_tag_s. apply (get_tag_two r k Hr Lk).
  - intros g Hg. apply in_map_iff in Hg. destruct Hg as (kv & <- & Hkv).
    unfold flatten in Hkv. apply in_flat_map in Hkv. destruct Hkv as (e & He & Hkv).
    assert (In e dl) by (unfold bsel in He; apply filter_In in He; tauto).
    destruct (U e H) as [_ Ue]. destruct (Cnt e He) as [X|X]; [left|right]; (etransitivity; [exact (Ue kv Hkv)|exact X]).
  - right. split; [simpl; lia|]. destruct (U e0 Hin0) as [Ne Ue].
    destruct (eflat e0) as [|kv m] eqn:Ee; [congruence|]. apply in_map_iff. exists kv. split.
    + rewrite <- T0. apply Ue. simpl. auto.
    + unfold flatten. apply in_flat_map. exists e0. split; auto. rewrite Ee. simpl. auto.
Qed.

Lemma gdone_kcombo dl : Good dl ->
  gdone items r dl = map (kcombo dl) (filter (complete_b items r dl) (gtags dl)).
Proof.
  intros G. unfold gdone. apply map_ext_in. intros k Hk. apply filter_In in Hk. now apply gcombo_key.
Qed.

(* permutation of the list of elements *)
Lemma gdone_perm dl dl' : Good dl -> Good dl' -> Permutation dl dl' -> beq (gdone items r dl) (gdone items r dl').
Proof.
  intros G G' P. rewrite (gdone_kcombo dl G), (gdone_kcombo dl' G').
  set (T' := filter (complete_b items r dl') (gtags dl')).
  exists (map (kcombo dl) T'). split.
  - apply Permutation_map.
    assert (PT : Permutation (gtags dl) (gtags dl')).
    { destruct (gtags_spec dl) as [N1 M1]. destruct (gtags_spec dl') as [N2 M2].
      apply NoDup_Permutation; auto. intros g. rewrite M1, M2.
      split; apply Permutation_in; [|apply Permutation_sym]; now apply Permutation_map. }
    unfold T'. rewrite (filter_ext (complete_b items r dl') (complete_b items r dl)).
    + now apply Permutation_filter'.
    + intros g. unfold complete_b, bsel. f_equal. apply Permutation_length, Permutation_filter'. now apply Permutation_sym.
  - apply Forall2_map2'. intros k _. unfold kcombo, retag. apply Permutation_map.
    unfold flatten. apply Permutation_flat_map. unfold bsel. now apply Permutation_filter'.
Qed.

(* element-wise change of the order of the entries *)
Lemma bsel_F2 k : forall dl dl', Forall2 Erel dl dl' -> Forall2 Erel (bsel r k dl) (bsel r k dl').
Proof.
  induction 1 as [|e e' l l' He F IH]; simpl; [constructor|].
  destruct He as (E1 & E2 & E3). unfold counts. rewrite E2.
  destruct (String.eqb (gatag e') r || String.eqb (gatag e') k); [constructor; [repeat split|]|]; auto.
Qed.
Lemma flatten_F2 : forall l l', Forall2 Erel l l' -> Permutation (flatten l) (flatten l').
Proof.
  induction 1 as [|e e' l l' He F IH]; simpl; auto. apply Permutation_app; auto. apply He.
Qed.
Lemma gatag_F2 : forall l l', Forall2 Erel l l' -> map gatag l = map gatag l'.
Proof. induction 1 as [|e e' l l' He F IH]; simpl; auto. f_equal; auto. apply He. Qed.

Lemma gdone_F2 dl dl' : Good dl -> Good dl' -> Forall2 Erel dl dl' -> beq (gdone items r dl) (gdone items r dl').
Proof.
  intros G G' F. rewrite (gdone_kcombo dl G), (gdone_kcombo dl' G').
  assert (ET : gtags dl = gtags dl') by (rewrite !gtags_map; now rewrite (gatag_F2 _ _ F)).
  assert (EC : forall k, complete_b items r dl k = complete_b items r dl' k).
  { intros k. unfold complete_b. f_equal. pose proof (bsel_F2 k _ _ F) as F2.
    clear -F2. induction F2; simpl; auto. }
  rewrite ET, (filter_ext _ _ EC).
  exists (map (kcombo dl) (filter (complete_b items r dl') (gtags dl'))). split; auto.
  apply Forall2_map2'. intros k _. unfold kcombo, retag. apply Permutation_map. apply flatten_F2. now apply bsel_F2.
Qed.

Definition Rrel (dl dl' : list garv) : Prop := exists dl'', Permutation dl dl'' /\ Forall2 Erel dl'' dl'.
End Inv.

(* ---------- Good is stable under permutation ---------- *)
Lemma Good_perm items r DP dl dl' : Permutation dl dl' -> Good items r DP dl -> Good items r DP dl'.
Proof.
  intros P (W & U & ND & Hr & Hl). assert (P' := Permutation_sym P).
  split; [eapply wfb2_perm; eauto|]. split; [|split; [|split; auto]].
  - intros e He. apply U. eapply Permutation_in; eauto.
  - intros k. eapply Permutation_NoDup; [|apply (ND k)]. apply Permutation_map.
    unfold flatten. apply Permutation_flat_map. unfold bsel. now apply Permutation_filter'.
  - intros e He. apply Hl. eapply Permutation_in; eauto.
Qed.

Lemma NoDup_map_filter {A B} (f : A -> B) (P : A -> bool) : forall l, NoDup (map f l) -> NoDup (map f (filter P l)).
Proof.
  induction l as [|a l IH]; simpl; intros ND; [constructor|]. inversion ND; subst.
  destruct (P a); simpl; auto. constructor; auto. intros Hin. apply H1.
  apply in_map_iff in Hin. destruct Hin as (y & Ey & Hy). apply filter_In in Hy. apply in_map_iff. exists y. tauto.
Qed.

Lemma filter_eq_nodup (k : string) : forall T, NoDup T -> filter (String.eqb k) T = [] \/ filter (String.eqb k) T = [k].
Proof.
  induction T as [|g T IH]; simpl; intros ND; auto. inversion ND; subst.
  destruct (String.eqb_spec k g).
  - subst g. right. f_equal. destruct (IH H2) as [E|E]; auto.
    exfalso. assert (In k (filter (String.eqb k) T)) by (rewrite E; simpl; auto). apply filter_In in H. tauto.
  - now apply IH.
Qed.

Lemma flat_tokarr : forall L : list arv, map fst (flat_map eflat (map tokarr L)) = map fst L.
Proof. induction L as [|a L IH]; simpl; auto. now f_equal. Qed.

(* ---------- the nested run ---------- *)
Section NestedOrder.
Variable S : list string.
Variable cname : string.
Variable Q : list string.
Variable r : string.
Let nm := names cname Q.
Notation dv := (derive S cname (Flat.emission S)).

Definition wrapg (l : list arv) (g : string) : garv := wrap cname (Flat.combo (sel g l)).
Definition canon (arr : list arv) : list garv :=
  map tokarr (parents S arr) ++ map (wrap cname) (Flat.done S (scattered S arr)).

Lemma derive_perm : forall rest ai,
  Permutation (dv ai rest)
    (map tokarr (parents S rest) ++ map (wrap cname) (concat (Flat.outs_spec S ai (scattered S rest)))).
Proof.
  induction rest as [|x rest IH]; intros ai; simpl; auto.
  unfold dstep, parents, scattered in *. simpl. destruct (is_scatter S x) eqn:Sx; simpl.
  - rewrite map_app. eapply Permutation_trans; [apply Permutation_app_head, IH|].
    apply Permutation_app_swap_app.
  - constructor. apply IH.
Qed.

Lemma derive_canon arr : Flat.wf S (scattered S arr) -> Permutation (dv [] arr) (canon arr).
Proof.
  intros W. eapply Permutation_trans; [apply derive_perm|]. unfold canon. apply Permutation_app_head.
  apply Permutation_map. now apply Flat.outs_done.
Qed.

Section CanonGood.
Variable arr : list arv.
Hypothesis HPH : PH S cname Q r arr.
Hypothesis Hdisj : forall p, In p S -> ~ In p Q.
Hypothesis Hr : 1 <= String.length r.
Hypothesis Hlen : forall x, In x arr -> is_scatter S x = true -> String.length r < String.length (atag x).
Let l := scattered S arr.
Let T := filter (Flat.complete S l) (tags l).

Lemma canon_eq : canon arr = map tokarr (parents S arr) ++ map (wrapg l) T.
Proof. unfold canon, Flat.done, wrapg. fold l T. now rewrite map_map. Qed.

Lemma T_facts g : In g T ->
  sel g l <> [] /\ deepc r g /\ 1 < String.length g /\ String.length r < String.length g /\ gatag (wrapg l g) = g.
Proof.
  intros Hg. unfold T in Hg. apply filter_In in Hg. destruct Hg as [Hg Cg].
  pose proof HPH as (_ & Sne & _ & _ & _ & Hd).
  apply (proj2 (tags_spec l)) in Hg. apply in_map_iff in Hg. destruct Hg as (y & Ey & Hy).
  unfold l, scattered in Hy. apply filter_In in Hy. destruct Hy as [Hy Sy].
  destruct (Hd y Hy Sy) as [D1 D2]. subst g.
  assert (Ne : sel (atag y) l <> []).
  { unfold Flat.complete in Cg. apply Nat.eqb_eq in Cg. intros E. rewrite E in Cg. simpl in Cg.
    destruct S; [congruence|discriminate]. }
  split; [exact Ne|]. split; [exact D1|]. split; [exact D2|]. split; [now apply Hlen|].
  unfold wrapg. apply gatag_combo; auto. intros z Hz. apply sel_in in Hz. tauto.
Qed.

Lemma combo_tags g : In g T -> forall kv, In kv (Flat.combo (sel g l)) -> snd (snd kv) = g.
Proof.
  intros Hg kv Hkv. destruct (T_facts g Hg) as (Ne & _ & L1 & _ & _).
  unfold Flat.combo, retag in Hkv. apply in_map_iff in Hkv. destruct Hkv as (z & <- & _). simpl.
  rewrite map_atag_sel. destruct (sel g l) as [|a m]; [congruence|]. simpl length. now apply get_tag_repeat.
Qed.

Lemma Good_canon : Good nm r [cname] (canon arr).
Proof.
  pose proof HPH as (NDn & Sne & Hq & NDp & W & Hd).
  assert (Ncq : ~ In cname Q) by (inversion NDn; auto).
  assert (Wc : wfb2 nm r [cname] (canon arr)).
  { eapply wfb2_perm; [apply derive_canon; exact W|]. apply wfb_wfb2. now apply derive_wfb. }
  split; [exact Wc|]. rewrite canon_eq. split; [|split; [|split; auto]].
  - intros e He. apply in_app_iff in He. destruct He as [He|He]; apply in_map_iff in He.
    + destruct He as (x & <- & _). split; [discriminate|]. intros kv [<-|[]]. reflexivity.
    + destruct He as (g & <- & Hg). destruct (T_facts g Hg) as (Ne & _ & _ & _ & Eg). split.
      * unfold wrapg, wrap, eflat. simpl. unfold Flat.combo, retag. destruct (sel g l); [congruence|discriminate].
      * intros kv Hkv. rewrite Eg. unfold wrapg, wrap, eflat in Hkv. simpl in Hkv. now apply (combo_tags g Hg).
  - intros k. unfold bsel. rewrite filter_app. unfold flatten. rewrite flat_map_app, map_app.
    fold (bsel r k (map tokarr (parents S arr))). fold (bsel r k (map (wrapg l) T)).
    (* the parents selected for k *)
    assert (X : exists ps' : list arv, map fst (flat_map eflat (bsel r k (map tokarr (parents S arr)))) = map fst ps' /\
                 NoDup (map fst ps') /\ forall q, In q (map fst ps') -> In q Q).
    { unfold bsel. rewrite filter_map_comm. exists (filter (fun x => counts r k (tokarr x)) (parents S arr)).
      split; [apply flat_tokarr|]. split.
      - now apply NoDup_map_filter.
      - intros q Hq0. apply in_map_iff in Hq0. destruct Hq0 as (x & <- & Hx). apply filter_In in Hx. destruct Hx as [Hx _].
        unfold parents in Hx. apply filter_In in Hx. destruct Hx as [Hx Sx]. apply negb_true_iff in Sx.
        apply (Hq x Hx Sx). }
    destruct X as (ps' & -> & NDps & Qps).
    (* the inner combinations selected for k: at most the one tagged k *)
    assert (Y : map fst (flat_map eflat (bsel r k (map (wrapg l) T))) = [] \/
                (In k T /\ map fst (flat_map eflat (bsel r k (map (wrapg l) T))) = map fst (sel k l))).
    { unfold bsel. rewrite filter_map_comm.
      rewrite (filter_ext_in (fun g => counts r k (wrapg l g)) (String.eqb k)).
      - destruct (filter_eq_nodup k T) as [E|E].
        + unfold T. apply NoDup_filter. apply tags_spec.
        + rewrite E. auto.
        + right. assert (Hk : In k T) by (assert (In k (filter (String.eqb k) T)) by (rewrite E; simpl; auto); apply filter_In in H; tauto).
          split; auto. rewrite E. simpl. rewrite app_nil_r. unfold wrapg, wrap, eflat. simpl.
          unfold Flat.combo, retag. rewrite !map_map. reflexivity.
      - intros g Hg. destruct (T_facts g Hg) as (_ & (Ner & _) & _ & _ & Eg). unfold counts. rewrite Eg.
        destruct (String.eqb_spec g r); [congruence|]. simpl. apply String.eqb_sym. }
    destruct Y as [->|(Hk & ->)]; [now rewrite app_nil_r|].
    apply NoDup_app_intro; auto.
    + destruct W as (_ & _ & NDk & _). now apply sel_ports_nodup.
    + intros q Hq1 Hq2. apply in_map_iff in Hq2. destruct Hq2 as (z & <- & Hz). apply sel_in in Hz.
      destruct W as (_ & Hp & _). apply (Hdisj (fst z)); [apply Hp; tauto|now apply Qps].
  - intros e He De. unfold isdeep in De. simpl in De. rewrite orb_false_r in De. apply String.eqb_eq in De.
    apply in_app_iff in He. destruct He as [He|He]; apply in_map_iff in He.
    + destruct He as (x & <- & Hx). simpl in De. exfalso. apply Ncq. rewrite <- De.
      unfold parents in Hx. apply filter_In in Hx. destruct Hx as [Hx Sx]. apply negb_true_iff in Sx. apply (Hq x Hx Sx).
    + destruct He as (g & <- & Hg). destruct (T_facts g Hg) as (_ & _ & _ & L2 & Eg). now rewrite Eg.
Qed.
End CanonGood.
End NestedOrder.

Lemma PH_perm S cname Q r a b : Permutation a b -> PH S cname Q r a -> PH S cname Q r b.
Proof.
  intros P (A & B & C & D & E & F). assert (P' := Permutation_sym P).
  split; auto. split; auto. split; [|split; [|split]].
  - intros x Hx. apply C. eapply Permutation_in; eauto.
  - eapply Permutation_NoDup; [|exact D]. apply Permutation_map. unfold parents. now apply Permutation_filter'.
  - eapply Flat.wf_perm; [|exact E]. unfold scattered. now apply Permutation_filter'.
  - intros x Hx. apply F. eapply Permutation_in; eauto.
Qed.

Lemma Forall2_refl_E : forall l : list garv, Forall2 Erel l l.
Proof. induction l; constructor; auto. repeat split; auto. Qed.

(* dot( dot(S), Q... ): two arrival orders of the same tokens emit equal bags of combinations *)
Theorem nested_order_independent S cname Q r (arr1 arr2 : list arv) :
  PH S cname Q r arr1 -> Permutation arr1 arr2 ->
  (forall p, In p S -> ~ In p Q) -> 1 <= String.length r ->
  (forall x, In x arr1 -> is_scatter S x = true -> String.length r < String.length (atag x)) ->
  snd (run (tree S cname Q KDot) init_state arr1) = None /\
  snd (run (tree S cname Q KDot) init_state arr2) = None /\
  bag_eq (concat (fst (run (tree S cname Q KDot) init_state arr1)))
         (concat (fst (run (tree S cname Q KDot) init_state arr2))).
Proof.
  intros H1 P Hdisj Hr Hl1.
  pose proof (PH_perm _ _ _ _ _ _ P H1) as H2.
  assert (Hl2 : forall x, In x arr2 -> is_scatter S x = true -> String.length r < String.length (atag x)).
  { intros x Hx. apply Hl1. eapply Permutation_in; [apply Permutation_sym; exact P|exact Hx]. }
  destruct (nested_dot_bag S cname Q r arr1 H1) as [N1 B1]. destruct (nested_dot_bag S cname Q r arr2 H2) as [N2 B2].
  split; auto. split; auto. apply beq_bag.
  set (nm := names cname Q) in *.
  set (d1 := derive S cname (Flat.emission S) [] arr1) in *. set (d2 := derive S cname (Flat.emission S) [] arr2) in *.
  pose proof H1 as (_ & _ & _ & _ & W1 & _). pose proof H2 as (_ & _ & _ & _ & W2 & _).
  pose proof (derive_canon S cname arr1 W1) as DC1. pose proof (derive_canon S cname arr2 W2) as DC2.
  fold d1 in DC1. fold d2 in DC2.
  pose proof (Good_canon S cname Q r arr1 H1 Hdisj Hr Hl1) as Gc1.
  pose proof (Good_canon S cname Q r arr2 H2 Hdisj Hr Hl2) as Gc2. fold nm in Gc1, Gc2.
  pose proof (Good_perm _ _ _ _ _ (Permutation_sym DC1) Gc1) as Gd1.
  pose proof (Good_perm _ _ _ _ _ (Permutation_sym DC2) Gc2) as Gd2.
  set (l1 := scattered S arr1) in *. set (l2 := scattered S arr2) in *.
  set (T1 := filter (Flat.complete S l1) (tags l1)). set (T2 := filter (Flat.complete S l2) (tags l2)).
  assert (Pl : Permutation l1 l2) by (unfold l1, l2, scattered; now apply Permutation_filter').
  assert (PT : Permutation T1 T2).
  { assert (Ptags : Permutation (tags l1) (tags l2)).
    { destruct (tags_spec l1) as [Na Ma]. destruct (tags_spec l2) as [Nb Mb].
      apply NoDup_Permutation; auto. intros g. rewrite Ma, Mb.
      split; apply Permutation_in; [|apply Permutation_sym]; now apply Permutation_map. }
    unfold T1, T2. rewrite (filter_ext (Flat.complete S l2) (Flat.complete S l1)).
    - now apply Permutation_filter'.
    - intros g. unfold Flat.complete, sel. f_equal. apply Permutation_length, Permutation_filter'. now apply Permutation_sym. }
  set (c12 := map tokarr (parents S arr2) ++ map (wrapg cname l1) T2).
  assert (Pc : Permutation (canon S cname arr1) c12).
  { rewrite canon_eq. fold l1 T1. unfold c12. apply Permutation_app.
    - apply Permutation_map. unfold parents. now apply Permutation_filter'.
    - now apply Permutation_map. }
  pose proof (Good_perm _ _ _ _ _ Pc Gc1) as Gc12.
  assert (F12 : Forall2 Erel c12 (canon S cname arr2)).
  { rewrite (canon_eq S cname arr2). fold l2 T2. unfold c12. apply Forall2_app; [apply Forall2_refl_E|].
    apply Forall2_map2'. intros g Hg.
    assert (Hg1 : In g T1) by (eapply Permutation_in; [apply Permutation_sym; exact PT|exact Hg]).
    destruct (T_facts S cname Q r arr1 H1 Hdisj Hl1 g Hg1) as (_ & _ & _ & _ & E1).
    destruct (T_facts S cname Q r arr2 H2 Hdisj Hl2 g Hg) as (_ & _ & _ & _ & E2).
    fold l1 in E1. fold l2 in E2. split; [reflexivity|]. split; [now rewrite E1, E2|].
    unfold wrapg, wrap, eflat. simpl. unfold Flat.combo.
    assert (PS : Permutation (sel g l1) (sel g l2)) by (unfold sel; now apply Permutation_filter').
    rewrite !map_atag_sel, (Permutation_length PS). unfold retag. apply Permutation_map, Permutation_map. exact PS. }
  eapply beq_trans; [apply beq_perm; exact B1|]. fold nm d1.
  eapply beq_trans; [apply (gdone_perm nm r [cname] d1 _ Gd1 Gc1 DC1)|].
  eapply beq_trans; [apply (gdone_perm nm r [cname] _ _ Gc1 Gc12 Pc)|].
  eapply beq_trans; [apply (gdone_F2 nm r [cname] _ _ Gc12 Gc2 F12)|].
  eapply beq_trans; [apply (gdone_perm nm r [cname] _ d2 Gc2 Gd2 (Permutation_sym DC2))|].
  apply beq_perm. apply Permutation_sym. exact B2.
Qed.
